/-
  C04 — An outgoing transfer is in exactly one place at any time.
  Property theorems only; helper lemmas live in Lemmas/Ledger.lean.

  Vocabulary (all defined in Lemmas/Ledger.lean):
  * `ChainSt.ids c`        — ids of the pool entries followed by the ids of all batched transfers;
  * `Hub.LedgerInv h`      — for every chain: `ids` is duplicate-free (so an id is in the pool or in
                              exactly one batch, never both, never twice), every id lies in
                              `1..lastSteId`, batch nonces are pairwise distinct and `≤ lastBatchNonce`;
  * `Hub.Bounded h`        — the id and batch-nonce counters of every chain are `< 2^64`.
  The bound is an explicit hypothesis on the state *after* the operation (counters only grow, so it
  covers the state before as well).  It is needed because the stores are keyed by byte strings that
  encode ids and nonces in 8 bytes and `insertByKey` replaces an entry with an equal key: with a
  counter at `2^64` a fresh entry would overwrite the entry whose id is `2^64` smaller.  The
  implementation's counters are `uint64`, so the hypothesis holds there by typing.
-/
import Mhub2.Step
import Mhub2.Generated.Facts
import Lemmas.Ledger
namespace Mhub2.C04
open Mhub2

/-! ### 1. The keeper functions one by one -/

/-- `createSendToExternal` issues the next id of its chain, touches no other chain, and (under the
    invariant) adds exactly that id. -/
theorem create_ste_effect {h h' : Hub} {chain sender rcp denom tx rc ra : String} {a f cm : Int} {id : Nat}
    (hok : h.createSte chain sender rcp denom a f cm tx rc ra = .ok (h', id)) :
    id = (h.chain chain).lastSteId + 1 ∧ (h'.chain chain).lastSteId = id ∧
    (∀ c, chain ≠ c → h'.chain c = h.chain c) ∧
    (h.LedgerInv → h'.Bounded → (h'.chain chain).ids.Perm (id :: (h.chain chain).ids)) := by
  obtain ⟨ste, hid, hid2, _, _, _, e3, _, e5⟩ := createSte_eff hok
  refine ⟨by rw [hid2, hid], by rw [e3, hid2], e5, fun hi hb => ?_⟩
  have := (createSte_keeps hok chain).ids_perm (Hub.ledgerInv_iff.mp hi chain) (hb chain)
  rw [e3, hid] at this
  simpa [hid2, hid] using this

theorem create_ste_preserves {h h' : Hub} {chain sender rcp denom tx rc ra : String} {a f cm : Int} {id : Nat}
    (hok : h.createSte chain sender rcp denom a f cm tx rc ra = .ok (h', id))
    (hi : h.LedgerInv) (hb : h'.Bounded) : h'.LedgerInv :=
  (createSte_keeps hok).step.inv hi hb

/-- A successful cancel removes exactly the given id from the pool of its chain; on every chain the
    ids afterwards (plus, on the cancelled transfer's chain, the cancelled id) are the ids before
    plus at most one freshly issued id (the re-routed refund, on the refund chain). -/
theorem cancel_ste_effect {h h' : Hub} {chain sender : String} {id : Nat}
    (hi : h.LedgerInv) (hb : h'.Bounded) (hok : h.cancelSte chain id sender = (h', none)) :
    id ∈ (h.chain chain).pool.map (·.id) ∧ id ∉ (h'.chain chain).ids ∧
    ∀ c, ∃ fresh : List Nat, (fresh = [] ∨ fresh = [(h.chain c).lastSteId + 1]) ∧
      (if chain = c then id :: (h'.chain c).ids else (h'.chain c).ids).Perm (fresh ++ (h.chain c).ids) := by
  obtain ⟨s, hm, hsm, hsid, _, hk, him, hbm, hctr, pe, _, _, hoth, hcase⟩ := cancelSte_effect hi hb hok
  have pi : (hm.chain chain).ids.Perm (id :: (h'.chain chain).ids) := by
    rw [ChainSt.ids_eq, ChainSt.ids_eq, ← hsid]; exact pe.map _
  refine ⟨List.mem_map.mpr ⟨s, hsm, hsid⟩, ?_, fun c => ?_⟩
  · have := pi.nodup (Hub.ledgerInv_iff.mp him chain).nodup
    exact (List.nodup_cons.mp this).1
  · have hkp := (hk c).ids_perm (Hub.ledgerInv_iff.mp hi c) (hbm c)
    refine ⟨List.range' ((h.chain c).lastSteId + 1) ((hm.chain c).lastSteId - (h.chain c).lastSteId), ?_, ?_⟩
    · rcases hcase with hsame | ⟨_, _, hoth', hl⟩
      · rw [hsame c]; simp
      · by_cases hc : s.refundChain = c
        · subst hc; rw [hl]; right; simp
        · rw [hoth' c hc]; simp
    · by_cases hc : chain = c
      · subst hc; simp only [if_true]; exact pi.symm.trans hkp
      · simp only [hc, if_false]; rw [hoth c hc]; exact hkp

/-- Whatever `cancelSendToExternal` returns (success, or a failure part-way as on the expiry path),
    the state it returns satisfies the invariant. -/
theorem cancel_ste_preserves (h : Hub) (chain sender : String) (id : Nat)
    (hi : h.LedgerInv) (hb : (h.cancelSte chain id sender).1.Bounded) :
    (h.cancelSte chain id sender).1.LedgerInv :=
  (cancelSte_step h chain id sender).inv hi hb

theorem cancel_msg_preserves {h h' : Hub} {sender chain : String} {id : Nat}
    (hok : h.cancelMsg sender chain id = .ok h') (hi : h.LedgerInv) (hb : h'.Bounded) : h'.LedgerInv :=
  (cancelMsg_step hok).inv hi hb

/-- `BuildBatchTx`: the ids of every chain are a permutation of the ids before; the selected
    entries (if any) are the transfers of the new batch and come from the pool. -/
theorem build_batch_perm (h : Hub) (chain tok : String) (n : Nat) (hi : h.LedgerInv)
    (hb : (h.buildBatch chain tok n).1.Bounded) :
    (∀ c, ((h.buildBatch chain tok n).1.chain c).ids.Perm (h.chain c).ids) ∧
    (∀ c, chain ≠ c → (h.buildBatch chain tok n).1.chain c = h.chain c) ∧
    (∀ b, (h.buildBatch chain tok n).2 = some b →
      b ∈ ((h.buildBatch chain tok n).1.chain chain).batches ∧ (∀ t ∈ b.txs, t ∈ (h.chain chain).pool) ∧
      (∀ t ∈ b.txs, t ∉ ((h.buildBatch chain tok n).1.chain chain).pool)) ∧
    (h.buildBatch chain tok n).1.LedgerInv := by
  have hk := buildBatch_keeps h chain tok n
  have hi' := hk.step.inv hi hb
  refine ⟨fun c => ?_, buildBatch_only h chain tok n, fun b hbb => ?_, hi'⟩
  · apply (hk c).ids_perm_same (Hub.ledgerInv_iff.mp hi c) (hb c)
    by_cases hc : chain = c
    · subst hc
      rcases buildBatch_eff h chain tok n with ⟨_, he⟩ | ⟨_, _, _, _, _, _, _, _, hl, _⟩
      · rw [he]
      · exact hl
    · rw [buildBatch_only h chain tok n c hc]
  · rcases buildBatch_eff h chain tok n with ⟨hn, _⟩ | ⟨b', hb', htx, _, _, _, hbs, _, _, _⟩
    · rw [hn] at hbb; cases hbb
    · rw [hb'] at hbb; injection hbb with hbb; subst hbb
      have hmem : b' ∈ ((h.buildBatch chain tok n).1.chain chain).batches := by
        rw [hbs]; exact mem_insertByKey _ _ _
      refine ⟨hmem, fun t ht => (selectForBatch_sub (htx ▸ ht)).1, fun t ht hp => ?_⟩
      have hnd := (Hub.ledgerInv_iff.mp hi' chain).entries_nodup
      unfold ChainSt.entries at hnd
      exact (List.nodup_append.mp hnd).2.2 t hp t (List.mem_flatMap.mpr ⟨b', hmem, ht⟩) rfl

/-- `CancelBatchTx`: the ids of every chain are a permutation of the ids before, the batch is gone
    and its transfers are in the pool. -/
theorem cancel_batch_perm {h h' : Hub} {chain tok : String} {n : Nat}
    (hok : h.cancelBatch chain tok n = .ok h') (hi : h.LedgerInv) (hb : h'.Bounded) :
    (∀ c, (h'.chain c).ids.Perm (h.chain c).ids) ∧ (∀ c, chain ≠ c → h'.chain c = h.chain c) ∧
    (∃ b, h.findBatch chain tok n = some b ∧ b ∈ (h.chain chain).batches ∧
      b ∉ (h'.chain chain).batches ∧ ∀ t ∈ b.txs, t ∈ (h'.chain chain).pool) ∧
    h'.LedgerInv := by
  have hk := cancelBatch_keeps hok
  have hbh : h.Bounded := hb.mono hk.step
  obtain ⟨hev, hrm⟩ := (CancelEvo.refl chain (fun _ => True) hi hbh).cancel hok (fun _ _ _ => trivial)
  obtain ⟨_, b, hfb, _, _, e3, _, _, e6⟩ := cancelBatch_eff hok
  obtain ⟨hbm, hbk⟩ := findBatch_some hfb
  refine ⟨fun c => ?_, cancelBatch_only hok, ⟨b, hfb, hbm, hrm b hbm hbk, ?_⟩, hev.inv⟩
  · apply (hk c).ids_perm_same (Hub.ledgerInv_iff.mp hi c) (hb c)
    by_cases hc : chain = c
    · subst hc; exact e3
    · rw [e6 c hc]
  · exact (hev.removed b hbm (hrm b hbm hbk)).2

/-- `batchTxExecuted`: one ledger step (ids afterwards were there before or are freshly issued),
    the invariant is preserved; on every chain other than its own and "minter" nothing changes.
    The exact account of what leaves the batch store is `C13.executed_removes_exactly`. -/
theorem batch_executed_preserves {h h' : Hub} {chain tok tx payer : String} {n : Nat} {fp : Int}
    (hok : h.batchExecuted chain tok n tx fp payer = .ok h') (hi : h.LedgerInv) (hb : h'.Bounded) :
    h'.LedgerInv ∧
    (∀ c id, id ∈ (h'.chain c).ids → id ∈ (h.chain c).ids ∨
      ((h.chain c).lastSteId < id ∧ id ≤ (h'.chain c).lastSteId)) :=
  ⟨(batchExecuted_step hok).1.inv hi hb, fun c id hid => ((batchExecuted_step hok).1 c).sub id hid⟩

/-- `batchTxExecuted` for a batch `b` that is in the store: the transfers of `b` are nowhere on the
    chain afterwards, every other transfer of the chain is still somewhere on it (those of older
    cancelled batches in the pool), every chain other than the batch's and "minter" is untouched,
    and when the batch's chain is not "minter": no id is added on the batch's chain, and "minter"
    gains exactly the ids issued there (commission and fee-refund transfers). -/
theorem batch_executed_effect {h h' : Hub} {chain tok tx payer : String} {n : Nat} {fp : Int} {b : Batch}
    (hi : h.LedgerInv) (hb : h'.Bounded)
    (hok : h.batchExecuted chain tok n tx fp payer = .ok h') (hfb : h.findBatch chain tok n = some b) :
    (∀ t ∈ b.txs, t.id ∉ (h'.chain chain).ids) ∧
    (∀ s ∈ (h.chain chain).entries, s ∉ b.txs → s ∈ (h'.chain chain).entries) ∧
    (chain ≠ "minter" →
      (∀ id ∈ (h'.chain chain).ids, id ∈ (h.chain chain).ids) ∧
      (h'.chain "minter").ids.Perm
        (List.range' ((h.chain "minter").lastSteId + 1)
          ((h'.chain "minter").lastSteId - (h.chain "minter").lastSteId) ++ (h.chain "minter").ids)) := by
  obtain ⟨h1, _, h3, h4, h5⟩ := batchExecuted_exact hi hb hok hfb
  refine ⟨h5, fun s hs hnb => ?_, fun hne => ?_⟩
  · rcases ChainSt.mem_entries.mp hs with hp | ⟨o, ho, hso⟩
    · exact ChainSt.mem_entries.mpr (.inl (h4 s hp))
    · by_cases hin : o ∈ (h'.chain chain).batches
      · exact ChainSt.mem_entries.mpr (.inr ⟨o, hin, hso⟩)
      · rcases (h1 o ho).mp hin with he | ⟨hc, he, hn⟩
        · subst he; exact absurd hso hnb
        · exact ChainSt.mem_entries.mpr (.inl (h3 o ho hc he hn s hso))
  · obtain ⟨hl, hk⟩ := batchExecuted_frame hok hne
    refine ⟨fun id hid => ?_, hk.ids_perm (Hub.ledgerInv_iff.mp hi "minter") (hb "minter")⟩
    rcases ((batchExecuted_step hok).1 chain).sub id hid with h6 | h6
    · exact h6
    · omega

theorem handle_preserves {h h' : Hub} {mf : Bool} {chain : String} {ev : Event}
    (hok : h.handle mf chain ev = .ok h') (hi : h.LedgerInv) (hb : h'.Bounded) : h'.LedgerInv :=
  (handle_stepR hok).1.inv hi hb

theorem tally_preserves {h h' : Hub} {mf : Bool} {chain : String}
    (hok : h.tally mf chain = .ok h') (hi : h.LedgerInv) (hb : h'.Bounded) : h'.LedgerInv :=
  (tally_stepR hok).1.inv hi hb

theorem refund_expired_preserves {h h' : Hub} {chain : String}
    (hok : h.refundExpired chain = .ok h') (hi : h.LedgerInv) (hb : h'.Bounded) : h'.LedgerInv :=
  (refundExpired_stepR hok).1.inv hi hb

theorem begin_block_preserves {h h' : Hub} (hok : h.beginBlock = .ok h') (hi : h.LedgerInv) (hb : h'.Bounded) :
    h'.LedgerInv :=
  (beginBlock_bk hok).1.1.step.inv hi hb

/-- Begin block moves transfers between pools and batches only: no id is lost or issued. -/
theorem begin_block_perm {h h' : Hub} (hok : h.beginBlock = .ok h') (hi : h.LedgerInv) (hb : h'.Bounded) (c : String) :
    (h'.chain c).ids.Perm
      (List.range' ((h.chain c).lastSteId + 1) ((h'.chain c).lastSteId - (h.chain c).lastSteId) ++ (h.chain c).ids) :=
  ((beginBlock_bk hok).1.1 c).ids_perm (Hub.ledgerInv_iff.mp hi c) (hb c)

theorem end_block_preserves {h h' : Hub} {mf : Bool} (hok : h.endBlock mf = .ok h')
    (hi : h.LedgerInv) (hb : h'.Bounded) : h'.LedgerInv :=
  (endBlock_stepR hok).1.inv hi hb

/-! ### 2. Every reachable state -/

/-- One operation of a history preserves "bounded counters imply the invariant". -/
theorem apply_preserves (h : Hub) (op : Op) (hq : h.Bounded → h.LedgerInv) :
    (apply h op).1.Bounded → (apply h op).1.LedgerInv := by
  intro hb
  by_cases hr : op = .reset
  · subst hr
    exact initialHub_inv
  · have hs := (apply_step h op hr).1
    exact hs.inv (hq (hb.mono hs)) hb

/-- The invariant holds in every state reached by a history of operations from genesis, as long
    as the id and batch-nonce counters of the final state are below `2^64`. -/
theorem ledger_inv_reachable (ops : List Op) : (runOps ops).Bounded → (runOps ops).LedgerInv := by
  unfold runOps
  have hgen : ∀ (ops : List Op) (h : Hub), (h.Bounded → h.LedgerInv) →
      ((ops.foldl (fun h op => (apply h op).1) h).Bounded →
       (ops.foldl (fun h op => (apply h op).1) h).LedgerInv) := by
    intro ops
    induction ops with
    | nil => intro h hq; exact hq
    | cons op rest ih => intro h hq; exact ih _ (apply_preserves h op hq)
  exact hgen ops initialHub (fun _ => initialHub_inv)

/-- Spelled out: in a reachable state an id occurs at most once among the pool and all batches of
    its chain, and only ids that were issued occur. -/
theorem one_place (ops : List Op) (hb : (runOps ops).Bounded) (c : String) :
    ((runOps ops).chain c).ids.Nodup ∧
    ∀ id ∈ ((runOps ops).chain c).ids, 1 ≤ id ∧ id ≤ ((runOps ops).chain c).lastSteId :=
  ⟨(ledger_inv_reachable ops hb c).1, (ledger_inv_reachable ops hb c).2.1⟩

/-! ### 3. Ids never come back, issued ids are live -/

/-- A transfer that left never comes back and ids are never reused: an id that has been issued and
    is nowhere on its chain stays nowhere, whatever the operation (`reset` restarts the history). -/
theorem no_reappearance (h : Hub) (op : Op) (hr : op ≠ .reset) (c : String) (id : Nat)
    (hle : id ≤ (h.chain c).lastSteId) (hn : id ∉ (h.chain c).ids) : id ∉ ((apply h op).1.chain c).ids := by
  intro hid
  rcases ((apply_step h op hr).1 c).sub id hid with h1 | h1
  · exact hn h1
  · omega

/-- The id counters never decrease. -/
theorem counters_monotone (h : Hub) (op : Op) (hr : op ≠ .reset) (c : String) :
    (h.chain c).lastSteId ≤ ((apply h op).1.chain c).lastSteId ∧
    (h.chain c).lastBatchNonce ≤ ((apply h op).1.chain c).lastBatchNonce :=
  ⟨((apply_step h op hr).1 c).mono, ((apply_step h op hr).1 c).monoB⟩

/-- Every id issued by an operation is live right after it: each id in
    `(lastSteId before, lastSteId after]` is somewhere on its chain afterwards (`reset` restarts the
    history).  For `endBlock` this uses that a transfer created during the end block carries the
    current block time and therefore cannot be expired by the same end block. -/
theorem issued_ids_live (h : Hub) (op : Op) (hr : op ≠ .reset)
    (hi : h.LedgerInv) (hb : (apply h op).1.Bounded) (c : String) (id : Nat)
    (hlo : (h.chain c).lastSteId < id) (hhi : id ≤ ((apply h op).1.chain c).lastSteId) :
    id ∈ ((apply h op).1.chain c).ids := by
  by_cases he : op = .endBlock
  · subst he
    cases e1 : h.endBlock mintsFee with
    | error e =>
      have := (outM_err (old := h) e1).1
      simp only [apply] at hhi
      rw [this] at hhi; omega
    | ok h' =>
      simp only [apply, outM_ok e1] at hb hhi ⊢
      have := endBlock_live e1 hi hb c id hlo hhi
      unfold ChainSt.ids
      exact List.mem_append_left _ this
  by_cases hc : ∃ s ch i, op = .cancel s ch i
  · obtain ⟨s, ch, i, rfl⟩ := hc
    simp only [apply] at hb hhi ⊢
    rcases outM_cases (h.cancelMsg s ch i) h "ok" with e | ⟨h', e1, e2⟩
    · rw [e] at hhi; omega
    · rw [e2] at hb hhi ⊢
      obtain ⟨st, hm, hsm, _, _, hk, him, hbm, hctr, pe, _, _, hoth, _⟩ := cancelSte_effect hi hb (cancelMsg_ok e1)
      have h1 : id ∈ (hm.chain c).ids :=
        (hk c).fresh (Hub.ledgerInv_iff.mp hi c) (hbm c) id hlo (by rw [hctr c]; exact hhi)
      by_cases hcc : ch = c
      · subst hcc
        obtain ⟨t, ht, hte⟩ := ChainSt.mem_ids.mp h1
        rcases List.mem_cons.mp (pe.subset ht) with h2 | h2
        · subst h2
          have := ((Hub.ledgerInv_iff.mp hi ch).entry_le (ChainSt.mem_entries.mpr (.inl hsm))).2
          omega
        · exact ChainSt.mem_ids.mpr ⟨t, h2, hte⟩
      · rw [hoth c hcc]; exact h1
  · have hk := (apply_keepsR h op hr (fun s ch i e => hc ⟨s, ch, i, e⟩) he).1
    exact (hk c).fresh (Hub.ledgerInv_iff.mp hi c) (hb c) id hlo hhi

/-! ### 4. Only a cancel or the end of a block removes a transfer -/

/-- If an id was somewhere on its chain before an operation and is nowhere afterwards, the
    operation is a successful cancel of that very id on that chain, or it is `endBlock`
    (an executed batch or an expired transfer), or `reset`. -/
theorem removal_only_by_cancel_or_end_block (h : Hub) (op : Op) (hi : h.LedgerInv)
    (hb : (apply h op).1.Bounded) (c : String) (id : Nat)
    (hin : id ∈ (h.chain c).ids) (hout : id ∉ ((apply h op).1.chain c).ids) :
    (∃ sender, op = .cancel sender c id ∧ (apply h op).2 = "ok") ∨ op = .endBlock ∨ op = .reset := by
  by_cases hr : op = .reset
  · exact .inr (.inr hr)
  by_cases he : op = .endBlock
  · exact .inr (.inl he)
  by_cases hc : ∃ s ch i, op = .cancel s ch i
  · obtain ⟨s, ch, i, rfl⟩ := hc
    left
    cases e1 : h.cancelMsg s ch i with
    | error e =>
      have := outM_err (old := h) e1
      simp only [apply] at hout
      rw [this.1] at hout
      exact absurd hin hout
    | ok h' =>
      simp only [apply, outM_ok e1] at hb hout ⊢
      obtain ⟨st, hm, _, hsid, _, hk, him, hbm, _, pe, _, _, hoth, _⟩ := cancelSte_effect hi hb (cancelMsg_ok e1)
      have h1 : id ∈ (hm.chain c).ids := (hk c).keep_ids (Hub.ledgerInv_iff.mp hi c) (hbm c) hin
      by_cases hcc : ch = c
      · subst hcc
        obtain ⟨t, ht, hte⟩ := ChainSt.mem_ids.mp h1
        rcases List.mem_cons.mp (pe.subset ht) with h2 | h2
        · subst h2
          exact ⟨s, by rw [← hsid, hte], trivial⟩
        · exact absurd (ChainSt.mem_ids.mpr ⟨t, h2, hte⟩) hout
      · rw [hoth c hcc] at hout; exact absurd h1 hout
  · have hk := (apply_keepsR h op hr (fun s ch i e => hc ⟨s, ch, i, e⟩) he).1
    exact absurd ((hk c).keep_ids (Hub.ledgerInv_iff.mp hi c) (hb c) hin) hout

/-! ### 5. "Refunded" is final -/

/-- `SetTxStatus` never changes a "refunded" status. -/
theorem refunded_final (h : Hub) (tx tx' : String) (st : Nat) (out : String)
    (hr : h.statusOf tx' = stRefunded) : (h.setStatus tx st out).statusOf tx' = stRefunded :=
  setStatus_rk h tx st out tx' hr

/-- No operation of a history changes a "refunded" status (`reset` restarts the history). -/
theorem refunded_final_apply (h : Hub) (op : Op) (hne : op ≠ .reset) (tx : String)
    (hr : h.statusOf tx = stRefunded) : (apply h op).1.statusOf tx = stRefunded :=
  (apply_step h op hne).2 tx hr

/-! ### Non-vacuity -/

/-- Two withdrawals batched together, a third one cancelled, then a block boundary. -/
def exOps : List Op := [.chains ["e", "minter"], .token ⟨1, "hub", "e", "T", 18, 0⟩, .fund "a" "hub" 100,
  .send "a" "e" "r" "hub" 10 1 "x", .send "a" "e" "r" "hub" 10 2 "y", .reqBatch "e" "hub",
  .send "a" "e" "r" "hub" 10 3 "z", .cancel "a" "e" 3, .block 2 0, .beginBlock, .endBlock]

/-- Before the cancel: id 3 in the pool, ids 2 and 1 in the batch. -/
example : ((((runOps (exOps.take 7)).chain "e").ids == [3, 2, 1]) &&
    (((runOps (exOps.take 7)).chain "e").pool.map (·.id) == [3])) = true := by decide +kernel
/-- At the end: the cancelled id is gone, the batched ones are where they were, the counter is 3. -/
example : ((((runOps exOps).chain "e").ids == [2, 1]) && (((runOps exOps).chain "e").pool.isEmpty) &&
    (((runOps exOps).chain "e").lastSteId == 3)) = true := by decide +kernel
/-- The history satisfies the hypothesis of `ledger_inv_reachable`, hence its conclusion. -/
example : (runOps exOps).LedgerInv :=
  ledger_inv_reachable exOps (Hub.bounded_of_all (by decide +kernel))
/-- The cancel in that history is a removal in the sense of `removal_only_by_cancel_or_end_block`. -/
example : (3 ∈ ((runOps (exOps.take 7)).chain "e").ids ∧
    3 ∉ ((apply (runOps (exOps.take 7)) (.cancel "a" "e" 3)).1.chain "e").ids) := by decide +kernel

/-- Tie to the code: in `cancelSendToExternal` the entry leaves the pool last — after the refund was minted and routed and the status
    written — so a refund that fails (its error is dropped by the expiry sweep, which runs outside a transaction) leaves the transfer
    where it was (the model's `cancelSte` is all-or-nothing). -/
theorem fact_cancel_call_order : Generated.cancel_call_order =
    "MintCoins,SendCoinsFromModuleToAccount,SendCoinsFromModuleToAccount,createSendToExternal,SetTxStatus,deleteUnbatchedSendToExternal" := rfl

end Mhub2.C04
