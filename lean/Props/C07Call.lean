/-
  C07 (contract calls) — the sign-bytes of a contract (logic) call determine the call, are never the
  sign-bytes of a signer set or a batch, and the recovery byte is one of 0, 1, 27, 28.

  `Props/C07.lean` shows the hub and `submitLogicCall` encode the SAME argument list
  (`checkpoint_args_agree_call`).  Here: that argument list is well typed for every call the hub can
  store (`goArgsCall_wf`), its encoding is injective (`encode_call_injective`,
  `go_call_preimage_injective`), disjoint from the other two checkpoint kinds
  (`go_call_ne_signerset`, `go_call_ne_batch`), and exactly how much of the invalidation scope is
  visible in it (`scope32`: the first 32 bytes, zero padded — longer or zero-extended scopes collide).
  Last, which recovery bytes `ValidateEthereumSignature` can accept (`foreign_v_rejected`).

  `keccak256` is never unfolded.  `ecrecover` is an abstract function `r`.
-/
import Mhub2.Abi
import Lemmas.Encoding
import Lemmas.AbiCall
import Props.C07
namespace Mhub2.C07Call
open Mhub2 Mhub2.Enc Mhub2.C07

/-! ### 1. Well-typed calls -/

/-- A call as the hub stores it: `uint256` amounts, 20-byte token and contract addresses, lists
    and payload short enough for a `uint256` length word, `uint64` (so `< 2^256`) timeout and
    invalidation nonce.  Nothing is asked of the invalidation scope: `scope32` makes a `bytes32`
    of any byte string. -/
structure CallViewWF (c : CallView) : Prop where
  transferAmounts_lt : ∀ a ∈ c.transferAmounts, a < 2 ^ 256
  transferTokens_len : ∀ t ∈ c.transferTokens, t.length = 20
  feeAmounts_lt : ∀ a ∈ c.feeAmounts, a < 2 ^ 256
  feeTokens_len : ∀ t ∈ c.feeTokens, t.length = 20
  transferAmounts_short : c.transferAmounts.length < 2 ^ 256
  transferTokens_short : c.transferTokens.length < 2 ^ 256
  feeAmounts_short : c.feeAmounts.length < 2 ^ 256
  feeTokens_short : c.feeTokens.length < 2 ^ 256
  logicContract_len : c.logicContract.length = 20
  payload_short : c.payload.length < 2 ^ 256
  timeout_lt : c.timeout < 2 ^ 256
  invalidationNonce_lt : c.invalidationNonce < 2 ^ 256

theorem method_name_call_length : (padRight (strBytes "logicCall") 32).length = 32 := by
  decide +kernel

/-- Every argument the hub packs for a well-formed call inhabits its Solidity type. -/
theorem goArgsCall_wf {g : Bytes} {c : CallView} (hg : g.length = 32) (hc : CallViewWF c) :
    ∀ v ∈ goArgsCall g c, AbiWF v := by
  rw [checkpoint_args_agree_call]
  exact wf_solArgsCall hg method_name_call_length hc.transferAmounts_short hc.transferAmounts_lt
    hc.transferTokens_short hc.transferTokens_len hc.feeAmounts_short hc.feeAmounts_lt
    hc.feeTokens_short hc.feeTokens_len hc.logicContract_len hc.payload_short hc.timeout_lt
    (scope32_length _) hc.invalidationNonce_lt

/-- The Solidity signature of the call checkpoint is fixed:
    `(bytes32, bytes32, uint256[], address[], uint256[], address[], address, bytes, uint256, bytes32, uint256)`. -/
theorem goArgsCall_kinds (g : Bytes) (c : CallView) :
    (goArgsCall g c).map abiKind = [0, 0, 3, 4, 3, 4, 2, 5, 1, 0, 1] := rfl

/-- Length of a call pre-image: 11 head words, four arrays (length word + one word per element)
    and the payload (length word + the payload rounded up to whole words). -/
theorem encode_call_length {g : Bytes} {c : CallView} (hg : g.length = 32) (hc : CallViewWF c) :
    (abiEncode (goArgsCall g c)).length =
      32 * 11 + (32 + 32 * c.transferAmounts.length) + (32 + 32 * c.transferTokens.length)
        + (32 + 32 * c.feeAmounts.length) + (32 + 32 * c.feeTokens.length)
        + (32 + roundUp32 c.payload.length) ∧
    (abiEncode (goArgsCall g c)).length % 32 = 0 := by
  have h := C07.abiEncode_length (goArgsCall_wf hg hc)
  refine ⟨?_, h.2.2⟩
  rw [h.1]
  simp only [goArgsCall, tailsLen, AbiVal.isDynamic, if_true, Bool.false_eq_true, if_false,
    uintArr_body_length, addrArr_body_length hc.transferTokens_len, addrArr_body_length hc.feeTokens_len,
    dynBytes_body_length, List.length_cons, List.length_nil]
  omega

/-! ### 2. The pre-image determines the call -/

/-- Solidity side: two well-typed `submitLogicCall` argument lists with the same `abi.encode`
    are the same, argument by argument. -/
theorem encode_call_injective {g1 g2 m1 m2 : Bytes} {ta1 ta2 : List Nat} {tt1 tt2 : List Bytes}
    {fa1 fa2 : List Nat} {ft1 ft2 : List Bytes} {lc1 lc2 pl1 pl2 : Bytes} {to1 to2 : Nat}
    {iid1 iid2 : Bytes} {in1 in2 : Nat}
    (h1 : ∀ v ∈ solArgsCall g1 m1 ta1 tt1 fa1 ft1 lc1 pl1 to1 iid1 in1, AbiWF v)
    (h2 : ∀ v ∈ solArgsCall g2 m2 ta2 tt2 fa2 ft2 lc2 pl2 to2 iid2 in2, AbiWF v)
    (h : abiEncode (solArgsCall g1 m1 ta1 tt1 fa1 ft1 lc1 pl1 to1 iid1 in1)
        = abiEncode (solArgsCall g2 m2 ta2 tt2 fa2 ft2 lc2 pl2 to2 iid2 in2)) :
    g1 = g2 ∧ m1 = m2 ∧ ta1 = ta2 ∧ tt1 = tt2 ∧ fa1 = fa2 ∧ ft1 = ft2 ∧ lc1 = lc2 ∧ pl1 = pl2 ∧
      to1 = to2 ∧ iid1 = iid2 ∧ in1 = in2 := by
  have := abiEncode_injective (by rw [solArgsCall_kinds, solArgsCall_kinds]) h1 h2 h
  simp only [solArgsCall, List.cons.injEq, AbiVal.bytes32.injEq, AbiVal.uint.injEq,
    AbiVal.addrArr.injEq, AbiVal.uintArr.injEq, AbiVal.address.injEq, AbiVal.dynBytes.injEq,
    and_true] at this
  exact this

/-- Go side: the gravity id and every field of a well-formed call are determined by the bytes
    the validators sign — the invalidation scope up to `scope32` (its first 32 bytes, zero padded). -/
theorem go_call_preimage_injective {g1 g2 : Bytes} {c1 c2 : CallView}
    (hg1 : g1.length = 32) (hg2 : g2.length = 32) (hc1 : CallViewWF c1) (hc2 : CallViewWF c2)
    (h : abiEncode (goArgsCall g1 c1) = abiEncode (goArgsCall g2 c2)) :
    g1 = g2 ∧ c1.transferAmounts = c2.transferAmounts ∧ c1.transferTokens = c2.transferTokens ∧
      c1.feeAmounts = c2.feeAmounts ∧ c1.feeTokens = c2.feeTokens ∧
      c1.logicContract = c2.logicContract ∧ c1.payload = c2.payload ∧ c1.timeout = c2.timeout ∧
      scope32 c1.invalidationScope = scope32 c2.invalidationScope ∧
      c1.invalidationNonce = c2.invalidationNonce := by
  have hw1 := goArgsCall_wf hg1 hc1
  have hw2 := goArgsCall_wf hg2 hc2
  rw [checkpoint_args_agree_call] at h hw1
  rw [checkpoint_args_agree_call] at h hw2
  obtain ⟨e1, _, e3, e4, e5, e6, e7, e8, e9, e10, e11⟩ := encode_call_injective hw1 hw2 h
  exact ⟨e1, e3, e4, e5, e6, e7, e8, e9, e10, e11⟩

/-- The scope as the contract sees it is determined: its first 32 bytes, zero padded. -/
theorem go_call_preimage_scope_prefix {g1 g2 : Bytes} {c1 c2 : CallView}
    (hg1 : g1.length = 32) (hg2 : g2.length = 32) (hc1 : CallViewWF c1) (hc2 : CallViewWF c2)
    (hl : c1.invalidationScope.length = c2.invalidationScope.length)
    (h32 : c1.invalidationScope.length ≤ 32)
    (h : abiEncode (goArgsCall g1 c1) = abiEncode (goArgsCall g2 c2)) : g1 = g2 ∧ c1 = c2 := by
  obtain ⟨e1, e2, e3, e4, e5, e6, e7, e8, e9, e10⟩ := go_call_preimage_injective hg1 hg2 hc1 hc2 h
  have e9' := scope32_inj_of_len hl h32 e9
  refine ⟨e1, ?_⟩
  cases c1; cases c2
  simp only at e2 e3 e4 e5 e6 e7 e8 e9' e10
  simp only [CallView.mk.injEq]
  exact ⟨e2, e3, e4, e5, e6, e7, e8, e9', e10⟩

/-- With full 32-byte invalidation scopes (what the contract stores), the pre-image determines
    the gravity id and the whole call. -/
theorem go_call_preimage_injective_scope32 {g1 g2 : Bytes} {c1 c2 : CallView}
    (hg1 : g1.length = 32) (hg2 : g2.length = 32) (hc1 : CallViewWF c1) (hc2 : CallViewWF c2)
    (hs1 : c1.invalidationScope.length = 32) (hs2 : c2.invalidationScope.length = 32)
    (h : abiEncode (goArgsCall g1 c1) = abiEncode (goArgsCall g2 c2)) : g1 = g2 ∧ c1 = c2 :=
  go_call_preimage_scope_prefix hg1 hg2 hc1 hc2 (hs1.trans hs2.symm) (Nat.le_of_eq hs1) h

/-! ### 3. The three kinds of checkpoint are pairwise disjoint -/

theorem call_ne_checkpoint_name :
    padRight (strBytes "logicCall") 32 ≠ padRight (strBytes "checkpoint") 32 := by decide +kernel

theorem call_ne_batch_name :
    padRight (strBytes "logicCall") 32 ≠ padRight (strBytes "transactionBatch") 32 := by decide +kernel

/-- The second word of a call pre-image is "logicCall", right padded. -/
theorem go_call_method_word {g : Bytes} (hg : g.length = 32) (c : CallView) :
    ((abiEncode (goArgsCall g c)).drop 32).take 32 = padRight (strBytes "logicCall") 32 :=
  abiEncode_method_word hg method_name_call_length _

/-- Solidity side: a call and a signer-set pre-image with different method names differ. -/
theorem encode_call_ne_signerset {g1 g2 m1 m2 : Bytes} {ta tt fa ft lc pl to iid inonce}
    {n : Nat} {vs : List Bytes} {ps : List Nat}
    (hg1 : g1.length = 32) (hg2 : g2.length = 32) (hm1 : m1.length = 32) (hm2 : m2.length = 32)
    (hne : m1 ≠ m2) :
    abiEncode (solArgsCall g1 m1 ta tt fa ft lc pl to iid inonce)
      ≠ abiEncode (solArgsSignerSet g2 m2 n vs ps) :=
  abiEncode_two_bytes32_ne hg1 hg2 hm1 hm2 hne _ _

/-- Solidity side: a call and a batch pre-image with different method names differ. -/
theorem encode_call_ne_batch {g1 g2 m1 m2 : Bytes} {ta tt fa ft lc pl to iid inonce}
    {am ds fs n tk bto}
    (hg1 : g1.length = 32) (hg2 : g2.length = 32) (hm1 : m1.length = 32) (hm2 : m2.length = 32)
    (hne : m1 ≠ m2) :
    abiEncode (solArgsCall g1 m1 ta tt fa ft lc pl to iid inonce)
      ≠ abiEncode (solArgsBatch g2 m2 am ds fs n tk bto) :=
  abiEncode_two_bytes32_ne hg1 hg2 hm1 hm2 hne _ _

/-- A call is never signed as a signer set (no typing hypothesis on either side is needed). -/
theorem go_call_ne_signerset {g1 g2 : Bytes} (hg1 : g1.length = 32) (hg2 : g2.length = 32)
    (c : CallView) (n : Nat) (ms : List Signer) :
    abiEncode (goArgsCall g1 c) ≠ abiEncode (goArgsSignerSet g2 n ms) := by
  rw [checkpoint_args_agree_call, checkpoint_args_agree_signerset]
  exact encode_call_ne_signerset hg1 hg2 method_name_call_length method_name_lengths.1
    call_ne_checkpoint_name

/-- A call is never signed as a batch. -/
theorem go_call_ne_batch {g1 g2 : Bytes} (hg1 : g1.length = 32) (hg2 : g2.length = 32)
    (c : CallView) (b : BatchView) :
    abiEncode (goArgsCall g1 c) ≠ abiEncode (goArgsBatch g2 b) := by
  rw [checkpoint_args_agree_call, checkpoint_args_agree_batch]
  exact encode_call_ne_batch hg1 hg2 method_name_call_length method_name_lengths.2 call_ne_batch_name

/-! ### 4. What the digest does NOT see of the invalidation scope -/

/-- Scopes of length exactly 32 are never confused. -/
theorem scope32_injective_on_32 {s1 s2 : Bytes} (h1 : s1.length = 32) (h2 : s2.length = 32)
    (h : scope32 s1 = scope32 s2) : s1 = s2 := by
  rwa [scope32_full s1 h1, scope32_full s2 h2] at h

/-- The digest arguments depend on the scope only through `scope32` … -/
theorem goArgsCall_scope_collision (g : Bytes) (c : CallView) {s s' : Bytes} (h : scope32 s = scope32 s') :
    goArgsCall g { c with invalidationScope := s } = goArgsCall g { c with invalidationScope := s' } := by
  simp only [goArgsCall, h]

/-- … so two calls whose scopes agree on `scope32` have the same digest. -/
theorem checkpointCall_scope_collision (gravityId : String) (c : CallView) {s s' : Bytes}
    (h : scope32 s = scope32 s') :
    checkpointCall gravityId { c with invalidationScope := s }
      = checkpointCall gravityId { c with invalidationScope := s' } := by
  unfold checkpointCall
  simp only [goArgsCall_scope_collision _ c h]

/-- A scope longer than 32 bytes is signed as its 32-byte prefix. -/
theorem scope_long_collides (g : Bytes) (c : CallView) (s : Bytes) :
    goArgsCall g { c with invalidationScope := s } = goArgsCall g { c with invalidationScope := s.take 32 } :=
  goArgsCall_scope_collision g c (scope32_take s).symm

/-- A short scope and the same scope followed by zero bytes are signed alike. -/
theorem scope_zero_extension_collides (g : Bytes) (c : CallView) {s : Bytes} {k : Nat}
    (h : s.length + k ≤ 32) :
    goArgsCall g { c with invalidationScope := s }
      = goArgsCall g { c with invalidationScope := s ++ List.replicate k 0 } :=
  goArgsCall_scope_collision g c (scope32_append_zeros h).symm

/-- These two are the only collisions among scopes of at most 32 bytes with the same length. -/
theorem scope32_injective_on_len {s1 s2 : Bytes} (hl : s1.length = s2.length) (h32 : s1.length ≤ 32)
    (h : scope32 s1 = scope32 s2) : s1 = s2 := scope32_inj_of_len hl h32 h

example : scope32 [1, 2] = scope32 [1, 2, 0] := by decide +kernel

example : [1, 2] ≠ ([1, 2, 0] : Bytes) := by decide

/-- A 33-byte scope and its 32-byte prefix. -/
example : scope32 (List.replicate 32 7 ++ [9]) = scope32 (List.replicate 32 7) := by decide +kernel

/-- Same digest arguments for the two different scopes `[1,2]` and `[1,2,0]`. -/
example (g : Bytes) (c : CallView) :
    goArgsCall g { c with invalidationScope := [1, 2] }
      = goArgsCall g { c with invalidationScope := [1, 2, 0] } :=
  goArgsCall_scope_collision g c (by decide +kernel)

/-- … hence the same encoding, for a concrete call. -/
example : abiEncode (goArgsCall (List.replicate 32 1)
    { transferAmounts := [5], transferTokens := [List.replicate 20 9], feeAmounts := [], feeTokens := [],
      logicContract := List.replicate 20 3, payload := [1, 2, 3], timeout := 10,
      invalidationScope := [1, 2], invalidationNonce := 4 })
  = abiEncode (goArgsCall (List.replicate 32 1)
    { transferAmounts := [5], transferTokens := [List.replicate 20 9], feeAmounts := [], feeTokens := [],
      logicContract := List.replicate 20 3, payload := [1, 2, 3], timeout := 10,
      invalidationScope := [1, 2, 0], invalidationNonce := 4 }) := by decide +kernel

/-! ### 5. The recovery byte -/

/-- `normV` on byte 64: 27 ↦ 0, 28 ↦ 1, every other value unchanged. -/
theorem normV_byte64 (sig : Bytes) :
    (normV sig).getD 64 0 =
      if sig.getD 64 0 = 27 then 0 else if sig.getD 64 0 = 28 then 1 else sig.getD 64 0 := by
  rw [normV_spec]
  generalize sig.getD 64 0 = v
  by_cases h27 : v = 27
  · subst h27; rfl
  · by_cases h28 : v = 28
    · subst h28; rfl
    · rw [if_neg (by omega), if_neg h27, if_neg h28]

theorem normV_maps_27 {sig : Bytes} (h : sig.getD 64 0 = 27) : (normV sig).getD 64 0 = 0 := by
  rw [normV_byte64, if_pos h]

theorem normV_maps_28 {sig : Bytes} (h : sig.getD 64 0 = 28) : (normV sig).getD 64 0 = 1 := by
  rw [normV_byte64, if_neg (by omega), if_pos h]

/-- Any other recovery byte leaves the whole signature unchanged. -/
theorem normV_other_unchanged {sig : Bytes} (h27 : sig.getD 64 0 ≠ 27) (h28 : sig.getD 64 0 ≠ 28) :
    normV sig = sig := normV_of_other h27 h28

/-- The normalised recovery byte is 0 or 1 exactly when the given one is 0, 1, 27 or 28. -/
theorem normV_canonical_iff (sig : Bytes) :
    (normV sig).getD 64 0 ∈ [0, 1] ↔ sig.getD 64 0 ∈ [0, 1, 27, 28] := by
  rw [normV_byte64]
  simp only [List.mem_cons, List.not_mem_nil, or_false]
  split
  · omega
  · split <;> omega

/-- If recovery fails for every recovery byte other than 0 and 1 (a HYPOTHESIS on the abstract
    `r`; the EVM precompile, called with `v + 27`, accepts only 27 and 28, i.e. 0 and 1 here), the
    hub rejects every signature whose byte 64 is not 0, 1, 27 or 28 — whatever its length.
    `foreign_v_rejected_ids` below is the same for any set of accepted recovery ids. -/
theorem foreign_v_rejected (r : Bytes → Bytes → Option Bytes)
    (hr : ∀ m sig, sig.getD 64 0 ∉ [0, 1] → r m sig = none)
    (d sig a : Bytes) (hv : sig.getD 64 0 ∉ [0, 1, 27, 28]) :
    validateSig r d sig a = false := by
  have hn : (normV sig).getD 64 0 ∉ [0, 1] := fun h => hv ((normV_canonical_iff sig).mp h)
  simp only [validateSig, hr _ _ hn, Bool.and_eq_false_imp]
  intro _
  rfl

/-- The same for any set `ok` of recovery ids the recovery function may accept (libsecp256k1
    behind go-ethereum's `SigToPub` takes `0..3`): a byte 64 outside `ok ∪ {27, 28}` is rejected. -/
theorem foreign_v_rejected_ids (r : Bytes → Bytes → Option Bytes) (ok : List Nat)
    (hr : ∀ m sig, sig.getD 64 0 ∉ ok → r m sig = none)
    (d sig a : Bytes) (hv : sig.getD 64 0 ∉ ok) (h27 : sig.getD 64 0 ≠ 27) (h28 : sig.getD 64 0 ≠ 28) :
    validateSig r d sig a = false := by
  have hn : (normV sig).getD 64 0 ∉ ok := by rwa [normV_of_other h27 h28]
  simp only [validateSig, hr _ _ hn, Bool.and_eq_false_imp]
  intro _
  rfl

/-- As asked, for 65-byte signatures. -/
theorem foreign_v_rejected_65 (r : Bytes → Bytes → Option Bytes)
    (hr : ∀ m sig, sig.getD 64 0 ∉ [0, 1] → r m sig = none)
    (d sig a : Bytes) (_hl : sig.length = 65) (hv : sig.getD 64 0 ∉ [0, 1, 27, 28]) :
    validateSig r d sig a = false := foreign_v_rejected r hr d sig a hv

/-- Such a signature passes the length guard: it is the recovery function that rejects it. -/
theorem foreign_v_long_enough {sig : Bytes} (hv : sig.getD 64 0 ∉ [0, 1, 27, 28]) : 65 ≤ sig.length :=
  length_of_getD64_ne_zero (fun h => hv (by rw [h]; decide))

/-- Contrapositive: an accepted signature carries one of the four recovery bytes, and recovery
    saw 0 or 1. -/
theorem accepted_v_canonical (r : Bytes → Bytes → Option Bytes)
    (hr : ∀ m sig, sig.getD 64 0 ∉ [0, 1] → r m sig = none)
    {d sig a : Bytes} (h : validateSig r d sig a = true) :
    sig.getD 64 0 ∈ [0, 1, 27, 28] ∧ (normV sig).getD 64 0 ∈ [0, 1] := by
  have : sig.getD 64 0 ∈ [0, 1, 27, 28] := by
    apply Classical.byContradiction
    intro hv
    rw [foreign_v_rejected r hr d sig a hv] at h
    cases h
  exact ⟨this, (normV_canonical_iff sig).mpr this⟩

/-- The contract agrees: with the same recovery function it rejects the normalised signature too. -/
theorem foreign_v_rejected_contract (r : Bytes → Bytes → Option Bytes)
    (hr : ∀ m sig, sig.getD 64 0 ∉ [0, 1] → r m sig = none)
    (d sig a : Bytes) (hv : sig.getD 64 0 ∉ [0, 1, 27, 28]) :
    contractVerify r d (normV sig) a = false := by
  rw [← contract_agrees r d sig a (foreign_v_long_enough hv)]
  exact foreign_v_rejected r hr d sig a hv

/-- The hypothesis is satisfiable: trivially … -/
example : ∀ (m sig : Bytes), sig.getD 64 0 ∉ [0, 1] → (fun (_ _ : Bytes) => (none : Option Bytes)) m sig = none :=
  fun _ _ _ => rfl

/-- … and by a recovery function that accepts something (the "address" is the first 20 bytes),
    for which a `v = 28` signature validates and a `v = 29` one does not. -/
example :
    let r : Bytes → Bytes → Option Bytes :=
      fun _ sig => if sig.getD 64 0 ∈ [0, 1] then some (sig.take 20) else none
    (∀ m sig, sig.getD 64 0 ∉ [0, 1] → r m sig = none) ∧
    validateSig r [1, 2, 3] (List.replicate 64 7 ++ [28]) (List.replicate 20 7) = true ∧
    validateSig r [1, 2, 3] (List.replicate 64 7 ++ [29]) (List.replicate 20 7) = false := by
  intro r
  have hr : ∀ m sig, sig.getD 64 0 ∉ [0, 1] → r m sig = none := by
    intro m sig h
    simp only [r, if_neg h]
  refine ⟨hr, ?_, foreign_v_rejected r hr _ _ _ (by decide +kernel)⟩
  simp only [validateSig, normV, r]
  decide +kernel

/-- The hypothesis is needed: `validateSig` itself places no constraint on byte 64, so a recovery
    function that ignores it accepts a signature with `v = 5`. -/
example :
    let r : Bytes → Bytes → Option Bytes := fun _ sig => some (sig.take 20)
    validateSig r [1, 2, 3] (List.replicate 64 7 ++ [5]) (List.replicate 20 7) = true := by
  simp only [validateSig, normV]
  decide +kernel

/-! ### 6. Non-vacuity -/

/-- One transfer, one fee, a 5-byte payload, a 14-byte scope. -/
def sampleCall (nonce : Nat) : CallView :=
  { transferAmounts := [1000], transferTokens := [List.replicate 20 9], feeAmounts := [3],
    feeTokens := [List.replicate 20 11], logicContract := List.replicate 20 3,
    payload := [1, 2, 3, 4, 5], timeout := 10, invalidationScope := List.replicate 14 7,
    invalidationNonce := nonce }

theorem sampleCall_wf {n : Nat} (hn : n < 2 ^ 256) : CallViewWF (sampleCall n) where
  transferAmounts_lt := by simp only [sampleCall]; decide
  transferTokens_len := by simp only [sampleCall]; decide
  feeAmounts_lt := by simp only [sampleCall]; decide
  feeTokens_len := by simp only [sampleCall]; decide
  transferAmounts_short := by simp only [sampleCall]; decide
  transferTokens_short := by simp only [sampleCall]; decide
  feeAmounts_short := by simp only [sampleCall]; decide
  feeTokens_short := by simp only [sampleCall]; decide
  logicContract_len := by simp only [sampleCall]; decide
  payload_short := by simp only [sampleCall]; decide
  timeout_lt := by simp only [sampleCall]; decide
  invalidationNonce_lt := hn

example : CallViewWF
    { transferAmounts := [1000], transferTokens := [List.replicate 20 9], feeAmounts := [3],
      feeTokens := [List.replicate 20 11], logicContract := List.replicate 20 3,
      payload := [1, 2, 3, 4, 5], timeout := 10, invalidationScope := List.replicate 14 7,
      invalidationNonce := 4 } := sampleCall_wf (n := 4) (by decide)

/-- Two calls that differ only in the invalidation nonce have different pre-images — by the
    injectivity theorem, not by evaluation. -/
example : abiEncode (goArgsCall (List.replicate 32 1) (sampleCall 4))
    ≠ abiEncode (goArgsCall (List.replicate 32 1) (sampleCall 5)) := by
  intro h
  have := go_call_preimage_injective (by decide) (by decide) (sampleCall_wf (by decide))
    (sampleCall_wf (by decide)) h
  exact absurd this.2.2.2.2.2.2.2.2.2 (by decide)

/-- The same for every pair of distinct `uint256` nonces. -/
theorem sampleCall_nonce_separated {n m : Nat} (hn : n < 2 ^ 256) (hm : m < 2 ^ 256) (hne : n ≠ m)
    (g : Bytes) (hg : g.length = 32) :
    abiEncode (goArgsCall g (sampleCall n)) ≠ abiEncode (goArgsCall g (sampleCall m)) := by
  intro h
  have := go_call_preimage_injective hg hg (sampleCall_wf hn) (sampleCall_wf hm) h
  exact hne this.2.2.2.2.2.2.2.2.2

/-- Its length agrees with `encode_call_length`: 11 heads, four one-element arrays, one payload word. -/
example : (abiEncode (goArgsCall (List.replicate 32 1) (sampleCall 4))).length = 11 * 32 + 4 * 64 + 64 :=
  (encode_call_length (by decide) (sampleCall_wf (by decide))).1

/-- It is neither a signer-set nor a batch pre-image. -/
example (n : Nat) (ms : List Signer) (b : BatchView) :
    abiEncode (goArgsCall (List.replicate 32 1) (sampleCall 4)) ≠ abiEncode (goArgsSignerSet (List.replicate 32 1) n ms) ∧
    abiEncode (goArgsCall (List.replicate 32 1) (sampleCall 4)) ≠ abiEncode (goArgsBatch (List.replicate 32 1) b) :=
  ⟨go_call_ne_signerset (by decide) (by decide) _ _ _, go_call_ne_batch (by decide) (by decide) _ _⟩

end Mhub2.C07Call
