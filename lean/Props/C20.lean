/-
  C20 — The Minter connector's persisted cursor after a restart, and command validation.

  The full statement ("every persisted cursor is consistent with the history") is FALSE for the
  implementation and for the model: see `full_statement_false`.  What holds:
    * every cursor committed at the end of a block is consistent (`block_commits_consistent`);
    * the one cursor committed by the early return is consistent iff no bridge event of its block
      precedes the triggering one (`early_return_commit_consistent_iff`);
    * hence every cursor is consistent when no block holds two bridge events
      (`cursor_consistent_partial`), when the hub acknowledged nothing (`no_ack_no_early_return`),
      or when the acknowledged nonce is not below what the scan reaches (`large_ack_no_early_return`).
  Helper definitions (`ChainWF`, `blockCommits`, `evCnt`, `blockEnds`, …) and lemmas live in
  Lemmas/Connector.lean.
-/
import Mhub2.Connector
import Mhub2.Generated.Facts
import Lemmas.Connector
namespace Mhub2.C20
open Mhub2

/-! ### 1. Block-end commits -/

/-- Every cursor committed at the end of a block (every commit except the early-return one) is
    consistent with the history; its batch nonce and valset nonce obey the analogous laws, and
    its last-checked block is a block of the history above the start cursor. -/
theorem block_commits_consistent {chain : List MBlock} (hwf : ChainWF chain) (start : Cursor) (ack : Nat) :
    ∀ c ∈ blockCommits (resync start ack chain),
      consistent chain start c = true ∧
      c.nextBatch = start.nextBatch + batchesBetween chain start.lastChecked c.lastChecked ∧
      c.lastValset = valsetAfter start.lastValset (txsBetween chain start.lastChecked c.lastChecked) ∧
      ∃ b ∈ chain, start.lastChecked < b.height ∧ c.lastChecked = b.height := by
  intro c hc
  obtain ⟨⟨b, hb, hlt, hlc⟩, hne, hnb, hvs⟩ := blockEnd_laws hwf (mem_blockCommits hc)
  refine ⟨?_, hnb, hvs, b, hb, hlt, hlc⟩
  rw [consistent_eq_true_iff]
  exact ⟨by omega, hne⟩

/-- When the early return is not taken, all commits are block-end commits. -/
theorem not_stopped_all_consistent {chain : List MBlock} (hwf : ChainWF chain) (start : Cursor) (ack : Nat)
    (hns : (resync start ack chain).stopped = false) :
    ∀ c ∈ (resync start ack chain).commits, consistent chain start c = true := by
  intro c hc
  have : c ∈ blockCommits (resync start ack chain) := by simpa [blockCommits, hns] using hc
  exact (block_commits_consistent hwf start ack c this).1

/-! ### 2. The early-return commit -/

/-- When the scan takes the early return, it does so in some block `b` above the start cursor, at
    a bridge event `tx` preceded in that block by the transactions `txpre`.  The last commit `c`
    is the early-return commit; it has `lastChecked = b.height - 1`, its `nextEvent` counts the
    events up to block `b.height - 1` PLUS the bridge events of `txpre`; it is consistent iff
    `txpre` holds no bridge event.  When it is inconsistent, `c.nextEvent = ack + 1`: the
    acknowledged nonce belongs to an event inside block `b`. -/
theorem early_return_commit_consistent_iff {chain : List MBlock} (hwf : ChainWF chain)
    (start : Cursor) (ack : Nat) (hstop : (resync start ack chain).stopped = true) :
    ∃ b ∈ chain, ∃ txpre tx txpost c,
      start.lastChecked < b.height ∧ b.txs = txpre ++ tx :: txpost ∧ countsInResync tx = true ∧
      (resync start ack chain).commits = blockCommits (resync start ack chain) ++ [c] ∧
      (resync start ack chain).cur = c ∧
      c.lastChecked = b.height - 1 ∧ start.lastChecked ≤ c.lastChecked ∧
      0 < ack ∧ ack < c.nextEvent ∧
      c.nextEvent = start.nextEvent + eventsBetween chain start.lastChecked (b.height - 1) + evCnt txpre ∧
      c.nextBatch = start.nextBatch + batchesBetween chain start.lastChecked (b.height - 1) + batchCnt txpre ∧
      (0 < evCnt txpre → c.nextEvent = ack + 1) ∧
      (consistent chain start c = true ↔ evCnt txpre = 0) ∧
      (consistent chain start c = true ↔
        c.nextEvent = start.nextEvent + eventsBetween chain start.lastChecked (b.height - 1)) := by
  rcases resync_spec start ack chain with ⟨h1, _, _⟩ | ⟨h1, pre, b, post, txpre, tx, txpost, er⟩
  · rw [h1] at hstop; cases hstop
  · have hm := mem_of_scan_split er.split_blocks
    have hrange := range_below_block hwf er.split_blocks
    have hne : (earlyCur (curAfter start pre) b.height txpre).nextEvent =
        start.nextEvent + eventsBetween chain start.lastChecked (b.height - 1) + evCnt txpre := by
      rw [eventsBetween_eq, hrange]
      simp [earlyCur, foldl_stepCur_nextEvent, curAfter_nextEvent]
    have hnb : (earlyCur (curAfter start pre) b.height txpre).nextBatch =
        start.nextBatch + batchesBetween chain start.lastChecked (b.height - 1) + batchCnt txpre := by
      rw [batchesBetween, hrange]
      simp [earlyCur, foldl_stepCur_nextBatch, curAfter_nextBatch]
    have hlc : (earlyCur (curAfter start pre) b.height txpre).lastChecked = b.height - 1 := rfl
    have hcons : consistent chain start (earlyCur (curAfter start pre) b.height txpre) = true ↔
        (earlyCur (curAfter start pre) b.height txpre).nextEvent =
          start.nextEvent + eventsBetween chain start.lastChecked (b.height - 1) := by
      rw [consistent_eq_true_iff, hlc]
      exact ⟨fun h => h.2, fun h => ⟨by omega, h⟩⟩
    refine ⟨b, hm.1, txpre, tx, txpost, earlyCur (curAfter start pre) b.height txpre,
      hm.2, er.split_txs, er.counted, ?_, er.cur_eq, hlc, by rw [hlc]; omega,
      er.ack_pos, er.ack_lt, hne, hnb, ?_, ?_, hcons⟩
    · rw [er.blockCommits_eq h1, er.commits_eq]
    · intro hpos
      have := er.ack_tight hpos
      have := er.ack_lt
      omega
    · rw [hcons, hne]; omega

/-- The full property under a guard: if no block holds more than one bridge event, EVERY
    persisted cursor is consistent.
    (Named `_partial`: without the guard the statement is false, see `full_statement_false`:
    start (9,5,1,0), block 10 with two valid deposits, ack 5 persists (9,6,1,0).) -/
theorem cursor_consistent_partial {chain : List MBlock} (hwf : ChainWF chain) (start : Cursor) (ack : Nat)
    (hone : ∀ b ∈ chain, (b.txs.filter countsInResync).length ≤ 1) :
    ∀ c ∈ (resync start ack chain).commits, consistent chain start c = true := by
  by_cases hs : (resync start ack chain).stopped = true
  · obtain ⟨b, hb, txpre, tx, txpost, c', _, htxs, hcnt, hcom, _, _, _, _, _, _, _, _, hiff, _⟩ :=
      early_return_commit_consistent_iff hwf start ack hs
    intro c hc
    rw [hcom, List.mem_append] at hc
    rcases hc with hc | hc
    · exact (block_commits_consistent hwf start ack c hc).1
    · have : c = c' := by simpa using hc
      subst this
      rw [hiff]
      have h1 : evCnt b.txs ≤ 1 := hone b hb
      rw [htxs, evCnt_append, evCnt_cons, hcnt] at h1
      simp at h1; omega
  · exact not_stopped_all_consistent hwf start ack (by simpa using hs)

/-- Per-run criterion: all persisted cursors of a run are consistent iff the run did not stop
    early, or stopped at the first bridge event of a block (its final cursor then carries the
    event count of the blocks up to its `lastChecked`). -/
theorem all_commits_consistent_iff {chain : List MBlock} (hwf : ChainWF chain) (start : Cursor) (ack : Nat) :
    (∀ c ∈ (resync start ack chain).commits, consistent chain start c = true) ↔
    ((resync start ack chain).stopped = true →
      (resync start ack chain).cur.nextEvent =
        start.nextEvent + eventsBetween chain start.lastChecked (resync start ack chain).cur.lastChecked) := by
  by_cases hs : (resync start ack chain).stopped = true
  · obtain ⟨b, hb, txpre, tx, txpost, c', _, htxs, hcnt, hcom, hcur, hlc, _, _, _, _, _, _, _, hiff⟩ :=
      early_return_commit_consistent_iff hwf start ack hs
    rw [hcur, hlc]
    constructor
    · intro h _
      exact hiff.mp (h c' (by rw [hcom]; simp))
    · intro h c hc
      rw [hcom, List.mem_append] at hc
      rcases hc with hc | hc
      · exact (block_commits_consistent hwf start ack c hc).1
      · have : c = c' := by simpa using hc
        subst this
        exact hiff.mpr (h hs)
  · have hns : (resync start ack chain).stopped = false := by simpa using hs
    constructor
    · intro _ h; rw [hns] at h; cases h
    · intro _; exact not_stopped_all_consistent hwf start ack hns

/-- Consistency survives any number of restarts from block-end cursors: if the connector restarts
    from a cursor `c1` that is consistent relative to `start` (for instance a block-end commit of
    an earlier run), every block-end commit of the new run is again consistent relative to
    `start`, whatever nonce the hub acknowledged this time. -/
theorem restart_block_commits_consistent {chain : List MBlock} (hwf : ChainWF chain)
    (start c1 : Cursor) (ack : Nat) (h1 : consistent chain start c1 = true) :
    ∀ c ∈ blockCommits (resync c1 ack chain), consistent chain start c = true :=
  fun c hc => consistent_trans h1 (block_commits_consistent hwf c1 ack c hc).1

/-! ### 3. The full statement is false -/

/-- Start cursor (9,5,1,0), block 10 with two valid deposits, acknowledged nonce 5: the scan
    counts the first deposit (nonce 5 → next 6), takes the early return at the second and
    persists (9,6,1,0): block 10 will be scanned again with the nonce already advanced. -/
theorem full_statement_false :
    ∃ start ack chain, ChainWF chain ∧
      ∃ c ∈ (resync start ack chain).commits, consistent chain start c = false := by
  refine ⟨⟨9, 5, 1, 0⟩, 5, [⟨10, [.send true true true, .send true true true]⟩], ?_, ⟨9, 6, 1, 0⟩, ?_, ?_⟩
  · simp [ChainWF]
  · have h : (resync ⟨9, 5, 1, 0⟩ 5 [⟨10, [.send true true true, .send true true true]⟩]).commits
        = [⟨9, 6, 1, 0⟩] := by decide
    rw [h]; exact List.mem_singleton.mpr rfl
  · decide

/-- The same witness, as a computation: exactly one cursor is persisted, and it is (9,6,1,0). -/
theorem full_statement_false_witness :
    (resync ⟨9, 5, 1, 0⟩ 5 [⟨10, [.send true true true, .send true true true]⟩]).commits = [⟨9, 6, 1, 0⟩] ∧
    (resync ⟨9, 5, 1, 0⟩ 5 [⟨10, [.send true true true, .send true true true]⟩]).stopped = true := by
  decide

/-! ### 4. Runs that never take the early return -/

/-- With no acknowledged nonce the early return is never taken, so every commit is consistent. -/
theorem no_ack_no_early_return (start : Cursor) (chain : List MBlock) :
    (resync start 0 chain).stopped = false := by
  rcases resync_spec start 0 chain with ⟨h1, _, _⟩ | ⟨_, pre, b, post, txpre, tx, txpost, er⟩
  · exact h1
  · exact absurd er.ack_pos (by omega)

theorem no_ack_all_consistent {chain : List MBlock} (hwf : ChainWF chain) (start : Cursor) :
    ∀ c ∈ (resync start 0 chain).commits, consistent chain start c = true :=
  not_stopped_all_consistent hwf start 0 (no_ack_no_early_return start chain)

/-- If the acknowledged nonce is at least the last nonce the scan assigns
    (`start.nextEvent + #events above the cursor - 1`), the early return is never taken. -/
theorem large_ack_no_early_return (start : Cursor) (ack : Nat) (chain : List MBlock)
    (hack : start.nextEvent + eventsAbove chain start.lastChecked ≤ ack + 1) :
    (resync start ack chain).stopped = false := by
  rcases resync_spec start ack chain with ⟨h1, _, _⟩ | ⟨_, pre, b, post, txpre, tx, txpost, er⟩
  · exact h1
  · exfalso
    have h1 := er.ack_lt
    simp only [earlyCur, foldl_stepCur_nextEvent, curAfter_nextEvent] at h1
    have h2 := evSum_prefix_le pre b post
    rw [← er.split_blocks] at h2
    have h3 : evCnt b.txs = evCnt txpre + 1 + evCnt txpost := by
      rw [er.split_txs, evCnt_append, evCnt_cons, er.counted]; simp; omega
    unfold eventsAbove at hack
    omega

/-- The same with the model's own `eventsBetween`: the acknowledged nonce is at least every
    nonce reached. -/
theorem ack_ge_every_nonce_no_early_return (start : Cursor) (ack : Nat) (chain : List MBlock)
    (hack : ∀ hi, start.nextEvent + eventsBetween chain start.lastChecked hi ≤ ack + 1) :
    (resync start ack chain).stopped = false := by
  apply large_ack_no_early_return
  rw [eventsAbove_eq_eventsBetween]
  exact hack _

theorem large_ack_all_consistent {chain : List MBlock} (hwf : ChainWF chain) (start : Cursor) (ack : Nat)
    (hack : start.nextEvent + eventsAbove chain start.lastChecked ≤ ack + 1) :
    ∀ c ∈ (resync start ack chain).commits, consistent chain start c = true :=
  not_stopped_all_consistent hwf start ack (large_ack_no_early_return start ack chain hack)

/-- When the early return is not taken, the final cursor has seen the whole history above the
    start cursor. -/
theorem not_stopped_final_cursor (start : Cursor) (ack : Nat) (chain : List MBlock)
    (hns : (resync start ack chain).stopped = false) :
    (resync start ack chain).cur.nextEvent = start.nextEvent + eventsAbove chain start.lastChecked ∧
    (resync start ack chain).commits.length = (chain.filter fun b => b.height > start.lastChecked).length := by
  rcases resync_spec start ack chain with ⟨_, h2, h3⟩ | ⟨h1, _⟩
  · rw [h3, h2, curAfter_nextEvent, blockEnds_length]; exact ⟨rfl, rfl⟩
  · rw [h1] at hns; cases hns

/-! ### 5. Start-up scan and relay loop count the same transactions -/

theorem same_predicate : countsInResync = countsInRelay := by
  funext tx
  cases tx <;> rfl

/-! ### 6. Command validation -/

/-- A command is accepted iff its type is known, its recipient is valid for that type, and its
    fee is an integer with `0 ≤ fee < amount - amount/100` (truncated division). -/
theorem command_wellformed (known rok : Bool) (fee : Option Int) (amount : Int) :
    commandValid known rok fee amount = true ↔
      known = true ∧ rok = true ∧ ∃ f, fee = some f ∧ 0 ≤ f ∧ f < amount - Int.tdiv amount 100 := by
  unfold commandValid
  generalize Int.tdiv amount 100 = q
  cases fee with
  | none => simp
  | some f =>
    simp only [Bool.and_eq_true, Bool.not_eq_true', decide_eq_false_iff_not, Option.some.injEq,
      exists_eq_left']
    constructor
    · rintro ⟨⟨hk, hr⟩, h1, h2⟩; exact ⟨hk, hr, by omega, by omega⟩
    · rintro ⟨hk, hr, h1, h2⟩; exact ⟨⟨hk, hr⟩, by omega, by omega⟩

/-- A deposit is a bridge event (for the scan and for the relay alike) only if it goes to the
    multisig, its payload parses, and its command is valid. -/
theorem deposit_counts_iff (toM jsonOk valid : Bool) :
    countsInRelay (.send toM jsonOk valid) = true ↔ toM = true ∧ jsonOk = true ∧ valid = true := by
  simp [countsInRelay, and_assoc]

/-! ### 7. Monotonicity -/

/-- Along all commits `nextEvent` never decreases; under a well-formed history `lastChecked`
    strictly increases along the block-end commits and never decreases along all commits. -/
theorem commits_monotone (start : Cursor) (ack : Nat) (chain : List MBlock) :
    (resync start ack chain).commits.Pairwise (fun a b => a.nextEvent ≤ b.nextEvent) ∧
    (∀ c ∈ (resync start ack chain).commits,
      start.nextEvent ≤ c.nextEvent ∧ start.lastChecked ≤ c.lastChecked) ∧
    (ChainWF chain →
      (blockCommits (resync start ack chain)).Pairwise (fun a b => a.lastChecked < b.lastChecked) ∧
      (resync start ack chain).commits.Pairwise (fun a b => a.lastChecked ≤ b.lastChecked)) := by
  have hlo : ∀ bs, (∀ b ∈ bs, start.lastChecked < b.height) → ∀ c ∈ blockEnds start bs,
      start.lastChecked ≤ c.lastChecked := by
    intro bs hbs c hc
    obtain ⟨b, hb, e⟩ := blockEnds_lastChecked_mem hc
    have := hbs b hb; omega
  have hF : ∀ b ∈ chain.filter (fun b => b.height > start.lastChecked), start.lastChecked < b.height := by
    intro b hb; simpa using (List.mem_filter.mp hb).2
  rcases resync_spec start ack chain with ⟨h1, h2, _⟩ | ⟨h1, pre, b, post, txpre, tx, txpost, er⟩
  · refine ⟨?_, ?_, ?_⟩
    · rw [h2]; exact blockEnds_pairwise_nextEvent _ _
    · intro c hc; rw [h2] at hc
      exact ⟨blockEnds_nextEvent_ge hc, hlo _ hF c hc⟩
    · intro hwf
      have hp := blockEnds_pairwise_lastChecked (hwf.filter fun b => b.height > start.lastChecked) start
      constructor
      · simpa [blockCommits, h1, h2] using hp
      · rw [h2]; exact hp.imp (fun h => Nat.le_of_lt h)
  · have hcom : (resync start ack chain).commits =
        blockEnds start pre ++ [earlyCur (curAfter start pre) b.height txpre] := by
      rw [er.commits_eq]; simp
    have hpre : ∀ x ∈ pre, start.lastChecked < x.height := by
      intro x hx; apply hF; rw [er.split_blocks]; simp [hx]
    have hb := (mem_of_scan_split er.split_blocks).2
    refine ⟨?_, ?_, ?_⟩
    · rw [hcom, List.pairwise_append]
      refine ⟨blockEnds_pairwise_nextEvent _ _, by simp, ?_⟩
      intro a ha c hc
      have : c = earlyCur (curAfter start pre) b.height txpre := by simpa using hc
      subst this
      have := blockEnds_nextEvent_le_curAfter ha
      simp only [earlyCur, foldl_stepCur_nextEvent]
      omega
    · intro c hc
      rw [hcom, List.mem_append] at hc
      rcases hc with hc | hc
      · exact ⟨blockEnds_nextEvent_ge hc, hlo _ hpre c hc⟩
      · have : c = earlyCur (curAfter start pre) b.height txpre := by simpa using hc
        subst this
        constructor
        · simp only [earlyCur, foldl_stepCur_nextEvent, curAfter_nextEvent]; omega
        · show start.lastChecked ≤ b.height - 1
          omega
    · intro hwf
      have hwfF := hwf.filter fun b => b.height > start.lastChecked
      rw [er.split_blocks] at hwfF
      have hsp := List.pairwise_append.mp hwfF
      have hp := blockEnds_pairwise_lastChecked hsp.1 start
      constructor
      · rw [er.blockCommits_eq h1]; simpa using hp
      · rw [hcom, List.pairwise_append]
        refine ⟨hp.imp (fun h => Nat.le_of_lt h), by simp, ?_⟩
        intro a ha c hc
        have : c = earlyCur (curAfter start pre) b.height txpre := by simpa using hc
        subst this
        obtain ⟨x, hx, e⟩ := blockEnds_lastChecked_mem ha
        have := hsp.2.2 x hx b (by simp)
        show a.lastChecked ≤ b.height - 1
        omega

/-! ### 8. Bridge lemmas: the source conditions and writes the model was written from -/

theorem fact_conn_resync_conds : Generated.conn_resync_conds =
    "to > latestBlock | err != nil | tx.Type == uint64(transaction.TypeSend) | sendData.To != ctx.MinterMultisigAddr | err != nil | cmd.ValidateAndComplete(value) == nil | currentNonce > 0 && currentNonce < ctx.LastEventNonce() | tx.Type == uint64(transaction.TypeMultisend) && tx.From == ctx.MinterMultisigAddr | currentNonce > 0 && currentNonce < ctx.LastEventNonce() | tx.Type == uint64(transaction.TypeEditMultisig) && tx.From == ctx.MinterMultisigAddr | err != nil | currentNonce > 0 && currentNonce < ctx.LastEventNonce()" := rfl
theorem fact_conn_resync_writes : Generated.conn_resync_writes =
    "ctx.SetLastCheckedMinterBlock(block.Height - 1) ; ctx.Commit() ; ctx.SetLastEventNonce(ctx.LastEventNonce() + 1) ; ctx.SetLastCheckedMinterBlock(block.Height - 1) ; ctx.Commit() ; ctx.SetLastEventNonce(ctx.LastEventNonce() + 1) ; ctx.SetLastBatchNonce(ctx.LastBatchNonce() + 1) ; ctx.SetLastCheckedMinterBlock(block.Height - 1) ; ctx.Commit() ; ctx.SetLastValsetNonce(uint64(nonce)) ; ctx.SetLastEventNonce(ctx.LastEventNonce() + 1) ; ctx.SetLastCheckedMinterBlock(block.Height) ; ctx.Commit()" := rfl
theorem fact_conn_relay_conds : Generated.conn_relay_conds =
    "latestBlock-ctx.LastCheckedMinterBlock() > 100 | to > latestBlock | err != nil | tx.Type == uint64(transaction.TypeSend) | sendData.To != cfg.Minter.MultisigAddr | err != nil | err != nil | tx.Type == uint64(transaction.TypeMultisend) && tx.From == cfg.Minter.MultisigAddr | tx.Type == uint64(transaction.TypeEditMultisig) && tx.From == cfg.Minter.MultisigAddr | err != nil | len(deposits) == 0 && len(batches) == 0 && len(valsets) == 0 | len(deposits) > 0 || len(batches) > 0 || len(valsets) > 0" := rfl
theorem fact_conn_relay_writes : Generated.conn_relay_writes =
    "ctx.SetLastCheckedMinterBlock(block.Height) ; ctx.SetLastEventNonce(ctx.LastEventNonce() + 1) ; ctx.SetLastEventNonce(ctx.LastEventNonce() + 1) ; ctx.SetLastBatchNonce(ctx.LastBatchNonce() + 1) ; ctx.SetLastEventNonce(ctx.LastEventNonce() + 1) ; ctx.SetLastValsetNonce(uint64(nonce)) ; ctx.Commit() ; ctx.Commit()" := rfl
theorem fact_cmd_conds : Generated.cmd_conds =
    "!common.IsHexAddress(cmd.Recipient) | err != nil | !ok | fee.IsNegative() | amount.Sub(amount.QuoRaw(100)).LTE(fee)" := rfl
theorem fact_cmd_cases : Generated.cmd_cases = "TypeSendToEth,TypeSendToBsc | TypeSendToHub | " := rfl

/-! ### 9. Non-vacuity -/

/-- A history used by the examples: heights 10, 11, 13; five bridge events. -/
def exChain : List MBlock :=
  [⟨10, [.send true true true, .other, .send true true false]⟩,
   ⟨11, [.multisend true, .editMultisig true (some 7), .multisend false]⟩,
   ⟨13, [.send true true true, .send true true true]⟩]

example : ChainWF exChain := by simp [ChainWF, exChain]

/-- A consistent multi-block scan (acknowledged nonce 9 = last nonce assigned): three block-end
    commits, all consistent, batch and valset nonces advanced. -/
example : (resync ⟨9, 5, 1, 0⟩ 9 exChain).stopped = false ∧
    (resync ⟨9, 5, 1, 0⟩ 9 exChain).commits = [⟨10, 6, 1, 0⟩, ⟨11, 8, 2, 7⟩, ⟨13, 10, 2, 7⟩] ∧
    ((resync ⟨9, 5, 1, 0⟩ 9 exChain).commits.all fun c => consistent exChain ⟨9, 5, 1, 0⟩ c) = true := by
  decide

/-- The hypothesis of `large_ack_no_early_return` holds for it. -/
example : (⟨9, 5, 1, 0⟩ : Cursor).nextEvent + eventsAbove exChain 9 ≤ 9 + 1 := by decide

/-- An early return at the FIRST bridge event of a block (ack 7 < nonce 8 when entering block
    13): persisted cursor (12,8,2,7), consistent. -/
example : (resync ⟨9, 5, 1, 0⟩ 7 exChain).stopped = true ∧
    (resync ⟨9, 5, 1, 0⟩ 7 exChain).commits = [⟨10, 6, 1, 0⟩, ⟨11, 8, 2, 7⟩, ⟨12, 8, 2, 7⟩] ∧
    consistent exChain ⟨9, 5, 1, 0⟩ ⟨12, 8, 2, 7⟩ = true := by
  decide

/-- An early return at the SECOND bridge event of a block (ack 8): persisted cursor (12,9,2,7),
    inconsistent — block 13 will be scanned again with nonce 9 instead of 8. -/
example : (resync ⟨9, 5, 1, 0⟩ 8 exChain).stopped = true ∧
    (resync ⟨9, 5, 1, 0⟩ 8 exChain).commits.getLast? = some ⟨12, 9, 2, 7⟩ ∧
    consistent exChain ⟨9, 5, 1, 0⟩ ⟨12, 9, 2, 7⟩ = false := by
  decide

/-- The guard of `cursor_consistent_partial` is satisfiable by a history with events. -/
example : ∀ b ∈ [(⟨10, [.send true true true, .other]⟩ : MBlock), ⟨12, [.multisend true]⟩],
    (b.txs.filter countsInResync).length ≤ 1 := by decide

/-- Command validation: fee 98 of amount 100 is accepted, fee 99 is not (100 - 100/100 = 99),
    negative or missing fees are not; amount -5 tolerates no fee at all. -/
example : commandValid true true (some 98) 100 = true ∧ commandValid true true (some 99) 100 = false ∧
    commandValid true true (some (-1)) 100 = false ∧ commandValid true true none 100 = false ∧
    commandValid false true (some 1) 100 = false ∧ commandValid true false (some 1) 100 = false ∧
    commandValid true true (some 0) (-5) = false := by decide

end Mhub2.C20
