/-
  C13 — Batches are invalidated only when they can no longer execute.
  Property theorems only; helper lemmas live in Lemmas/Ledger.lean.

  `Hub.LedgerInv` is the ledger invariant of C04 (ids of one chain pairwise distinct, batch nonces
  of one chain pairwise distinct and bounded by the counters); `Hub.Bounded` says the id and
  batch-nonce counters fit in a `uint64`, as they do in the implementation (the store keys encode
  them in 8 bytes, so without the bound two batches could share a key).
-/
import Mhub2.Step
import Mhub2.Generated.Facts
import Lemmas.Ledger
namespace Mhub2.C13
open Mhub2

/-- Begin block cancels a batch only if its timeout is below the last observed external height of
    its chain, and every transfer of a batch cancelled that way is back in the pool. -/
theorem timeout_cancel_sound {h h' : Hub} {c : String} (hi : h.LedgerInv) (hb : h.Bounded)
    (hok : h.cleanupTimedOutBatches c = .ok h') {b : Batch} (hbm : b ∈ (h.chain c).batches)
    (hnb : b ∉ (h'.chain c).batches) :
    b.timeout < (h.chain c).obsExtHeight ∧
    (∀ t ∈ b.txs, t ∈ (h'.chain c).pool) ∧
    (∀ t ∈ b.txs, t.id ∈ (h'.chain c).pool.map (·.id)) := by
  obtain ⟨hev, _⟩ := cleanup_evo hi hb hok
  obtain ⟨h1, h2⟩ := hev.removed b hbm hnb
  exact ⟨h1, h2, fun t ht => List.mem_map.mpr ⟨t, h2 t ht, rfl⟩⟩

/-- Conversely every batch whose timeout is below the observed height is cancelled, the others all
    stay, pool entries stay, other chains are untouched, and no id is lost or created. -/
theorem timeout_cancel_complete {h h' : Hub} {c : String} (hi : h.LedgerInv) (hb : h.Bounded)
    (hok : h.cleanupTimedOutBatches c = .ok h') :
    (∀ b ∈ (h.chain c).batches, b.timeout < (h.chain c).obsExtHeight → b ∉ (h'.chain c).batches) ∧
    (∀ b ∈ (h'.chain c).batches, b ∈ (h.chain c).batches) ∧
    (∀ s ∈ (h.chain c).pool, s ∈ (h'.chain c).pool) ∧
    (∀ c', c ≠ c' → h'.chain c' = h.chain c') ∧
    (h'.chain c).ids.Perm (h.chain c).ids ∧ h'.LedgerInv := by
  obtain ⟨hev, hrm⟩ := cleanup_evo hi hb hok
  refine ⟨hrm, fun b hb' => hev.bsub.subset hb', hev.poolKeep, hev.only, ?_, hev.inv⟩
  have hk := hev.keeps c
  have hci := Hub.ledgerInv_iff.mp hi c
  have hci' := Hub.ledgerInv_iff.mp hev.inv c
  rw [List.perm_ext_iff_of_nodup hci'.nodup hci.nodup]
  intro id
  constructor
  · intro hid
    rcases hk.sub id hid with h1 | h1
    · exact h1
    · have := hev.ctr.1; omega
  · exact fun hid => hk.keep_ids hci (hev.bnd c) hid

/-- Begin block never removes a batch of chain "minter" (it only adds batches there), and leaves
    the state of chain "hub" untouched. -/
theorem begin_block_never_touches_minter_batches {h h' : Hub} (hi : h.LedgerInv) (hb : h'.Bounded)
    (hok : h.beginBlock = .ok h') :
    (∀ b ∈ (h.chain "minter").batches, b ∈ (h'.chain "minter").batches) ∧
    h'.chain "hub" = h.chain "hub" := by
  obtain ⟨hbk, hhub⟩ := beginBlock_bk hok
  exact ⟨hbk.2 hi hb, hhub⟩

/-- `CancelBatchTx` refuses chain "minter" with a panic, whatever the batch. -/
theorem cancel_batch_minter_panics (h : Hub) (t : String) (n : Nat) :
    h.cancelBatch "minter" t n = .error (.panic "CANNOT CANCEL MINTER BATCH") := by
  simp [Hub.cancelBatch, panicM]

/-- On any other chain `CancelBatchTx` fails only when the batch does not exist. -/
theorem cancel_batch_other_ok {h : Hub} {c t : String} {n : Nat} {b : Batch} (hc : c ≠ "minter")
    (hf : h.findBatch c t n = some b) : ∃ h', h.cancelBatch c t n = .ok h' := by
  have : (c == "minter") = false := by simpa using hc
  simp [Hub.cancelBatch, this, hf]

/-- `batchTxExecuted` removes from the batch store of its chain exactly the executed batch and —
    unless the chain is "minter" — the batches of the same token with a smaller nonce (which the
    contract can no longer execute: `state_lastBatchNonces[token] < _batchNonce` fails for them).
    The transfers of those older batches are back in the pool, the transfers of the executed batch
    are nowhere on the chain, and nothing else leaves the pool or enters the batch store. -/
theorem executed_removes_exactly {h h' : Hub} {c tok tx payer : String} {n : Nat} {fp : Int} {b : Batch}
    (hi : h.LedgerInv) (hb : h'.Bounded)
    (hok : h.batchExecuted c tok n tx fp payer = .ok h') (hfb : h.findBatch c tok n = some b) :
    (∀ o ∈ (h.chain c).batches, o ∉ (h'.chain c).batches ↔
      (o = b ∨ (c ≠ "minter" ∧ o.extToken = b.extToken ∧ o.nonce < b.nonce))) ∧
    (∀ o ∈ (h'.chain c).batches, o ∈ (h.chain c).batches) ∧
    (∀ o ∈ (h.chain c).batches, c ≠ "minter" → o.extToken = b.extToken → o.nonce < b.nonce →
      ∀ t ∈ o.txs, t ∈ (h'.chain c).pool ∧ t.id ∈ (h'.chain c).pool.map (·.id)) ∧
    (∀ s ∈ (h.chain c).pool, s ∈ (h'.chain c).pool) ∧
    (∀ t ∈ b.txs, t.id ∉ (h'.chain c).ids) := by
  obtain ⟨h1, h2, h3, h4, h5⟩ := batchExecuted_exact hi hb hok hfb
  exact ⟨h1, h2, fun o ho hc he hn t ht =>
    ⟨h3 o ho hc he hn t ht, List.mem_map.mpr ⟨t, h3 o ho hc he hn t ht, rfl⟩⟩, h4, h5⟩

/-- An executed-batch event for a batch that is not in the store changes nothing. -/
theorem executed_unknown_batch_noop {h h' : Hub} {c tok tx payer : String} {n : Nat} {fp : Int}
    (hok : h.batchExecuted c tok n tx fp payer = .ok h') (hfb : h.findBatch c tok n = none) : h' = h := by
  rcases batchExecuted_decomp hok with ⟨_, he⟩ | ⟨b, _, hfb', _⟩
  · exact he
  · rw [hfb] at hfb'; cases hfb'

/-- On every chain other than its own and "minter", `batchTxExecuted` changes nothing; on "minter"
    (when it is not the batch's chain) it only issues fresh ids. -/
theorem executed_other_chains {h h' : Hub} {c tok tx payer : String} {n : Nat} {fp : Int}
    (hok : h.batchExecuted c tok n tx fp payer = .ok h') (c' : String) (h1 : c ≠ c') (h2 : "minter" ≠ c') :
    h'.chain c' = h.chain c' := by
  rcases batchExecuted_decomp hok with ⟨_, he⟩ | ⟨b, v, _, hv, hm⟩
  · rw [he]
  · rw [hm.only c' h2, chain_setChain_ne _ _ h1, (executed_cancel_phase hv).2.1 c' h1]

/-! Bridge lemmas: the source expressions the model was written from. -/
theorem fact_batch_timeout_cond : Generated.batch_timeout_cond = "btx.Timeout < externalHeight" := rfl
theorem fact_batch_timeout_height_src : Generated.batch_timeout_height_src =
    "k.GetLastObservedExternalBlockHeight(ctx, chainId)" := rfl
theorem fact_executed_cancel_cond : Generated.executed_cancel_cond =
    "(btx.BatchNonce < batchTx.BatchNonce) && (btx.ExternalTokenId == batchTx.ExternalTokenId)" := rfl
theorem fact_executed_minter_guard : Generated.executed_minter_guard = "chainId != \"minter\"" := rfl
theorem fact_cancel_batch_conds : Generated.cancel_batch_conds = "chainId == \"minter\"" := rfl
theorem fact_begin_conds : Generated.begin_conds = "chainId == \"hub\" | chainId != \"minter\"" := rfl
theorem fact_begin_order : Generated.begin_order =
    "cleanupTimedOutBatchTxs,cleanupTimedOutContractCallTxs,createSignerSetTxs,createBatchTxs,pruneSignerSetTxs" := rfl


/-! ### Non-vacuity -/

def exSte (id : Nat) (tx : String) : Ste :=
  { id := id, sender := "a", recipient := "r", tokenId := 1, extToken := "T", amount := 1, fee := 0, comm := 0,
    chain := "e", txHash := tx, createdAt := 0, refundAddr := "a", refundChain := "hub" }
/-- Two batches of token "T": nonce 1 times out at external height 5, nonce 2 at 50; height 10 observed. -/
def exChain : ChainSt :=
  { batches := [⟨1, 5, 1, 1, "T", [exSte 1 "x"]⟩, ⟨2, 50, 1, 2, "T", [exSte 2 "y"]⟩],
    obsExtHeight := 10, lastSteId := 2, lastBatchNonce := 2 }
def exHub : Hub := { chains := ["e"], cs := [("e", exChain)], tokens := [⟨1, "hub", "e", "T", 18, 0⟩] }

/-- The clean-up cancels batch 1 only and its transfer is back in the pool. -/
example : (match exHub.cleanupTimedOutBatches "e" with
    | .ok h' => ((h'.chain "e").batches.map Batch.nonce == [2]) && ((h'.chain "e").pool.map Ste.id == [1])
    | _ => false) = true := by decide +kernel
/-- Executing batch 2 removes it and cancels the older batch 1, whose transfer is back in the pool. -/
example : (match exHub.batchExecuted "e" "T" 2 "tx" 0 "p" with
    | .ok h' => ((h'.chain "e").batches.isEmpty) && ((h'.chain "e").pool.map Ste.id == [1])
    | _ => false) = true := by decide +kernel
example : exHub.Bounded := Hub.bounded_of_all (by decide +kernel)
example : exHub.LedgerInv := Hub.ledgerInv_of_all (by decide +kernel)

/-- Tie to the code: a genesis import sets the observed external height (the only height batch timeouts are compared with) from the
    exported field and from nothing else — not from vote records, claims or the wall clock. -/
theorem fact_genesis_import_counters : Generated.genesis_import_counters =
    "k.SetLastObservedExternalBlockHeight(ctx, chainId, externalState.LatestBlockHeight.ExternalHeight) | k.setLastObservedEventNonce(ctx, chainId, externalState.LastObservedEventNonce) | k.setLastOutgoingBatchNonce(ctx, chainId, externalState.LastOutgoingBatchTxNonce) | k.setOutgoingSequence(ctx, chainId, externalState.Sequence)" := rfl

end Mhub2.C13
