/-
  C11 — Amounts credited, debited and paid out are exact.
  Property theorems only; helper lemmas live in Lemmas/.
-/
import Mhub2.Votes
import Mhub2.Generated.Facts
import Lemmas.Bank
namespace Mhub2.C11
open Mhub2

/-- A deposit that is applied credits its recipient, and grows the supply, by exactly the
    converted amount (every amount, every decimals setting). -/
theorem deposit_credit {h h' : Hub} {chain coin receiver tx : String} {amount : Int}
    (hok : h.handleSendToHub chain coin amount receiver tx = .ok h') :
    ∃ tok, h.tokenByExt chain coin = some tok ∧
      h'.balance receiver tok.denom = h.balance receiver tok.denom + fromExt tok.dec amount ∧
      h'.supplyOf tok.denom = h.supplyOf tok.denom + fromExt tok.dec amount := by
  unfold Hub.handleSendToHub at hok
  simp only [bind, Except.bind] at hok
  split at hok
  · rename_i tok htok
    refine ⟨tok, htok, ?_⟩
    have hconv : h.fromExternal chain coin amount = fromExt tok.dec amount := by
      simp [Hub.fromExternal, htok]
    rw [hconv] at hok
    split at hok
    · simp [panicM] at hok
    · split at hok
      · simp [failM] at hok
      · split at hok
        · simp at hok
        · rename_i v hv
          simp [pure, Except.pure] at hok
          subst hok
          obtain ⟨_, hb, hs, _⟩ := mintTo_ok hv
          constructor
          · simpa [Hub.balance] using hb
          · simpa [Hub.supplyOf] using hs
  · simp [failM] at hok

/-- The conversion of a deposit is exact for tokens with at most 18 external decimals … -/
theorem deposit_conversion_exact {d : Nat} (hd : d ≤ 18) (amount : Int) :
    fromExt d amount = amount * pow10 (18 - d) := fromExt_le18 hd amount

/-- … and truncates by less than one hub unit otherwise (never rounds up). -/
theorem deposit_conversion_trunc {d : Nat} (hd : 18 < d) (amount : Int) :
    fromExt d amount * pow10 (d - 18) ≤ amount ∧ amount < (fromExt d amount + 1) * pow10 (d - 18) := by
  rw [fromExt_gt18 hd]
  exact floor_bounds amount (pow10_pos _)

/-- What is scheduled for the external chain is exact for `d ≥ 18` and truncated by less than one
    external unit for `d < 18`. -/
theorem scheduled_conversion {d : Nat} (a : Int) :
    (18 ≤ d → toExt d a = a * pow10 (d - 18)) ∧
    (d < 18 → toExt d a * pow10 (18 - d) ≤ a ∧ a < (toExt d a + 1) * pow10 (18 - d)) := by
  constructor
  · intro hd; exact toExt_ge18 hd a
  · intro hd; rw [toExt_lt18 hd]; exact floor_bounds a (pow10_pos _)

/-- A successful withdrawal request debits the sender (and shrinks supply) by exactly
    `amount + fee`, charges `commission = ⌊rate·(amount+fee)⌋` with `0 ≤ rate ≤` the token's
    configured rate, and schedules exactly `amount − commission`, `fee`, `commission`
    (converted to external units) under a fresh id. -/
theorem withdraw_debit {h h' : Hub} {sender chain rcp denom tx : String} {amount fee : Int} {id : Nat}
    (hwf : h.TokensWF)
    (hok : h.sendToExternal sender chain rcp denom amount fee tx = .ok (h', id)) :
    ∃ tok rate comm,
      h.tokenByDenom chain denom = some tok ∧
      rate = h.commissionRateFor ["<bech32>", rcp] tok.commission ∧
      comm = commissionOf rate (amount + fee) ∧ 0 ≤ comm ∧ comm ≤ amount ∧
      h'.balance sender denom = h.balance sender denom - (amount + fee) ∧
      h'.supplyOf denom = h.supplyOf denom - (amount + fee) ∧
      id = (h.chain chain).lastSteId + 1 ∧
      ∃ s ∈ (h'.chain chain).pool, s.id = id ∧ s.sender = sender ∧ s.recipient = rcp ∧
        s.amount = toExt tok.dec (amount - comm) ∧ s.fee = toExt tok.dec fee ∧ s.comm = toExt tok.dec comm ∧
        s.refundChain = "hub" ∧ s.refundAddr = sender := by
  unfold Hub.sendToExternal at hok
  simp only [bind, Except.bind] at hok
  split at hok <;> try (simp [failM] at hok)
  split at hok <;> try (simp [failM] at hok)
  split at hok <;> try (simp [failM] at hok)
  split at hok
  · rename_i tok htok
    split at hok <;> try (simp [panicM] at hok)
    split at hok <;> try (simp [panicM] at hok)
    rename_i hc1 hc2
    refine ⟨tok, _, _, htok, rfl, rfl, by omega, by omega, ?_⟩
    unfold Hub.createSte at hok
    simp only [bind, Except.bind, htok] at hok
    split at hok
    · simp at hok
    · rename_i v hv
      simp [pure, Except.pure] at hok
      obtain ⟨hh, hid⟩ := hok
      obtain ⟨_, _, hb, hs, hcs, htoks, _, _⟩ := burnFrom_ok hv
      have hchain : v.chain chain = h.chain chain := by simp [Hub.chain, hcs]
      have htokv : v.tokenByExt chain tok.extId = h.tokenByExt chain tok.extId := by
        simp [Hub.tokenByExt, htoks]
      subst hh
      refine ⟨?_, ?_, ?_, ?_⟩
      · simp only [Hub.balance, setChain_bal] at hb ⊢
        rw [hb]; omega
      · simp only [Hub.supplyOf, setChain_supply] at hs ⊢
        rw [hs]; omega
      · rw [← hid, hchain]
      · rw [chain_setChain]
        refine ⟨_, mem_insertByKey _ _ _, ?_⟩
        simp only [hchain] at hid ⊢
        obtain ⟨hmem, hch, _⟩ := tokenByDenom_some htok
        have hte : ∀ x, v.toExternal chain tok.extId x = toExt tok.dec x := by
          intro x
          have := tokenByExt_of_mem hwf hmem
          rw [hch] at this
          simp [Hub.toExternal, htokv, this]
        simp [hid, hte]
  · simp [failM] at hok

/-- The commission is the truncated product of the holder-adjusted rate and `amount + fee`; the
    rate lies between zero and the token's configured rate (tiers only reduce it). -/
theorem commission_bound (h : Hub) (addrs : List String) {rate x : Int} (hr : 0 ≤ rate) (hx : 0 ≤ x) :
    let r := h.commissionRateFor addrs rate
    0 ≤ r ∧ r ≤ rate ∧
    commissionOf r x * decOne ≤ r * x ∧ r * x < (commissionOf r x + 1) * decOne ∧
    commissionOf r x * decOne ≤ rate * x := by
  intro r
  have hb := commissionRate_bounds hr (addrs.foldl (fun m a => max (h.holderValue a) m) 0)
  have hr0 : 0 ≤ r := hb.1
  have hle : r ≤ rate := hb.2
  refine ⟨hr0, hle, commissionOf_le hr0 hx, commissionOf_gt hr0 hx, ?_⟩
  exact Int.le_trans (commissionOf_le hr0 hx) (Int.mul_le_mul_of_nonneg_right hle hx)

/-- The six discount tiers (boundaries inclusive). -/
theorem tiers (v : Int) :
    (32 * decOne ≤ v → discountPct v = 60) ∧
    (16 * decOne ≤ v → v < 32 * decOne → discountPct v = 50) ∧
    (8 * decOne ≤ v → v < 16 * decOne → discountPct v = 40) ∧
    (4 * decOne ≤ v → v < 8 * decOne → discountPct v = 30) ∧
    (2 * decOne ≤ v → v < 4 * decOne → discountPct v = 20) ∧
    (1 * decOne ≤ v → v < 2 * decOne → discountPct v = 10) ∧
    (v < 1 * decOne → discountPct v = 0) := by
  rw [decOne_eq]
  unfold discountPct
  rw [decOne_eq]
  refine ⟨?_, ?_, ?_, ?_, ?_, ?_, ?_⟩ <;> intros <;> (repeat' split) <;> omega

/-- Bridge lemmas: the source expressions the model above was written from.  The token table is searched by exact equality (the model's `findTok`), so the id a claim carries and the id a
    batch is stored under are the same string whenever the claim has any effect. -/
theorem fact_token_lookup_conds : Generated.token_lookup_conds =
    "ExternalIdToTokenInfoLookup: info.ChainId == chainId.String() && info.ExternalTokenId == externalId | DenomToTokenInfoLookup: info.Denom == denom && info.ChainId == chainId.String() | TokenIdToTokenInfoLookup: info.Id == tokenId" := rfl
theorem fact_send_commission : Generated.send_commission =
    "k.GetCommissionForHolder(ctx, []string{sender.String(), msg.ExternalRecipient}, tokenInfo.Commission).Mul(msg.Amount.Amount.Add(msg.BridgeFee.Amount).ToDec()).TruncateInt()" := rfl
theorem fact_send_create_args : Generated.send_create_args =
    "ctx | chainId | sender | msg.ExternalRecipient | msg.Amount.SubAmount(commission) | msg.BridgeFee | sdk.NewCoin(msg.Amount.Denom, commission) | fmt.Sprintf(\"%x\", sha256.Sum256(ctx.TxBytes())) | \"hub\" | sender.String()" := rfl
theorem fact_create_order : Generated.create_order =
    "DenomToTokenInfoLookup,SendCoinsFromAccountToModule,BurnCoins,incrementLastSendToExternalIDKey,setUnbatchedSendToExternal" := rfl
theorem fact_sth_convert : Generated.sth_convert =
    "a.keeper.ConvertFromExternalValue(ctx, chainId, event.ExternalCoinId, event.Amount)" := rfl
theorem fact_sth_coin : Generated.sth_coin = "sdk.NewCoin(tokenInfo.Denom, convertedAmount)" := rfl

/-- Non-vacuity: a concrete state in which a withdrawal succeeds. -/
def exHub : Hub := { chains := ["ethereum"], tokens := [⟨1, "hub", "ethereum", "0xT", 6, 10000000000000000⟩],
                     bal := [(("a", "hub"), 1000000000000000000)], supply := [("hub", 1000000000000000000)] }
example : (match exHub.sendToExternal "a" "ethereum" "0xR" "hub" 500000000000000000 1000 "tx" with
    | .ok (_, id) => id == 1 | _ => false) = true := by decide

end Mhub2.C11
