/-
  C19 — Fees and commissions are distributed within what was collected.
  The functions below are the ones `Hub.batchExecuted` (the executable model) calls.
-/
import Mhub2.Ledger
import Mhub2.Generated.Facts
import Lemmas.Fees
namespace Mhub2.C19
open Mhub2

/-- The relayer reimbursement is the smaller of the gas cost and the fees collected. -/
theorem reimbursement_le_total (cost total : Int) :
    reimbursement cost total ≤ total ∧ reimbursement cost total ≤ cost ∧
    (reimbursement cost total = total ∨ reimbursement cost total = cost) := by
  unfold reimbursement; split <;> omega

/-- What is left after the reimbursement never exceeds the fees of the transfers that paid at
    least the average (`fees` in hub units, all non-negative). -/
theorem feeLeft_le_good (fees : List Int) (fee : Int) (hnn : ∀ c ∈ fees, 0 ≤ c)
    (hfee0 : 0 ≤ fee) (hlen : 0 < fees.length) :
    sumInts fees - fee ≤ goodFees fees (Int.tdiv fee fees.length) := by
  -- Σ fees = good + bad, and bad ≤ (#fees)·avg ≤ fee
  have havg : Int.tdiv fee fees.length * fees.length ≤ fee := by
    rw [tdiv_eq_ediv_nonneg hfee0]
    exact Int.ediv_mul_le _ (by omega)
  have havg0 : 0 ≤ Int.tdiv fee fees.length := Int.tdiv_nonneg hfee0 (by omega)
  generalize Int.tdiv fee fees.length = avg at havg havg0
  -- generalise the length to any bound
  have key : ∀ (l : List Int), (∀ c ∈ l, 0 ≤ c) →
      sumInts l ≤ goodFees l avg + avg * l.length := by
    intro l hl
    induction l with
    | nil => simp [goodFees]
    | cons c cs ih =>
      have ihh := ih (fun y hy => hl y (by simp [hy]))
      have hlen : avg * (((c :: cs).length : Nat) : Int) = avg * (cs.length : Int) + avg := by
        simp only [List.length_cons, Int.natCast_add, Int.mul_add]; simp
      rw [hlen, sumInts_cons]
      unfold goodFees at ihh ⊢
      by_cases hge : c ≥ avg
      · have hf : (List.filter (fun f => decide (f ≥ avg)) (c :: cs)) = c :: List.filter (fun f => decide (f ≥ avg)) cs := by
          simp [List.filter_cons, hge]
        rw [hf, sumInts_cons]
        omega
      · have hf : (List.filter (fun f => decide (f ≥ avg)) (c :: cs)) = List.filter (fun f => decide (f ≥ avg)) cs := by
          simp [List.filter_cons, hge]
        rw [hf]
        omega
  have := key fees hnn
  have h2 : avg * (fees.length : Int) ≤ fee := havg
  omega

/-- A fee refund is never negative and never more than the fee that transfer paid. -/
theorem refund_le_paid {feeLeft cf good : Int} (h0 : 0 ≤ feeLeft) (hle : feeLeft ≤ good)
    (hcf : 0 ≤ cf) (hg : 0 < good) :
    0 ≤ refundShare feeLeft cf good ∧ refundShare feeLeft cf good ≤ cf := by
  unfold refundShare
  have hnn : 0 ≤ feeLeft * cf := Int.mul_nonneg h0 hcf
  rw [tdiv_eq_ediv_nonneg hnn]
  constructor
  · exact Int.ediv_nonneg hnn (by omega)
  · have : feeLeft * cf ≤ good * cf := Int.mul_le_mul_of_nonneg_right hle hcf
    calc feeLeft * cf / good ≤ good * cf / good := Int.ediv_le_ediv hg this
      _ = cf := Int.mul_ediv_cancel_left cf (by omega)

/-- All refunds of a batch together stay within what was left of the fees. -/
theorem refunds_sum_le_feeLeft (feeLeft avg : Int) (fees : List Int) (h0 : 0 ≤ feeLeft)
    (hnn : ∀ c ∈ fees, 0 ≤ c) (hg : 0 < goodFees fees avg) :
    sumInts ((fees.filter fun f => f ≥ avg).map fun c => refundShare feeLeft c (goodFees fees avg)) ≤ feeLeft := by
  have hmap : ((fees.filter fun f => f ≥ avg).map fun c => refundShare feeLeft c (goodFees fees avg))
      = ((fees.filter fun f => f ≥ avg).map fun c => (feeLeft * c) / (goodFees fees avg)) := by
    apply List.map_congr_left
    intro c hc
    unfold refundShare
    have : 0 ≤ c := hnn c (List.mem_filter.mp hc).1
    exact tdiv_eq_ediv_nonneg (Int.mul_nonneg h0 this)
  rw [hmap]
  have := sum_floor_le feeLeft (goodFees fees avg) hg (fees.filter fun f => f ≥ avg)
  have hG : sumInts (fees.filter fun f => f ≥ avg) = goodFees fees avg := rfl
  rw [hG, Int.mul_ediv_cancel _ (by omega)] at this
  exact this

/-- Validator commission shares are proportional to power (each within one unit below the exact
    proportion) … -/
theorem commission_share_proportional (V : Int) (p P : Nat) (hV : 0 ≤ V) (hP : 0 < P) :
    commissionShare V p P * P ≤ V * p ∧ V * p < (commissionShare V p P + 1) * P := by
  unfold commissionShare
  have hnn : 0 ≤ V * (p : Int) := Int.mul_nonneg hV (by omega)
  rw [tdiv_eq_ediv_nonneg hnn]
  have hP' : (0 : Int) < P := by omega
  exact ⟨Int.ediv_mul_le _ (by omega), by simpa using Int.lt_ediv_add_one_mul_self (V * p) hP'⟩

/-- … and sum to at most the commission collected. -/
theorem commission_split_le (V : Int) (ps : List Nat) (hV : 0 ≤ V) (hP : 0 < sumNats ps) :
    sumInts (ps.map fun p => commissionShare V p (sumNats ps)) ≤ V := by
  have hmap : (ps.map fun p => commissionShare V p (sumNats ps))
      = ((ps.map fun (p : Nat) => (p : Int)).map fun c => (V * c) / ((sumNats ps : Nat) : Int)) := by
    rw [List.map_map]
    apply List.map_congr_left
    intro p _
    unfold commissionShare
    exact tdiv_eq_ediv_nonneg (Int.mul_nonneg hV (by omega))
  rw [hmap]
  have hsum := sumInts_map_natCast ps
  have hG : (0 : Int) < ((sumNats ps : Nat) : Int) := by omega
  have := sum_floor_le V _ hG (ps.map fun (p : Nat) => (p : Int))
  rw [hsum, Int.mul_ediv_cancel _ (by omega)] at this
  exact this

/-- The fee record (external units) stays between zero and the fee paid, for every decimals
    setting, when the refund (hub units) is within the fee paid (hub units). -/
theorem fee_record_range (d : Nat) {paidExt refundHub : Int} (_hp : 0 ≤ paidExt) (hr0 : 0 ≤ refundHub)
    (hr : refundHub ≤ fromExt d paidExt) :
    0 ≤ feeKept paidExt (toExt d refundHub) ∧ feeKept paidExt (toExt d refundHub) ≤ paidExt := by
  unfold feeKept
  by_cases hd : d < 18
  · have h1 := fromExt_le18 (Nat.le_of_lt hd) paidExt
    rw [toExt_lt18 hd]
    have hpos := pow10_pos (18 - d)
    have hnn : 0 ≤ refundHub / pow10 (18 - d) := Int.ediv_nonneg hr0 (by omega)
    have hle : refundHub / pow10 (18 - d) ≤ paidExt := by
      rw [h1] at hr
      calc refundHub / pow10 (18 - d) ≤ paidExt * pow10 (18 - d) / pow10 (18 - d) := Int.ediv_le_ediv hpos hr
        _ = paidExt := Int.mul_ediv_cancel _ (by omega)
    omega
  · have hd' : 18 ≤ d := by omega
    rw [toExt_ge18 hd']
    have hpos := pow10_pos (d - 18)
    have hnn : 0 ≤ refundHub * pow10 (d - 18) := Int.mul_nonneg hr0 (by omega)
    have hle : refundHub * pow10 (d - 18) ≤ paidExt := by
      by_cases h18 : d = 18
      · subst h18
        have : fromExt 18 paidExt = paidExt := by simp [fromExt, convertDecimals, hubDecimals]
        rw [this] at hr
        simp [pow10]; omega
      · have hgt : 18 < d := by omega
        rw [fromExt_gt18 hgt] at hr
        calc refundHub * pow10 (d - 18) ≤ paidExt / pow10 (d - 18) * pow10 (d - 18) :=
              Int.mul_le_mul_of_nonneg_right hr (by omega)
          _ ≤ paidExt := Int.ediv_mul_le _ (by omega)
    omega

/-- Bridge lemmas: the source expressions behind `reimbursement`, `refundShare`, `feeKept`. -/
theorem fact_executed_arith : Generated.executed_arith =
    "amount := totalValCommission.Amount.Mul(sdk.NewIntFromUint64(val.Power)).Quo(sdk.NewIntFromUint64(totalPower)) | amount := feePaid.ToDec(). Mul(k.oracleKeeper.MustGetTokenPrice(ctx, externalBaseCoin)). Quo(k.oracleKeeper.MustGetTokenPrice(ctx, tokenInfo.Denom)). MulInt64(150). QuoInt64(100). TruncateInt() | fee := sdk.NewCoin(tokenInfo.Denom, amount) | fee := totalFee | feeLeft := totalFee.Sub(fee) | averageFeePaid := fee.Amount.QuoRaw(int64(len(batchTx.Transactions))) | toRefund := feeLeft.Amount.Mul(convertedTxFee).Quo(totalGoodFeePaid) | record.ExternalFee := record.ExternalFee.Sub(k.ConvertToExternalValue(ctx, chainId, tokenInfo.ExternalTokenId, toRefund))" := rfl

/-- Non-vacuity: a concrete distribution satisfying all hypotheses. -/
example : goodFees [5, 1, 9] (Int.tdiv 6 3) = 14 ∧ sumInts [5, 1, 9] - 6 ≤ 14 ∧
    refundShare 9 5 14 = 3 ∧ reimbursement 6 15 = 6 := by decide

end Mhub2.C19
