/-
  C16 — Confirmations are attributable, unique and correctly queryable.

  About `Hub.confirm` (MsgSubmitTxConfirmation), `Hub.confirmations`
  (SignerSetTxConfirmations / BatchTxConfirmations), `Hub.unsignedSets` and `Hub.unsignedBatches`.
  A stored confirmation is a `SigRec` (store index of the outgoing tx, validator, signature) kept
  under the key `sigKey r = r.index ++ hexToBytes r.val`.

  Property theorems only; helper lemmas live in Lemmas/Keys.lean.
-/
import Mhub2.Step
import Mhub2.Generated.Facts
import Lemmas.Keys
namespace Mhub2.C16
open Mhub2

/-! ### 1. When a confirmation is recorded -/

/-- A confirmation is recorded only for a known chain, by a signer that resolves to a bonded
    validator `v`, for an outgoing tx that exists, with the external address registered for `v`
    (non-zero), and only if `v` has not confirmed that tx before; the store then holds exactly one
    more record, `⟨index, v, sig⟩`; nothing else changes. -/
theorem confirm_recorded_only_if {h h' : Hub} {chain signer ext sig : String} {k : ConfKind}
    (hok : h.confirm chain signer k ext sig = .ok h') :
    h.hasChain chain = true ∧ k.nonce ≠ 0 ∧
    ∃ v, h.signerValidator chain signer = .ok v ∧ h.outgoingExists chain k = true ∧
      alGet (h.chain chain).valExt v = some ext ∧ ext ≠ zeroEth ∧
      ¬ (∃ r ∈ (h.chain chain).sigs, sigKey r = k.index chain ++ hexToBytes v) ∧
      h' = h.setChain chain { h.chain chain with
        sigs := insertByKey sigKey ⟨k.index chain, v, sig⟩ (h.chain chain).sigs } ∧
      (h'.chain chain).sigs.Perm (⟨k.index chain, v, sig⟩ :: (h.chain chain).sigs) ∧
      (∀ ch, ch ≠ chain → h'.chain ch = h.chain ch) := by
  obtain ⟨hn, hc, v, hv, ho, he, hz, hd, e⟩ := confirm_ok hok
  refine ⟨hc, hn, v, hv, ho, he, hz, ?_, e, ?_, fun ch hne => confirm_other_chain hok hne⟩
  · rintro ⟨r, hr, hk⟩; exact hd r hr hk
  · rw [e, chain_setChain]
    exact insertByKey_perm_fresh (fun y hy => hd y hy)

/-- Only the confirmations of that chain change: every other part of the chain's state and of the
    hub is as before. -/
theorem confirm_frame {h h' : Hub} {chain signer ext sig : String} {k : ConfKind}
    (hok : h.confirm chain signer k ext sig = .ok h') :
    (∃ l, h'.chain chain = { h.chain chain with sigs := l }) ∧
    h'.chains = h.chains ∧ h'.tokens = h.tokens ∧ h'.bal = h.bal ∧ h'.supply = h.supply ∧
    h'.status = h.status ∧ h'.feeRec = h.feeRec ∧ h'.staking = h.staking ∧ h'.params = h.params ∧
    h'.height = h.height ∧ h'.time = h.time := by
  obtain ⟨_, _, v, _, _, _, _, _, e⟩ := confirm_ok hok
  subst e
  exact ⟨⟨_, chain_setChain _ _ _⟩, rfl, rfl, rfl, rfl, rfl, rfl, rfl, rfl, rfl, rfl⟩

/-! ### 2. At most one confirmation per (outgoing tx, validator) -/

/-- `confirm` keeps the keys of the stored confirmations pairwise distinct. -/
theorem confirm_keeps_keys_distinct {h h' : Hub} {chain signer ext sig : String} {k : ConfKind}
    (hok : h.confirm chain signer k ext sig = .ok h')
    (hd : ∀ ch, DistinctKeys sigKey (h.chain ch).sigs) :
    ∀ ch, DistinctKeys sigKey (h'.chain ch).sigs := by
  intro ch
  by_cases hc : ch = chain
  · subst hc
    obtain ⟨_, _, v, _, _, _, _, hfresh, e⟩ := confirm_ok hok
    rw [e, chain_setChain]
    exact (hd ch).insert_fresh (fun y hy => hfresh y hy)
  · rw [confirm_other_chain hok hc]; exact hd ch

/-- In any state reached by confirmations from a state whose stored confirmations have pairwise
    distinct keys, the keys stay pairwise distinct. -/
theorem one_per_validator_per_tx (h : Hub) (ms : List ConfMsg)
    (hd : ∀ ch, DistinctKeys sigKey (h.chain ch).sigs) :
    ∀ ch, DistinctKeys sigKey ((h.confirmMany ms).chain ch).sigs := by
  induction ms generalizing h with
  | nil => exact hd
  | cons m ms ih =>
    unfold Hub.confirmMany
    apply ih
    split
    · rename_i h' hok; exact confirm_keeps_keys_distinct hok hd
    · exact hd

/-- Distinct keys mean: one stored confirmation per (store index, validator bytes). -/
theorem one_record_per_key {l : List SigRec} (hd : DistinctKeys sigKey l) {r1 r2 : SigRec}
    (h1 : r1 ∈ l) (h2 : r2 ∈ l) (hi : r1.index = r2.index) (hv : r1.val = r2.val) : r1 = r2 :=
  hd.inj h1 h2 (by unfold sigKey; rw [hi, hv])

/-- The keys are pairwise distinct (indeed sorted) in every state reachable from genesis. -/
theorem keys_distinct_reachable (ops : List Op) (ch : String) :
    SortedBy sigKey ((runOps ops).chain ch).sigs ∧ DistinctKeys sigKey ((runOps ops).chain ch).sigs :=
  ⟨(sigsInv_reachable ops ch).sorted, (sigsInv_reachable ops ch).sorted.keysDistinct⟩

/-- A second confirmation of the same outgoing tx by the same validator — sent by the validator
    or by any of its orchestrators, with any signature — is rejected. -/
theorem second_confirm_fails {h h' : Hub} {chain s1 s2 e1 e2 g1 g2 v : String} {k : ConfKind}
    (hok : h.confirm chain s1 k e1 g1 = .ok h')
    (hv1 : h.signerValidator chain s1 = .ok v) (hv2 : h.signerValidator chain s2 = .ok v) :
    ∃ e, h'.confirm chain s2 k e2 g2 = .error e := by
  cases hc : h'.confirm chain s2 k e2 g2 with
  | error e => exact ⟨e, rfl⟩
  | ok h'' =>
    exfalso
    obtain ⟨_, _, v1, hr1, _, _, _, _, e⟩ := confirm_ok hok
    obtain ⟨_, _, v2, hr2, _, _, _, hfresh, _⟩ := confirm_ok hc
    rw [confirm_signerValidator hok, hv2] at hr2
    rw [hv1] at hr1
    injection hr1 with hr1
    injection hr2 with hr2
    subst hr1 hr2
    have hm : (⟨k.index chain, v, g1⟩ : SigRec) ∈ (h'.chain chain).sigs := by
      rw [e, chain_setChain]; exact mem_insertByKey _ _ _
    exact hfresh _ hm rfl

/-! ### 3. The confirmations query -/

/-- The query returns, in store order, one pair per stored record whose key has the index of the
    outgoing tx as a byte prefix: the signature, and the external address registered for the
    validator whose address bytes are the rest of the key. -/
theorem confirmations_query_exact (h : Hub) (chain : String) (k : ConfKind) :
    h.confirmations chain k =
      ((h.chain chain).sigs.filter fun r => isPrefix (k.index chain) (r.index ++ hexToBytes r.val)).map
        fun r => ((alGet (h.chain chain).valExt
          (hexOfBytes ((r.index ++ hexToBytes r.val).drop (k.index chain).length))).getD zeroEth, r.sig) :=
  rfl

/-- When "has the index as a prefix" coincides with "is stored under that index" for the stored
    records, and validator addresses are canonical hex, the query returns exactly the
    confirmations of that outgoing tx with the signers' registered external addresses. -/
theorem confirmations_by_index {h : Hub} {chain : String} {k : ConfKind}
    (hpf : ∀ r ∈ (h.chain chain).sigs, isPrefix (k.index chain) (sigKey r) = true →
      r.index = k.index chain)
    (hhex : ∀ r ∈ (h.chain chain).sigs, hexOfBytes (hexToBytes r.val) = r.val) :
    h.confirmations chain k =
      ((h.chain chain).sigs.filter fun r => r.index == k.index chain).map
        fun r => ((alGet (h.chain chain).valExt r.val).getD zeroEth, r.sig) := by
  unfold Hub.confirmations
  simp only
  have hf : (h.chain chain).sigs.filter (fun r => isPrefix (k.index chain) (sigKey r)) =
      (h.chain chain).sigs.filter (fun r => r.index == k.index chain) := by
    apply List.filter_congr
    intro r hr
    cases hp : isPrefix (k.index chain) (sigKey r) with
    | true => rw [hpf r hr hp]; simp
    | false =>
      cases he : (r.index == k.index chain) with
      | false => rfl
      | true =>
        have : r.index = k.index chain := by simpa using he
        unfold sigKey at hp
        rw [this, isPrefix_append_self] at hp
        cases hp
  rw [hf]
  apply List.map_congr_left
  intro r hr
  obtain ⟨hm, he⟩ := List.mem_filter.mp hr
  have : r.index = k.index chain := by simpa using he
  unfold sigKey
  rw [this, drop_append_length, hhex r hm]

/-- Signer-set indices have a fixed width: the index of set `n` is a prefix of a key stored under
    the index of set `n'` only if the indices are equal (so `n' = n` for `uint64` nonces), and never
    of a key stored under a batch index. -/
theorem sig_key_prefix_free_sets (chain : String) (n : Nat) (valBytes : Bytes) :
    (∀ n', isPrefix (setIndex chain n) (setIndex chain n' ++ valBytes) = true →
      setIndex chain n' = setIndex chain n ∧ (n < 2 ^ 64 → n' < 2 ^ 64 → n' = n)) ∧
    (∀ t n', isPrefix (setIndex chain n) (batchIndex chain t n' ++ valBytes) = false) := by
  refine ⟨?_, fun t n' => setIndex_not_prefix_batch chain t n n' valBytes⟩
  intro n' hp
  have := (setIndex_prefix_iff chain n n' valBytes).mp hp
  exact ⟨this.symm, fun h1 h2 => (setIndex_inj h1 h2 this).symm⟩

/-- A record of a different set nonce is never included in the confirmations of set `n`. -/
theorem other_set_not_included {chain : String} {n n' : Nat} (hn : n < 2 ^ 64) (hn' : n' < 2 ^ 64)
    (hne : n' ≠ n) (valBytes : Bytes) :
    isPrefix (setIndex chain n) (setIndex chain n' ++ valBytes) = false := by
  cases hp : isPrefix (setIndex chain n) (setIndex chain n' ++ valBytes) with
  | false => rfl
  | true => exact absurd (((sig_key_prefix_free_sets chain n valBytes).1 n' hp).2 hn hn') hne

/-- The signer-set query is exact whenever every stored record sits under a signer-set or batch
    index of the chain (an invariant of the reachable states, see below). -/
theorem confirmations_set_exact {h : Hub} {chain : String} (n : Nat)
    (hidx : ∀ r ∈ (h.chain chain).sigs, ∃ k : ConfKind, r.index = k.index chain)
    (hhex : ∀ r ∈ (h.chain chain).sigs, hexOfBytes (hexToBytes r.val) = r.val) :
    h.confirmations chain (.set n) =
      ((h.chain chain).sigs.filter fun r => r.index == setIndex chain n).map
        fun r => ((alGet (h.chain chain).valExt r.val).getD zeroEth, r.sig) := by
  refine confirmations_by_index (k := .set n) ?_ hhex
  intro r hr hp
  obtain ⟨k', hk'⟩ := hidx r hr
  unfold sigKey at hp
  rw [hk'] at hp ⊢
  cases k' with
  | set n' =>
    have hp' : isPrefix (setIndex chain n) (setIndex chain n' ++ hexToBytes r.val) = true := hp
    exact ((sig_key_prefix_free_sets chain n _).1 n' hp').1
  | batch t n' =>
    have hp' : isPrefix (setIndex chain n) (batchIndex chain t n' ++ hexToBytes r.val) = true := hp
    rw [(sig_key_prefix_free_sets chain n (hexToBytes r.val)).2 t n'] at hp'
    cases hp'

/-- … in particular in every state reachable from genesis (validator addresses canonical hex). -/
theorem confirmations_set_exact_reachable (ops : List Op) (chain : String) (n : Nat)
    (hhex : ∀ r ∈ ((runOps ops).chain chain).sigs, hexOfBytes (hexToBytes r.val) = r.val) :
    (runOps ops).confirmations chain (.set n) =
      (((runOps ops).chain chain).sigs.filter fun r => r.index == setIndex chain n).map
        fun r => ((alGet ((runOps ops).chain chain).valExt r.val).getD zeroEth, r.sig) :=
  confirmations_set_exact n
    (fun r hr => by
      obtain ⟨k, _, hk⟩ := (sigsInv_reachable ops chain).index r hr
      exact ⟨k, hk⟩) hhex

/-- Batch indices contain the variable-width token id.  The batch query never includes a
    signer-set record, and is exact against batch records whose token id has the same byte length
    (e.g. all 42-character contract addresses) … -/
theorem sig_key_prefix_free_batches_partial (chain t : String) (n : Nat) (valBytes : Bytes) :
    (∀ n', isPrefix (batchIndex chain t n) (setIndex chain n' ++ valBytes) = false) ∧
    (∀ t' n', (strBytes t).length = (strBytes t').length →
      isPrefix (batchIndex chain t n) (batchIndex chain t' n' ++ valBytes) = true →
      batchIndex chain t' n' = batchIndex chain t n ∧ (n < 2 ^ 64 → n' < 2 ^ 64 → t' = t ∧ n' = n)) := by
  refine ⟨fun n' => batchIndex_not_prefix_set chain t n n' valBytes, ?_⟩
  intro t' n' hl hp
  have := (batchIndex_prefix_same_length valBytes hl).mp hp
  refine ⟨this.symm, fun h1 h2 => ?_⟩
  obtain ⟨a, b⟩ := batchIndex_inj h1 h2 hl this
  exact ⟨a.symm, b.symm⟩

/-- … and, for token ids of any widths, whenever token ids contain no zero byte and batch nonces
    are below 2^56 (the leading zero byte of the big-endian nonce then ends the token id). -/
theorem sig_key_prefix_free_batches_small_nonces {chain t t' : String} {n n' : Nat} (valBytes : Bytes)
    (ht : ∀ b ∈ strBytes t, b ≠ 0) (ht' : ∀ b ∈ strBytes t', b ≠ 0)
    (hn : n < 2 ^ 56) (hn' : n' < 2 ^ 56)
    (hp : isPrefix (batchIndex chain t n) (batchIndex chain t' n' ++ valBytes) = true) :
    t' = t ∧ n' = n := by
  obtain ⟨a, b⟩ := batchIndex_prefix_free valBytes ht ht' hn hn' hp
  exact ⟨a.symm, b.symm⟩

/-- Without such a restriction the batch query is NOT prefix-free (documented gap): the index of
    batch ("12", 1) is a prefix of the key of a confirmation of batch ("1", 50·2^56) by a validator
    whose address starts with byte 0x01; that record would be returned by the query for
    ("12", 1), with the validator address read at the wrong offset.  (It needs a batch nonce of at
    least 2^56, which `lastBatchNonce + 1` does not reach in practice.) -/
theorem batch_prefix_collision :
    isPrefix (batchIndex "c" "12" 1)
      (batchIndex "c" "1" 3602879701896396800 ++ hexToBytes "0100000000000000000000000000000000000000") = true ∧
    batchIndex "c" "12" 1 ≠ batchIndex "c" "1" 3602879701896396800 := by
  decide +kernel

/-- The batch query is exact under the "no zero byte, nonces below 2^56" restriction on the stored
    batch records and on the query. -/
theorem confirmations_batch_exact {h : Hub} {chain t : String} {n : Nat}
    (ht : ∀ b ∈ strBytes t, b ≠ 0) (hn : n < 2 ^ 56)
    (hidx : ∀ r ∈ (h.chain chain).sigs, (∃ n', r.index = setIndex chain n') ∨
      (∃ t' n', r.index = batchIndex chain t' n' ∧ (∀ b ∈ strBytes t', b ≠ 0) ∧ n' < 2 ^ 56))
    (hhex : ∀ r ∈ (h.chain chain).sigs, hexOfBytes (hexToBytes r.val) = r.val) :
    h.confirmations chain (.batch t n) =
      ((h.chain chain).sigs.filter fun r => r.index == batchIndex chain t n).map
        fun r => ((alGet (h.chain chain).valExt r.val).getD zeroEth, r.sig) := by
  refine confirmations_by_index (k := .batch t n) ?_ hhex
  intro r hr hp
  unfold sigKey at hp
  show r.index = batchIndex chain t n
  rw [show (ConfKind.batch t n).index chain = batchIndex chain t n from rfl] at hp
  rcases hidx r hr with ⟨n', e⟩ | ⟨t', n', e, ht', hn'⟩
  · rw [e, batchIndex_not_prefix_set] at hp; cases hp
  · rw [e] at hp ⊢
    obtain ⟨a, b⟩ := sig_key_prefix_free_batches_small_nonces _ ht ht' hn hn' hp
    rw [a, b]

/-! ### 4. The "unsigned" queries -/

/-- The signer sets a signer still has to sign: the signer resolves to a bonded validator `v`, and
    the result lists, newest first, the nonces of exactly the stored sets for which no non-empty
    signature of `v` is stored. -/
theorem unsigned_query_exact {h : Hub} {chain signer : String} {l : List Nat}
    (hok : h.unsignedSets chain signer = .ok l) :
    ∃ v, h.signerValidator chain signer = .ok v ∧
      l = ((h.chain chain).sets.reverse.filter fun s =>
            !((h.chain chain).sigs.any fun r =>
                sigKey r == setIndex chain s.nonce ++ hexToBytes v && r.sig != "")).map (·.nonce) ∧
      ∀ n, n ∈ l ↔ ∃ s ∈ (h.chain chain).sets, s.nonce = n ∧
        ¬ ∃ r ∈ (h.chain chain).sigs, sigKey r = setIndex chain n ++ hexToBytes v ∧ r.sig ≠ "" := by
  unfold Hub.unsignedSets at hok
  obtain ⟨v, hv, hok⟩ := bind_ok hok
  injection hok with hok
  refine ⟨v, hv, hok.symm, ?_⟩
  intro n
  rw [← hok]
  simp only [List.mem_map, List.mem_filter, List.mem_reverse, Bool.not_eq_true',
    List.any_eq_false, Bool.and_eq_true, beq_iff_eq, bne_iff_ne, ne_eq, not_and, not_exists]
  constructor
  · rintro ⟨s, ⟨hs, hno⟩, e⟩
    subst e
    exact ⟨s, hs, rfl, fun r hr hk => by simpa using hno r hr hk⟩
  · rintro ⟨s, hs, e, hno⟩
    subst e
    exact ⟨s, ⟨hs, fun r hr hk => by simpa using hno r hr hk⟩, rfl⟩

/-- The same for batches; the result is sorted by batch nonce. -/
theorem unsigned_batches_query_exact {h : Hub} {chain signer : String} {l : List (String × Nat)}
    (hok : h.unsignedBatches chain signer = .ok l) :
    ∃ v, h.signerValidator chain signer = .ok v ∧
      l = (isort (fun (a b : Batch) => decide (a.nonce < b.nonce))
            ((h.chain chain).batches.reverse.filter fun b =>
              !((h.chain chain).sigs.any fun r =>
                  sigKey r == batchIndex chain b.extToken b.nonce ++ hexToBytes v && r.sig != ""))).map
          (fun b => (b.extToken, b.nonce)) ∧
      (l.map (·.2)).Pairwise (· ≤ ·) ∧
      ∀ t n, (t, n) ∈ l ↔ ∃ b ∈ (h.chain chain).batches, b.extToken = t ∧ b.nonce = n ∧
        ¬ ∃ r ∈ (h.chain chain).sigs, sigKey r = batchIndex chain t n ++ hexToBytes v ∧ r.sig ≠ "" := by
  unfold Hub.unsignedBatches at hok
  obtain ⟨v, hv, hok⟩ := bind_ok hok
  injection hok with hok
  refine ⟨v, hv, hok.symm, ?_, ?_⟩
  · rw [← hok, List.map_map]
    have hs := isort_sorted_k (fun (a b : Batch) => decide (a.nonce < b.nonce))
      (by intro a b hab; simp only [decide_eq_true_eq, decide_eq_false_iff_not] at hab ⊢; omega)
      (by intro a b c h1 h2; simp only [decide_eq_false_iff_not] at h1 h2 ⊢; omega)
      ((h.chain chain).batches.reverse.filter fun b =>
        !((h.chain chain).sigs.any fun r =>
            sigKey r == batchIndex chain b.extToken b.nonce ++ hexToBytes v && r.sig != ""))
    rw [List.pairwise_map]
    refine List.Pairwise.imp ?_ hs
    intro a b hab
    simp only [decide_eq_false_iff_not] at hab
    show a.nonce ≤ b.nonce
    omega
  · intro t n
    rw [← hok]
    simp only [List.mem_map, mem_isort_k, List.mem_filter, List.mem_reverse, Bool.not_eq_true',
      List.any_eq_false, Bool.and_eq_true, beq_iff_eq, bne_iff_ne, ne_eq, not_and, not_exists,
      Prod.mk.injEq]
    constructor
    · rintro ⟨b, ⟨hb, hno⟩, e1, e2⟩
      subst e1 e2
      exact ⟨b, hb, rfl, rfl, fun r hr hk => by simpa using hno r hr hk⟩
    · rintro ⟨b, hb, e1, e2, hno⟩
      subst e1 e2
      exact ⟨b, ⟨hb, fun r hr hk => by simpa using hno r hr hk⟩, rfl, rfl⟩

/-! ### 5. Bridge lemmas -/

theorem fact_confirm_conds : Generated.confirm_conds =
    "err != nil | err != nil | err != nil | otx == nil | ethAddress == (common.Address{}) | ethAddress != confirmation.GetSigner() | err != nil | k.getExternalSignature(ctx, types.ChainID(msg.ChainId), confirmation.GetStoreIndex(chainId), val) != nil" := rfl
theorem fact_query_SignerSetTxConfirmations_signer : Generated.query_SignerSetTxConfirmations_signer =
    "k.GetValidatorExternalAddress(ctx, chainId, val).Hex()" := rfl
theorem fact_query_BatchTxConfirmations_signer : Generated.query_BatchTxConfirmations_signer =
    "k.GetValidatorExternalAddress(ctx, chainId, val).Hex()" := rfl
theorem fact_query_UnsignedSignerSetTxs_conds : Generated.query_UnsignedSignerSetTxs_conds =
    "err != nil | len(sig) == 0 | !ok" := rfl
theorem fact_query_UnsignedBatchTxs_conds : Generated.query_UnsignedBatchTxs_conds =
    "err != nil | len(sig) == 0 | !ok" := rfl
theorem fact_key_MakeExternalSignatureKey : Generated.key_MakeExternalSignatureKey =
    "bytes.Join([][]byte{{ExternalSignatureKey}, chainId.Bytes(), storeIndex, validator.Bytes()}, []byte{})" := rfl
theorem fact_key_MakeSignerSetTxKey : Generated.key_MakeSignerSetTxKey =
    "bytes.Join([][]byte{{SignerSetTxPrefixByte}, chainId.Bytes(), sdk.Uint64ToBigEndian(nonce)}, []byte{})" := rfl
theorem fact_key_MakeOutgoingTxKey : Generated.key_MakeOutgoingTxKey =
    "bytes.Join([][]byte{{OutgoingTxKey}, chainId.Bytes(), storeIndex}, []byte{})" := rfl

/-! ### Non-vacuity -/

def exHub : Hub :=
  { chains := ["eth"], staking := [⟨"aa", 10, true⟩, ⟨"bb", 5, true⟩],
    cs := [("eth", { sets := [⟨1, 1, 1, []⟩, ⟨2, 1, 2, []⟩], latestSetNonce := 2,
                     valExt := [("aa", "0xE1")], orchVal := [("o1", "aa")], extOrch := [("0xE1", "o1")] })] }

/-- The orchestrator's confirmation is recorded under its validator, the query returns it with the
    registered external address, the set is no longer reported unsigned, and a second confirmation
    by the validator itself fails. -/
example : (match exHub.confirm "eth" "o1" (.set 1) "0xE1" "5167" with
    | .ok h' =>
      h'.confirmations "eth" (.set 1) == [("0xE1", "5167")] &&
      h'.confirmations "eth" (.set 2) == [] &&
      (match h'.unsignedSets "eth" "aa" with | .ok l => l == [2] | _ => false) &&
      (match h'.confirm "eth" "aa" (.set 1) "0xE1" "other" with | .ok _ => false | _ => true)
    | _ => false) = true := by decide +kernel

/-- Wrong external address, unknown set, unregistered validator: rejected. -/
example : (match exHub.confirm "eth" "o1" (.set 1) "0xE2" "5167" with | .ok _ => false | _ => true) = true := by
  decide
example : (match exHub.confirm "eth" "o1" (.set 3) "0xE1" "5167" with | .ok _ => false | _ => true) = true := by
  decide
example : (match exHub.confirm "eth" "bb" (.set 1) "0xE1" "5167" with | .ok _ => false | _ => true) = true := by
  decide

end Mhub2.C16
