/-
  C17 — The delegate-key registry is one-to-one and self-authorised.

  Per external chain, an external address or orchestrator account is bound to at most one
  validator; a binding is created only by `Hub.setDelegateKeys`, only for an existing validator and
  only with a signature of the external key over (validator, sequence number − 1 of the
  registering transaction); what an orchestrator sends is attributed to the validator stored for it.

  The ECDSA signature is abstracted to what was signed: the key `signedBy` signed the message
  `(signedVal, signedNonce)`.

  Property theorems only; helper lemmas (`RegInv`, the frame over `apply`) live in Lemmas/Keys.lean.
-/
import Mhub2.Step
import Mhub2.Generated.Facts
import Lemmas.Keys
namespace Mhub2.C17
open Mhub2

/-! ### (a)–(c): what the invariant says -/

/-- (a) An external address is bound to at most one validator. -/
theorem ext_injective {c : ChainSt} (hi : RegInv c) {v1 v2 e : String}
    (h1 : alGet c.valExt v1 = some e) (h2 : alGet c.valExt v2 = some e) : v1 = v2 :=
  hi.ext_inj v1 v2 e h1 h2

/-- (b) Every current binding is present, consistently, in all three maps. -/
theorem three_maps_consistent {c : ChainSt} (hi : RegInv c) {v e : String}
    (h : alGet c.valExt v = some e) :
    ∃ o, alGet c.extOrch e = some o ∧ alGet c.orchVal o = some v :=
  hi.consistent v e h

/-- (c) An orchestrator is the current orchestrator of at most one validator. -/
theorem orch_current_injective {c : ChainSt} (hi : RegInv c) {v1 v2 e1 e2 o : String}
    (h1 : alGet c.valExt v1 = some e1) (o1 : alGet c.extOrch e1 = some o)
    (h2 : alGet c.valExt v2 = some e2) (o2 : alGet c.extOrch e2 = some o) : v1 = v2 := by
  have e : e1 = e2 := hi.orch_inj e1 e2 o o1 o2
  subst e
  exact hi.ext_inj v1 v2 e1 h1 h2

/-- The current orchestrator of a validator resolves back to that validator. -/
theorem current_orch_resolves {c : ChainSt} (hi : RegInv c) {v e o : String}
    (h : alGet c.valExt v = some e) (ho : alGet c.extOrch e = some o) : alGet c.orchVal o = some v := by
  obtain ⟨o', h1, h2⟩ := hi.consistent v e h
  rw [ho] at h1
  injection h1 with h1
  subst h1
  exact h2

/-- Each of the three maps has pairwise distinct keys, so an entry of the list is exactly what a
    lookup of its key returns (the lists are maps). -/
theorem keys_distinct {c : ChainSt} (hi : RegInv c) :
    (c.valExt.map (·.1)).Nodup ∧ (c.orchVal.map (·.1)).Nodup ∧ (c.extOrch.map (·.1)).Nodup :=
  ⟨hi.keys_valExt, hi.keys_orchVal, hi.keys_extOrch⟩

theorem entry_iff_lookup {c : ChainSt} (hi : RegInv c) (k x : String) :
    ((k, x) ∈ c.valExt ↔ alGet c.valExt k = some x) ∧
    ((k, x) ∈ c.orchVal ↔ alGet c.orchVal k = some x) ∧
    ((k, x) ∈ c.extOrch ↔ alGet c.extOrch k = some x) :=
  ⟨⟨alGet_of_mem hi.keys_valExt, alGet_mem_k⟩, ⟨alGet_of_mem hi.keys_orchVal, alGet_mem_k⟩,
   ⟨alGet_of_mem hi.keys_extOrch, alGet_mem_k⟩⟩

/-! ### 1. The invariant holds in every reachable state -/

theorem reg_inv_init : RegInv {} := RegInv.init

/-- A successful registration keeps the invariant of its chain and does not touch any other chain's
    maps. -/
theorem set_delegate_keys_preserves {h h' : Hub} {chain val orch eth signedBy signedVal : String}
    {signedNonce accSeq : Nat} (hi : RegInv (h.chain chain))
    (hok : h.setDelegateKeys chain val orch eth signedBy signedVal signedNonce accSeq = .ok h') :
    RegInv (h'.chain chain) ∧
    ∀ ch, ch ≠ chain → (h'.chain ch).valExt = (h.chain ch).valExt ∧
      (h'.chain ch).orchVal = (h.chain ch).orchVal ∧ (h'.chain ch).extOrch = (h.chain ch).extOrch := by
  obtain ⟨_, he, ho, _, _, _, e⟩ := setDelegateKeys_ok hok
  subst e
  refine ⟨?_, ?_⟩
  · rw [chain_setChain]
    exact hi.register val orch eth he ho
  · intro ch hne
    rw [chain_setChain_ne _ _ (Ne.symm hne)]
    exact ⟨rfl, rfl, rfl⟩

/-- One operation of the line protocol keeps the invariant in every chain. -/
theorem apply_preserves (h : Hub) (op : Op) (hi : ∀ ch, RegInv (h.chain ch)) :
    ∀ ch, RegInv ((apply h op).1.chain ch) := apply_regInv h op hi

/-- The invariant holds for every chain in every state reachable from genesis by any history of
    operations (every message, begin/end block, configuration changes). -/
theorem reg_inv_reachable : ∀ (ops : List Op) (chain : String), RegInv ((runOps ops).chain chain) :=
  regInv_reachable

/-! ### 2. Bindings are self-authorised and made only by `setDelegateKeys` -/

/-- A registration succeeds only for an existing validator, with the external key's signature over
    that validator and the sequence number of the registering transaction (`accSeq − 1`, the
    sequence having been incremented before the handler runs), and only when neither the external
    address nor the orchestrator is in use; it then sets exactly the three bindings. -/
theorem binding_self_authorised {h h' : Hub} {chain val orch eth signedBy signedVal : String}
    {signedNonce accSeq : Nat}
    (hok : h.setDelegateKeys chain val orch eth signedBy signedVal signedNonce accSeq = .ok h') :
    (h.validator? val).isSome = true ∧ signedBy = eth ∧ signedVal = val ∧
    signedNonce = (if accSeq > 0 then accSeq - 1 else 0) ∧
    (∀ v, alGet (h.chain chain).valExt v ≠ some eth) ∧
    (∀ e, alGet (h.chain chain).extOrch e ≠ some orch) ∧
    (∀ p ∈ (h.chain chain).valExt, p.2 ≠ eth) ∧ (∀ p ∈ (h.chain chain).extOrch, p.2 ≠ orch) ∧
    -- the three bindings are set …
    alGet (h'.chain chain).valExt val = some eth ∧
    alGet (h'.chain chain).extOrch eth = some orch ∧
    alGet (h'.chain chain).orchVal orch = some val ∧
    -- … and nothing else changes
    (∀ v, v ≠ val → alGet (h'.chain chain).valExt v = alGet (h.chain chain).valExt v) ∧
    (∀ e, e ≠ eth → alGet (h'.chain chain).extOrch e = alGet (h.chain chain).extOrch e) ∧
    (∀ o, o ≠ orch → alGet (h'.chain chain).orchVal o = alGet (h.chain chain).orchVal o) ∧
    h' = h.setChain chain { h.chain chain with
      orchVal := alSet (h.chain chain).orchVal orch val,
      valExt := alSet (h.chain chain).valExt val eth,
      extOrch := alSet (h.chain chain).extOrch eth orch } := by
  obtain ⟨hv, he, ho, h1, h2, h3, e⟩ := setDelegateKeys_ok hok
  refine ⟨hv, h1, h2, h3, fun v hv => he _ (alGet_mem_k hv) rfl, fun x hx => ho _ (alGet_mem_k hx) rfl,
    he, ho, ?_, ?_, ?_, ?_, ?_, ?_, e⟩ <;> rw [e, chain_setChain]
  · exact alGet_alSet_same _ _ _
  · exact alGet_alSet_same _ _ _
  · exact alGet_alSet_same _ _ _
  · intro v hne; exact alGet_alSet_other _ _ _ _ (Ne.symm hne)
  · intro x hne; exact alGet_alSet_other _ _ _ _ (Ne.symm hne)
  · intro o hne; exact alGet_alSet_other _ _ _ _ (Ne.symm hne)

/-- Conversely a correctly signed request for an existing validator with an unused external address
    and orchestrator succeeds: the conditions of `binding_self_authorised` are exactly the guard. -/
theorem binding_complete {h : Hub} {chain val orch eth : String} {accSeq : Nat}
    (hv : (h.validator? val).isSome = true)
    (he : ∀ p ∈ (h.chain chain).valExt, p.2 ≠ eth)
    (ho : ∀ p ∈ (h.chain chain).extOrch, p.2 ≠ orch) :
    ∃ h', h.setDelegateKeys chain val orch eth eth val (if accSeq > 0 then accSeq - 1 else 0) accSeq
      = .ok h' :=
  ⟨_, setDelegateKeys_of hv he ho⟩

private theorem not_ok_error {m : M Hub} (h : ∀ h', m ≠ .ok h') : ∃ e, m = .error e := by
  cases m with
  | ok a => exact absurd rfl (h a)
  | error e => exact ⟨e, rfl⟩

/-- A signature over any other sequence number (a replayed or pre-computed one) is rejected. -/
theorem stale_nonce_rejected (h : Hub) (chain val orch eth signedBy signedVal : String)
    (signedNonce accSeq : Nat) (hne : signedNonce ≠ (if accSeq > 0 then accSeq - 1 else 0)) :
    ∃ e, h.setDelegateKeys chain val orch eth signedBy signedVal signedNonce accSeq = .error e :=
  not_ok_error fun _ hok => hne (binding_self_authorised hok).2.2.2.1

/-- A signature by another key, or over another validator, is rejected. -/
theorem foreign_signature_rejected (h : Hub) (chain val orch eth signedBy signedVal : String)
    (signedNonce accSeq : Nat) (hne : signedBy ≠ eth ∨ signedVal ≠ val) :
    ∃ e, h.setDelegateKeys chain val orch eth signedBy signedVal signedNonce accSeq = .error e :=
  not_ok_error fun _ hok => by
    have := binding_self_authorised hok
    rcases hne with hne | hne
    · exact hne this.2.1
    · exact hne this.2.2.1

/-- An external address or orchestrator that is in use cannot be registered again (by anyone). -/
theorem in_use_rejected (h : Hub) (chain val orch eth signedBy signedVal : String)
    (signedNonce accSeq : Nat)
    (hu : (∃ v, alGet (h.chain chain).valExt v = some eth) ∨
          (∃ e, alGet (h.chain chain).extOrch e = some orch)) :
    ∃ e, h.setDelegateKeys chain val orch eth signedBy signedVal signedNonce accSeq = .error e :=
  not_ok_error fun _ hok => by
    have := binding_self_authorised hok
    rcases hu with ⟨v, hv⟩ | ⟨e, he⟩
    · exact this.2.2.2.2.1 v hv
    · exact this.2.2.2.2.2.1 e he

/-- A validator's external address changes only through a successful `delegate` for that chain and
    that validator (or the harness `reset`): no other message, block hook or configuration operation
    creates, changes or removes a binding. -/
theorem only_set_delegate_keys_binds (h : Hub) (op : Op) (c v : String)
    (hne : alGet ((apply h op).1.chain c).valExt v ≠ alGet (h.chain c).valExt v) :
    (∃ orch eth sb sv n s, op = .delegate c v orch eth sb sv n s ∧ (apply h op).2 = "ok") ∨
    op = .reset := by
  rcases apply_key3 h op with hk | hr | ⟨chain, val, orch, eth, sb, sv, n, s, h', hop, hok, e⟩
  · have := congrArg (·.1) (hk c)
    simp only [key3] at this
    rw [this] at hne
    exact absurd rfl hne
  · exact Or.inr hr
  · left
    rw [e] at hne
    have hb := binding_self_authorised hok
    by_cases hc : chain = c
    · subst hc
      by_cases hv : val = v
      · subst hv
        exact ⟨orch, eth, sb, sv, n, s, hop, by rw [e]⟩
      · exact absurd (hb.2.2.2.2.2.2.2.2.2.2.2.1 v (Ne.symm hv)) hne
    · rw [hb.2.2.2.2.2.2.2.2.2.2.2.2.2.2, chain_setChain_ne _ _ hc] at hne
      exact absurd rfl hne

/-! ### 3. What an orchestrator sends is attributed to the validator stored for it -/

/-- An orchestrator's messages resolve to the validator stored for it (and only if that validator
    exists and is bonded). -/
theorem signer_resolution {h : Hub} {c o v v' : String}
    (hreg : alGet (h.chain c).orchVal o = some v) (hok : h.signerValidator c o = .ok v') : v' = v := by
  unfold Hub.signerValidator at hok
  simp only [hreg] at hok
  split at hok
  · cases hok
  · rename_i x hx
    split at hok
    · injection hok with hok
      have := List.find?_some hx
      simp only [beq_iff_eq] at this
      rw [← hok, this]
    · cases hok

/-- After a registration, the registered orchestrator resolves to the registering validator. -/
theorem signer_resolution_after_register {h h' : Hub} {chain val orch eth signedBy signedVal v : String}
    {signedNonce accSeq : Nat}
    (hok : h.setDelegateKeys chain val orch eth signedBy signedVal signedNonce accSeq = .ok h')
    (hres : h'.signerValidator chain orch = .ok v) : v = val :=
  signer_resolution (binding_self_authorised hok).2.2.2.2.2.2.2.2.2.2.1 hres

/-- Documented behaviour (not a defect of the one-to-one property, but worth knowing): a
    registration is never erased.  When a validator registers a new orchestrator and external
    address, its previous orchestrator keeps resolving to it (`orchVal` is only ever extended or
    overwritten for the orchestrator being registered), although by `RegInv` it is no longer the
    orchestrator of the validator's current external address. -/
theorem previous_orchestrator_keeps_resolving {h h' : Hub}
    {chain val orch eth signedBy signedVal o v : String} {signedNonce accSeq : Nat}
    (hreg : alGet (h.chain chain).orchVal o = some v)
    (hok : h.setDelegateKeys chain val orch eth signedBy signedVal signedNonce accSeq = .ok h')
    (hne : o ≠ orch) : alGet (h'.chain chain).orchVal o = some v := by
  rw [(binding_self_authorised hok).2.2.2.2.2.2.2.2.2.2.2.2.2.1 o hne]
  exact hreg

/-- The validator stored for an orchestrator changes only when that orchestrator is registered
    (again): with the previous theorem, the validator stored for `o` is the one that last
    registered `o`. -/
theorem only_registration_rebinds_orchestrator (h : Hub) (op : Op) (c o : String)
    (hne : alGet ((apply h op).1.chain c).orchVal o ≠ alGet (h.chain c).orchVal o) :
    (∃ val eth sb sv n s, op = .delegate c val o eth sb sv n s ∧ (apply h op).2 = "ok" ∧
      alGet ((apply h op).1.chain c).orchVal o = some val) ∨
    op = .reset := by
  rcases apply_key3 h op with hk | hr | ⟨chain, val, orch, eth, sb, sv, n, s, h', hop, hok, e⟩
  · have := congrArg (·.2.1) (hk c)
    simp only [key3] at this
    rw [this] at hne
    exact absurd rfl hne
  · exact Or.inr hr
  · left
    rw [e] at hne ⊢
    have hb := binding_self_authorised hok
    by_cases hc : chain = c
    · subst hc
      by_cases ho : orch = o
      · subst ho
        exact ⟨val, eth, sb, sv, n, s, hop, rfl, hb.2.2.2.2.2.2.2.2.2.2.1⟩
      · exact absurd (hb.2.2.2.2.2.2.2.2.2.2.2.2.2.1 o (Ne.symm ho)) hne
    · rw [hb.2.2.2.2.2.2.2.2.2.2.2.2.2.2, chain_setChain_ne _ _ hc] at hne
      exact absurd rfl hne

/-- A vote sent by a registered orchestrator is recorded as a vote of its validator. -/
theorem vote_attributed {h h' : Hub} {chain o v : String} {ev : Event}
    (hreg : alGet (h.chain chain).orchVal o = some v) (hok : h.submitEvent chain o ev = .ok h') :
    ∃ c', (h.chain chain).recordVote ev ev.hash v = .ok c' ∧ h' = h.setChain chain c' := by
  unfold Hub.submitEvent at hok
  obtain ⟨_, hok⟩ := jp_ok hok
  obtain ⟨v', hv, hok⟩ := bind_ok hok
  obtain ⟨c', hc, hok⟩ := bind_ok hok
  injection hok with hok
  have := signer_resolution hreg hv
  subst this
  exact ⟨c', hc, hok.symm⟩

/-- A confirmation sent by a registered orchestrator is stored under its validator. -/
theorem confirmation_attributed {h h' : Hub} {chain o v ext sig : String} {k : ConfKind}
    (hreg : alGet (h.chain chain).orchVal o = some v) (hok : h.confirm chain o k ext sig = .ok h') :
    (⟨k.index chain, v, sig⟩ : SigRec) ∈ (h'.chain chain).sigs ∧
    alGet (h.chain chain).valExt v = some ext := by
  obtain ⟨_, _, v', hv, _, hext, _, _, e⟩ := confirm_ok hok
  have := signer_resolution hreg hv
  subst this
  rw [e, chain_setChain]
  exact ⟨mem_insertByKey _ _ _, hext⟩

/-! ### 4. Bridge lemmas: the source the model was written from -/

theorem fact_delegate_conds : Generated.delegate_conds =
    "err != nil | err != nil | k.Keeper.StakingKeeper.Validator(ctx, valAddr) == nil | len(validators) > 0 | len(ethAddrs) > 0 | err != nil | valAccSeq > 0 | err != nil" := rfl
theorem fact_delegate_signmsg : Generated.delegate_signmsg = "valAddr.String() ; nonce" := rfl
theorem fact_delegate_writes : Generated.delegate_writes =
    "ValidateEthereumSignature,SetOrchestratorValidatorAddress,setValidatorExternalAddress,setExternalOrchestratorAddress" := rfl
theorem fact_signer_conds : Generated.signer_conds =
    "err != nil | validator == nil | validatorI == nil | !validatorI.IsBonded()" := rfl

/-! ### Non-vacuity -/

def exHub : Hub :=
  { chains := ["ethereum"], staking := [⟨"aa", 10, true⟩, ⟨"bb", 5, true⟩] }

/-- A registration that succeeds; the orchestrator then resolves to the validator. -/
example : (match exHub.setDelegateKeys "ethereum" "aa" "o1" "0xE1" "0xE1" "aa" 4 5 with
    | .ok h' => alGet (h'.chain "ethereum").valExt "aa" == some "0xE1" &&
        (match h'.signerValidator "ethereum" "o1" with | .ok v => v == "aa" | _ => false)
    | _ => false) = true := by decide

/-- The same request signed over a stale sequence number, or re-using the external address for
    another validator, fails. -/
example : (match exHub.setDelegateKeys "ethereum" "aa" "o1" "0xE1" "0xE1" "aa" 3 5 with
    | .ok _ => false | _ => true) = true := by decide
example : (match exHub.setDelegateKeys "ethereum" "aa" "o1" "0xE1" "0xE1" "aa" 4 5 with
    | .ok h' => (match h'.setDelegateKeys "ethereum" "bb" "o2" "0xE1" "0xE1" "bb" 0 0 with
        | .ok _ => false | _ => true)
    | _ => false) = true := by decide

/-- The previous orchestrator of a validator that registered again still resolves to it. -/
example : (match exHub.setDelegateKeys "ethereum" "aa" "o1" "0xE1" "0xE1" "aa" 4 5 with
    | .ok h1 => (match h1.setDelegateKeys "ethereum" "aa" "o2" "0xE2" "0xE2" "aa" 5 6 with
        | .ok h2 => (match h2.signerValidator "ethereum" "o1" with | .ok v => v == "aa" | _ => false) &&
            alGet (h2.chain "ethereum").valExt "aa" == some "0xE2"
        | _ => false)
    | _ => false) = true := by decide

/-- A history in which the invariant is exercised: two validators registered through `apply`. -/
example : ((runOps [.chains ["ethereum"], .staking [⟨"aa", 10, true⟩, ⟨"bb", 5, true⟩],
    .delegate "ethereum" "aa" "o1" "0xE1" "0xE1" "aa" 0 1,
    .delegate "ethereum" "bb" "o2" "0xE2" "0xE2" "bb" 0 1]).chain "ethereum").valExt
    = [("aa", "0xE1"), ("bb", "0xE2")] := by decide

end Mhub2.C17
