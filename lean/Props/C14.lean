/-
  C14 — Votes aggregate only on identical events.

  Claim identifiers are `Event.hash = sha256 ∘ Event.preimage`.  All statements here are about
  the PRE-IMAGE; `sha256` is never unfolded (collision resistance is an assumption outside Lean).

  The full statement ("events that differ in any effect-relevant field get different
  identifiers") is FALSE of the implementation and of the model: several fields are not part of
  the pre-image at all, the sender goes through a lossy hex decoder, and the pre-image is an
  un-delimited concatenation.  Section 1 gives one witness per defect (all reproduced with the
  real Go `Hash()` by the harness); sections 2–4 prove the strongest statements that are true.
-/
import Mhub2.Votes
import Mhub2.Generated.Facts
import Lemmas.Encoding
namespace Mhub2.C14
open Mhub2 Mhub2.Enc

/-! ### 0. Equal pre-images give equal identifiers -/

theorem hash_eq_of_preimage_eq {e1 e2 : Event} (h : e1.preimage = e2.preimage) : e1.hash = e2.hash := by
  unfold Event.hash; rw [h]

/-! ### 1. Negation witnesses -/

/-- `TransferToChainEvent.Hash()` reads neither `Fee` nor `TxHash`. -/
theorem transfer_preimage_ignores_fee_txHash (n : Nat) (c : String) (a f1 f2 : Int) (s rc r : String)
    (h : Nat) (t1 t2 : String) :
    (Event.transfer n c a f1 s rc r h t1).preimage = (Event.transfer n c a f2 s rc r h t2).preimage := rfl

/-- `SendToHubEvent.Hash()` does not read `TxHash`, and reads `Sender` only through
    `common.Hex2Bytes`. -/
theorem sendToHub_preimage_sender_txHash {n : Nat} {c : String} {a : Int} {s1 s2 r : String} {h : Nat}
    {t1 t2 : String} (hs : hex2bytesLoose s1.toList = hex2bytesLoose s2.toList) :
    (Event.sendToHub n c a s1 r h t1).preimage = (Event.sendToHub n c a s2 r h t2).preimage := by
  simp only [Event.preimage, hs]

theorem transfer_preimage_sender {n : Nat} {c : String} {a f1 f2 : Int} {s1 s2 rc r : String} {h : Nat}
    {t1 t2 : String} (hs : hex2bytesLoose s1.toList = hex2bytesLoose s2.toList) :
    (Event.transfer n c a f1 s1 rc r h t1).preimage = (Event.transfer n c a f2 s2 rc r h t2).preimage := by
  simp only [Event.preimage, hs]

/-- `BatchExecutedEvent.Hash()` reads none of `TxHash`, `FeePaid`, `FeePayer`. -/
theorem batchExecuted_preimage_ignores (c : String) (n bn h : Nat) (t1 t2 : String) (p1 p2 : Int)
    (q1 q2 : String) :
    (Event.batchExecuted c n bn h t1 p1 q1).preimage = (Event.batchExecuted c n bn h t2 p2 q2).preimage := rfl

/-- `SignerSetTxExecutedEvent.Hash()` does not read `TxHash`. -/
theorem signerSet_preimage_ignores_txHash (n sn h : Nat) (m : List Signer) (t1 t2 : String) :
    (Event.signerSet n sn h m t1).preimage = (Event.signerSet n sn h m t2).preimage := rfl

/-- `common.Hex2Bytes` of a "0x…" string is empty: decoding stops at the `x`. -/
theorem hex2bytesLoose_0x (s : List Char) : hex2bytesLoose ('0' :: 'x' :: s) = [] := rfl

theorem sender_0x_A : hex2bytesLoose ("0x1111111111111111111111111111111111111111").toList = [] := by decide +kernel
theorem sender_0x_B : hex2bytesLoose ("0x2222222222222222222222222222222222222222").toList = [] := by decide +kernel

/-- Same transfer to another chain, different bridge fee: same identifier pre-image. -/
theorem collision_transfer_fee :
    (Event.transfer 1 "7" 1000 1 "0x1111111111111111111111111111111111111111" "ethereum" "0x3333333333333333333333333333333333333333" 50 "aa").preimage
      = (Event.transfer 1 "7" 1000 999 "0x1111111111111111111111111111111111111111" "ethereum" "0x3333333333333333333333333333333333333333" 50 "aa").preimage := rfl

theorem collision_transfer_txHash :
    (Event.transfer 1 "7" 1000 1 "0x1111111111111111111111111111111111111111" "ethereum" "0x3333333333333333333333333333333333333333" 50 "aa").preimage
      = (Event.transfer 1 "7" 1000 1 "0x1111111111111111111111111111111111111111" "ethereum" "0x3333333333333333333333333333333333333333" 50 "bb").preimage := rfl

/-- Two different valid `0x…` senders (both pass `common.IsHexAddress`) hash alike. -/
theorem collision_transfer_sender :
    (Event.transfer 1 "7" 1000 1 "0x1111111111111111111111111111111111111111" "ethereum" "0x3333333333333333333333333333333333333333" 50 "aa").preimage
      = (Event.transfer 1 "7" 1000 1 "0x2222222222222222222222222222222222222222" "ethereum" "0x3333333333333333333333333333333333333333" 50 "aa").preimage :=
  transfer_preimage_sender (sender_0x_A.trans sender_0x_B.symm)

theorem collision_sendToHub_txHash :
    (Event.sendToHub 1 "7" 1000 "0x1111111111111111111111111111111111111111" "aabb" 50 "aa").preimage
      = (Event.sendToHub 1 "7" 1000 "0x1111111111111111111111111111111111111111" "aabb" 50 "bb").preimage := rfl

theorem collision_sendToHub_sender :
    (Event.sendToHub 1 "7" 1000 "0x1111111111111111111111111111111111111111" "aabb" 50 "aa").preimage
      = (Event.sendToHub 1 "7" 1000 "0x2222222222222222222222222222222222222222" "aabb" 50 "aa").preimage :=
  sendToHub_preimage_sender_txHash (sender_0x_A.trans sender_0x_B.symm)

theorem collision_batchExecuted_txHash :
    (Event.batchExecuted "7" 1 1 50 "aa" 10 "p").preimage
      = (Event.batchExecuted "7" 1 1 50 "bb" 10 "p").preimage := rfl

theorem collision_batchExecuted_feePaid :
    (Event.batchExecuted "7" 1 1 50 "aa" 10 "p").preimage
      = (Event.batchExecuted "7" 1 1 50 "aa" 11 "p").preimage := rfl

theorem collision_batchExecuted_feePayer :
    (Event.batchExecuted "7" 1 1 50 "aa" 10 "p").preimage
      = (Event.batchExecuted "7" 1 1 50 "aa" 10 "q").preimage := rfl

theorem collision_signerSet_txHash :
    (Event.signerSet 1 1 50 [⟨5, "0x1111111111111111111111111111111111111111"⟩] "aa").preimage
      = (Event.signerSet 1 1 50 [⟨5, "0x1111111111111111111111111111111111111111"⟩] "bb").preimage := rfl

/-- The coin id and the amount are concatenated without a delimiter or length prefix … -/
theorem sendToHub_preimage_boundary {n : Nat} {c1 c2 : String} {a1 a2 : Int} {s r : String} {h : Nat}
    {t : String} (hb : strBytes c1 ++ minBytes a1.natAbs = strBytes c2 ++ minBytes a2.natAbs) :
    (Event.sendToHub n c1 a1 s r h t).preimage = (Event.sendToHub n c2 a2 s r h t).preimage := by
  simp only [Event.preimage, List.append_assoc]
  rw [← List.append_assoc (strBytes c1), hb, List.append_assoc]

theorem boundary_bytes : strBytes "1" ++ minBytes (12805 : Int).natAbs = strBytes "12" ++ minBytes (5 : Int).natAbs := by
  decide +kernel

/-- … so coin "1" with amount 12805 = 0x3205 and coin "12" (= bytes 0x31 0x32) with amount 5 are
    given the same identifier. -/
theorem collision_boundary_shift :
    (Event.sendToHub 1 "1" 12805 "0x1111111111111111111111111111111111111111" "aabb" 50 "aa").preimage
      = (Event.sendToHub 1 "12" 5 "0x1111111111111111111111111111111111111111" "aabb" 50 "aa").preimage :=
  sendToHub_preimage_boundary boundary_bytes

/-- The same shift for transfers to another chain. -/
theorem collision_boundary_shift_transfer :
    (Event.transfer 1 "1" 12805 0 "0x1111111111111111111111111111111111111111" "ethereum" "0x3333333333333333333333333333333333333333" 50 "aa").preimage
      = (Event.transfer 1 "12" 5 0 "0x1111111111111111111111111111111111111111" "ethereum" "0x3333333333333333333333333333333333333333" 50 "aa").preimage := by
  simp only [Event.preimage, List.append_assoc]
  rw [← List.append_assoc (strBytes "1"), boundary_bytes, List.append_assoc]

/-- The full statement of C14 — any two distinct events get distinct identifiers — is false, and no
    assumption on SHA-256 can repair it: the two events below are fed to it as the same bytes. -/
theorem full_statement_false : ¬ ∀ e1 e2 : Event, e1 ≠ e2 → e1.hash ≠ e2.hash := by
  intro h
  refine h _ _ ?_ (hash_eq_of_preimage_eq collision_transfer_fee)
  simp

/-- Summary: for each field below there are two events differing ONLY in that field (resp. in
    coin id and amount for the boundary shift) with equal identifiers. -/
theorem uncovered_fields :
    -- TransferToChain: fee, tx hash, sender
    (∃ n c a f1 f2 s rc r h t, f1 ≠ f2 ∧
      (Event.transfer n c a f1 s rc r h t).hash = (Event.transfer n c a f2 s rc r h t).hash) ∧
    (∃ n c a f s rc r h t1 t2, t1 ≠ t2 ∧
      (Event.transfer n c a f s rc r h t1).hash = (Event.transfer n c a f s rc r h t2).hash) ∧
    (∃ n c a f s1 s2 rc r h t, s1 ≠ s2 ∧
      (Event.transfer n c a f s1 rc r h t).hash = (Event.transfer n c a f s2 rc r h t).hash) ∧
    -- SendToHub: tx hash, sender
    (∃ n c a s r h t1 t2, t1 ≠ t2 ∧
      (Event.sendToHub n c a s r h t1).hash = (Event.sendToHub n c a s r h t2).hash) ∧
    (∃ n c a s1 s2 r h t, s1 ≠ s2 ∧
      (Event.sendToHub n c a s1 r h t).hash = (Event.sendToHub n c a s2 r h t).hash) ∧
    -- BatchExecuted: tx hash, fee paid, fee payer
    (∃ c n bn h t1 t2 p q, t1 ≠ t2 ∧
      (Event.batchExecuted c n bn h t1 p q).hash = (Event.batchExecuted c n bn h t2 p q).hash) ∧
    (∃ c n bn h t p1 p2 q, p1 ≠ p2 ∧
      (Event.batchExecuted c n bn h t p1 q).hash = (Event.batchExecuted c n bn h t p2 q).hash) ∧
    (∃ c n bn h t p q1 q2, q1 ≠ q2 ∧
      (Event.batchExecuted c n bn h t p q1).hash = (Event.batchExecuted c n bn h t p q2).hash) ∧
    -- SignerSet: tx hash
    (∃ n sn h m t1 t2, t1 ≠ t2 ∧
      (Event.signerSet n sn h m t1).hash = (Event.signerSet n sn h m t2).hash) ∧
    -- boundary shift between coin id and amount
    (∃ n c1 c2 a1 a2 s r h t, c1 ≠ c2 ∧ a1 ≠ a2 ∧ 0 ≤ a1 ∧ 0 ≤ a2 ∧
      (Event.sendToHub n c1 a1 s r h t).hash = (Event.sendToHub n c2 a2 s r h t).hash) := by
  refine ⟨⟨_, _, _, _, _, _, _, _, _, _, ?_, hash_eq_of_preimage_eq collision_transfer_fee⟩,
    ⟨_, _, _, _, _, _, _, _, _, _, ?_, hash_eq_of_preimage_eq collision_transfer_txHash⟩,
    ⟨_, _, _, _, _, _, _, _, _, _, ?_, hash_eq_of_preimage_eq collision_transfer_sender⟩,
    ⟨_, _, _, _, _, _, _, _, ?_, hash_eq_of_preimage_eq collision_sendToHub_txHash⟩,
    ⟨_, _, _, _, _, _, _, _, ?_, hash_eq_of_preimage_eq collision_sendToHub_sender⟩,
    ⟨_, _, _, _, _, _, _, _, ?_, hash_eq_of_preimage_eq collision_batchExecuted_txHash⟩,
    ⟨_, _, _, _, _, _, _, _, ?_, hash_eq_of_preimage_eq collision_batchExecuted_feePaid⟩,
    ⟨_, _, _, _, _, _, _, _, ?_, hash_eq_of_preimage_eq collision_batchExecuted_feePayer⟩,
    ⟨_, _, _, _, _, _, ?_, hash_eq_of_preimage_eq collision_signerSet_txHash⟩,
    ⟨_, _, _, _, _, _, _, _, _, ?_, ?_, ?_, ?_, hash_eq_of_preimage_eq collision_boundary_shift⟩⟩ <;> decide

/-! ### 2. The component encoders are injective -/

/-- `sdk.Uint64ToBigEndian` keeps the value modulo `2^64` … -/
theorem be8_eq_mod {a b : Nat} (h : be8 a = be8 b) : a % 2 ^ 64 = b % 2 ^ 64 := be8_mod h
/-- … (exactly: values that agree modulo `2^64` are encoded alike) … -/
theorem be8_wraps : be8 (2 ^ 64) = be8 0 ∧ be8 (2 ^ 64 + 5) = be8 5 :=
  ⟨beBytes_of_mod (by decide), beBytes_of_mod (by decide)⟩
/-- … hence is injective on `uint64`. -/
theorem be8_injective {a b : Nat} (ha : a < 2 ^ 64) (hb : b < 2 ^ 64) (h : be8 a = be8 b) : a = b :=
  be8_inj ha hb h
theorem be8_len (n : Nat) : (be8 n).length = 8 := be8_length n
/-- `big.Int.Bytes()` is injective on naturals. -/
theorem minBytes_injective {a b : Nat} (h : minBytes a = minBytes b) : a = b := minBytes_inj h
/-- Its length is the number of base-256 digits: `0` for `0`, else the `k+1` with `256^k ≤ n < 256^(k+1)`. -/
theorem minBytes_length_zero_iff {n : Nat} : (minBytes n).length = 0 ↔ n = 0 := minBytes_length_eq_zero
theorem minBytes_length_bounds {n : Nat} (h : n ≠ 0) :
    256 ^ ((minBytes n).length - 1) ≤ n ∧ n < 256 ^ (minBytes n).length :=
  ⟨pow_minBytes_length_le h, lt_pow_minBytes_length n⟩
/-- `[]byte(s)` is injective. -/
theorem strBytes_injective {a b : String} (h : strBytes a = strBytes b) : a = b := strBytes_inj h


/-! ### 3. What the pre-image does determine

  The pre-image is an un-delimited concatenation, so a component boundary can only be recovered
  when the widths of the variable-width components are known.  Under that "length profile"
  hypothesis (one variable-width component is always determined by the total length, so it needs
  no hypothesis) equal pre-images force equality of every COVERED component.  This is the strongest
  statement true of such an encoding; `collision_boundary_shift` shows the hypothesis is needed. -/

/-- SendToHub: nonce, coin id, amount, sender BYTES (`common.Hex2Bytes`, not the sender string: see
    `collision_sendToHub_sender`), receiver bytes, external height.  The receiver width needs no
    hypothesis. -/
theorem preimage_injective_partial_sendToHub
    {n1 n2 : Nat} {c1 c2 : String} {a1 a2 : Int} {s1 s2 r1 r2 : String} {h1 h2 : Nat} {t1 t2 : String}
    (hn1 : n1 < 2 ^ 64) (hn2 : n2 < 2 ^ 64) (hh1 : h1 < 2 ^ 64) (hh2 : h2 < 2 ^ 64)
    (ha1 : 0 ≤ a1) (ha2 : 0 ≤ a2)
    (lc : (strBytes c1).length = (strBytes c2).length)
    (la : (minBytes a1.natAbs).length = (minBytes a2.natAbs).length)
    (ls : (hex2bytesLoose s1.toList).length = (hex2bytesLoose s2.toList).length)
    (h : (Event.sendToHub n1 c1 a1 s1 r1 h1 t1).preimage = (Event.sendToHub n2 c2 a2 s2 r2 h2 t2).preimage) :
    n1 = n2 ∧ c1 = c2 ∧ a1 = a2 ∧ hex2bytesLoose s1.toList = hex2bytesLoose s2.toList ∧
      hexToBytes r1 = hexToBytes r2 ∧ h1 = h2 := by
  simp only [Event.preimage, List.append_assoc] at h
  obtain ⟨en, h⟩ := List.append_inj h (by rw [be8_length, be8_length])
  obtain ⟨ec, h⟩ := List.append_inj h lc
  obtain ⟨ea, h⟩ := List.append_inj h la
  obtain ⟨es, h⟩ := List.append_inj h ls
  obtain ⟨er, eh⟩ := List.append_inj' h (by rw [be8_length, be8_length])
  have := minBytes_inj ea
  exact ⟨be8_inj hn1 hn2 en, strBytes_inj ec, by omega, es, er, be8_inj hh1 hh2 eh⟩

/-- TransferToChain: nonce, coin id, amount, sender bytes, receiver string, destination chain,
    external height.  (`fee` and `txHash` are not covered: `collision_transfer_fee`,
    `collision_transfer_txHash`.)  The destination-chain width needs no hypothesis. -/
theorem preimage_injective_partial_transfer
    {n1 n2 : Nat} {c1 c2 : String} {a1 a2 f1 f2 : Int} {s1 s2 rc1 rc2 r1 r2 : String} {h1 h2 : Nat}
    {t1 t2 : String}
    (hn1 : n1 < 2 ^ 64) (hn2 : n2 < 2 ^ 64) (hh1 : h1 < 2 ^ 64) (hh2 : h2 < 2 ^ 64)
    (ha1 : 0 ≤ a1) (ha2 : 0 ≤ a2)
    (lc : (strBytes c1).length = (strBytes c2).length)
    (la : (minBytes a1.natAbs).length = (minBytes a2.natAbs).length)
    (ls : (hex2bytesLoose s1.toList).length = (hex2bytesLoose s2.toList).length)
    (lr : (strBytes r1).length = (strBytes r2).length)
    (h : (Event.transfer n1 c1 a1 f1 s1 rc1 r1 h1 t1).preimage
        = (Event.transfer n2 c2 a2 f2 s2 rc2 r2 h2 t2).preimage) :
    n1 = n2 ∧ c1 = c2 ∧ a1 = a2 ∧ hex2bytesLoose s1.toList = hex2bytesLoose s2.toList ∧
      r1 = r2 ∧ rc1 = rc2 ∧ h1 = h2 := by
  simp only [Event.preimage, List.append_assoc] at h
  obtain ⟨en, h⟩ := List.append_inj h (by rw [be8_length, be8_length])
  obtain ⟨ec, h⟩ := List.append_inj h lc
  obtain ⟨ea, h⟩ := List.append_inj h la
  obtain ⟨es, h⟩ := List.append_inj h ls
  obtain ⟨er, h⟩ := List.append_inj h lr
  obtain ⟨erc, eh⟩ := List.append_inj' h (by rw [be8_length, be8_length])
  have := minBytes_inj ea
  exact ⟨be8_inj hn1 hn2 en, strBytes_inj ec, by omega, es, strBytes_inj er, strBytes_inj erc,
    be8_inj hh1 hh2 eh⟩

/-- BatchExecuted: the only variable-width component is the coin id, so no length hypothesis is
    needed: coin id, event nonce, batch nonce and height are determined.  (`txHash`, `feePaid`,
    `feePayer` are not covered.) -/
theorem preimage_injective_partial_batchExecuted
    {c1 c2 : String} {n1 n2 b1 b2 h1 h2 : Nat} {t1 t2 : String} {p1 p2 : Int} {q1 q2 : String}
    (hn1 : n1 < 2 ^ 64) (hn2 : n2 < 2 ^ 64) (hb1 : b1 < 2 ^ 64) (hb2 : b2 < 2 ^ 64)
    (hh1 : h1 < 2 ^ 64) (hh2 : h2 < 2 ^ 64)
    (h : (Event.batchExecuted c1 n1 b1 h1 t1 p1 q1).preimage
        = (Event.batchExecuted c2 n2 b2 h2 t2 p2 q2).preimage) :
    c1 = c2 ∧ n1 = n2 ∧ b1 = b2 ∧ h1 = h2 := by
  simp only [Event.preimage] at h
  obtain ⟨h, eh⟩ := List.append_inj' h (by rw [be8_length, be8_length])
  obtain ⟨h, eb⟩ := List.append_inj' h (by rw [be8_length, be8_length])
  obtain ⟨ec, en⟩ := List.append_inj' h (by rw [be8_length, be8_length])
  exact ⟨strBytes_inj ec, be8_inj hn1 hn2 en, be8_inj hb1 hb2 eb, be8_inj hh1 hh2 eh⟩

/-- ContractCallExecuted: likewise fully determined (the scope is the only variable-width part). -/
theorem preimage_injective_partial_contractCall
    {n1 n2 : Nat} {sc1 sc2 : Bytes} {i1 i2 h1 h2 : Nat}
    (hn1 : n1 < 2 ^ 64) (hn2 : n2 < 2 ^ 64) (hi1 : i1 < 2 ^ 64) (hi2 : i2 < 2 ^ 64)
    (hh1 : h1 < 2 ^ 64) (hh2 : h2 < 2 ^ 64)
    (h : (Event.contractCall n1 sc1 i1 h1).preimage = (Event.contractCall n2 sc2 i2 h2).preimage) :
    Event.contractCall n1 sc1 i1 h1 = Event.contractCall n2 sc2 i2 h2 := by
  simp only [Event.preimage] at h
  obtain ⟨h, eh⟩ := List.append_inj' h (by rw [be8_length, be8_length])
  obtain ⟨h, ei⟩ := List.append_inj' h (by rw [be8_length, be8_length])
  obtain ⟨en, es⟩ := List.append_inj h (by rw [be8_length, be8_length])
  rw [be8_inj hn1 hn2 en, es, be8_inj hi1 hi2 ei, be8_inj hh1 hh2 eh]

/-- SignerSet: the three numbers and the members DIGEST are determined; the members themselves
    are hashed (`ExternalSigners.Hash()`), so nothing more can be said without an assumption on
    SHA-256.  (`txHash` is not covered.) -/
theorem preimage_injective_partial_signerSet
    {n1 n2 sn1 sn2 h1 h2 : Nat} {m1 m2 : List Signer} {t1 t2 : String}
    (hn1 : n1 < 2 ^ 64) (hn2 : n2 < 2 ^ 64) (hs1 : sn1 < 2 ^ 64) (hs2 : sn2 < 2 ^ 64)
    (hh1 : h1 < 2 ^ 64) (hh2 : h2 < 2 ^ 64)
    (h : (Event.signerSet n1 sn1 h1 m1 t1).preimage = (Event.signerSet n2 sn2 h2 m2 t2).preimage) :
    n1 = n2 ∧ sn1 = sn2 ∧ h1 = h2 ∧ sha256 (signersHashPre m1) = sha256 (signersHashPre m2) := by
  simp only [Event.preimage, List.append_assoc] at h
  obtain ⟨en, h⟩ := List.append_inj h (by rw [be8_length, be8_length])
  obtain ⟨es, h⟩ := List.append_inj h (by rw [be8_length, be8_length])
  obtain ⟨eh, em⟩ := List.append_inj h (by rw [be8_length, be8_length])
  exact ⟨be8_inj hn1 hn2 en, be8_inj hs1 hs2 es, be8_inj hh1 hh2 eh, em⟩

/-- Events of different TYPES are not separated by the pre-image either: there is no type tag.
    A ContractCallExecuted event whose invalidation scope spells out the middle of a SendToHub
    pre-image, and whose invalidation nonce is the last 8 receiver bytes, gets the SendToHub
    identifier.  (Model-level observation; not among the collisions replayed by the Go harness.) -/
theorem collision_across_types {n : Nat} {c : String} {a : Int} {s r : String} {inv h : Nat} {t : String}
    {pre : Bytes} (hr : hexToBytes r = pre ++ be8 inv) :
    (Event.contractCall n (strBytes c ++ minBytes a.natAbs ++ hex2bytesLoose s.toList ++ pre) inv h).preimage
      = (Event.sendToHub n c a s r h t).preimage := by
  simp only [Event.preimage, hr, List.append_assoc]

theorem collision_across_types_witness :
    (Event.contractCall 1 (strBytes "7" ++ minBytes (1000 : Int).natAbs ++ hex2bytesLoose ("").toList
        ++ List.replicate 12 0) 9 50).preimage
      = (Event.sendToHub 1 "7" 1000 "" "0000000000000000000000000000000000000009" 50 "aa").preimage :=
  collision_across_types (by decide +kernel)

/-! ### 4. Members are a set for the identifier -/

/-- `ExternalSigners.Hash()` sorts before hashing, and the sort order (power descending, then
    address) is a strict total order on signers, so the bytes hashed depend only on the multiset
    of members — no distinctness hypothesis is needed. -/
theorem signersHashPre_perm_invariant {l1 l2 : List Signer} (h : l1.Perm l2) :
    signersHashPre l1 = signersHashPre l2 := by
  unfold signersHashPre; rw [sortSigners_eq_of_perm h]

theorem sortSigners_is_perm (l : List Signer) : (sortSigners l).Perm l := sortSigners_perm l
theorem sortSigners_is_sorted (l : List Signer) :
    (sortSigners l).Pairwise fun a b => signerLt b a = false := sortSigners_sorted l

/-- Hence the identifier of a signer-set event does not depend on the order members are listed in. -/
theorem signerSet_hash_perm_invariant (n sn h : Nat) {m1 m2 : List Signer} (t : String) (hp : m1.Perm m2) :
    (Event.signerSet n sn h m1 t).hash = (Event.signerSet n sn h m2 t).hash := by
  simp only [Event.hash, Event.preimage, signersHashPre_perm_invariant hp]

/-- Conversely the bytes hashed determine the members up to what `ExternalSigners.Hash()` reads
    of them: the sorted list of (20 address bytes, power) records.  Combined with
    `preimage_injective_partial_signerSet` this is all that can be said of `members` short of an
    assumption on SHA-256. -/
theorem signersHashPre_injective_partial {l1 l2 : List Signer}
    (h1 : ∀ s ∈ l1, (ethAddrBytes s.addr).length = 20 ∧ s.power < 2 ^ 64)
    (h2 : ∀ s ∈ l2, (ethAddrBytes s.addr).length = 20 ∧ s.power < 2 ^ 64)
    (h : signersHashPre l1 = signersHashPre l2) :
    (sortSigners l1).map (fun s => (ethAddrBytes s.addr, s.power))
      = (sortSigners l2).map (fun s => (ethAddrBytes s.addr, s.power)) :=
  signersHashPre_inj h1 h2 h

/-- The address STRING is not determined: `common.HexToAddress` ignores letter case, so two
    spellings of one address give the same identifier.  (Both spellings denote the same Ethereum
    address; listed for completeness, not among the collisions replayed by the Go harness.) -/
theorem collision_signerSet_member_spelling :
    (Event.signerSet 1 1 50 [⟨5, "0xAAaaAAaaAAaaAAaaAAaaAAaaAAaaAAaaAAaaAAaa"⟩] "aa").preimage
      = (Event.signerSet 1 1 50 [⟨5, "0xaaaaaaaaaaaaaaaaaaaaaaaaaaaaaaaaaaaaaaaa"⟩] "aa").preimage := by
  have e : ethAddrBytes "0xAAaaAAaaAAaaAAaaAAaaAAaaAAaaAAaaAAaaAAaa"
      = ethAddrBytes "0xaaaaaaaaaaaaaaaaaaaaaaaaaaaaaaaaaaaaaaaa" := by decide +kernel
  have : signersHashPre [⟨5, "0xAAaaAAaaAAaaAAaaAAaaAAaaAAaaAAaaAAaaAAaa"⟩]
      = signersHashPre [⟨5, "0xaaaaaaaaaaaaaaaaaaaaaaaaaaaaaaaaaaaaaaaa"⟩] := by
    show ethAddrBytes _ ++ be8 5 ++ [] = ethAddrBytes _ ++ be8 5 ++ []
    rw [e]
  simp only [Event.preimage, this]

/-! ### 5. Bridge lemmas: the component lists of each Go `Hash()` / `Validate()` -/

theorem fact_hash_sth : Generated.hash_sth =
    "sdk.Uint64ToBigEndian(sthe.EventNonce) | []byte(sthe.ExternalCoinId) | sthe.Amount.BigInt().Bytes() | common.Hex2Bytes(sthe.Sender) | rcv.Bytes() | sdk.Uint64ToBigEndian(sthe.ExternalHeight)" := rfl
theorem fact_hash_ttc : Generated.hash_ttc =
    "sdk.Uint64ToBigEndian(ttce.EventNonce) | []byte(ttce.ExternalCoinId) | ttce.Amount.BigInt().Bytes() | common.Hex2Bytes(ttce.Sender) | []byte(ttce.ExternalReceiver) | []byte(ttce.ReceiverChainId) | sdk.Uint64ToBigEndian(ttce.ExternalHeight)" := rfl
theorem fact_hash_bex : Generated.hash_bex =
    "[]byte(bee.ExternalCoinId) | sdk.Uint64ToBigEndian(bee.EventNonce) | sdk.Uint64ToBigEndian(bee.BatchNonce) | sdk.Uint64ToBigEndian(bee.ExternalHeight)" := rfl
theorem fact_hash_cce : Generated.hash_cce =
    "sdk.Uint64ToBigEndian(ccee.EventNonce) | ccee.InvalidationScope | sdk.Uint64ToBigEndian(ccee.InvalidationNonce) | sdk.Uint64ToBigEndian(ccee.ExternalHeight)" := rfl
theorem fact_hash_sse : Generated.hash_sse =
    "sdk.Uint64ToBigEndian(sse.EventNonce) | sdk.Uint64ToBigEndian(sse.SignerSetTxNonce) | sdk.Uint64ToBigEndian(sse.ExternalHeight) | ExternalSigners(sse.Members).Hash()" := rfl
theorem fact_hash_signers : Generated.hash_signers =
    "out.Write(append(common.HexToAddress(s.ExternalAddress).Bytes(), sdk.Uint64ToBigEndian(s.Power)...)) ; sorts=true" := rfl
theorem fact_validate_sth : Generated.validate_sth =
    "stce.EventNonce == 0 | err != nil | stce.Amount.IsNegative() | !common.IsHexAddress(stce.Sender) | err != nil" := rfl
theorem fact_validate_ttc : Generated.validate_ttc =
    "ttce.EventNonce == 0 | err != nil | ttce.Amount.IsNegative() | !common.IsHexAddress(ttce.Sender) | !common.IsHexAddress(ttce.ExternalReceiver) | ttce.ExternalReceiver == \"0x0000000000000000000000000000000000000000\"" := rfl
theorem fact_validate_bex : Generated.validate_bex =
    "bee.EventNonce == 0 | err != nil" := rfl
theorem fact_validate_cce : Generated.validate_cce =
    "ccee.EventNonce == 0" := rfl
theorem fact_validate_sse : Generated.validate_sse =
    "sse.EventNonce == 0 | sse.Members == nil | err != nil" := rfl


/-! ### 6. Non-vacuity -/

/-- Every witness event of section 1 passes the `Validate()` conditions the model tracks
    (non-zero nonce, non-negative amount). -/
example : (Event.transfer 1 "7" 1000 1 "0x1111111111111111111111111111111111111111" "ethereum" "0x1111111111111111111111111111111111111111" 50 "aa").validBasic = true ∧
    (Event.transfer 1 "7" 1000 999 "0x1111111111111111111111111111111111111111" "ethereum" "0x1111111111111111111111111111111111111111" 50 "aa").validBasic = true ∧
    (Event.sendToHub 1 "1" 12805 "0x1111111111111111111111111111111111111111" "aabb" 50 "aa").validBasic = true ∧
    (Event.sendToHub 1 "12" 5 "0x1111111111111111111111111111111111111111" "aabb" 50 "aa").validBasic = true ∧
    (Event.batchExecuted "7" 1 1 50 "aa" 10 "p").validBasic = true ∧
    (Event.signerSet 1 1 50 [⟨5, "0x1111111111111111111111111111111111111111"⟩] "aa").validBasic = true := by decide

/-- A pre-image written out: nonce, coin "1", amount 0x3205, no sender bytes, receiver 0xaabb, height. -/
example : (Event.sendToHub 1 "1" 12805 "0x1111111111111111111111111111111111111111" "aabb" 50 "aa").preimage
    = [0, 0, 0, 0, 0, 0, 0, 1, 49, 50, 5, 170, 187, 0, 0, 0, 0, 0, 0, 0, 50] := by decide +kernel

/-- The hypotheses of `preimage_injective_partial_sendToHub` are satisfiable and the theorem
    separates two deposits that differ in the amount only (same byte width). -/
example : (Event.sendToHub 1 "7" 1000 "0x1111111111111111111111111111111111111111" "aabb" 50 "aa").preimage
    ≠ (Event.sendToHub 1 "7" 1001 "0x1111111111111111111111111111111111111111" "aabb" 50 "aa").preimage := by
  intro h
  have := preimage_injective_partial_sendToHub (by decide) (by decide) (by decide) (by decide)
    (by decide) (by decide) rfl (by decide +kernel) rfl h
  exact absurd this.2.2.1 (by decide)

/-- … and `preimage_injective_partial_transfer` two transfers that differ in the destination chain. -/
example : (Event.transfer 1 "7" 1000 1 "0x1111111111111111111111111111111111111111" "ethereum" "0x1111111111111111111111111111111111111111" 50 "aa").preimage
    ≠ (Event.transfer 1 "7" 1000 1 "0x1111111111111111111111111111111111111111" "bsc" "0x1111111111111111111111111111111111111111" 50 "aa").preimage := by
  intro h
  have := preimage_injective_partial_transfer (by decide) (by decide) (by decide) (by decide)
    (by decide) (by decide) rfl rfl rfl rfl h
  exact absurd this.2.2.2.2.2.1 (by decide)

/-- … and `preimage_injective_partial_batchExecuted` two executions of different batches. -/
example : (Event.batchExecuted "7" 1 1 50 "aa" 10 "p").preimage
    ≠ (Event.batchExecuted "7" 1 2 50 "aa" 10 "p").preimage := by
  intro h
  have := preimage_injective_partial_batchExecuted (by decide) (by decide) (by decide) (by decide)
    (by decide) (by decide) h
  exact absurd this.2.2.1 (by decide)

/-- The signer sort: power descending, then address ascending; listing order is irrelevant. -/
example : (sortSigners [⟨1, "b"⟩, ⟨2, "a"⟩, ⟨1, "a"⟩] == [⟨2, "a"⟩, ⟨1, "a"⟩, ⟨1, "b"⟩]) = true ∧
    (sortSigners [⟨1, "a"⟩, ⟨1, "b"⟩, ⟨2, "a"⟩] == [⟨2, "a"⟩, ⟨1, "a"⟩, ⟨1, "b"⟩]) = true := by
  decide +kernel

example : signersHashPre [⟨1, "b"⟩, ⟨2, "a"⟩, ⟨1, "a"⟩] = signersHashPre [⟨1, "a"⟩, ⟨1, "b"⟩, ⟨2, "a"⟩] :=
  signersHashPre_perm_invariant
    (List.perm_append_comm (l₁ := [(⟨1, "b"⟩ : Signer), ⟨2, "a"⟩]) (l₂ := [⟨1, "a"⟩]))

end Mhub2.C14
