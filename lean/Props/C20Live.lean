/-
  C20 — the live loop and the start-up scan together: "for every Minter block history and every point
  at which the connector is stopped and restarted … the cursor it persists is consistent".
  Combines Props/C20 (start-up scan) and Props/C20Relay (live loop).
-/
import Props.C20Relay
import Props.C20
namespace Mhub2.C20L
open Mhub2 Mhub2.C20R

/-- **Live loop, stop anywhere, restart, live loop again.**  Take any polling schedule `ls₁`; stop the
    connector after any status file `c₁` it wrote; restart it (start-up scan with whatever nonce `ack`
    the hub acknowledged) and let it continue from any block-end commit `c₂` of that scan on any further
    schedule `ls₂`.  Every status file written afterwards is still consistent with the history relative
    to the cursor the connector started from originally. -/
theorem live_restart_live_consistent {chain : List MBlock} (hwf : ChainWF chain) (start : Cursor)
    (ls₁ ls₂ : List Nat) (ack : Nat) {c₁ c₂ : Cursor}
    (h1 : c₁ ∈ (relayRounds chain start ls₁).2.2)
    (h2 : c₂ ∈ blockCommits (resync c₁ ack chain)) :
    ∀ c ∈ (relayRounds chain c₂ ls₂).2.2, consistent chain start c = true := by
  intro c hc
  have e1 : consistent chain start c₁ = true := (rounds_commits_consistent hwf start ls₁ c₁ h1).1
  have e2 : consistent chain start c₂ = true :=
    Mhub2.C20.restart_block_commits_consistent hwf start c₁ ack e1 c₂ h2
  have e3 : consistent chain c₂ c = true := (rounds_commits_consistent hwf c₂ ls₂ c hc).1
  exact consistent_trans e2 e3

/-- … and the claims of the second live phase are numbered from `c₂`'s nonce, i.e. from the start nonce
    plus the bridge events up to `c₂`'s last-checked block: the same number every other validator gives
    those events. -/
theorem live_restart_live_numbering {chain : List MBlock} (hwf : ChainWF chain) (start : Cursor)
    (ls₁ ls₂ : List Nat) (ack : Nat) {c₁ c₂ : Cursor}
    (h1 : c₁ ∈ (relayRounds chain start ls₁).2.2)
    (h2 : c₂ ∈ blockCommits (resync c₁ ack chain)) :
    (relayRounds chain c₂ ls₂).2.1.map Claim.nonce =
      List.range' (start.nextEvent + eventsBetween chain start.lastChecked c₂.lastChecked)
        (relayRounds chain c₂ ls₂).2.1.length := by
  have e1 : consistent chain start c₁ = true := (rounds_commits_consistent hwf start ls₁ c₁ h1).1
  have e2 : consistent chain start c₂ = true :=
    Mhub2.C20.restart_block_commits_consistent hwf start c₁ ack e1 c₂ h2
  rw [consistent_eq_true_iff] at e2
  rw [(rounds_claim_nonces hwf c₂ ls₂).1, e2.2]

end Mhub2.C20L
