/-
  C07 — Sign-bytes agree with the Ethereum contract.

  The digest validators sign for a signer set / batch is `keccak256 (abiEncode (goArgs…))`
  (types/outgoing_tx.go `GetCheckpoint`, through `packCall` which drops the 4-byte selector); the
  contract computes `keccak256(abi.encode(…))` in `makeCheckpoint` / `submitBatch`.  We show the
  two ARGUMENT LISTS are equal for all inputs (so the encodings and digests are), that the method
  name constants agree byte for byte, that the encoding is injective on well-typed data (so
  different data gives a different pre-image), and that the Go signature check accepts exactly
  what the contract's `verifySig` accepts, for exactly one address.

  `keccak256` is never unfolded.  `ecrecover` is an abstract function `recover`.
-/
import Mhub2.Abi
import Mhub2.Generated.Facts
import Lemmas.Encoding
namespace Mhub2.C07
open Mhub2 Mhub2.Enc

/-! ### 1. Method-name constants -/

theorem strBytes_checkpoint : strBytes "checkpoint" = [99, 104, 101, 99, 107, 112, 111, 105, 110, 116] := by
  decide +kernel

theorem strBytes_transactionBatch : strBytes "transactionBatch" =
    [116, 114, 97, 110, 115, 97, 99, 116, 105, 111, 110, 66, 97, 116, 99, 104] := by
  decide +kernel

/-- Hub2.sol: `bytes32 methodName = 0x636865636b706f696e74…00` is "checkpoint" right-padded to 32
    bytes, which is what the Go side copies into its `[32]uint8`. -/
theorem method_name_checkpoint :
    hexToBytes (strip0x Generated.sol_checkpoint_method) = padRight (strBytes "checkpoint") 32 := by
  decide +kernel

/-- The literal in `submitBatch` is "transactionBatch" right-padded to 32 bytes … -/
theorem method_name_batch :
    hexToBytes (strip0x "0x7472616e73616374696f6e426174636800000000000000000000000000000000")
      = padRight (strBytes "transactionBatch") 32 := by
  decide +kernel

/-- … and it is the second argument of the `abi.encode` call in the Solidity source. -/
theorem method_name_batch_in_source :
    Generated.sol_submit_batch_encode =
      "state_gravityId, " ++ "0x7472616e73616374696f6e426174636800000000000000000000000000000000"
        ++ ", _amounts, _destinations, _fees, _batchNonce, _tokenContract, _batchTimeout" := by
  decide +kernel

/-- The literal in `submitLogicCall` is "logicCall" right-padded to 32 bytes, as the Go side copies it. -/
theorem method_name_call :
    hexToBytes (strip0x "0x6c6f67696343616c6c0000000000000000000000000000000000000000000000")
      = padRight (strBytes "logicCall") 32 := by
  decide +kernel

/-- … and it is the second argument of the `abi.encode` call of `submitLogicCall`. -/
theorem method_name_call_in_source :
    Generated.sol_logic_call_encode =
      "state_gravityId, " ++ "0x6c6f67696343616c6c0000000000000000000000000000000000000000000000"
        ++ ", _args.transferAmounts, _args.transferTokenContracts, _args.feeAmounts, _args.feeTokenContracts, _args.logicContractAddress, _args.payload, _args.timeOut, _args.invalidationId, _args.invalidationNonce" := by
  decide +kernel

theorem method_name_lengths :
    (padRight (strBytes "checkpoint") 32).length = 32 ∧
    (padRight (strBytes "transactionBatch") 32).length = 32 := by
  decide +kernel

/-! ### 2. The argument lists agree, hence the encodings and the digests -/

/-- The arguments the hub packs for a signer set are the arguments `makeCheckpoint` encodes:
    same order, same types, same values. -/
theorem checkpoint_args_agree_signerset (g : Bytes) (nonce : Nat) (members : List Signer) :
    goArgsSignerSet g nonce members =
      solArgsSignerSet g (padRight (strBytes "checkpoint") 32) nonce
        (members.map fun m => hexToBytes (strip0x m.addr)) (members.map (·.power)) := rfl

theorem checkpoint_args_agree_batch (g : Bytes) (b : BatchView) :
    goArgsBatch g b =
      solArgsBatch g (padRight (strBytes "transactionBatch") 32) b.amounts b.destinations b.fees
        b.nonce b.token b.timeout := rfl

/-- Contract (logic) calls: the hub packs what `submitLogicCall` encodes, with the invalidation scope as the
    `bytes32` the contract is handed: its first 32 bytes, right padded (`scope32`). -/
theorem checkpoint_args_agree_call (g : Bytes) (c : CallView) :
    goArgsCall g c =
      solArgsCall g (padRight (strBytes "logicCall") 32) c.transferAmounts c.transferTokens c.feeAmounts
        c.feeTokens c.logicContract c.payload c.timeout (scope32 c.invalidationScope) c.invalidationNonce := rfl

theorem checkpoint_encoding_agrees_call (g : Bytes) (c : CallView) :
    abiEncode (goArgsCall g c) =
      abiEncode (solArgsCall g
        (hexToBytes (strip0x "0x6c6f67696343616c6c0000000000000000000000000000000000000000000000"))
        c.transferAmounts c.transferTokens c.feeAmounts c.feeTokens c.logicContract c.payload c.timeout
        (scope32 c.invalidationScope) c.invalidationNonce) := by
  rw [method_name_call, checkpoint_args_agree_call]

theorem checkpoint_digest_agrees_call (gravityId : String) (c : CallView) :
    checkpointCall gravityId c =
      (fixed32 gravityId).map fun g =>
        keccak256 (abiEncode (solArgsCall g
          (hexToBytes (strip0x "0x6c6f67696343616c6c0000000000000000000000000000000000000000000000"))
          c.transferAmounts c.transferTokens c.feeAmounts c.feeTokens c.logicContract c.payload c.timeout
          (scope32 c.invalidationScope) c.invalidationNonce)) := by
  unfold checkpointCall
  simp only [checkpoint_encoding_agrees_call]

/-- The invalidation id handed to the contract is always a `bytes32` … -/
theorem scope32_length (s : Bytes) : (scope32 s).length = 32 := by
  unfold scope32 padRight
  simp only [List.length_append, List.length_replicate, List.length_take]
  omega

/-- … a full 32-byte scope is passed unchanged … -/
theorem scope32_full (s : Bytes) (h : s.length = 32) : scope32 s = s := by
  unfold scope32 padRight
  rw [List.take_of_length_le (by omega)]
  simp [h]

/-- … and a shorter one is RIGHT padded: it is a prefix of the id (Solidity `bytes32("…")`,
    ethers `formatBytes32String`), never shifted to the low-order end. -/
theorem scope32_prefix (s : Bytes) (h : s.length ≤ 32) : (scope32 s).take s.length = s := by
  unfold scope32 padRight
  rw [List.take_of_length_le h]
  simp

theorem checkpoint_encoding_agrees_signerset (g : Bytes) (nonce : Nat) (members : List Signer) :
    abiEncode (goArgsSignerSet g nonce members) =
      abiEncode (solArgsSignerSet g (hexToBytes (strip0x Generated.sol_checkpoint_method)) nonce
        (members.map fun m => hexToBytes (strip0x m.addr)) (members.map (·.power))) := by
  rw [method_name_checkpoint, checkpoint_args_agree_signerset]

theorem checkpoint_encoding_agrees_batch (g : Bytes) (b : BatchView) :
    abiEncode (goArgsBatch g b) =
      abiEncode (solArgsBatch g
        (hexToBytes (strip0x "0x7472616e73616374696f6e426174636800000000000000000000000000000000"))
        b.amounts b.destinations b.fees b.nonce b.token b.timeout) := by
  rw [method_name_batch, checkpoint_args_agree_batch]

/-- For every gravity id, nonce and member list: the digest the hub asks validators to sign is
    the keccak digest of what the contract encodes with the constant from its own source. -/
theorem checkpoint_digest_agrees_signerset (gravityId : String) (nonce : Nat) (members : List Signer) :
    checkpointSignerSet gravityId nonce members =
      (fixed32 gravityId).map fun g =>
        keccak256 (abiEncode (solArgsSignerSet g (hexToBytes (strip0x Generated.sol_checkpoint_method))
          nonce (members.map fun m => hexToBytes (strip0x m.addr)) (members.map (·.power)))) := by
  unfold checkpointSignerSet
  simp only [checkpoint_encoding_agrees_signerset]

theorem checkpoint_digest_agrees_batch (gravityId : String) (b : BatchView) :
    checkpointBatch gravityId b =
      (fixed32 gravityId).map fun g =>
        keccak256 (abiEncode (solArgsBatch g
          (hexToBytes (strip0x "0x7472616e73616374696f6e426174636800000000000000000000000000000000"))
          b.amounts b.destinations b.fees b.nonce b.token b.timeout)) := by
  unfold checkpointBatch
  simp only [checkpoint_encoding_agrees_batch]

/-- The gravity id is a `bytes32` whenever a digest is produced at all. -/
theorem fixed32_length {s : String} {g : Bytes} (h : fixed32 s = some g) : g.length = 32 := by
  unfold fixed32 at h
  simp only at h
  split at h
  · rename_i hle
    injection h with h
    rw [← h]; exact padRight_length hle
  · cases h

/-! ### 3. Structure of `abi.encode`: length and injectivity -/

/-- Length: one 32-byte head per argument plus the tails, every tail a multiple of 32 bytes. -/
theorem abiEncode_length {args : List AbiVal} (h : ∀ v ∈ args, AbiWF v) :
    (abiEncode args).length = 32 * args.length + tailsLen args ∧ tailsLen args % 32 = 0 ∧
      (abiEncode args).length % 32 = 0 :=
  have h1 := Enc.abiEncode_length h
  have h2 := tailsLen_mod args h
  ⟨h1, h2, by omega⟩

/-- General injectivity: two well-typed argument lists of the same Solidity signature with the
    same encoding are equal.  (`AbiWF` includes `length < 2^256` for arrays: the length word holds
    the length modulo `2^256`, and the model's lists are unbounded, so without it two lists whose
    lengths differ by `2^256` could share an encoding.) -/
theorem abiEncode_injective {a1 a2 : List AbiVal} (hk : a1.map abiKind = a2.map abiKind)
    (h1 : ∀ v ∈ a1, AbiWF v) (h2 : ∀ v ∈ a2, AbiWF v) (h : abiEncode a1 = abiEncode a2) : a1 = a2 :=
  abiEncode_inj hk h1 h2 h

/-- Why the bounds are hypotheses: a head or length word holds its value modulo `2^256`. -/
theorem word_wraps : word (2 ^ 256) = word 0 ∧ word (2 ^ 256 + 5) = word 5 :=
  ⟨beBytes_of_mod (by decide), beBytes_of_mod (by decide)⟩

/-- Signer-set checkpoints: different `(gravityId, methodName, nonce, validators, powers)` give
    different pre-images. -/
theorem encode_signerset_injective {g1 g2 m1 m2 : Bytes} {n1 n2 : Nat} {vs1 vs2 : List Bytes}
    {ps1 ps2 : List Nat}
    (hg1 : g1.length = 32) (hg2 : g2.length = 32) (hm1 : m1.length = 32) (hm2 : m2.length = 32)
    (hn1 : n1 < 2 ^ 256) (hn2 : n2 < 2 ^ 256)
    (hv1 : ∀ v ∈ vs1, v.length = 20) (hv2 : ∀ v ∈ vs2, v.length = 20)
    (hp1 : ∀ p ∈ ps1, p < 2 ^ 256) (hp2 : ∀ p ∈ ps2, p < 2 ^ 256)
    (hlv1 : vs1.length < 2 ^ 256) (hlv2 : vs2.length < 2 ^ 256)
    (hlp1 : ps1.length < 2 ^ 256) (hlp2 : ps2.length < 2 ^ 256)
    (h : abiEncode (solArgsSignerSet g1 m1 n1 vs1 ps1) = abiEncode (solArgsSignerSet g2 m2 n2 vs2 ps2)) :
    g1 = g2 ∧ m1 = m2 ∧ n1 = n2 ∧ vs1 = vs2 ∧ ps1 = ps2 := by
  have := abiEncode_inj (a1 := solArgsSignerSet g1 m1 n1 vs1 ps1) (a2 := solArgsSignerSet g2 m2 n2 vs2 ps2)
    rfl
    (wf_solArgsSignerSet hg1 hm1 hn1 hlv1 hv1 hlp1 hp1) (wf_solArgsSignerSet hg2 hm2 hn2 hlv2 hv2 hlp2 hp2)
    h
  simp only [solArgsSignerSet, List.cons.injEq, AbiVal.bytes32.injEq, AbiVal.uint.injEq,
    AbiVal.addrArr.injEq, AbiVal.uintArr.injEq, and_true] at this
  exact this

/-- Batch checkpoints: different `(gravityId, methodName, amounts, destinations, fees, nonce,
    token, timeout)` give different pre-images. -/
theorem encode_batch_injective {g1 g2 m1 m2 : Bytes} {am1 am2 : List Nat} {ds1 ds2 : List Bytes}
    {fs1 fs2 : List Nat} {n1 n2 : Nat} {tk1 tk2 : Bytes} {to1 to2 : Nat}
    (hg1 : g1.length = 32) (hg2 : g2.length = 32) (hm1 : m1.length = 32) (hm2 : m2.length = 32)
    (ha1 : ∀ a ∈ am1, a < 2 ^ 256) (ha2 : ∀ a ∈ am2, a < 2 ^ 256)
    (hd1 : ∀ d ∈ ds1, d.length = 20) (hd2 : ∀ d ∈ ds2, d.length = 20)
    (hf1 : ∀ f ∈ fs1, f < 2 ^ 256) (hf2 : ∀ f ∈ fs2, f < 2 ^ 256)
    (hla1 : am1.length < 2 ^ 256) (hla2 : am2.length < 2 ^ 256)
    (hld1 : ds1.length < 2 ^ 256) (hld2 : ds2.length < 2 ^ 256)
    (hlf1 : fs1.length < 2 ^ 256) (hlf2 : fs2.length < 2 ^ 256)
    (hn1 : n1 < 2 ^ 256) (hn2 : n2 < 2 ^ 256) (ht1 : tk1.length = 20) (ht2 : tk2.length = 20)
    (hto1 : to1 < 2 ^ 256) (hto2 : to2 < 2 ^ 256)
    (h : abiEncode (solArgsBatch g1 m1 am1 ds1 fs1 n1 tk1 to1)
        = abiEncode (solArgsBatch g2 m2 am2 ds2 fs2 n2 tk2 to2)) :
    g1 = g2 ∧ m1 = m2 ∧ am1 = am2 ∧ ds1 = ds2 ∧ fs1 = fs2 ∧ n1 = n2 ∧ tk1 = tk2 ∧ to1 = to2 := by
  have := abiEncode_inj (a1 := solArgsBatch g1 m1 am1 ds1 fs1 n1 tk1 to1)
    (a2 := solArgsBatch g2 m2 am2 ds2 fs2 n2 tk2 to2) rfl
    (wf_solArgsBatch hg1 hm1 hla1 ha1 hld1 hd1 hlf1 hf1 hn1 ht1 hto1)
    (wf_solArgsBatch hg2 hm2 hla2 ha2 hld2 hd2 hlf2 hf2 hn2 ht2 hto2)
    h
  simp only [solArgsBatch, List.cons.injEq, AbiVal.bytes32.injEq, AbiVal.uint.injEq,
    AbiVal.addrArr.injEq, AbiVal.uintArr.injEq, AbiVal.address.injEq, and_true] at this
  exact this

/-- A signer-set pre-image and a batch pre-image never coincide when the method names differ:
    the second word of either encoding is its method name. -/
theorem encode_signerset_ne_batch {g1 g2 m1 m2 : Bytes} {n1 : Nat} {vs1 : List Bytes} {ps1 : List Nat}
    {am ds fs n tk to}
    (hg1 : g1.length = 32) (hg2 : g2.length = 32) (hm1 : m1.length = 32) (hm2 : m2.length = 32)
    (hne : m1 ≠ m2) :
    abiEncode (solArgsSignerSet g1 m1 n1 vs1 ps1) ≠ abiEncode (solArgsBatch g2 m2 am ds fs n tk to) := by
  intro h
  have e1 : abiEncode (solArgsSignerSet g1 m1 n1 vs1 ps1) = _ := abiEncode_two_bytes32 hg1 hm1 _
  have e2 : abiEncode (solArgsBatch g2 m2 am ds fs n tk to) = _ := abiEncode_two_bytes32 hg2 hm2 _
  rw [e1, e2] at h
  obtain ⟨_, h⟩ := List.append_inj h (hg1.trans hg2.symm)
  obtain ⟨h, _⟩ := List.append_inj h (hm1.trans hm2.symm)
  exact hne h

/-- The same on the Go side, for signer sets as the hub stores them (members in the given order;
    powers are `uint64`, so any bound up to `2^256` holds): the gravity id, the nonce, the member
    address bytes and the member powers are all determined by the pre-image. -/
theorem go_signerset_preimage_injective {g1 g2 : Bytes} {n1 n2 : Nat} {ms1 ms2 : List Signer}
    (hg1 : g1.length = 32) (hg2 : g2.length = 32) (hn1 : n1 < 2 ^ 256) (hn2 : n2 < 2 ^ 256)
    (hm1 : ∀ m ∈ ms1, (hexToBytes (strip0x m.addr)).length = 20 ∧ m.power < 2 ^ 256)
    (hm2 : ∀ m ∈ ms2, (hexToBytes (strip0x m.addr)).length = 20 ∧ m.power < 2 ^ 256)
    (hl1 : ms1.length < 2 ^ 256) (hl2 : ms2.length < 2 ^ 256)
    (h : abiEncode (goArgsSignerSet g1 n1 ms1) = abiEncode (goArgsSignerSet g2 n2 ms2)) :
    g1 = g2 ∧ n1 = n2 ∧
      ms1.map (fun m => hexToBytes (strip0x m.addr)) = ms2.map (fun m => hexToBytes (strip0x m.addr)) ∧
      ms1.map (·.power) = ms2.map (·.power) := by
  rw [checkpoint_args_agree_signerset, checkpoint_args_agree_signerset] at h
  have hv : ∀ (ms : List Signer),
      (∀ m ∈ ms, (hexToBytes (strip0x m.addr)).length = 20 ∧ m.power < 2 ^ 256) →
      (∀ v ∈ ms.map (fun m => hexToBytes (strip0x m.addr)), v.length = 20) ∧
      (∀ p ∈ ms.map (·.power), p < 2 ^ 256) := by
    intro ms hm
    constructor
    · intro v hv
      obtain ⟨m, hm', rfl⟩ := List.mem_map.mp hv
      exact (hm m hm').1
    · intro p hp
      obtain ⟨m, hm', rfl⟩ := List.mem_map.mp hp
      exact (hm m hm').2
  have := encode_signerset_injective hg1 hg2 method_name_lengths.1 method_name_lengths.1 hn1 hn2
    (hv ms1 hm1).1 (hv ms2 hm2).1 (hv ms1 hm1).2 (hv ms2 hm2).2
    (by rwa [List.length_map]) (by rwa [List.length_map]) (by rwa [List.length_map])
    (by rwa [List.length_map]) h
  exact ⟨this.1, this.2.2.1, this.2.2.2.1, this.2.2.2.2⟩

/-- … and for batches: the gravity id and the whole batch view are determined. -/
theorem go_batch_preimage_injective {g1 g2 : Bytes} {b1 b2 : BatchView}
    (hg1 : g1.length = 32) (hg2 : g2.length = 32) (hb1 : BatchViewWF b1) (hb2 : BatchViewWF b2)
    (h : abiEncode (goArgsBatch g1 b1) = abiEncode (goArgsBatch g2 b2)) : g1 = g2 ∧ b1 = b2 := by
  rw [checkpoint_args_agree_batch, checkpoint_args_agree_batch] at h
  have := encode_batch_injective hg1 hg2 method_name_lengths.2 method_name_lengths.2
    hb1.amounts_lt hb2.amounts_lt hb1.dests_len hb2.dests_len hb1.fees_lt hb2.fees_lt
    hb1.amounts_short hb2.amounts_short hb1.dests_short hb2.dests_short hb1.fees_short hb2.fees_short
    hb1.nonce_lt hb2.nonce_lt hb1.token_len hb2.token_len hb1.timeout_lt hb2.timeout_lt h
  obtain ⟨e1, _, e3, e4, e5, e6, e7, e8⟩ := this
  refine ⟨e1, ?_⟩
  cases b1; cases b2
  simp only at e3 e4 e5 e6 e7 e8
  simp only [BatchView.mk.injEq]
  exact ⟨e3, e4, e5, e6, e7, e8⟩

/-- The two kinds of checkpoint can never be confused: "checkpoint" ≠ "transactionBatch". -/
theorem go_signerset_ne_batch {g1 g2 : Bytes} (hg1 : g1.length = 32) (hg2 : g2.length = 32)
    (n : Nat) (ms : List Signer) (b : BatchView) :
    abiEncode (goArgsSignerSet g1 n ms) ≠ abiEncode (goArgsBatch g2 b) := by
  rw [checkpoint_args_agree_signerset, checkpoint_args_agree_batch]
  exact encode_signerset_ne_batch hg1 hg2 method_name_lengths.1 method_name_lengths.2 (by decide +kernel)

/-! ### 4. The signature check -/

/-- A signature validates for at most one address. -/
theorem signer_unique {r : Bytes → Bytes → Option Bytes} {d s a a' : Bytes}
    (h : validateSig r d s a = true) (h' : validateSig r d s a' = true) : a = a' := by
  simp only [validateSig, Bool.and_eq_true, decide_eq_true_eq, beq_iff_eq] at h h'
  have := h.2.symm.trans h'.2
  injection this

/-- What the Go check computes: the length guard, the `v` normalisation, and recovery over the
    `"\x19Ethereum Signed Message:\n32"`-prefixed digest. -/
theorem validate_iff_recover (r : Bytes → Bytes → Option Bytes) (d s a : Bytes) :
    validateSig r d s a = true ↔ 65 ≤ s.length ∧ r (ethSignedMessage d) (normV s) = some a := by
  simp only [validateSig, Bool.and_eq_true, decide_eq_true_eq, beq_iff_eq]

/-- The hub accepts a confirmation exactly when the contract's `verifySig` accepts the same
    signature (with `v` written as 0/1 or 27/28 alike) for the same address and digest.
    `recover` is ONE function used on both sides: it stands for go-ethereum's `SigToPub` ∘
    `PubkeyToAddress` on `r ‖ s ‖ v` with `v ∈ {0,1}`; that the EVM precompile called with
    `v + 27` computes the same address is part of what the abstraction assumes. -/
theorem contract_agrees (r : Bytes → Bytes → Option Bytes) (d sig a : Bytes) (hl : 65 ≤ sig.length) :
    validateSig r d sig a = contractVerify r d (normV sig) a := by
  simp only [validateSig, contractVerify, hl, decide_true, Bool.true_and]

/-- Shorter signatures are always rejected (`len(signature) < 65`). -/
theorem short_sig_rejected (r : Bytes → Bytes → Option Bytes) (d sig a : Bytes) (hl : sig.length < 65) :
    validateSig r d sig a = false := by
  have : ¬ 65 ≤ sig.length := by omega
  simp only [validateSig, this, decide_false, Bool.false_and]

theorem normV_length (sig : Bytes) : (normV sig).length = sig.length := by
  unfold normV; split <;> simp

/-- The normalisation only touches byte 64, mapping 27/28 to 0/1. -/
theorem normV_spec (sig : Bytes) (i : Nat) :
    (normV sig).getD i 0 =
      if i = 64 ∧ (sig.getD 64 0 = 27 ∨ sig.getD 64 0 = 28) then sig.getD 64 0 - 27 else sig.getD i 0 := by
  unfold normV
  simp only [Bool.or_eq_true, beq_iff_eq]
  by_cases hv : sig.getD 64 0 = 27 ∨ sig.getD 64 0 = 28
  · rw [if_pos hv]
    by_cases hi : i = 64
    · subst hi
      rw [if_pos ⟨rfl, hv⟩]
      have hlen : 64 < sig.length := by
        apply Classical.byContradiction; intro hn
        have h0 : sig.getD 64 0 = 0 := by
          simp only [List.getD_eq_getElem?_getD, List.getElem?_eq_none (show sig.length ≤ 64 by omega),
            Option.getD_none]
        omega
      simp only [List.getD_eq_getElem?_getD, List.getElem?_set_self hlen, Option.getD_some]
    · rw [if_neg (fun h => hi h.1)]
      simp only [List.getD_eq_getElem?_getD, List.getElem?_set_ne (Ne.symm hi)]
  · rw [if_neg hv, if_neg (fun h => hv h.2)]

/-- The message both sides hash before recovery. "For no other digest": that a signature made
    for one digest does not verify for another is ECDSA unforgeability (plus collision resistance
    of Keccak-256) — a cryptographic assumption, not provable here and not attempted.  What IS
    proved: both sides feed `recover` the same 32-byte message for the same digest. -/
theorem signed_message_agrees (d : Bytes) :
    ethSignedMessage d = keccak256 ([0x19] ++ strBytes "Ethereum Signed Message:\n32" ++ d) := rfl

theorem sig_prefix_bytes : [0x19] ++ strBytes "Ethereum Signed Message:\n32" =
    [25, 69, 116, 104, 101, 114, 101, 117, 109, 32, 83, 105, 103, 110, 101, 100, 32, 77, 101, 115,
     115, 97, 103, 101, 58, 10, 51, 50] := by decide +kernel

/-! ### 5. Bridge lemmas: the source fragments the model transcribes -/

theorem fact_ckpt_signerset_args : Generated.ckpt_signerset_args =
    "gravityIDFixed | checkpoint | new(big.Int).SetUint64(u.Nonce) | memberAddresses | convertedPowers" := rfl
theorem fact_ckpt_signerset_intconv : Generated.ckpt_signerset_intconv =
    "" := rfl
theorem fact_ckpt_signerset_literals : Generated.ckpt_signerset_literals =
    "\"checkpoint\" \"checkpoint\"" := rfl
theorem fact_ckpt_signerset_pack : Generated.ckpt_signerset_pack =
    "packCall(SignerSetTxCheckpointABIJSON, \"checkpoint\", args)" := rfl
theorem fact_ckpt_batch_args : Generated.ckpt_batch_args =
    "gravityIDFixed | batchMethodName | txAmounts | txDestinations | txFees | new(big.Int).SetUint64(b.BatchNonce) | gethcommon.HexToAddress(b.ExternalTokenId) | new(big.Int).SetUint64(b.Timeout)" := rfl
theorem fact_ckpt_batch_intconv : Generated.ckpt_batch_intconv =
    "" := rfl
theorem fact_ckpt_batch_literals : Generated.ckpt_batch_literals =
    "\"transactionBatch\" \"submitBatch\"" := rfl
theorem fact_ckpt_batch_pack : Generated.ckpt_batch_pack =
    "packCall(BatchTxCheckpointABIJSON, \"submitBatch\", args)" := rfl
theorem fact_ckpt_call_args : Generated.ckpt_call_args =
    "gravityIDFixed | logicCallMethodName | transferAmounts | transferTokenContracts | feeAmounts | feeTokenContracts | gethcommon.HexToAddress(c.Address) | payload | new(big.Int).SetUint64(c.Timeout) | invalidationId | new(big.Int).SetUint64(c.InvalidationNonce)" := rfl
theorem fact_ckpt_call_intconv : Generated.ckpt_call_intconv =
    "" := rfl
theorem fact_ckpt_call_literals : Generated.ckpt_call_literals =
    "\"logicCall\" \"checkpoint\"" := rfl
theorem fact_ckpt_call_copies : Generated.ckpt_call_copies =
    "copy(logicCallMethodName[:], methodNameBytes[:]) | copy(payload, c.Payload) | copy(invalidationId[:], c.InvalidationScope[:])" := rfl
theorem fact_ckpt_call_fixed_decls : Generated.ckpt_call_fixed_decls =
    "var logicCallMethodName [32]uint8 | var invalidationId [32]byte" := rfl
theorem fact_ckpt_call_pack : Generated.ckpt_call_pack =
    "packCall(ContractCallTxABIJSON, \"checkpoint\", args)" := rfl
theorem fact_ckpt_signerset_copies : Generated.ckpt_signerset_copies =
    "copy(checkpoint[:], checkpointBytes[:])" := rfl
theorem fact_ckpt_batch_copies : Generated.ckpt_batch_copies =
    "copy(batchMethodName[:], methodNameBytes[:])" := rfl
theorem fact_abi_ContractCallTxABIJSON : Generated.abi_ContractCallTxABIJSON =
    "_gravityId:bytes32,_methodName:bytes32,_transferAmounts:uint256[],_transferTokenContracts:address[],_feeAmounts:uint256[],_feeTokenContracts:address[],_logicContractAddress:address,_payload:bytes,_timeout:uint256,_invalidationId:bytes32,_invalidationNonce:uint256" := rfl
theorem fact_sol_logic_call_encode : Generated.sol_logic_call_encode =
    "state_gravityId, 0x6c6f67696343616c6c0000000000000000000000000000000000000000000000, _args.transferAmounts, _args.transferTokenContracts, _args.feeAmounts, _args.feeTokenContracts, _args.logicContractAddress, _args.payload, _args.timeOut, _args.invalidationId, _args.invalidationNonce" := rfl
theorem fact_packcall_return : Generated.packcall_return =
    "crypto.Keccak256Hash(abiEncodedCall[4:]).Bytes()" := rfl
theorem fact_abi_SignerSetTxCheckpointABIJSON : Generated.abi_SignerSetTxCheckpointABIJSON =
    "_gravityId:bytes32,_checkpoint:bytes32,_valsetNonce:uint256,_validators:address[],_powers:uint256[]" := rfl
theorem fact_abi_BatchTxCheckpointABIJSON : Generated.abi_BatchTxCheckpointABIJSON =
    "_gravityId:bytes32,_methodName:bytes32,_amounts:uint256[],_destinations:address[],_fees:uint256[],_batchNonce:uint256,_tokenContract:address,_batchTimeout:uint256" := rfl
theorem fact_sol_make_checkpoint : Generated.sol_make_checkpoint =
    "_gravityId, methodName, _valsetNonce, _validators, _powers" := rfl
theorem fact_sol_checkpoint_method : Generated.sol_checkpoint_method =
    "0x636865636b706f696e7400000000000000000000000000000000000000000000" := rfl
theorem fact_sol_submit_batch_encode : Generated.sol_submit_batch_encode =
    "state_gravityId, 0x7472616e73616374696f6e426174636800000000000000000000000000000000, _amounts, _destinations, _fees, _batchNonce, _tokenContract, _batchTimeout" := rfl
theorem fact_sol_submit_batch_params : Generated.sol_submit_batch_params =
    "address[] memory _currentValidators, uint256[] memory _currentPowers, uint256 _currentValsetNonce, uint8[] memory _v, bytes32[] memory _r, bytes32[] memory _s, uint256[] memory _amounts, address payable[] memory _destinations, uint256[] memory _fees, uint256 _batchNonce, address _tokenContract, uint256 _batchTimeout" := rfl
theorem fact_sol_update_valset_params : Generated.sol_update_valset_params =
    "address[] memory _newValidators, uint256[] memory _newPowers, uint256 _newValsetNonce, address[] memory _currentValidators, uint256[] memory _currentPowers, uint256 _currentValsetNonce, uint8[] memory _v, bytes32[] memory _r, bytes32[] memory _s" := rfl
theorem fact_sig_prefix : Generated.sig_prefix =
    "\"\\x19Ethereum Signed Message:\\n32\"" := rfl
theorem fact_sol_verify_prefix : Generated.sol_verify_prefix =
    "\"\\x19Ethereum Signed Message:\\n32\", _theHash" := rfl
theorem fact_sig_validate_conds : Generated.sig_validate_conds =
    "len(signature) < 65 | sigCopy[64] == 27 || sigCopy[64] == 28 | err != nil | addr != ethAddress" := rfl

/-! ### 6. Non-vacuity -/

/-- A one-member signer set: 5 heads + (length word + 1 address) + (length word + 1 power). -/
example : (abiEncode (solArgsSignerSet (List.replicate 32 1) (padRight (strBytes "checkpoint") 32) 7
    [List.replicate 20 170] [5])).length = 288 := by decide +kernel

/-- Its two offset words point at byte 160 and byte 224. -/
example : ((abiEncode (solArgsSignerSet (List.replicate 32 1) (padRight (strBytes "checkpoint") 32) 7
    [List.replicate 20 170] [5])).drop 96).take 64
      = List.replicate 31 0 ++ [160] ++ (List.replicate 31 0 ++ [224]) := by decide +kernel

/-- The whole encoding, word by word. -/
example : abiEncode (solArgsSignerSet (List.replicate 32 1) (padRight (strBytes "checkpoint") 32) 7
    [List.replicate 20 170] [5])
      = List.replicate 32 1
        ++ ([99, 104, 101, 99, 107, 112, 111, 105, 110, 116] ++ List.replicate 22 0)
        ++ (List.replicate 31 0 ++ [7])
        ++ (List.replicate 31 0 ++ [160])
        ++ (List.replicate 31 0 ++ [224])
        ++ (List.replicate 31 0 ++ [1]) ++ (List.replicate 12 0 ++ List.replicate 20 170)
        ++ (List.replicate 31 0 ++ [1]) ++ (List.replicate 31 0 ++ [5]) := by decide +kernel

/-- A one-transfer batch: 8 heads + three one-element arrays. -/
example : (abiEncode (goArgsBatch (List.replicate 32 1)
    { amounts := [1000], destinations := [List.replicate 20 187], fees := [3], nonce := 2,
      token := List.replicate 20 204, timeout := 99 })).length = 448 := by decide +kernel

/-- Its three offset words: 256, 320, 384. -/
example : ((abiEncode (goArgsBatch (List.replicate 32 1)
    { amounts := [1000], destinations := [List.replicate 20 187], fees := [3], nonce := 2,
      token := List.replicate 20 204, timeout := 99 })).drop 64).take 96
      = (List.replicate 30 0 ++ [1, 0]) ++ (List.replicate 30 0 ++ [1, 64]) ++ (List.replicate 30 0 ++ [1, 128]) := by
  decide +kernel

/-- The hypotheses of `encode_signerset_injective` are satisfiable, and it separates two
    signer sets that differ in one power. -/
example : abiEncode (solArgsSignerSet (List.replicate 32 1) (padRight (strBytes "checkpoint") 32) 7
      [List.replicate 20 170] [5])
    ≠ abiEncode (solArgsSignerSet (List.replicate 32 1) (padRight (strBytes "checkpoint") 32) 7
      [List.replicate 20 170] [6]) := by
  intro h
  have := encode_signerset_injective (by decide) (by decide) (by decide +kernel) (by decide +kernel)
    (by decide) (by decide) (by decide) (by decide) (by decide) (by decide)
    (by decide) (by decide) (by decide) (by decide) h
  exact absurd this.2.2.2.2 (by decide)

/-- A toy recovery function (the "address" is the first 20 signature bytes) shows
    `validateSig` can hold, with `v = 27` normalised to `0`. -/
example :
    let r : Bytes → Bytes → Option Bytes := fun _ sig => if sig.getD 64 9 = 0 then some (sig.take 20) else none
    validateSig r [1, 2, 3] (List.replicate 64 7 ++ [27]) (List.replicate 20 7) = true := by
  simp only [validateSig, normV]
  decide +kernel

/-- A 14-byte invalidation scope lands in the FIRST 14 bytes of the id. -/
example : scope32 (List.replicate 14 7) = List.replicate 14 7 ++ List.replicate 18 0 := by decide +kernel

/-- A call with one transfer, no fee, a 3-byte payload: 11 heads + five tails. -/
example : (abiEncode (goArgsCall (List.replicate 32 1)
    { transferAmounts := [5], transferTokens := [List.replicate 20 9], feeAmounts := [], feeTokens := [],
      logicContract := List.replicate 20 3, payload := [1, 2, 3], timeout := 10,
      invalidationScope := [7, 7], invalidationNonce := 4 })).length = 11 * 32 + 64 + 64 + 32 + 32 + 64 := by
  decide +kernel

end Mhub2.C07
