/-
  C15 — Genesis export/import round trip.
  `Hub.exportImport` is the model of ExportGenesis → JSON → InitGenesis on a fresh instance; the
  harness performs that round trip on the real keepers at block boundaries of seeded histories and
  compares every store section and the behaviour of the continuation with the model.
  The full statement (everything needed to continue is preserved) is FALSE of the code: the
  negation witnesses below name each lost part (known findings); what is preserved is proved.
-/
import Mhub2.Step
import Mhub2.Generated.Facts
import Lemmas.Assoc
namespace Mhub2.C15
open Mhub2

theorem alGet_map_self {ν : Type} (f : String → ν) (l : List String) (c : String) (hc : c ∈ l) :
    alGet (l.map fun x => (x, f x)) c = some (f c) := by
  induction l with
  | nil => simp at hc
  | cons x xs ih =>
    simp only [List.map_cons, alGet]
    by_cases hx : x = c
    · subst hx; simp
    · have hxc : (x == c) = false := by simpa using hx
      simp only [hxc]
      have hc' : c ∈ xs := by
        rcases List.mem_cons.mp hc with h' | h'
        · exact absurd h'.symm hx
        · exact h'
      simpa using ih hc'

theorem chain_exportImport (h : Hub) (c : String) (hc : c ∈ h.chains) :
    h.exportImport.chain c = (h.chain c).exportImport h.height := by
  unfold Hub.exportImport
  simp only [Hub.chain]
  rw [alGet_map_self (fun c => ((alGet h.cs c).getD {}).exportImport h.height) h.chains c hc]
  rfl

/-- What the exported projection preserves, for every chain of the configuration: every nonce and
    counter that is exported, the last observed signer set and external height, the per-validator
    nonces; and the hub-wide token list, parameters, prices and holders. -/
theorem roundtrip_projection (h : Hub) (c : String) (hc : c ∈ h.chains) :
    let c' := h.exportImport.chain c
    c'.lastObserved = (h.chain c).lastObserved ∧ c'.outSeq = (h.chain c).outSeq ∧
    c'.lastBatchNonce = (h.chain c).lastBatchNonce ∧ c'.lastObservedSet = (h.chain c).lastObservedSet ∧
    c'.obsExtHeight = (h.chain c).obsExtHeight ∧ c'.lastNonceBy = (h.chain c).lastNonceBy ∧
    h.exportImport.tokens = h.tokens ∧ h.exportImport.params = h.params ∧ h.exportImport.chains = h.chains ∧
    h.exportImport.prices = h.prices ∧ h.exportImport.holders = h.holders := by
  intro c'
  have : c' = (h.chain c).exportImport h.height := chain_exportImport h c hc
  rw [this]
  exact ⟨rfl, rfl, rfl, rfl, rfl, rfl, rfl, rfl, rfl, rfl, rfl⟩

theorem oracle_roundtrip_projection (o : OracleSt) :
    o.exportImport.prices = o.prices ∧ o.exportImport.holders = o.holders := ⟨rfl, rfl⟩

/-- What is lost, by construction of the export: the unbatched pool, every outgoing transaction
    (batches and signer sets with their sequence numbers), confirmations, vote records, the transfer
    id counter and the signer-set nonce counter. -/
theorem roundtrip_loses (c : ChainSt) (ht : Nat) :
    (c.exportImport ht).pool = [] ∧ (c.exportImport ht).batches = [] ∧ (c.exportImport ht).sets = [] ∧
    (c.exportImport ht).sigs = [] ∧ (c.exportImport ht).records = [] ∧
    (c.exportImport ht).lastSteId = 0 ∧ (c.exportImport ht).latestSetNonce = 0 ∧
    (c.exportImport ht).obsCosmosHeight = ht := ⟨rfl, rfl, rfl, rfl, rfl, rfl, rfl, rfl⟩

theorem hub_roundtrip_loses (h : Hub) : h.exportImport.status = [] ∧ h.exportImport.feeRec = [] := ⟨rfl, rfl⟩
theorem oracle_roundtrip_loses (o : OracleSt) :
    o.exportImport.epoch = 1 ∧ o.exportImport.priceVotes = [] ∧ o.exportImport.priceClaims = [] := ⟨rfl, rfl, rfl⟩

/-- The full statement is false: a state with a pending transfer whose round trip differs (the
    transfer is gone and the next transfer would reuse its id). -/
def exChain : ChainSt :=
  { pool := [{ id := 1, sender := "a", recipient := "r", tokenId := 1, extToken := "t", amount := 5, fee := 1,
               comm := 0, chain := "c", txHash := "x", createdAt := 0, refundAddr := "a", refundChain := "hub" }],
    lastSteId := 1 }

theorem full_statement_false :
    (exChain.exportImport 7).pool ≠ exChain.pool ∧ (exChain.exportImport 7).lastSteId ≠ exChain.lastSteId := by
  constructor
  · intro h; simp [ChainSt.exportImport, exChain] at h
  · decide

/-- A chain state none of whose non-exported parts is populated, whose delegate-key maps are empty
    and whose observed-height record was written at the export height, survives the round trip
    unchanged; the continuation of such a state is therefore identical. -/
theorem roundtrip_fixpoint (c : ChainSt) (ht : Nat)
    (h1 : c.pool = []) (h2 : c.batches = []) (h3 : c.sets = []) (h4 : c.sigs = []) (h5 : c.records = [])
    (h6 : c.lastSteId = 0) (h7 : c.latestSetNonce = 0) (h8 : c.obsCosmosHeight = ht)
    (h9 : c.valExt = []) (h10 : c.orchVal = []) (h11 : c.extOrch = []) :
    c.exportImport ht = c := by
  cases c
  simp_all [ChainSt.exportImport]

/-- The single binding of a validator that registered once survives the round trip. -/
theorem roundtrip_single_binding (c : ChainSt) (ht : Nat) (v e o : String)
    (h1 : c.valExt = [(v, e)]) (h2 : alGet c.extOrch e = some o) :
    (c.exportImport ht).valExt = [(v, e)] ∧ (c.exportImport ht).orchVal = [(o, v)] ∧
    (c.exportImport ht).extOrch = [(e, o)] := by
  simp [ChainSt.exportImport, h1, h2, alSet]

/-- Bridge lemmas: the field sets written by ExportGenesis and read by InitGenesis. -/
theorem fact_genesis_exported : Generated.genesis_exported =
    "Params,TokenInfos,ChainId,DelegateKeys,Nonces,LastObservedEventNonce,Sequence,LastObservedValset,LastOutgoingBatchTxNonce,LatestBlockHeight" := rfl
theorem fact_genesis_imported : Generated.genesis_imported =
    "data.ExternalStates,data.Params,data.TokenInfos,externalState.ChainId,externalState.Confirmations,externalState.DelegateKeys,externalState.ExternalEventVoteRecords,externalState.LastObservedEventNonce,externalState.LastObservedValset,externalState.LastOutgoingBatchTxNonce,externalState.LatestBlockHeight,externalState.LatestBlockHeight.ExternalHeight,externalState.Nonces,externalState.OutgoingTxs,externalState.Sequence,externalState.UnbatchedSendToExternalTxs" := rfl
theorem fact_genesis_import_counters : Generated.genesis_import_counters =
    "k.SetLastObservedExternalBlockHeight(ctx, chainId, externalState.LatestBlockHeight.ExternalHeight) | k.setLastObservedEventNonce(ctx, chainId, externalState.LastObservedEventNonce) | k.setLastOutgoingBatchNonce(ctx, chainId, externalState.LastOutgoingBatchTxNonce) | k.setOutgoingSequence(ctx, chainId, externalState.Sequence)" := rfl
theorem fact_oracle_genesis_exported : Generated.oracle_genesis_exported = "Params,Prices,Holders" := rfl
theorem fact_oracle_genesis_epoch : Generated.oracle_genesis_epoch = "k.setCurrentEpoch(ctx, 1)" := rfl

end Mhub2.C15
