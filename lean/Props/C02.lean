/-
  C02 — An external event is applied only when distinct bonded validators holding at least 66% of
  the total power voted for it.
  Property theorems only; helper lemmas live in Lemmas/Votes.lean.

  `votePower power votes` is the sum of `power v` over the entries of `votes`
  (`votePower_def`); `ReachB` is reachability by claims whose nonce fits `uint64`
  (see Props/C03.lean for why the bound matters for "each validator counted once").
-/
import Mhub2.Votes
import Mhub2.Generated.Facts
import Lemmas.Votes
namespace Mhub2.C02
open Mhub2

theorem votePower_def (power : String → Nat) (votes : List String) :
    votePower power votes = (votes.map (fun v => (power v : Int))).foldl (· + ·) 0 := rfl

/-- 1. The tally accepts a record only if the power of its voters reaches the required power. -/
theorem accepts_has_quorum {c : ChainSt} {power : String → Nat} {required : Int} {r : VoteRec}
    (h : c.accepts power required r = true) : required ≤ votePower power r.votes := by
  have := reachesThreshold_le r.votes 0 (accepts_iff.mp h).2.2
  omega

/-- 2. The required power `(66·total + 99) / 100` is at least 66% of the total. -/
theorem threshold_is_66_percent {total s : Int} (ht : 0 ≤ total)
    (h : voteThreshold 66 99 100 total ≤ s) : 66 * total ≤ 100 * s := by
  unfold voteThreshold at h
  rw [Int.tdiv_eq_ediv_of_nonneg (by omega)] at h
  omega

/-- The voters of an applied record hold at least 66% of `total` (any state). -/
theorem applied_power_quorum {c : ChainSt} {power : String → Nat} {total : Int} {ht : Nat} :
    ∀ r ∈ (c.tallyPure power (voteThreshold 66 99 100 total) ht).2, 0 ≤ total →
      66 * total ≤ 100 * votePower power r.votes := by
  intro r hr htot
  have := reachesThreshold_le r.votes 0 (tallyPure_applied hr).2
  exact threshold_is_66_percent htot (by omega)

/-- 3. An applied event had distinct validators holding at least 66% of `total`, each counted
    once.  (`ReachB`: distinctness needs `uint64` nonces.) -/
theorem applied_has_quorum {c : ChainSt} {power : String → Nat} {total : Int} {ht : Nat} (h : ReachB c) :
    ∀ r ∈ (c.tallyPure power (voteThreshold 66 99 100 total) ht).2, 0 ≤ total →
      r.votes.Nodup ∧ 66 * total ≤ 100 * votePower power r.votes := by
  intro r hr htot
  exact ⟨h.inv.nodup r (tallyPure_applied hr).1, applied_power_quorum r hr htot⟩

/-- The hub's required power is that threshold of the bonded total, for the shipped parameters. -/
theorem hub_required_is_threshold (h : Hub)
    (hp : h.params.voteNum = 66 ∧ h.params.voteAdd = 99 ∧ h.params.voteDen = 100) :
    h.requiredPower = voteThreshold 66 99 100 h.totalPower := by
  unfold Hub.requiredPower; rw [hp.1, hp.2.1, hp.2.2]

/-- 4. A resolved signer is a bonded validator of the staking view: the validator the signer is
    registered as orchestrator for, or the signer itself when it has no such registration. -/
theorem signer_is_bonded_validator {h : Hub} {chain signer v : String}
    (hok : h.signerValidator chain signer = .ok v) :
    ∃ val ∈ h.staking, val.addr = v ∧ val.bonded = true ∧
      (alGet (h.chain chain).orchVal signer = some v ∨
       (alGet (h.chain chain).orchVal signer = none ∧ v = signer)) := by
  unfold Hub.signerValidator Hub.validator? at hok
  simp only at hok
  split at hok
  · simp [failM] at hok
  · rename_i val hf
    split at hok
    · rename_i hb
      injection hok with hok
      have hp := List.find?_some hf
      refine ⟨val, List.mem_of_find?_eq_some hf, hok, hb, ?_⟩
      rw [← hok]
      cases hg : alGet (h.chain chain).orchVal signer with
      | none =>
        rw [hg] at hp
        exact Or.inr ⟨rfl, by simpa using hp⟩
      | some x =>
        rw [hg] at hp
        have : val.addr = x := by simpa using hp
        exact Or.inl (by rw [this])
    · simp [failM] at hok

/-- A vote is recorded by `submitEvent` under the resolved (bonded) validator only. -/
theorem submit_records_bonded {h h' : Hub} {chain signer : String} {ev : Event}
    (hok : h.submitEvent chain signer ev = .ok h') :
    ∃ v c', h.signerValidator chain signer = .ok v ∧
      (h.chain chain).recordVote ev ev.hash v = .ok c' ∧ h' = h.setChain chain c' := by
  unfold Hub.submitEvent at hok
  simp only [bind, Except.bind] at hok
  split at hok
  · simp [failM] at hok
  · split at hok
    · simp at hok
    · rename_i v hv
      split at hok
      · simp at hok
      · rename_i c' hc
        simp [pure, Except.pure] at hok
        exact ⟨v, c', hv, hc, hok.symm⟩


/-- The bridge's staking hooks are empty: a validator entering or leaving the bonded set, or a change of
    its power, writes no bridge state — in particular not the validator's last voted nonce, which is
    what enforces one vote per validator per nonce.  (The harness calls the real hooks at every change
    of the scripted validator set; to the model they are no-ops because of this fact.) -/
theorem fact_staking_hooks : Generated.staking_hooks =
    "AfterDelegationModified{} | AfterValidatorBeginUnbonding{} | AfterValidatorBonded{} | AfterValidatorCreated{} | AfterValidatorRemoved{} | BeforeDelegationCreated{} | BeforeDelegationRemoved{} | BeforeDelegationSharesModified{} | BeforeValidatorModified{} | BeforeValidatorSlashed{}" := rfl

/-- 5. Bridge lemmas: the source expressions the model was written from. -/
theorem fact_vote_threshold_expr : Generated.vote_threshold_expr =
    "sdk.NewInt(66).Mul(totalPower).Add(sdk.NewInt(99)).Quo(sdk.NewInt(100))" := rfl
theorem fact_try_cmp : Generated.try_cmp = "eventVotePower.GTE(requiredPower)" := rfl
theorem fact_tally_gate : Generated.tally_gate =
    "nonce == uint64(k.GetLastObservedEventNonce(ctx, chainId))+1" := rfl
theorem fact_record_contiguity : Generated.record_contiguity =
    "event.GetEventNonce() != expectedNonce && lastEventNonce != 0" := rfl
theorem fact_record_vote_append : Generated.record_vote_append =
    "append(eventVoteRecord.Votes, val.String())" := rfl
theorem fact_try_write_order : Generated.try_write_order =
    "setLastObservedEventNonce,SetLastObservedExternalBlockHeight,setExternalEventVoteRecord,processExternalEvent" := rfl
theorem fact_try_accepted_guard : Generated.try_accepted_guard = "!eventVoteRecord.Accepted" := rfl
theorem fact_try_power_sources : Generated.try_power_sources =
    "k.StakingKeeper.GetLastValidatorPower(ctx, val) | types.EventVoteRecordPowerThreshold(k.StakingKeeper.GetLastTotalPower(ctx))" := rfl
theorem fact_signer_conds : Generated.signer_conds =
    "err != nil | validator == nil | validatorI == nil | !validatorI.IsBonded()" := rfl
theorem fact_voteThresholdNum : Generated.voteThresholdNum = 66 := rfl
theorem fact_voteThresholdAdd : Generated.voteThresholdAdd = 99 := rfl
theorem fact_voteThresholdDen : Generated.voteThresholdDen = 100 := rfl
/-- The model's default parameters are the extracted constants. -/
theorem fact_params_default : ({} : Params).voteNum = Generated.voteThresholdNum ∧
    ({} : Params).voteAdd = Generated.voteThresholdAdd ∧
    ({} : Params).voteDen = Generated.voteThresholdDen := ⟨rfl, rfl, rfl⟩

/-! 6. Non-vacuity: three validators with powers 5, 3, 2 (total 10, required 7).  `a` alone (5) does
    not reach the threshold; `a` and `b` (8) do. -/
def exPower (v : String) : Nat := if v == "a" then 5 else if v == "b" then 3 else if v == "c" then 2 else 0
def exReq : Int := voteThreshold 66 99 100 10
def exEv : Event := .contractCall 1 [] 0 10

example : (exReq == 7) = true := by decide
/-- one vote of power 5: nothing applied -/
example : ((vrun [.vote "a" exEv [1], .tally exPower exReq 5]).lastObserved == 0) = true := by decide
/-- two votes of power 8: applied -/
example : ((vrun [.vote "a" exEv [1], .vote "b" exEv [1], .tally exPower exReq 5]).lastObserved == 1) = true := by
  decide
example : ((vapplied [.vote "a" exEv [1], .vote "b" exEv [1], .tally exPower exReq 5]).map (·.votes)
    == [["a", "b"]]) = true := by decide
/-- votes for different claims at the same nonce are not pooled: 5 + 3 split over two hashes -/
example : ((vrun [.vote "a" exEv [1], .vote "b" exEv [2], .tally exPower exReq 5]).lastObserved == 0) = true := by
  decide
/-- signer resolution through a delegate key -/
def exHub : Hub := { chains := ["ethereum"], staking := [⟨"a", 5, true⟩, ⟨"b", 3, false⟩],
                     cs := [("ethereum", { orchVal := [("orch", "a")] })] }
example : (match exHub.signerValidator "ethereum" "orch" with | .ok v => v == "a" | _ => false) = true := by decide
example : (match exHub.signerValidator "ethereum" "a" with | .ok v => v == "a" | _ => false) = true := by decide
example : (match exHub.signerValidator "ethereum" "b" with | .ok _ => false | _ => true) = true := by decide

end Mhub2.C02
