/-
  C05 — Block processing never panics or deadlocks (partial: goroutine scheduling is not modelled;
  the lock protocol and the panic sources are).  Panic freedom of the model's begin/end block is in
  Props/C05Panic.lean.
-/
import Mhub2.LockModel
import Mhub2.Generated.Facts
namespace Mhub2.C05
open Mhub2.Lock

/-- A trace that never opens an iterator while another is open never blocks, whatever the number of
    writes and whatever the sizes involved. -/
theorem no_nested_iterator_no_deadlock (s : St) (ops : List SOp) (hd : Disciplined s ops) :
    (run s ops).isSome = true := by
  induction ops generalizing s with
  | nil => simp [run]
  | cons op ops ih =>
    unfold run
    unfold Disciplined at hd
    cases hstep : stepS s op with
    | none =>
      -- only `openIter` can block, and it needs a read-locked open iterator
      cases op with
      | write => simp [stepS] at hstep
      | next i => simp [stepS] at hstep
      | close i => simp [stepS] at hstep
      | openIter =>
        have hnil := hd.1 rfl
        simp [stepS, St.readLocked, hnil] at hstep
    | some s' =>
      simp only
      have := hd.2
      rw [hstep] at this
      exact ih s' this

/-- The schedule of the repaired `refundExpiredTxs` — iterate the pool to the end, close, then one
    lookup iterator per refund — is disciplined for every number of dirty keys, pool size and number
    of refunds. -/
def refundTrace (writes poolSize refunds : Nat) : List SOp :=
  List.replicate writes .write ++ [.openIter] ++ List.replicate poolSize (.next 0) ++ [.close 0] ++
    (List.range refunds).flatMap fun k => [.openIter, .close (k + 1), .write]

/-- The schedule of the code before the repair (`fixed: 4eb9a94`): the refund, and with it a second
    iterator, runs inside the pool iteration.  With 80 dirty pool keys it blocks at the second refund:
    the first refund's delete is a dirty key and the outer producer still holds the read lock. -/
def nestedTrace (writes : Nat) : List SOp :=
  List.replicate writes .write ++ [.openIter, .next 0, .openIter, .close 1, .write, .next 0, .openIter]

theorem nested_refund_deadlocks : run {} (nestedTrace 80) = none := by decide +kernel
theorem nested_refund_small_pool_ok : (run {} (nestedTrace 60)).isSome = true := by decide +kernel

/-- Non-vacuity: the repaired schedule with 80 dirty keys and 3 refunds runs to completion. -/
example : (run {} (refundTrace 80 80 3)).isSome = true := by decide +kernel

/-- Bridge lemmas: no iterator callback and no iterator loop of the bridge module reaches a function
    that opens another iterator; handler panics are confined; end block tallies then refunds. -/
theorem fact_lock_nested_iterators : Generated.lock_nested_iterators = "" := rfl
theorem fact_lock_nested_iterator_loops : Generated.lock_nested_iterator_loops = "" := rfl
theorem fact_process_has_recover : Generated.process_has_recover = "true" := rfl
theorem fact_process_uses_cache_ctx : Generated.process_uses_cache_ctx = "true" := rfl
theorem fact_end_order : Generated.end_order = "eventVoteRecordTally,refundExpiredTxs" := rfl
theorem fact_begin_order : Generated.begin_order =
    "cleanupTimedOutBatchTxs,cleanupTimedOutContractCallTxs,createSignerSetTxs,createBatchTxs,pruneSignerSetTxs" := rfl
theorem fact_det_goroutines : Generated.det_goroutines = "" := rfl

end Mhub2.C05
