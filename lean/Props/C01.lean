/-
  C01 — Vouchers never exceed locked collateral: the hub-side VALUE CONSERVATION LAW.

  For a denom, `Hub.value` (Mhub2/Value.lean) is the circulating supply plus everything still in
  flight towards external chains (pool and batches: amount + fee + commission), in a common unit
  of 10^-36.  Decimal conversions are floor divisions or exact multiplications, so no keeper
  function creates value: it only moves, is written off after an observed execution, or leaks
  downwards by rounding.  The only additions are deposits observed on an external chain (where
  the collateral was locked) and the test-harness `fund` operation.

  Standing hypotheses (`Hub.VInv`, Lemmas/Value.lean) of the state BEFORE the step:
    * `tok   : h.TokensOK`         decimals ≤ 36; (chain, ext id), (chain, denom), id name one token
    * `nodup : h.tokens.Nodup`     (NOT implied by `TokensOK`; without it `Hub.inflight` counts twice)
    * `led   : h.LedgerInv`        ids pairwise distinct per chain, batch nonces distinct
    * `ent   : h.EntInv`           every in-flight transfer names a token of its chain
                                   (⇒ `h.EntriesOK`), has non-negative parts, and a refund chain
                                   that is "" / "hub" / a chain carrying its denom; no negative
                                   balance; every batch holds transfers of its own token
  and `h'.Bounded` (id and nonce counters below 2^64) of the state AFTER the step.  All of them are
  preserved by every operation (`*_inv`, `vinv_reachable`).
-/
import Lemmas.Value
import Mhub2.Generated.Facts
namespace Mhub2.C01
open Mhub2

/-! ### A. Conversions never create value -/

/-- Hub units → external units (floor): worth at most what went in. -/
theorem toExt_value_le {d : Nat} (hd : d ≤ 36) (a : Int) : toExt d a * unitOf d ≤ a * unitOf 18 :=
  Mhub2.toExt_value_le hd a

/-- External units → hub units (floor): worth at most what went in. -/
theorem fromExt_value_le {d : Nat} (hd : d ≤ 36) (a : Int) : fromExt d a * unitOf 18 ≤ a * unitOf d :=
  Mhub2.fromExt_value_le hd a

/-- Equality when the conversion is exact: at least 18 decimals, or a multiple of the factor. -/
theorem toExt_value_eq {d : Nat} (hd : d ≤ 36) (a : Int) (hex : 18 ≤ d ∨ pow10 (18 - d) ∣ a) :
    toExt d a * unitOf d = a * unitOf 18 := by
  by_cases h18 : 18 ≤ d
  · exact toExt_value_eq_of_ge h18 hd a
  · rcases hex with h | h
    · exact absurd h h18
    · exact toExt_value_eq_of_dvd (by omega) a h

theorem fromExt_value_eq {d : Nat} (hd : d ≤ 36) (a : Int) (hex : d ≤ 18 ∨ pow10 (d - 18) ∣ a) :
    fromExt d a * unitOf 18 = a * unitOf d := by
  by_cases h18 : d ≤ 18
  · exact fromExt_value_eq_of_le h18 a
  · rcases hex with h | h
    · exact absurd h h18
    · exact fromExt_value_eq_of_dvd (by omega) hd a h

/-- Rounding does lose value: 1 hub unit (10^-18) of a 6-decimals token converts to 0. -/
example : toExt 6 1 * unitOf 6 = 0 ∧ (1 : Int) * unitOf 18 = 1000000000000000000 := by decide

/-! ### The invariants are preserved -/

/-- `h.EntInv` contains the hypothesis `EntriesOK` of Mhub2/Value.lean. -/
theorem entriesOK_of_vinv {h : Hub} (hi : h.VInv) : h.EntriesOK := hi.ent.entriesOK

/-- Whatever a step does to value, it keeps the standing hypotheses. -/
theorem inv_of_vrel {denom : String} {δ : Int} {h h' : Hub} (r : VRel denom δ h h') (hi : h.VInv)
    (hb : h'.Bounded) : h'.VInv := r.inv hi hb

/-- The standing hypotheses hold in every state reached from genesis whose counters are below
    `2^64` and whose token table is well formed and duplicate free. -/
theorem vinv_reachable (ops : List Op) (hb : (runOps ops).Bounded) (htk : (runOps ops).TokensOK)
    (hnd : (runOps ops).tokens.Nodup) : (runOps ops).VInv := Mhub2.vinv_reachable ops hb htk hnd

/-! ### B1. `createSendToExternal` -/

/-- Exact account: `a + f + c` hub units are burnt, an entry worth the three converted parts is
    added for the token of `(chain, dn)`. -/
theorem createSte_value_eq {h h' : Hub} {chain sender rcp dn tx rc ra : String} {a f c : Int} {id : Nat}
    (htk : h.TokensOK) (hnd : h.tokens.Nodup) (hi : h.LedgerInv) (hb : h'.Bounded)
    (hok : h.createSte chain sender rcp dn a f c tx rc ra = .ok (h', id)) (denom : String) :
    ∃ tok, h.tokenByDenom chain dn = some tok ∧
      h'.value denom = h.value denom - hubCredit dn denom (a + f + c) +
        (if dn = denom then (toExt tok.dec a + toExt tok.dec f + toExt tok.dec c) * unitOf tok.dec else 0) :=
  Mhub2.createSte_value_eq hok htk hnd hi hb denom

theorem createSte_value {h h' : Hub} {chain sender rcp dn tx rc ra : String} {a f c : Int} {id : Nat}
    (htk : h.TokensOK) (hnd : h.tokens.Nodup) (hi : h.LedgerInv) (hb : h'.Bounded)
    (hok : h.createSte chain sender rcp dn a f c tx rc ra = .ok (h', id)) (denom : String) :
    h'.value denom ≤ h.value denom :=
  createSte_value_le hok htk hnd hi hb denom

theorem createSte_inv {h h' : Hub} {chain sender rcp dn tx rc ra : String} {a f c : Int} {id : Nat}
    (hi : h.VInv) (hb : h'.Bounded) (hok : h.createSte chain sender rcp dn a f c tx rc ra = .ok (h', id))
    (ha : 0 ≤ a) (hf : 0 ≤ f) (hc : 0 ≤ c)
    (hrc : rc = "" ∨ rc = "hub" ∨ ∃ t' ∈ h.tokens, t'.chain = rc ∧ t'.denom = dn) : h'.VInv :=
  (createSte_vrel hok ha hf hc hrc "").inv hi hb

/-! ### B2. Messages: send, cancel -/

theorem sendToExternal_value {h h' : Hub} {sender chain rcp dn tx : String} {amount fee : Int} {id : Nat}
    (hi : h.VInv) (hb : h'.Bounded) (hok : h.sendToExternal sender chain rcp dn amount fee tx = .ok (h', id))
    (denom : String) : h'.value denom ≤ h.value denom := by
  have := (sendToExternal_vrel hok denom).le hi hb; omega

theorem sendToExternal_inv {h h' : Hub} {sender chain rcp dn tx : String} {amount fee : Int} {id : Nat}
    (hi : h.VInv) (hb : h'.Bounded) (hok : h.sendToExternal sender chain rcp dn amount fee tx = .ok (h', id)) :
    h'.VInv := (sendToExternal_vrel hok "").inv hi hb

/-- A completed cancel: the refund `fromExt (amount + fee + comm)` is worth at most the entry it
    replaces, and a refund sent on to a foreign chain only loses value again. -/
theorem cancelSte_value {h h' : Hub} {chain sender : String} {id : Nat} (hi : h.VInv) (hb : h'.Bounded)
    (hok : h.cancelSte chain id sender = (h', none)) (denom : String) : h'.value denom ≤ h.value denom := by
  have := (cancelSte_none_vrel hok denom).le hi hb; omega

/-- A failing cancel: the state is unchanged, or it is the PARTIAL FAILURE on the path to a foreign
    refund chain: the refund was minted to the temporary account, `createSte` towards the refund
    chain failed, and both the minted coins and the pool entry stay.  Value then grows by exactly
    the refund.  (`Hub.cancelMsg` rolls this back; `Hub.refundExpired` commits it for `.fail`.) -/
theorem cancelSte_value_fail {h h' : Hub} {chain sender : String} {id : Nat} {e : Err}
    (hok : h.cancelSte chain id sender = (h', some e)) (denom : String) :
    h'.value denom = h.value denom ∨ ∃ s, s ∈ (h.chain chain).pool ∧ s.id = id ∧
      s.refundChain ≠ "" ∧ s.refundChain ≠ "hub" ∧
      h'.value denom = h.value denom + hubCredit (h.denomOfTokenId s.tokenId) denom (h.refundValue chain s) :=
  cancelSte_fail_value hok denom

/-- Under the standing hypotheses (which include: the refund chain of every in-flight transfer
    carries its denom, no balance is negative) the partial failure cannot mint: a cancel never
    increases value, whatever its outcome. -/
theorem cancelSte_value_any {h h' : Hub} {chain sender : String} {id : Nat} {oe : Option Err} (hi : h.VInv)
    (hb : h'.Bounded) (hok : h.cancelSte chain id sender = (h', oe)) (denom : String) :
    h'.value denom ≤ h.value denom := by
  have := (cancelSte_any_vrel hok denom).le hi hb; omega

theorem cancelSte_inv {h h' : Hub} {chain sender : String} {id : Nat} {oe : Option Err} (hi : h.VInv)
    (hb : h'.Bounded) (hok : h.cancelSte chain id sender = (h', oe)) : h'.VInv :=
  (cancelSte_any_vrel hok "").inv hi hb

theorem cancelMsg_value {h h' : Hub} {sender chain : String} {id : Nat} (hi : h.VInv) (hb : h'.Bounded)
    (hok : h.cancelMsg sender chain id = .ok h') (denom : String) : h'.value denom ≤ h.value denom := by
  have := (cancelMsg_vrel hok denom).le hi hb; omega

/-- FINDING (latent): the counter-example to `cancelSte_value` for failing outcomes when the refund
    chain does not carry the denom.  The hub below satisfies `TokensOK`, `EntriesOK`, `LedgerInv`,
    `Bounded` and has a duplicate-free token table; its only pool entry asks for a refund on chain
    "bsc", where denom "hub" has no token. -/
def pfSte : Ste := ⟨1, "a", "r", 1, "T", 10, 0, 0, "e", "x", 0, "q", "bsc"⟩

def pfHub : Hub :=
  { chains := ["e"], tokens := [⟨1, "hub", "e", "T", 18, 0⟩], time := 1000000,
    cs := [("e", { lastSteId := 1, pool := [pfSte] })] }

/-- The cancel fails with "token not found", keeps the pool entry AND the 10 freshly minted coins:
    value grows from 10·10^18 to 20·10^18 common units. -/
theorem cancelSte_partial_failure_mints :
    (match (pfHub.cancelSte "e" 1 "a").2 with | some (.fail "token not found") => true | _ => false) = true ∧
    ((pfHub.cancelSte "e" 1 "a").1.chain "e").pool.length = 1 ∧
    pfHub.value "hub" = 10 * unitOf 18 ∧
    (pfHub.cancelSte "e" 1 "a").1.value "hub" = 20 * unitOf 18 := by decide +kernel

/-- … and the expiry path (`refundExpired`, run by every end block) commits exactly that state. -/
theorem refundExpired_commits_partial_failure :
    (match pfHub.refundExpired "e" with
      | .ok h' => h'.value "hub" == 20 * unitOf 18 && (h'.chain "e").pool.length == 1
      | _ => false) = true := by decide +kernel

theorem pfHub_hyps : pfHub.TokensOK ∧ pfHub.tokens.Nodup ∧ pfHub.EntriesOK ∧ pfHub.LedgerInv ∧ pfHub.Bounded := by
  refine ⟨⟨?_, ?_, ?_, ?_⟩, by simp [pfHub], ?_, Hub.ledgerInv_of_all (by decide +kernel),
    Hub.bounded_of_all (by decide +kernel)⟩
  · intro t ht; simp [pfHub] at ht; subst ht; decide
  · intro a ha b hb _ _; simp [pfHub] at ha hb; rw [ha, hb]
  · intro a ha b hb _ _; simp [pfHub] at ha hb; rw [ha, hb]
  · intro a ha b hb _; simp [pfHub] at ha hb; rw [ha, hb]
  · intro c s hs
    by_cases hc : c = "e"
    · subst hc
      have : (pfHub.chain "e").entries = [pfSte] := rfl
      rw [this] at hs
      simp at hs; subst hs
      exact ⟨⟨1, "hub", "e", "T", 18, 0⟩, by simp [pfHub], rfl, rfl, rfl⟩
    · have : pfHub.chain c = {} := by
        simp [Hub.chain, pfHub, alGet, Ne.symm hc]
      rw [this] at hs; cases hs

/-! ### B3. Batching and block begin only move transfers: value is EQUAL -/

theorem buildBatch_value {h : Hub} {chain tok : String} {n : Nat} (hi : h.VInv)
    (hb : (h.buildBatch chain tok n).1.Bounded) (denom : String) :
    (h.buildBatch chain tok n).1.value denom = h.value denom :=
  (buildBatch_veq h chain tok n).eq hi hb denom

theorem cancelBatch_value {h h' : Hub} {chain tok : String} {n : Nat} (hi : h.VInv) (hb : h'.Bounded)
    (hok : h.cancelBatch chain tok n = .ok h') (denom : String) : h'.value denom = h.value denom :=
  (cancelBatch_veq hok).eq hi hb denom

theorem requestBatch_value {h h' : Hub} {chain dn : String} {ob : Option Batch} (hi : h.VInv) (hb : h'.Bounded)
    (hok : h.requestBatch chain dn = .ok (h', ob)) (denom : String) : h'.value denom = h.value denom :=
  (requestBatch_veq hok).eq hi hb denom

theorem createBatches_value {h : Hub} {chain : String} (hi : h.VInv) (hb : (h.createBatches chain).Bounded)
    (denom : String) : (h.createBatches chain).value denom = h.value denom :=
  (createBatches_veq h chain).eq hi hb denom

theorem cleanupTimedOutBatches_value {h h' : Hub} {chain : String} (hi : h.VInv) (hb : h'.Bounded)
    (hok : h.cleanupTimedOutBatches chain = .ok h') (denom : String) : h'.value denom = h.value denom :=
  (cleanup_veq hok).eq hi hb denom

theorem beginBlock_value {h h' : Hub} (hi : h.VInv) (hb : h'.Bounded) (hok : h.beginBlock = .ok h')
    (denom : String) : h'.value denom = h.value denom :=
  (beginBlock_veq hok).eq hi hb denom

theorem beginBlock_inv {h h' : Hub} (hi : h.VInv) (hb : h'.Bounded) (hok : h.beginBlock = .ok h') : h'.VInv :=
  (beginBlock_veq hok).inv hi hb

/-! ### B4/B5. Deposits add at most the value locked -/

theorem handleSendToHub_value {h h' : Hub} {chain coin receiver tx : String} {amount : Int} {t : TokenInfo}
    (hi : h.VInv) (hb : h'.Bounded) (hok : h.handleSendToHub chain coin amount receiver tx = .ok h')
    (ht : h.tokenByExt chain coin = some t) (denom : String) :
    h'.value denom ≤ h.value denom + (if t.denom = denom then extValue t amount else 0) :=
  (handleSendToHub_vrel hok ht denom).le hi hb

/-- … exactly `fromExt amount` hub units. -/
theorem handleSendToHub_value_eq {h h' : Hub} {chain coin receiver tx : String} {amount : Int} {t : TokenInfo}
    (hok : h.handleSendToHub chain coin amount receiver tx = .ok h')
    (ht : h.tokenByExt chain coin = some t) (denom : String) :
    h'.value denom = h.value denom + hubCredit t.denom denom (fromExt t.dec amount) :=
  Mhub2.handleSendToHub_value_eq hok ht denom

/-- With the handler minting the locked amount only (`mintsFee = false`, see `fact_ttcMintsAmountPlusFee`):
    the transfer towards `rchain` burns from the temporary account what was just minted. -/
theorem handle_transfer_value {h h' : Hub} {chain coin sender rchain receiver tx : String} {n ht : Nat}
    {amount fee : Int} {t : TokenInfo} (hi : h.VInv) (hb : h'.Bounded)
    (hok : h.handle false chain (.transfer n coin amount fee sender rchain receiver ht tx) = .ok h')
    (htk : h.tokenByExt chain coin = some t) (denom : String) :
    h'.value denom ≤ h.value denom + (if t.denom = denom then extValue t amount else 0) :=
  (handle_transfer_vrel hok htk denom).le hi hb

/-- For any minting mode: at most the value of what the handler mints (`amount + fee` if it mints
    the fee too — which would NOT be covered by the `_amount` locked externally). -/
theorem handle_transfer_value_any {h h' : Hub} {mf : Bool} {chain coin sender rchain receiver tx : String}
    {n ht : Nat} {amount fee : Int} {t : TokenInfo} (hi : h.VInv) (hb : h'.Bounded)
    (hok : h.handle mf chain (.transfer n coin amount fee sender rchain receiver ht tx) = .ok h')
    (htk : h.tokenByExt chain coin = some t) (denom : String) :
    h'.value denom ≤ h.value denom + (if t.denom = denom then extValue t (ttcMintAmount mf amount fee) else 0) :=
  (handle_transfer_vrel hok htk denom).le hi hb

/-! ### B6. An observed batch execution writes off what was paid out -/

/-- The entries of the batch (amount + fee + commission) leave the in-flight set; what is re-minted
    is at most `fromExt Σcomm + fromExt Σfee`, and every re-minted coin sent on to chain "minter"
    only loses value.  Older batches cancelled on the way only move. -/
theorem batchExecuted_value {h h' : Hub} {chain tok tx payer : String} {n : Nat} {fp : Int} {b : Batch}
    {t : TokenInfo} (hi : h.VInv) (hb : h'.Bounded)
    (hok : h.batchExecuted chain tok n tx fp payer = .ok h') (hfb : h.findBatch chain tok n = some b)
    (ht : h.tokenByExt chain b.extToken = some t) (denom : String) :
    h'.value denom ≤ h.value denom -
      (if t.denom = denom then extValue t (sumInts (b.txs.map (·.amount))) else 0) := by
  have := (batchExecuted_vrel hok hfb ht denom).le hi hb
  unfold extCredit at this
  omega

theorem batchExecuted_no_batch {h h' : Hub} {chain tok tx payer : String} {n : Nat} {fp : Int}
    (hok : h.batchExecuted chain tok n tx fp payer = .ok h') (hfb : h.findBatch chain tok n = none) : h' = h :=
  batchExecuted_none hok hfb

theorem batchExecuted_inv {h h' : Hub} {chain tok tx payer : String} {n : Nat} {fp : Int}
    (hi : h.VInv) (hb : h'.Bounded) (hok : h.batchExecuted chain tok n tx fp payer = .ok h') : h'.VInv := by
  have hh : h.handle false chain (.batchExecuted tok 0 n 0 tx fp payer) = .ok h' := by
    simp only [Hub.handle]; exact hok
  exact (handle_vrel hh "").inv hi hb

/-! ### B7. Event handler, tally, expiry, end block -/

/-- Every event kind: at most the collateral locked by a deposit / transfer; nothing for an observed
    execution (see `batchExecuted_value` for the write-off), a contract call or a signer-set update. -/
theorem handle_value {h h' : Hub} {mf : Bool} {chain : String} {ev : Event} (hi : h.VInv) (hb : h'.Bounded)
    (hok : h.handle mf chain ev = .ok h') (denom : String) :
    h'.value denom ≤ h.value denom + h.depositCredit mf chain denom ev :=
  (handle_vrel hok denom).le hi hb

theorem handle_value_other {h h' : Hub} {mf : Bool} {chain : String} {ev : Event} (hi : h.VInv) (hb : h'.Bounded)
    (hok : h.handle mf chain ev = .ok h') (denom : String)
    (hev : (∃ n scope inv ht, ev = .contractCall n scope inv ht) ∨ (∃ n sn ht ms tx, ev = .signerSet n sn ht ms tx)) :
    h'.value denom = h.value denom := by
  rcases hev with ⟨n, scope, inv, ht, rfl⟩ | ⟨n, sn, ht, ms, tx, rfl⟩
  · simp only [Hub.handle, Except.ok.injEq] at hok; subst hok; rfl
  · simp only [Hub.handle, Except.ok.injEq] at hok; subst hok
    refine VEq.eq ?_ hi hb denom
    exact VEq.of_same (Hub.SameLedger.setChain rfl rfl rfl rfl) rfl rfl rfl

theorem handle_inv {h h' : Hub} {mf : Bool} {chain : String} {ev : Event} (hi : h.VInv) (hb : h'.Bounded)
    (hok : h.handle mf chain ev = .ok h') : h'.VInv := (handle_vrel hok "").inv hi hb

/-- One vote record: unless it is accepted AND its handler succeeds, value is untouched (a failing
    handler leaves only the vote bookkeeping). -/
theorem tryRecord_value {h h' : Hub} {mf : Bool} {chain : String} {r : VoteRec} (hi : h.VInv) (hb : h'.Bounded)
    (hok : h.tryRecord mf chain r = .ok h') (denom : String) :
    h'.value denom ≤ h.value denom ∨ h'.value denom ≤ h.value denom + h.depositCredit mf chain denom r.ev := by
  rcases tryRecord_vrel hok denom with r1 | r1
  · have := r1.le hi hb; exact .inl (by omega)
  · exact .inr (r1.le hi hb)

theorem tally_value {h h' : Hub} {mf : Bool} {chain : String} (hi : h.VInv) (hb : h'.Bounded)
    (hok : h.tally mf chain = .ok h') (denom : String) :
    ∃ applied : List VoteRec, applied.Sublist (h.chain chain).records ∧
      h'.value denom ≤ h.value denom + sumInts (applied.map fun r => h.depositCredit mf chain denom r.ev) := by
  obtain ⟨ap, hs, r⟩ := tally_vrel hok denom
  exact ⟨ap, hs, r.le hi hb⟩

/-- Expiry refunds never increase value (under the standing hypotheses the partial failure of
    `cancelSte_value_fail` cannot mint; without them see `refundExpired_commits_partial_failure`). -/
theorem refundExpired_value {h h' : Hub} {chain : String} (hi : h.VInv) (hb : h'.Bounded)
    (hok : h.refundExpired chain = .ok h') (denom : String) : h'.value denom ≤ h.value denom := by
  have := (refundExpired_vrel hok denom).le hi hb; omega

/-- End block: value grows by at most the collateral locked by the events its tallies applied. -/
theorem endBlock_value {h h' : Hub} {mf : Bool} (hi : h.VInv) (hb : h'.Bounded) (hok : h.endBlock mf = .ok h')
    (denom : String) :
    ∃ applied : List (String × VoteRec), (∀ p ∈ applied, p.1 ∈ h.chains) ∧
      h'.value denom ≤ h.value denom + sumInts (applied.map fun p => h.depositCredit mf p.1 denom p.2.ev) := by
  obtain ⟨ap, hs, r⟩ := endBlock_vrel hok denom
  exact ⟨ap, hs, r.le hi hb⟩

theorem endBlock_inv {h h' : Hub} {mf : Bool} (hi : h.VInv) (hb : h'.Bounded) (hok : h.endBlock mf = .ok h') :
    h'.VInv := by
  obtain ⟨_, _, r⟩ := endBlock_vrel hok ""
  exact r.inv hi hb

/-! ### C. One operation of a history -/

/-- Every operation other than `reset`, `token`, `fund` and `endBlock` (so also `chains`) never
    increases the value of any denom … -/
theorem value_step (h : Hub) (op : Op) (hi : h.VInv) (hb : (apply h op).1.Bounded) (hr : op ≠ .reset)
    (ht : ∀ t, op ≠ .token t) (hf : ∀ a d x, op ≠ .fund a d x) (he : op ≠ .endBlock) (denom : String) :
    ((apply h op).1).value denom ≤ h.value denom := by
  have := (apply_vrel h op hr ht hf he denom).le hi hb; omega

/-- … and keeps the standing hypotheses; so do `fund` and `endBlock`. -/
theorem inv_step (h : Hub) (op : Op) (hi : h.VInv) (hb : (apply h op).1.Bounded) (hr : op ≠ .reset)
    (ht : ∀ t, op ≠ .token t) : (apply h op).1.VInv := by
  obtain ⟨_, r⟩ := apply_vrel_any h op hr ht ""
  exact r.inv hi hb

/-- The same for any sequence of such operations. -/
theorem value_steps (h : Hub) (ops : List Op) (hi : h.VInv)
    (hb : (ops.foldl (fun h op => (apply h op).1) h).Bounded)
    (hall : ∀ op ∈ ops, op ≠ .reset ∧ (∀ t, op ≠ .token t) ∧ (∀ a d x, op ≠ .fund a d x) ∧ op ≠ .endBlock)
    (denom : String) : (ops.foldl (fun h op => (apply h op).1) h).value denom ≤ h.value denom := by
  have := (apply_list_vrel ops hall denom h).le hi hb; omega

/-- A successful `fund` adds exactly its amount (in common units) to its denom. -/
theorem value_step_fund {h h' : Hub} {acc dn : String} {a : Int} (hm : h.mintTo acc dn a = .ok h') (denom : String) :
    (apply h (.fund acc dn a)).1 = h' ∧
    h'.value denom = h.value denom + (if dn = denom then a * unitOf 18 else 0) := by
  obtain ⟨e, _, hv⟩ := apply_fund_ok hm denom
  exact ⟨e, hv⟩

theorem value_step_fund_fails {h : Hub} {acc dn : String} {a : Int} {e : Err} (hm : h.mintTo acc dn a = .error e) :
    (apply h (.fund acc dn a)).1 = h := apply_fund_err hm

/-- `endBlock` (the model instantiated with the generated `mintsFee = false`) adds at most the
    collateral locked by the deposit / transfer events its tallies applied. -/
theorem value_step_endBlock (h : Hub) (hi : h.VInv) (hb : (apply h .endBlock).1.Bounded) (denom : String) :
    ∃ applied : List (String × VoteRec), (∀ p ∈ applied, p.1 ∈ h.chains) ∧
      (apply h .endBlock).1.value denom ≤
        h.value denom + sumInts (applied.map fun p => h.depositCredit false p.1 denom p.2.ev) := by
  obtain ⟨ap, hs, r⟩ := apply_endBlock_vrel h denom
  exact ⟨ap, hs, r.le hi hb⟩

/-- Registering a token that keeps the table well formed (and duplicate free) changes no value. -/
theorem value_step_token {h : Hub} {t : TokenInfo} (hi : h.VInv) (htk : (apply h (.token t)).1.TokensOK)
    (hnd : (apply h (.token t)).1.tokens.Nodup) (denom : String) :
    (apply h (.token t)).1.value denom = h.value denom :=
  apply_token_value hi htk hnd denom

/-- CLOSED FORM, no deposits: along any history from genesis without `endBlock` (hence without
    observed external events) the value of a denom — vouchers in circulation plus everything in
    flight — never exceeds what the harness `fund` operations minted since the last `reset`.
    Hypotheses are on the FINAL state only. -/
theorem value_le_funds (denom : String) (ops : List Op) (hne : ∀ op ∈ ops, op ≠ .endBlock)
    (hb : (runOps ops).Bounded) (htk : (runOps ops).TokensOK) (hnd : (runOps ops).tokens.Nodup) :
    (runOps ops).value denom ≤ fundsOf denom ops 0 :=
  Mhub2.value_le_funds denom ops hne hb htk hnd

/-! ### D. Bridge lemmas: the source expressions behind the model -/

/-- Tie to the code: the token table is searched by exact equality (the model's `findTok`), so the id a claim carries and the id a
    batch is stored under are the same string whenever the claim has any effect. -/
theorem fact_token_lookup_conds : Generated.token_lookup_conds =
    "ExternalIdToTokenInfoLookup: info.ChainId == chainId.String() && info.ExternalTokenId == externalId | DenomToTokenInfoLookup: info.Denom == denom && info.ChainId == chainId.String() | TokenIdToTokenInfoLookup: info.Id == tokenId" := rfl
theorem fact_ttc_mint_hub : Generated.ttc_mint_hub = "event.Amount" := rfl
theorem fact_ttc_mint_other : Generated.ttc_mint_other = "event.Amount" := rfl
theorem fact_ttcMintsAmountPlusFee : Generated.ttcMintsAmountPlusFee = false := by decide
theorem fact_mintsFee : mintsFee = false := mintsFee_false
theorem fact_ttc_create_args : Generated.ttc_create_args =
    "ctx | types.ChainID(event.ReceiverChainId) | types.TempAddress | event.ExternalReceiver | amount | fee | commission | event.TxHash | chainId | event.Sender" := rfl
theorem fact_ttc_fee_guard : Generated.ttc_fee_guard = "amount.IsLT(fee)" := rfl
theorem fact_sol_transfer_lock : Generated.sol_transfer_lock = "msg.sender, address(this), _amount" := rfl
theorem fact_sol_transfer_event : Generated.sol_transfer_event =
    "_tokenContract, msg.sender, _destinationChain, _destination, _amount, _fee, state_lastEventNonce" := rfl

/-- `convertDecimals`: `amount * 10^to / 10^from` with `big.Int.Div` (Euclidean = floor for a positive divisor). -/
theorem fact_convert_body : Generated.convert_body =
    "{ if fromDecimals == toDecimals { return amount } to := big.NewInt(0).Exp(big.NewInt(10), big.NewInt(int64(toDecimals)), nil) from := big.NewInt(0).Exp(big.NewInt(10), big.NewInt(int64(fromDecimals)), nil) result := amount.BigInt() result.Mul(result, to) result.Div(result, from) return sdk.NewIntFromBigInt(result) }" := rfl
/-- `createSte`: burn `amount + fee + commission`, convert the three parts separately. -/
theorem fact_create_arith : Generated.create_arith =
    "totalAmount := amount.Add(fee).Add(valCommission) | convertedAmount := k.ConvertToExternalValue(ctx, chainId, tokenInfo.ExternalTokenId, amount.Amount) | convertedFee := k.ConvertToExternalValue(ctx, chainId, tokenInfo.ExternalTokenId, fee.Amount) | convertedValCommission := k.ConvertToExternalValue(ctx, chainId, tokenInfo.ExternalTokenId, valCommission.Amount)" := rfl
/-- `cancelSte`: refund `fromExternal (amount + fee + commission)` in the denom of the token id. -/
theorem fact_cancel_refund_arith : Generated.cancel_refund_arith =
    "send.Token.HubCoin(func(id uint64) (string, error) { info, err := k.TokenIdToTokenInfoLookup(ctx, id) if err != nil { return \"\", err } return info.Denom, nil }) | totalToRefund.Amount.Add(send.Fee.Amount).Add(send.ValCommission.Amount) | k.ConvertFromExternalValue(ctx, chainId, send.Token.ExternalTokenId, totalToRefund.Amount) | sdk.NewCoins(totalToRefund)" := rfl

/-! ### E. Non-vacuity: a 6-decimals token, a send and a cancel -/

deriving instance DecidableEq for TokenInfo

/-- Fund 5·10^18 hub units, send 1234567890123456789 + fee 1000000000000000001 towards a token
    with 6 decimals (external amounts 1234567 and 1000000: the last 12 digits are lost), cancel. -/
def exOps : List Op := [.chains ["e", "minter"], .token ⟨1, "hub", "e", "T", 6, 0⟩,
  .fund "a" "hub" 5000000000000000000,
  .send "a" "e" "r" "hub" 1234567890123456789 1000000000000000001 "x",
  .cancel "a" "e" 1]

/-- After the fund: value = supply. -/
example : (runOps (exOps.take 3)).value "hub" = 5000000000000000000 * unitOf 18 := by decide +kernel

/-- After the send: 2234567890123456790 hub units burnt, 2234567 external units in flight; the value
    dropped by the dust 890123456790 hub units. -/
example : (runOps (exOps.take 4)).supplyOf "hub" = 2765432109876543210 ∧
    (runOps (exOps.take 4)).inflight "hub" = 2234567 * unitOf 6 ∧
    (runOps (exOps.take 4)).value "hub" = 4999999109876543210 * unitOf 18 ∧
    (runOps (exOps.take 4)).value "hub" ≤ (runOps (exOps.take 3)).value "hub" := by decide +kernel

/-- After the cancel: the refund `fromExt 6 2234567` is exact, value is unchanged, nothing in flight. -/
example : (runOps exOps).supplyOf "hub" = 4999999109876543210 ∧ (runOps exOps).inflight "hub" = 0 ∧
    (runOps exOps).value "hub" = (runOps (exOps.take 4)).value "hub" := by decide +kernel

/-- The standing hypotheses hold along this history … -/
theorem exOps_vinv (n : Nat) (hn : n = 3 ∨ n = 4 ∨ n = 5) : (runOps (exOps.take n)).VInv := by
  rcases hn with rfl | rfl | rfl <;>
  exact vinv_reachable _ (Hub.bounded_of_all (by decide +kernel))
    ⟨by decide +kernel, by decide +kernel, by decide +kernel, by decide +kernel⟩ (by decide +kernel)

/-- … so `value_step` applies to the send and to the cancel (and agrees with the computed values). -/
example : (runOps (exOps.take 4)).value "hub" ≤ (runOps (exOps.take 3)).value "hub" :=
  value_step (runOps (exOps.take 3)) (.send "a" "e" "r" "hub" 1234567890123456789 1000000000000000001 "x")
    (exOps_vinv 3 (.inl rfl)) (Hub.bounded_of_all (by decide +kernel)) (by simp) (by simp) (by simp) (by simp) "hub"

example : (runOps exOps).value "hub" ≤ (runOps (exOps.take 4)).value "hub" :=
  value_step (runOps (exOps.take 4)) (.cancel "a" "e" 1)
    (exOps_vinv 4 (.inr (.inl rfl))) (Hub.bounded_of_all (by decide +kernel)) (by simp) (by simp) (by simp) (by simp) "hub"

/-- The closed form on this history: value ≤ the 5·10^18 hub units funded. -/
example : (runOps exOps).value "hub" ≤ 5000000000000000000 * unitOf 18 := by
  have := value_le_funds "hub" exOps
    (by intro op hop; simp [exOps] at hop; rcases hop with rfl | rfl | rfl | rfl | rfl <;> simp)
    (Hub.bounded_of_all (by decide +kernel))
    ⟨by decide +kernel, by decide +kernel, by decide +kernel, by decide +kernel⟩ (by decide +kernel)
  have e : fundsOf "hub" exOps 0 = 5000000000000000000 * unitOf 18 := by decide +kernel
  omega

/-- An observed execution: batch the transfer, then handle `batchExecuted`: the hub writes off the
    2234567 external units of the batch (amount 1234567 paid out; the fee 1000000 is not re-minted on a
    chain without base-coin price), so `batchExecuted_value`'s bound holds with room. -/
example : (match (apply (runOps (exOps.take 4)) (.reqBatch "e" "hub")).1.batchExecuted "e" "T" 1 "tx" 0 "p" with
    | .ok h' => h'.value "hub" == (runOps (exOps.take 4)).value "hub" - 2234567 * unitOf 6 &&
        decide (h'.value "hub" ≤ (runOps (exOps.take 4)).value "hub" - extValue ⟨1, "hub", "e", "T", 6, 0⟩ 1234567)
    | _ => false) = true := by decide +kernel

/-- A deposit of 7 external units of that token adds exactly `7·10^12` hub units = `extValue`. -/
example : (match (runOps (exOps.take 3)).handleSendToHub "e" "T" 7 "b" "tx" with
    | .ok h' => h'.value "hub" == (runOps (exOps.take 3)).value "hub" + extValue ⟨1, "hub", "e", "T", 6, 0⟩ 7
    | _ => false) = true := by decide +kernel

end Mhub2.C01

