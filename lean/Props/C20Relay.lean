/-
  C20 — the connector's live loop `relayMinterEvents` (cmd/mhub-minter-connector/main.go),
  model `Mhub2.relay` / `Mhub2.relayRounds`.  Property statements only; helpers are in
  `Lemmas/Relay.lean`.

  The property asks that every validator assigns every Minter event the same nonce and that the
  persisted cursor is consistent "for every point at which the connector is stopped".  The start-up
  scan is covered in `Props/C20.lean`; here the live loop is covered for every Minter history,
  every start cursor and every polling schedule (which heights the node reported in which round):

  * every status file the loop writes is consistent with the history relative to the start cursor
    (next event nonce = start nonce + number of bridge events at or below its last-checked block),
    with the analogous laws for the batch nonce and the valset nonce;
  * the claims handed to the committer carry consecutive event nonces starting at the start nonce,
    one per bridge event, in block order; the batch claims carry consecutive batch nonces;
  * the numbering does not depend on where rounds are cut: two connectors that start from the same
    cursor and poll on different schedules produce claim lists one of which is a prefix of the other;
  * claims are sent before the cursor that numbers past them is written: while a claim is waiting no
    status file is written, so a crash before the send restarts from a cursor at or below the first
    unsent event (and the start-up scan theorems apply to that restart).
-/
import Mhub2.Connector
import Mhub2.Generated.Facts
import Lemmas.Relay
namespace Mhub2.C20R
open Mhub2

/-! ### 1. One round -/

/-- Every status file written by one round is consistent with the history relative to the start
    cursor, and so are its batch and valset nonces. -/
theorem relay_commits_consistent {chain : List MBlock} (hwf : ChainWF chain) (start : Cursor) (latest : Nat) :
    ∀ c ∈ (relay start chain latest).commits,
      consistent chain start c = true ∧
      c.nextBatch = start.nextBatch + batchesBetween chain start.lastChecked c.lastChecked ∧
      c.lastValset = valsetAfter start.lastValset (txsBetween chain start.lastChecked c.lastChecked) ∧
      ∃ b ∈ chain, start.lastChecked < b.height ∧ c.lastChecked = b.height := by
  intro c hc
  have hmem : c ∈ blockEnds start (relayWindow start chain latest) := by
    rw [(relay_spec start chain latest).2.2] at hc
    rcases List.mem_append.mp hc with hc | hc
    · exact loopCommits_sub _ _ _ c hc
    · split at hc
      · cases hc
      · rename_i hne
        simp only [List.mem_singleton] at hc
        subst hc
        apply curAfter_mem_blockEnds
        intro hnil; apply hne; rw [hnil]; rfl
  obtain ⟨⟨b, hb, hlt, hlc⟩, hne, hnb, hvs⟩ := blockEnd_laws hwf (mem_blockEnds_window hwf start latest hmem)
  refine ⟨?_, hnb, hvs, b, hb, hlt, hlc⟩
  rw [consistent_eq_true_iff]
  exact ⟨by omega, hne⟩

/-- The cursor a round ends with has counted exactly the bridge events of its window. -/
theorem relay_final_cursor (start : Cursor) (chain : List MBlock) (latest : Nat) :
    (relay start chain latest).cur.nextEvent =
      start.nextEvent + eventsBetween chain start.lastChecked (relayLimit start latest) ∧
    (relay start chain latest).cur.nextBatch =
      start.nextBatch + batchesBetween chain start.lastChecked (relayLimit start latest) := by
  rw [(relay_spec start chain latest).1, curAfter_nextEvent, curAfter_nextBatch]
  exact ⟨rfl, rfl⟩

/-- A round never looks more than 100 blocks beyond the cursor. -/
theorem relay_window_bounded (start : Cursor) (chain : List MBlock) (latest : Nat) :
    ∀ b ∈ relayWindow start chain latest, start.lastChecked < b.height ∧ b.height ≤ start.lastChecked + 100 ∧ b.height ≤ latest := by
  intro b hb
  have := (List.mem_filter.mp hb).2
  simp only [Bool.and_eq_true, decide_eq_true_eq] at this
  unfold relayLimit at this
  split at this <;> omega

/-- The claims of a round: one per bridge event of the window, with consecutive event nonces
    starting at the start cursor's nonce. -/
theorem relay_claim_nonces (start : Cursor) (chain : List MBlock) (latest : Nat) :
    (relay start chain latest).claims.map Claim.nonce =
      List.range' start.nextEvent (eventsBetween chain start.lastChecked (relayLimit start latest)) := by
  rw [(relay_spec start chain latest).2.1, blockClaims_nonces]; rfl

/-- The cursor written after the claims numbers exactly past them. -/
theorem relay_cursor_after_claims (start : Cursor) (chain : List MBlock) (latest : Nat) :
    (relay start chain latest).cur.nextEvent = start.nextEvent + (relay start chain latest).claims.length := by
  rw [(relay_spec start chain latest).1, (relay_spec start chain latest).2.1, blockClaims_length, curAfter_nextEvent]

/-- Every claim reports the height of a block of the window. -/
theorem relay_claim_heights (start : Cursor) (chain : List MBlock) (latest : Nat) :
    ∀ cl ∈ (relay start chain latest).claims, ∃ b ∈ relayWindow start chain latest, cl.height = b.height := by
  rw [(relay_spec start chain latest).2.1]; exact blockClaims_heights _ _

/-- While a claim of the round is waiting to be sent no status file is written: every commit made
    inside the block loop carries the start cursor's event nonce (it has counted no event). -/
theorem relay_loop_commits_before_claims (start : Cursor) (chain : List MBlock) (latest : Nat) :
    ∀ c ∈ loopCommits start false (relayWindow start chain latest), c.nextEvent = start.nextEvent := by
  generalize relayWindow start chain latest = bs
  have key : ∀ (bs : List MBlock) (c0 : Cursor), ∀ c ∈ loopCommits c0 false bs, c.nextEvent = c0.nextEvent := by
    intro bs
    induction bs with
    | nil => intro c0 c hc; simp [loopCommits] at hc
    | cons b bs ih =>
      intro c0 c hc
      unfold loopCommits at hc
      split at hc
      · cases hc
      · rename_i hcond
        simp only [Bool.false_or, Bool.not_eq_true', Bool.not_eq_false] at hcond
        have hlen : evCnt b.txs = 0 := by
          rw [← txClaims_length c0 b.height b.txs]
          simpa [List.isEmpty_iff] using hcond
        have he : (endCur c0 b).nextEvent = c0.nextEvent := by rw [endCur_nextEvent, hlen]; rfl
        rcases List.mem_cons.mp hc with h | h
        · rw [h, he]
        · rw [ih _ c h, he]
  exact key bs start

/-- A round with claims ends by writing exactly the final cursor (after the send). -/
theorem relay_last_commit (start : Cursor) (chain : List MBlock) (latest : Nat)
    (h : (relay start chain latest).claims ≠ []) :
    (relay start chain latest).commits.getLast? = some (relay start chain latest).cur := by
  obtain ⟨h1, h2, h3⟩ := relay_spec start chain latest
  rw [h3, h1]
  rw [h2] at h
  have : (blockClaims start (relayWindow start chain latest)).isEmpty = false := by
    cases hx : blockClaims start (relayWindow start chain latest) with
    | nil => exact absurd hx h
    | cons _ _ => rfl
  simp [this]

/-! ### 2. Any number of rounds, cut anywhere -/

/-- For every polling schedule, every status file written is consistent with the history relative to
    the cursor the connector started from. -/
theorem rounds_commits_consistent {chain : List MBlock} (hwf : ChainWF chain) (start : Cursor) (ls : List Nat) :
    ∀ c ∈ (relayRounds chain start ls).2.2,
      consistent chain start c = true ∧
      c.nextBatch = start.nextBatch + batchesBetween chain start.lastChecked c.lastChecked ∧
      c.lastValset = valsetAfter start.lastValset (txsBetween chain start.lastChecked c.lastChecked) := by
  intro c hc
  obtain ⟨W, rest, hsplit, _, _, hcm⟩ := relayRounds_spec hwf ls start
  have hmem : c ∈ blockEnds start (chain.filter fun b => b.height > start.lastChecked) := by
    rw [hsplit, blockEnds_append]; exact List.mem_append_left _ (hcm c hc)
  obtain ⟨⟨b, _, hlt, hlc⟩, hne, hnb, hvs⟩ := blockEnd_laws hwf hmem
  refine ⟨?_, hnb, hvs⟩
  rw [consistent_eq_true_iff]
  exact ⟨by omega, hne⟩

/-- For every polling schedule the claims carry consecutive event nonces from the start nonce, and
    the final cursor numbers exactly past them. -/
theorem rounds_claim_nonces {chain : List MBlock} (hwf : ChainWF chain) (start : Cursor) (ls : List Nat) :
    (relayRounds chain start ls).2.1.map Claim.nonce =
      List.range' start.nextEvent (relayRounds chain start ls).2.1.length ∧
    (relayRounds chain start ls).1.nextEvent = start.nextEvent + (relayRounds chain start ls).2.1.length := by
  obtain ⟨W, rest, _, hc, hcl, _⟩ := relayRounds_spec hwf ls start
  rw [hcl, hc, blockClaims_nonces, blockClaims_length, curAfter_nextEvent]
  exact ⟨rfl, rfl⟩

/-- **Same numbering for every validator.**  Two connectors that start from the same cursor and see
    the same Minter history, but poll on different schedules (and so cut the history into different
    rounds), hand over claim lists one of which is a prefix of the other: every Minter event gets
    the same nonce, height and kind from both. -/
theorem rounds_same_numbering {chain : List MBlock} (hwf : ChainWF chain) (start : Cursor) (ls₁ ls₂ : List Nat) :
    (relayRounds chain start ls₁).2.1 <+: (relayRounds chain start ls₂).2.1 ∨
    (relayRounds chain start ls₂).2.1 <+: (relayRounds chain start ls₁).2.1 := by
  obtain ⟨W1, r1, hs1, _, hcl1, _⟩ := relayRounds_spec hwf ls₁ start
  obtain ⟨W2, r2, hs2, _, hcl2, _⟩ := relayRounds_spec hwf ls₂ start
  rw [hcl1, hcl2]
  have p1 : W1 <+: (chain.filter fun b => b.height > start.lastChecked) := ⟨r1, hs1.symm⟩
  have p2 : W2 <+: (chain.filter fun b => b.height > start.lastChecked) := ⟨r2, hs2.symm⟩
  rcases List.prefix_or_prefix_of_prefix p1 p2 with ⟨t, ht⟩ | ⟨t, ht⟩
  · left; rw [← ht, blockClaims_append]; exact List.prefix_append _ _
  · right; rw [← ht, blockClaims_append]; exact List.prefix_append _ _

/-- … and both agree with the start-up scan: a restart from the same cursor whose scan does not
    take the early return ends, over the same blocks, with the cursor the live loop would have. -/
theorem rounds_agree_with_resync {chain : List MBlock} (hwf : ChainWF chain) (start : Cursor) (ack : Nat) (ls : List Nat)
    (hns : (resync start ack chain).stopped = false)
    (hall : (relayRounds chain start ls).1.lastChecked = (resync start ack chain).cur.lastChecked) :
    (relayRounds chain start ls).1.nextEvent = (resync start ack chain).cur.nextEvent := by
  obtain ⟨W, rest, hsplit, hc, _, _⟩ := relayRounds_spec hwf ls start
  rcases resync_spec start ack chain with ⟨_, _, h2⟩ | ⟨h1, _⟩
  · rw [h2] at hall ⊢
    rw [hc] at hall ⊢
    -- the two cursors have the same last-checked block, so W is the whole list
    have hrest : rest = [] := by
      rcases List.eq_nil_or_concat rest with hr | ⟨pre, b, hr⟩
      · exact hr
      · exfalso
        rw [List.concat_eq_append] at hr
        rw [hsplit, hr, ← List.append_assoc, curAfter_lastChecked_concat] at hall
        have hs : ChainWF (W ++ (pre ++ [b])) := by
          have := hwf.filter (fun b => decide (b.height > start.lastChecked))
          rw [hsplit, hr] at this; exact this
        unfold ChainWF at hs
        rw [List.pairwise_append] at hs
        obtain ⟨_, _, h3⟩ := hs
        rcases List.eq_nil_or_concat W with hw | ⟨wpre, wb, hw⟩
        · subst hw
          simp only [curAfter_nil] at hall
          have hb : b ∈ chain.filter fun b => b.height > start.lastChecked := by rw [hsplit, hr]; simp
          have := (List.mem_filter.mp hb).2
          simp at this; omega
        · rw [List.concat_eq_append] at hw
          subst hw
          rw [curAfter_lastChecked_concat] at hall
          have := h3 wb (by simp) b (by simp)
          omega
    subst hrest
    rw [hsplit]; simp
  · rw [h1] at hns; cases hns

/-! ### 3. (the facts of main.go the model is written against are pinned in Props/C20.lean: fact_conn_relay_conds, fact_conn_relay_writes) -/

/-! ### 4. Non-vacuity -/

def exChain : List MBlock :=
  [⟨10, [.send true true true, .other]⟩, ⟨11, []⟩, ⟨12, [.multisend true, .send true true false]⟩,
   ⟨13, [.editMultisig true (some 7), .send true true true]⟩, ⟨15, [.other]⟩]

example : ChainWF exChain := by simp [ChainWF, exChain]
example : (relay ⟨9, 5, 1, 0⟩ exChain 13).claims =
    [.deposit 5 10, .batch 6 1 12, .valset 7 7 13, .deposit 8 13] := by decide
example : (relay ⟨9, 5, 1, 0⟩ exChain 13).commits = [⟨13, 9, 2, 7⟩] := by decide
example : (relay ⟨10, 6, 1, 0⟩ exChain 11).commits = [⟨11, 6, 1, 0⟩] ∧ (relay ⟨10, 6, 1, 0⟩ exChain 11).claims = [] := by decide
example : (relayRounds exChain ⟨9, 5, 1, 0⟩ [10, 12, 15]).2.1 = (relayRounds exChain ⟨9, 5, 1, 0⟩ [15]).2.1 := by decide
example : (relayRounds exChain ⟨9, 5, 1, 0⟩ [11]).2.1 <+: (relayRounds exChain ⟨9, 5, 1, 0⟩ [13, 15]).2.1 := by decide

end Mhub2.C20R
