/-
  C01 (closed loop) — BRIDGE SOLVENCY over every history of a world made of the hub model and an
  abstract ledger of the external custody (Lemmas/World.lean).

      for every bridged asset, the hub's circulating supply plus the value of all outgoing
      transfers still in flight never exceeds the amount of that asset held in external custody

  under the honest-quorum assumption: the hub applies exactly the events the external chains
  emitted, each once, in order (`lock` → `applyDeposit`, `execute` → `applyExec`).

  Built on the hub-side value-conservation law of Props/C01.lean (`value_step`, `handle_value`,
  `batchExecuted_value`, `refundExpired_value`, `inv_step`, `handle_inv`).

  HYPOTHESES (explicit in every statement)
    H1 `ExecOk w op`  — on `applyExec` steps only: (a) a batch is still stored under the key of the
       oldest pending execution, (b) the handler succeeds; see the doc comment below.  Section 2'
       replaces (a) by the clock condition `NoTimeout` (`solvency_reachable_clock`).
    H2 `Hub.Bounded` of every visited hub state (the id / nonce counters are `uint64`), and
       `Hub.VInv` of the INITIAL hub only (it is derived along the run).
  `RunOk dn w ops` is H1 + H2 along the history `ops` from `w`; `RunOkC` is H1(b) + `NoTimeout` + H2.

  CONTENTS
    1.  `solv_core_step`, `winv_step`, `solvency_inv_step`, `pending_batch_immutable`
    2.  `solvency_reachable`, `solvency_reachable_weak`, `fully_observed_solvent`,
        `executions_observed_solvent`
    2'. `runOk_of_clock`, `solvency_reachable_clock`, `fully_observed_solvent_clock`
    3.  `supply_grows_only_by_locked`, `applyDeposit_sendToHub_exact`
    4.  non-vacuity: the whole loop on a 6-decimals token, evaluated
    5.  H1 is necessary: `applyExec_unsolvent_without_ExecOk`, `applyExec_unsolvent_when_handler_fails`

  WHAT IS MODELLED / NOT MODELLED.  One denom `dn`; the custody is one integer in common units (the
  sum over the external chains carrying `dn`).  The external contract is abstracted to what it does
  to the custody: a lock adds exactly the event's amount, an execution removes exactly `Σ amounts`
  of the batch and is possible only for a batch the hub stores, with a nonce above every pending
  execution of the same token (`execAllowed`).  Events are applied through `Hub.handle` directly
  (the vote bookkeeping of `tryRecord`, including the observed external height, is not touched), so
  the world has no clock: batch timeouts are not related to the moment of an execution.  The hub
  token table is fixed (`wstep_tokens`).
-/
import Props.C01
import Lemmas.World
namespace Mhub2.C01
open Mhub2

/-!
  ### H1 — why `ExecOk` is an assumption and not a theorem

  `ExecOk w (.applyExec …)` says: when the hub applies the oldest pending `batchExecuted` event of
  a batch `(chain, tok, n)` the contract paid out,
    (a) the hub still stores a batch under that key, `(findBatch chain tok n).isSome`;
    (b) the event handler succeeds as a whole (`.ok`).
  That the stored batch is then the very batch the contract executed is PROVED, not assumed: stored
  batches are immutable and batch nonces are never reused (`BatchFrame`, `PendOK`,
  `pending_batch_immutable`).

  (a) The hub withdraws a stored batch only in three places: `cleanupTimedOutBatches` (begin block)
  cancels it when `timeout < observed external height` (C13, `timeout_cancel_sound`); the handler of a
  LATER execution of the same token cancels every older batch; the handler of its own execution
  erases it.  The contract executes a batch only while `block.number < timeout` and only with a nonce
  above the last executed one (`Hub2St.submitBatch`), and the observed external height is the height
  of the last applied event, events being applied in emission order.  So when the execution event
  of the batch is applied, every event applied before it was emitted at a height `< timeout`, the
  batch has not timed out on the hub, and no later batch of the token was executed before it.  The
  world has no clock (neither `block.number` nor event heights are tied to each other), so the
  timeout half of this argument is NOT modelled; the nonce order is (`execAllowed`).  Section 2'
  proves the rest of the argument: (a) holds at every step provided no hub operation runs while a
  pending execution's batch is timed out on the hub (`NoTimeout`).
  Without (a) solvency fails: if the hub has cancelled the batch, its transfers are back in the pool,
  will be refunded or batched again, and the payout is never written off
  (`applyExec_unsolvent_without_ExecOk`).

  (b) A handler that fails as a whole — `panicM "price not found"` when the oracle has no price for
  the base coin or the token, a commission / fee re-mint towards chain "minter" for a denom without
  a Minter token — is rolled back (`Hub.tryRecord`), the event counts as observed, and the batch
  stays in the hub although it was paid out: a KNOWN FINDING of the bridge, outside this theorem
  (`applyExec_unsolvent_when_handler_fails`).
-/

/-! ### 1. Every step preserves the invariant -/

/-- The value argument, one step: the standing hypotheses of the hub, "pending deposits are
    deposits" and `SolvInv` are preserved, given that an `applyExec` step finds the recorded batch
    (`ExecSame`) and the handler succeeds. -/
theorem solv_core_step (dn : String) (w : World) (op : WOp) (hv : w.hub.VInv)
    (hd : ∀ p ∈ w.pendingDeposits, isDeposit p.2 = true) (hs : SolvInv dn w) (hx : ExecSame w op)
    (hb : (wstep dn w op).hub.Bounded) :
    (wstep dn w op).hub.VInv ∧ (∀ p ∈ (wstep dn w op).pendingDeposits, isDeposit p.2 = true) ∧
      SolvInv dn (wstep dn w op) := by
  cases op with
  | hubOp op =>
    cases hok : hubOpOk op with
    | false => simp only [wstep, hok, Bool.false_eq_true, if_false]; exact ⟨hv, hd, hs⟩
    | true =>
      simp only [wstep, hok, if_true] at hb ⊢
      obtain ⟨hr, ht, hf, he⟩ := hubOpOk_spec hok
      have etk := (apply_vrel w.hub op hr ht hf he dn).tokens
      refine ⟨inv_step w.hub op hv hb hr ht, hd, ?_⟩
      have := value_step w.hub op hv hb hr ht hf he dn
      unfold SolvInv at hs ⊢
      simp only [depSum_of_tokens etk, execSum_of_tokens etk]
      omega
  | expire chain =>
    cases hok : w.hub.refundExpired chain with
    | error e => simp only [wstep, hok]; exact ⟨hv, hd, hs⟩
    | ok h' =>
      simp only [wstep, hok] at hb ⊢
      have r := refundExpired_vrel hok dn
      refine ⟨r.inv hv hb, hd, ?_⟩
      have := refundExpired_value hv hb hok dn
      unfold SolvInv at hs ⊢
      simp only [depSum_of_tokens r.tokens, execSum_of_tokens r.tokens]
      omega
  | lock chain ev =>
    cases hdp : isDeposit ev with
    | false => simp only [wstep, hdp, Bool.false_eq_true, if_false]; exact ⟨hv, hd, hs⟩
    | true =>
      simp only [wstep, hdp, if_true] at hb ⊢
      refine ⟨hv, ?_, ?_⟩
      · intro p hp
        rcases List.mem_append.mp hp with h | h
        · exact hd p h
        · simp only [List.mem_singleton] at h; subst h; exact hdp
      · unfold SolvInv at hs ⊢
        simp only [depSum_snoc]
        omega
  | execute chain tok n =>
    cases hfb : w.hub.findBatch chain tok n with
    | none => simp only [wstep, hfb]; exact ⟨hv, hd, hs⟩
    | some b =>
      cases hal : execAllowed w.pendingExecs chain b with
      | false => simp only [wstep, hfb, hal, Bool.false_eq_true, if_false]; exact ⟨hv, hd, hs⟩
      | true =>
        simp only [wstep, hfb, hal, if_true] at hb ⊢
        refine ⟨hv, hd, ?_⟩
        unfold SolvInv at hs ⊢
        simp only [execSum_snoc]
        omega
  | applyDeposit =>
    cases hpd : w.pendingDeposits with
    | nil => simp only [wstep, hpd]; exact ⟨hv, fun _ hp => (by cases hp), hs⟩
    | cons p rest =>
      obtain ⟨chain, ev⟩ := p
      have hd' : ∀ q ∈ rest, isDeposit q.2 = true :=
        fun q hq => hd q (by rw [hpd]; exact List.mem_cons_of_mem _ hq)
      have hdp : isDeposit ev = true := hd (chain, ev) (by rw [hpd]; exact List.mem_cons_self)
      unfold SolvInv at hs
      rw [hpd, depSum_cons] at hs
      cases hok : w.hub.handle false chain ev with
      | error e =>
        simp only [wstep, hpd, hok] at hb ⊢
        refine ⟨hv, hd', ?_⟩
        have := lockValue_nonneg w.hub dn chain hdp
        unfold SolvInv
        simp only at hs ⊢
        omega
      | ok h' =>
        simp only [wstep, hpd, hok] at hb ⊢
        have r := handle_vrel hok dn
        have hle := handle_value hv hb hok dn
        rw [← lockValue_eq_depositCredit] at hle
        refine ⟨handle_inv hv hb hok, hd', ?_⟩
        unfold SolvInv
        simp only [depSum_of_tokens r.tokens, execSum_of_tokens r.tokens] at hs ⊢
        omega
  | applyExec evn ht tx fp payer =>
    cases hpe : w.pendingExecs with
    | nil => simp only [wstep, hpe]; exact ⟨hv, hd, hs⟩
    | cons p rest =>
      obtain ⟨hfb, h', hok⟩ := hx p rest hpe
      simp only [wstep, hpe, hok] at hb ⊢
      unfold SolvInv at hs
      rw [hpe, execSum_cons] at hs
      have hbe : w.hub.batchExecuted p.chain p.tok p.nonce tx fp payer = .ok h' := by
        simpa only [Hub.handle] using hok
      have r := handle_vrel hok dn
      refine ⟨handle_inv hv hb hok, hd, ?_⟩
      have hle : h'.value dn ≤ w.hub.value dn - execValue w.hub dn p := by
        cases htk : w.hub.tokenByExt p.chain p.batch.extToken with
        | none =>
          have h0 := handle_value hv hb hok dn
          have e0 : execValue w.hub dn p = 0 := by unfold execValue tokValue; rw [htk]
          have e1 : w.hub.depositCredit false p.chain dn
              (.batchExecuted p.tok evn p.nonce ht tx fp payer) = 0 := rfl
          omega
        | some t =>
          have h0 := batchExecuted_value hv hb hbe hfb htk dn
          have e0 : execValue w.hub dn p =
              (if t.denom = dn then extValue t (sumInts (p.batch.txs.map (·.amount))) else 0) := by
            unfold execValue tokValue; rw [htk]
          omega
      unfold SolvInv
      simp only [depSum_of_tokens r.tokens, execSum_of_tokens r.tokens] at hs ⊢
      omega

/-- The invariant `WInv` (standing hub invariants, pending deposits are deposits, pending
    executions name their batch for ever, `SolvInv`) is preserved by every step of the world, given
    H1 for the step and H2 for the state reached. -/
theorem winv_step (dn : String) (w : World) (op : WOp) (hi : WInv dn w) (hx : ExecOk w op)
    (hb : (wstep dn w op).hub.Bounded) : WInv dn (wstep dn w op) := by
  obtain ⟨h1, h2, h3⟩ :=
    solv_core_step dn w op hi.vinv hi.deps hi.solv (execSame_of_execOk hi.pend hx) hb
  exact ⟨h1, h2, pend_step dn w op hi.pend h1.led hb, h3⟩

/-- 1. `SolvInv` is preserved by every step of the world (H1: `ExecOk`; H2: the standing invariant
    of the hub before the step and `Bounded` after it; every pending deposit is a deposit and every
    pending execution satisfies `PendOK` — both established by `lock` / `execute` and preserved). -/
theorem solvency_inv_step (dn : String) (w : World) (op : WOp) (hv : w.hub.VInv)
    (hd : ∀ p ∈ w.pendingDeposits, isDeposit p.2 = true) (hp : ∀ p ∈ w.pendingExecs, PendOK w.hub p)
    (hx : ExecOk w op) (hb : (wstep dn w op).hub.Bounded) (hs : SolvInv dn w) :
    SolvInv dn (wstep dn w op) :=
  (winv_step dn w op ⟨hv, hd, hp, hs⟩ hx hb).solv

/-- BATCHES ARE IMMUTABLE AND NONCES ARE NOT REUSED: along any world history, whatever the hub stores
    under the key of a pending execution is the batch that was executed. -/
theorem pending_batch_immutable (dn : String) (w : World) (hi : WInv dn w) (p : PendingExec)
    (hp : p ∈ w.pendingExecs) (b' : Batch) (hfb : w.hub.findBatch p.chain p.tok p.nonce = some b') :
    b' = p.batch :=
  findBatch_of_pendOK (hi.pend p hp) hfb

/-! ### 2. Every history -/

theorem winv_run (dn : String) (ops : List WOp) (w : World) (hi : WInv dn w) (hr : RunOk dn w ops) :
    WInv dn (wrun dn w ops) := by
  induction ops generalizing w with
  | nil => exact hi
  | cons op ops ih =>
    obtain ⟨hx, hb, hr'⟩ := hr
    exact ih _ (winv_step dn w op hi hx hb) hr'

/-- The initial world: hub `h0`, custody `c0`, nothing in transit. -/
def initWorld (h0 : Hub) (c0 : Int) : World := { hub := h0, custody := c0 }

theorem winv_init {dn : String} {h0 : Hub} {c0 : Int} (hv : h0.VInv) (hc : h0.value dn ≤ c0) :
    WInv dn (initWorld h0 c0) :=
  ⟨hv, fun _ hp => (by cases hp), fun _ hp => (by cases hp), (by unfold SolvInv initWorld; simpa using hc)⟩

/-- 2. SOLVENCY ALONG EVERY HISTORY.  From a hub satisfying the standing hypotheses whose value of
    `dn` is covered by the custody, after any sequence of world operations satisfying H1 and H2:
    hub value + pending deposits ≤ custody + pending (paid, not yet written off) executions. -/
theorem solvency_reachable (dn : String) (h0 : Hub) (c0 : Int) (hv : h0.VInv) (hc : h0.value dn ≤ c0)
    (ops : List WOp) (hr : RunOk dn (initWorld h0 c0) ops) : SolvInv dn (wrun dn (initWorld h0 c0) ops) :=
  (winv_run dn ops _ (winv_init hv hc) hr).solv

/-- Pending deposits only add slack: the hub's value is covered by the custody plus what was paid out
    for the executions not yet observed. -/
theorem solvency_reachable_weak (dn : String) (h0 : Hub) (c0 : Int) (hv : h0.VInv) (hc : h0.value dn ≤ c0)
    (ops : List WOp) (hr : RunOk dn (initWorld h0 c0) ops) :
    (wrun dn (initWorld h0 c0) ops).hub.value dn ≤
      (wrun dn (initWorld h0 c0) ops).custody +
        execSum (wrun dn (initWorld h0 c0) ops).hub dn (wrun dn (initWorld h0 c0) ops).pendingExecs := by
  obtain ⟨_, hd, _, hs⟩ := winv_run dn ops _ (winv_init hv hc) hr
  have := depSum_nonneg (wrun dn (initWorld h0 c0) ops).hub dn hd
  unfold SolvInv at hs
  omega

/-- COROLLARY: when the hub has observed everything (nothing in transit), circulating supply (in
    common units) plus everything in flight is at most the custody. -/
theorem fully_observed_solvent (dn : String) (h0 : Hub) (c0 : Int) (hv : h0.VInv) (hc : h0.value dn ≤ c0)
    (ops : List WOp) (hr : RunOk dn (initWorld h0 c0) ops)
    (hpd : (wrun dn (initWorld h0 c0) ops).pendingDeposits = [])
    (hpe : (wrun dn (initWorld h0 c0) ops).pendingExecs = []) :
    (wrun dn (initWorld h0 c0) ops).hub.supplyOf dn * unitOf hubDecimals +
      (wrun dn (initWorld h0 c0) ops).hub.inflight dn ≤ (wrun dn (initWorld h0 c0) ops).custody := by
  have hs := solvency_reachable dn h0 c0 hv hc ops hr
  unfold SolvInv at hs
  rw [hpd, hpe] at hs
  simpa [Hub.value] using hs

/-- The same for a denom with no execution in transit (deposits may be). -/
theorem executions_observed_solvent (dn : String) (h0 : Hub) (c0 : Int) (hv : h0.VInv) (hc : h0.value dn ≤ c0)
    (ops : List WOp) (hr : RunOk dn (initWorld h0 c0) ops)
    (hpe : (wrun dn (initWorld h0 c0) ops).pendingExecs = []) :
    (wrun dn (initWorld h0 c0) ops).hub.value dn ≤ (wrun dn (initWorld h0 c0) ops).custody := by
  have := solvency_reachable_weak dn h0 c0 hv hc ops hr
  rw [hpe] at this
  simpa using this

/-! ### 2'. H1(a) is the timeout condition

  The first half of H1 — the executed batch is still stored when its execution event is applied —
  follows from: the pending executions of a token are in nonce order (enforced by `execAllowed`),
  stored batches are immutable, and NO HUB OPERATION RUNS WHILE A PENDING EXECUTION'S BATCH IS
  TIMED OUT ON THE HUB (`NoTimeout`: `¬ timeout < observed external height`).  Hub operations
  withdraw only timed-out batches (`apply_bkeep`, from C13's `cleanup_evo`), an applied execution
  withdraws only its own batch and older batches of its token (`batchExecuted_keep`), nothing else
  withdraws a batch.  `NoTimeout` is what the contract's `block.number < timeout` and the in-order
  application of events give on the real bridge; it stays a hypothesis because the world has no
  clock.  What remains of H1 is (b), `HandlerOk`: the known finding. -/

theorem winvC_step (dn : String) (w : World) (op : WOp) (hi : WInvC dn w) (hh : HandlerOk w op)
    (hn : NoTimeout w op) (hb : (wstep dn w op).hub.Bounded) : WInvC dn (wstep dn w op) := by
  obtain ⟨h1, h2⟩ := stored_step dn w op hi.inv hi.stored hi.ord hn hb
  exact ⟨winv_step dn w op hi.inv (execOk_of_stored hi.inv hi.stored hh) hb, h1, h2⟩

/-- Along a history satisfying H1(b), the clock condition and H2, H1(a) holds at every step. -/
theorem runOk_of_clock (dn : String) (ops : List WOp) (w : World) (hi : WInvC dn w) (hr : RunOkC dn w ops) :
    RunOk dn w ops := by
  induction ops generalizing w with
  | nil => trivial
  | cons op ops ih =>
    obtain ⟨hh, hn, hb, hr'⟩ := hr
    exact ⟨execOk_of_stored hi.inv hi.stored hh, hb, ih _ (winvC_step dn w op hi hh hn hb) hr'⟩

theorem winvC_init {dn : String} {h0 : Hub} {c0 : Int} (hv : h0.VInv) (hc : h0.value dn ≤ c0) :
    WInvC dn (initWorld h0 c0) :=
  ⟨winv_init hv hc, fun _ hp => (by cases hp), List.Pairwise.nil⟩

/-- SOLVENCY ALONG EVERY HISTORY, with H1(a) replaced by the clock condition. -/
theorem solvency_reachable_clock (dn : String) (h0 : Hub) (c0 : Int) (hv : h0.VInv) (hc : h0.value dn ≤ c0)
    (ops : List WOp) (hr : RunOkC dn (initWorld h0 c0) ops) : SolvInv dn (wrun dn (initWorld h0 c0) ops) :=
  solvency_reachable dn h0 c0 hv hc ops (runOk_of_clock dn ops _ (winvC_init hv hc) hr)

theorem fully_observed_solvent_clock (dn : String) (h0 : Hub) (c0 : Int) (hv : h0.VInv) (hc : h0.value dn ≤ c0)
    (ops : List WOp) (hr : RunOkC dn (initWorld h0 c0) ops)
    (hpd : (wrun dn (initWorld h0 c0) ops).pendingDeposits = [])
    (hpe : (wrun dn (initWorld h0 c0) ops).pendingExecs = []) :
    (wrun dn (initWorld h0 c0) ops).hub.supplyOf dn * unitOf hubDecimals +
      (wrun dn (initWorld h0 c0) ops).hub.inflight dn ≤ (wrun dn (initWorld h0 c0) ops).custody :=
  fully_observed_solvent dn h0 c0 hv hc ops (runOk_of_clock dn ops _ (winvC_init hv hc) hr) hpd hpe

/-! ### 3. Value grows only by what an observed deposit locked -/

/-- The value a step may add to the hub: the collateral locked for the deposit event an
    `applyDeposit` step applies (nothing if the handler rejects it: the hub is unchanged); nothing
    for any other step. -/
def stepCredit (dn : String) (w : World) : WOp → Int
  | .applyDeposit =>
    match w.pendingDeposits with
    | (chain, ev) :: _ =>
      match w.hub.handle false chain ev with
      | .ok _ => lockValue w.hub dn chain ev
      | .error _ => 0
    | [] => 0
  | _ => 0

/-- 3. In an `applyDeposit` step the hub's value of `dn` (supply + in flight) grows by at most the
    value locked for the applied event; in every other step it does not grow at all.  (No H1 needed:
    an execution event never adds value, whatever the hub stores.) -/
theorem supply_grows_only_by_locked (dn : String) (w : World) (op : WOp) (hv : w.hub.VInv)
    (hb : (wstep dn w op).hub.Bounded) :
    (wstep dn w op).hub.value dn ≤ w.hub.value dn + stepCredit dn w op := by
  cases op with
  | hubOp op =>
    cases hok : hubOpOk op with
    | false => simp only [wstep, hok, Bool.false_eq_true, if_false, stepCredit]; omega
    | true =>
      simp only [wstep, hok, if_true, stepCredit] at hb ⊢
      obtain ⟨hr, ht, hf, he⟩ := hubOpOk_spec hok
      have := value_step w.hub op hv hb hr ht hf he dn
      omega
  | expire chain =>
    cases hok : w.hub.refundExpired chain with
    | error e => simp only [wstep, hok, stepCredit]; omega
    | ok h' =>
      simp only [wstep, hok, stepCredit] at hb ⊢
      have := refundExpired_value hv hb hok dn
      omega
  | lock chain ev =>
    have : (wstep dn w (.lock chain ev)).hub = w.hub := by simp only [wstep]; split <;> rfl
    rw [this]; simp only [stepCredit]; omega
  | execute chain tok n =>
    have : (wstep dn w (.execute chain tok n)).hub = w.hub := by
      simp only [wstep]; split
      · split <;> rfl
      · rfl
    rw [this]; simp only [stepCredit]; omega
  | applyDeposit =>
    cases hpd : w.pendingDeposits with
    | nil => simp only [wstep, hpd, stepCredit]; omega
    | cons p rest =>
      obtain ⟨chain, ev⟩ := p
      cases hok : w.hub.handle false chain ev with
      | error e => simp only [wstep, hpd, hok, stepCredit]; omega
      | ok h' =>
        simp only [wstep, hpd, hok, stepCredit] at hb ⊢
        have hle := handle_value hv hb hok dn
        rw [← lockValue_eq_depositCredit] at hle
        exact hle
  | applyExec evn ht tx fp payer =>
    cases hpe : w.pendingExecs with
    | nil => simp only [wstep, hpe, stepCredit]; omega
    | cons p rest =>
      cases hok : w.hub.handle false p.chain (.batchExecuted p.tok evn p.nonce ht tx fp payer) with
      | error e => simp only [wstep, hpe, hok, stepCredit]; omega
      | ok h' =>
        simp only [wstep, hpe, hok, stepCredit] at hb ⊢
        have h0 := handle_value hv hb hok dn
        have e1 : w.hub.depositCredit false p.chain dn
            (.batchExecuted p.tok evn p.nonce ht tx fp payer) = 0 := rfl
        omega

/-- "Exactly the amount locked": an accepted plain deposit (`sendToHub`) of a token whose conversion
    to hub units is exact (at most 18 decimals, or an amount that is a multiple of `10^(dec-18)`)
    adds EXACTLY the value locked — `fromExt dec amount` hub units are minted.  (With more than 18
    decimals and a non-multiple the floor division leaves dust in custody: `fromExt_value_le`.) -/
theorem applyDeposit_sendToHub_exact (dn : String) (w : World) (hv : w.hub.VInv) {chain coin sender receiver tx : String}
    {n ht : Nat} {amount : Int} {rest : List (String × Event)} {t : TokenInfo} {h' : Hub}
    (hpd : w.pendingDeposits = (chain, .sendToHub n coin amount sender receiver ht tx) :: rest)
    (hok : w.hub.handle false chain (.sendToHub n coin amount sender receiver ht tx) = .ok h')
    (htk : w.hub.tokenByExt chain coin = some t) (hex : t.dec ≤ 18 ∨ pow10 (t.dec - 18) ∣ amount) :
    (wstep dn w .applyDeposit).hub.value dn =
      w.hub.value dn + lockValue w.hub dn chain (.sendToHub n coin amount sender receiver ht tx) ∧
    (wstep dn w .applyDeposit).hub.supplyOf t.denom = w.hub.supplyOf t.denom + fromExt t.dec amount := by
  have e : (wstep dn w .applyDeposit).hub = h' := by simp only [wstep, hpd, hok]
  rw [e]
  have hok' : w.hub.handleSendToHub chain coin amount receiver tx = .ok h' := by
    simpa only [Hub.handle] using hok
  have hd : t.dec ≤ 36 := hv.tok.dec_le t (tokenByExt_some htk).1
  obtain ⟨t', ht', _, _, _, _, hsup⟩ := handleSendToHub_parts hok'
  rw [htk] at ht'
  injection ht' with ht'
  subst ht'
  refine ⟨?_, by simpa using hsup t.denom⟩
  rw [handleSendToHub_value_eq hok' htk dn]
  simp only [lockValue, tokValue, htk, hubCredit, extValue]
  split
  · rw [fromExt_value_eq hd amount hex]
  · rfl

/-! ### 4. Non-vacuity: one 6-decimals token, the whole loop -/

def wxTok : TokenInfo := ⟨1, "hub", "e", "T", 6, 0⟩

/-- Genesis: chain "e" carrying denom "hub" as the 6-decimals token "T"; no voucher exists. -/
def wxHub : Hub := runOps [.chains ["e"], .token wxTok]

/-- A user locks 5 000 000 external units (5 coins); the hub applies the deposit (mints 5·10^18);
    the holder sends 1.234… + fee 1.000… back out; block 2 begins and batches the transfer
    (batch nonce 1); a relayer executes the batch on chain "e" (1 234 567 units paid out); the hub
    applies the execution event. -/
def wxOps : List WOp := [
  .lock "e" (.sendToHub 1 "T" 5000000 "s" "a" 10 "d"),
  .applyDeposit,
  .hubOp (.send "a" "e" "r" "hub" 1234567890123456789 1000000000000000001 "x"),
  .hubOp (.block 2 100),
  .hubOp .beginBlock,
  .execute "e" "T" 1,
  .applyExec 2 11 "b" 0 "p"]

/-- The world after the first `n` operations (custody starts empty). -/
def wx (n : Nat) : World := wrun "hub" (initWorld wxHub 0) (wxOps.take n)

/-- The standing hypotheses hold at genesis … -/
theorem wxHub_vinv : wxHub.VInv :=
  vinv_reachable _ (Hub.bounded_of_all (by decide +kernel))
    ⟨by decide +kernel, by decide +kernel, by decide +kernel, by decide +kernel⟩ (by decide +kernel)

/-- … and H1 (at the `applyExec` step the hub still stores the executed batch and the handler
    succeeds) and H2 (counters) hold along the whole history. -/
theorem wx_runOk : RunOk "hub" (initWorld wxHub 0) wxOps := runOk_of_B (by decide +kernel)

/-- So the theorems apply … -/
example : SolvInv "hub" (wx 7) :=
  solvency_reachable "hub" wxHub 0 wxHub_vinv (by decide +kernel) wxOps wx_runOk

example : (wx 7).hub.supplyOf "hub" * unitOf hubDecimals + (wx 7).hub.inflight "hub" ≤ (wx 7).custody :=
  fully_observed_solvent "hub" wxHub 0 wxHub_vinv (by decide +kernel) wxOps wx_runOk
    (by decide +kernel) (by decide +kernel)

/-- … and agree with the computed values.  After the lock: custody 5·10^36, one deposit pending. -/
example : (wx 1).hub.value "hub" = 0 ∧ (wx 1).custody = 5000000 * unitOf 6 ∧
    depSum (wx 1).hub "hub" (wx 1).pendingDeposits = 5000000 * unitOf 6 ∧
    (wx 1).pendingDeposits.length = 1 := by decide +kernel

/-- After the deposit is applied: supply 5·10^18 hub units = the custody exactly. -/
example : (wx 2).hub.supplyOf "hub" = 5000000000000000000 ∧
    (wx 2).hub.value "hub" = (wx 2).custody ∧ (wx 2).pendingDeposits.length = 0 := by decide +kernel

/-- After the send and the batching: 2 234 567 external units in flight in batch 1, the rounding dust
    (890123456790 hub units) is slack. -/
example : (wx 5).hub.supplyOf "hub" = 2765432109876543210 ∧
    (wx 5).hub.inflight "hub" = 2234567 * unitOf 6 ∧
    (wx 5).hub.value "hub" = 4999999109876543210 * unitOf 18 ∧
    ((wx 5).hub.chain "e").batches.length = 1 ∧ ((wx 5).hub.chain "e").pool.length = 0 ∧
    (wx 5).custody = 5000000 * unitOf 6 := by decide +kernel

/-- After the external execution: the custody dropped by the 1 234 567 units paid out; the hub has
    not seen it yet, so its value exceeds the custody — covered by the pending execution. -/
example : (wx 6).custody = 3765433 * unitOf 6 ∧
    execSum (wx 6).hub "hub" (wx 6).pendingExecs = 1234567 * unitOf 6 ∧
    (wx 6).custody < (wx 6).hub.value "hub" ∧
    (wx 6).hub.value "hub" ≤ (wx 6).custody + execSum (wx 6).hub "hub" (wx 6).pendingExecs := by
  decide +kernel

/-- After the execution event is applied: nothing in flight, nothing pending,
    supply 2.765…·10^36 ≤ custody 3.765…·10^36 (the slack is the 1 000 000 units of fee kept in
    custody — chain "e" has no base-coin price, the fee is not re-minted — plus the dust). -/
example : (wx 7).hub.supplyOf "hub" = 2765432109876543210 ∧ (wx 7).hub.inflight "hub" = 0 ∧
    (wx 7).hub.value "hub" = 2765432109876543210 * unitOf 18 ∧
    (wx 7).custody = 3765433 * unitOf 6 ∧ (wx 7).pendingExecs.length = 0 ∧
    ((wx 7).hub.chain "e").batches.length = 0 ∧
    (wx 7).hub.value "hub" ≤ (wx 7).custody := by decide +kernel

/-- Theorem 3 on the deposit step: value grew by exactly the locked value. -/
example : (wx 2).hub.value "hub" = (wx 1).hub.value "hub" + stepCredit "hub" (wx 1) .applyDeposit := by
  decide +kernel

/-- The same loop with two more blocks beginning (block 4 batches again: nothing left) while the
    execution event is in transit.  H1(b), the clock condition (the batch's timeout 0 is not below
    the observed external height 0) and H2 hold, so `solvency_reachable_clock` applies: H1(a) is
    derived, not checked. -/
def wyOps : List WOp := wxOps.take 6 ++
  [.hubOp (.block 3 105), .hubOp .beginBlock, .hubOp (.block 4 110), .hubOp .beginBlock,
   .applyExec 2 11 "b" 0 "p"]

theorem wy_runOkC : RunOkC "hub" (initWorld wxHub 0) wyOps := runOkC_of_B (by decide +kernel)

example : SolvInv "hub" (wrun "hub" (initWorld wxHub 0) wyOps) :=
  solvency_reachable_clock "hub" wxHub 0 wxHub_vinv (by decide +kernel) wyOps wy_runOkC

example : (wrun "hub" (initWorld wxHub 0) (wyOps.take 10)).pendingExecs.length = 1 ∧
    ((wrun "hub" (initWorld wxHub 0) (wyOps.take 10)).hub.chain "e").batches.length = 1 ∧
    (wrun "hub" (initWorld wxHub 0) wyOps).pendingExecs.length = 0 ∧
    ((wrun "hub" (initWorld wxHub 0) wyOps).hub.chain "e").batches.length = 0 ∧
    (wrun "hub" (initWorld wxHub 0) wyOps).hub.value "hub" = 2765432109876543210 * unitOf 18 ∧
    (wrun "hub" (initWorld wxHub 0) wyOps).custody = 3765433 * unitOf 6 := by decide +kernel

/-! ### 5. H1 is necessary: the two ways an execution event can fail to write the payout off -/

/-- (a) THE BATCH WAS WITHDRAWN MEANWHILE.  The hub starts with an observed external height 5 on
    chain "e" but no observed cosmos height, so `batchTimeoutHeight` is 0: the batch created at
    block 2 has timeout 0 `< 5` and the begin block of block 3 cancels it — after a relayer has
    executed it externally (which the real contract forbids: `block.number < timeout`).  The
    execution event then finds no batch, the handler returns the state unchanged, the transfer is
    back in the pool and its sender cancels it: the 1 234 567 units were paid out AND refunded. -/
def caHub : Hub := { wxHub with cs := [("e", { obsExtHeight := 5 })] }

def caOps : List WOp := [
  .lock "e" (.sendToHub 1 "T" 5000000 "s" "a" 10 "d"),
  .applyDeposit,
  .hubOp (.send "a" "e" "r" "hub" 1234567890123456789 1000000000000000001 "x"),
  .hubOp (.block 2 100),
  .hubOp .beginBlock,
  .execute "e" "T" 1,
  .hubOp (.block 3 105),
  .hubOp .beginBlock,
  .applyExec 2 11 "b" 0 "p",
  .hubOp (.cancel "a" "e" 1)]

def ca (n : Nat) : World := wrun "hub" (initWorld caHub 0) (caOps.take n)

theorem caHub_chain (c : String) : (caHub.chain c).pool = [] ∧ (caHub.chain c).batches = [] := by
  unfold Hub.chain caHub
  simp only [alGet]
  split <;> exact ⟨rfl, rfl⟩

/-- The standing hypotheses hold for this genesis state. -/
theorem caHub_vinv : caHub.VInv := by
  refine ⟨⟨by decide +kernel, by decide +kernel, by decide +kernel, by decide +kernel⟩, by decide +kernel,
    Hub.ledgerInv_of_all (by decide +kernel), ⟨fun c s hs => ?_, wxHub_vinv.ent.bal.of_bal rfl, fun c b hb => ?_⟩⟩
  · have := caHub_chain c
    simp [ChainSt.entries, this.1, this.2] at hs
  · rw [(caHub_chain c).2] at hb; cases hb

/-- H1 and H2 hold for the first eight steps and `ExecOk` fails at the ninth (the `applyExec`):
    the batch is gone although the handler succeeds.  Nothing is pending afterwards and the hub's
    value exceeds the custody; after the cancel the circulating supply alone does. -/
theorem applyExec_unsolvent_without_ExecOk :
    runOkB "hub" (initWorld caHub 0) (caOps.take 8) = true ∧
    execOkB (ca 8) (.applyExec 2 11 "b" 0 "p") = false ∧
    (ca 8).hub.findBatch "e" "T" 1 = none ∧
    (match (ca 8).hub.handle false "e" (.batchExecuted "T" 2 1 11 "b" 0 "p") with
      | .ok _ => true | .error _ => false) = true ∧
    (ca 9).pendingDeposits.length = 0 ∧ (ca 9).pendingExecs.length = 0 ∧
    (ca 9).custody = 3765433 * unitOf 6 ∧ (ca 9).hub.value "hub" = 4999999109876543210 * unitOf 18 ∧
    (ca 9).custody < (ca 9).hub.value "hub" ∧
    (ca 10).hub.supplyOf "hub" = 4999999109876543210 ∧
    (ca 10).custody < (ca 10).hub.supplyOf "hub" * unitOf hubDecimals := by decide +kernel

/-- In that history it is the clock condition that fails: hub operations run at steps 7 and 8 while
    the executed batch (timeout 0) is timed out on the hub (observed external height 5). -/
example : runOkCB "hub" (initWorld caHub 0) (caOps.take 6) = true ∧
    noTimeoutB (ca 6) (.hubOp (.block 3 105)) = false ∧ noTimeoutB (ca 7) (.hubOp .beginBlock) = false := by
  decide +kernel

/-- (b) THE HANDLER FAILS AS A WHOLE (known finding).  The same history on chain "bsc" without oracle
    prices: `batchTxExecuted` panics with "price not found" when it tries to reimburse the relayer,
    the event handler's writes are rolled back, the event counts as applied, and the batch stays
    in the hub although it was paid out. -/
def cbHub : Hub := runOps [.chains ["bsc"], .token ⟨1, "hub", "bsc", "T", 6, 0⟩]

def cbOps : List WOp := [
  .lock "bsc" (.sendToHub 1 "T" 5000000 "s" "a" 10 "d"),
  .applyDeposit,
  .hubOp (.send "a" "bsc" "r" "hub" 1234567890123456789 1000000000000000001 "x"),
  .hubOp (.block 2 100),
  .hubOp .beginBlock,
  .execute "bsc" "T" 1,
  .applyExec 2 11 "b" 0 "p"]

def cb (n : Nat) : World := wrun "hub" (initWorld cbHub 0) (cbOps.take n)

theorem applyExec_unsolvent_when_handler_fails :
    runOkB "hub" (initWorld cbHub 0) (cbOps.take 6) = true ∧
    execOkB (cb 6) (.applyExec 2 11 "b" 0 "p") = false ∧
    (cb 6).hub.findBatch "bsc" "T" 1 = ((cb 6).pendingExecs.head?.map (·.batch)) ∧
    (match (cb 6).hub.handle false "bsc" (.batchExecuted "T" 2 1 11 "b" 0 "p") with
      | .error (.panic "price not found") => true | _ => false) = true ∧
    (cb 7).pendingDeposits.length = 0 ∧ (cb 7).pendingExecs.length = 0 ∧
    ((cb 7).hub.chain "bsc").batches.length = 1 ∧
    (cb 7).custody = 3765433 * unitOf 6 ∧ (cb 7).hub.value "hub" = 4999999109876543210 * unitOf 18 ∧
    (cb 7).custody < (cb 7).hub.value "hub" := by decide +kernel

/-- This genesis state satisfies the standing hypotheses too (so only H1 is missing). -/
theorem cbHub_vinv : cbHub.VInv :=
  vinv_reachable _ (Hub.bounded_of_all (by decide +kernel))
    ⟨by decide +kernel, by decide +kernel, by decide +kernel, by decide +kernel⟩ (by decide +kernel)

end Mhub2.C01
