/-
  C08, Minter side — "whenever validators holding more than the threshold have confirmed a hub
  signer-set update or batch (in nonce order), the Minter multisig accepts it, and it accepts nothing
  confirmed by less".

  Model: `Mhub2/MinterRelay.lean` (what `relayBatches` / `relayValsets` of the connector's main.go pick
  and sign) and the multisig rule `minterAccepts` (`Mhub2/Contract.lean`).  The correspondence
  (`mloop` profile) runs the repository's connector code for every validator against the real hub
  keeper and compares each decision with these functions.
-/
import Mhub2.MinterRelay
import Mhub2.Generated.Facts
import Lemmas.MinterRelay
namespace Mhub2.C08M
open Mhub2

/-! ### 1. What a connector picks -/

/-- A connector only ever submits a transaction the hub listed, and one that carries at least one
    confirmation. -/
theorem pickBatch_mem {last : Nat} {bs : List HubTx} {b : HubTx} (h : pickBatch last bs = some b) :
    b ∈ bs ∧ b.nsigs > 0 ∧ last ≤ b.nonce := by
  unfold pickBatch at h
  split at h
  · cases h
  · rename_i x hx
    split at h
    · cases h
    · rename_i hn
      injection h with h; subst h
      have hm := List.mem_of_getLast? hx
      rw [List.mem_filter] at hm
      have hperm : x ∈ bs := by
        have := hm.1
        exact (Enc.isort_perm _ bs).mem_iff.mp this
      exact ⟨hperm, by simpa using hm.2, by omega⟩

/-- The batch a connector submits is the signed one with the lowest outgoing sequence: every other
    signed batch of the hub's answer has a sequence at least as high. -/
theorem pickBatch_lowest_sequence {last : Nat} {bs : List HubTx} {b : HubTx} (h : pickBatch last bs = some b) :
    ∀ x ∈ bs, x.nsigs > 0 → b.seq ≤ x.seq := by
  intro x hx hs
  unfold pickBatch at h
  split at h
  · cases h
  · rename_i y hy
    split at h
    · cases h
    · injection h with h; subst h
      -- the filtered list is sorted by decreasing sequence; its last element is a minimum
      have hsorted := isort_sorted_desc_seq bs
      have hf : (isort (fun a b => decide (a.seq > b.seq)) bs).filter (fun b => decide (b.nsigs > 0)) |>.Pairwise (fun a b => a.seq ≥ b.seq) :=
        List.Pairwise.filter _ hsorted
      have hxm : x ∈ (isort (fun a b => decide (a.seq > b.seq)) bs).filter (fun b => decide (b.nsigs > 0)) := by
        rw [List.mem_filter]
        exact ⟨(Enc.isort_perm _ bs).mem_iff.mpr hx, by simpa using hs⟩
      exact getLast_le_of_pairwise_ge hf hy hxm

/-- The signer set a connector submits is newer than the last one it saw executed, carries a
    confirmation, and no signed set before it in the hub's answer is newer than that last one: it is
    the oldest signed set still to be executed. -/
theorem pickValset_oldest {last : Nat} {vs : List HubTx} {v : HubTx} (h : pickValset last vs = some v) :
    v ∈ vs ∧ v.nsigs > 0 ∧ last < v.nonce ∧
      ∃ pre post, vs = pre ++ v :: post ∧ ∀ x ∈ pre, x.nsigs > 0 → x.nonce ≤ last := by
  unfold pickValset at h
  split at h
  · cases h
  · rename_i w hw
    split at h
    · cases h
    · rename_i hn
      injection h with h; subst h
      have key := pickValsetLoop_spec last vs none w hw (by omega)
      obtain ⟨pre, post, hsplit, hs, hpre⟩ := key
      exact ⟨by rw [hsplit]; simp, hs, by omega, pre, post, hsplit, hpre⟩

/-- Without a bonded validator behind it (the hub refuses its "unsigned" query) a connector submits
    nothing. -/
theorem unbonded_connector_submits_nothing (last : Nat) (txs : List HubTx) :
    relayBatchesPick false last txs = none ∧ relayValsetsPick false last txs = none := ⟨rfl, rfl⟩

/-! ### 2. From confirmations to acceptance -/

/-- A submission of the transaction whose sequence is the multisig's next nonce, carrying the
    signatures of members whose installed weights reach 667, is accepted — and nothing with less
    weight or another nonce is. -/
theorem multisig_accepts_iff (next n : Nat) (weights : List Nat) (signed : List Bool) :
    minterAccepts next n weights signed = true ↔
      n = next ∧ sumNats ((weights.zip signed).filterMap fun (w, b) => if b then some w else none) ≥ 667 := by
  unfold minterAccepts minterThreshold
  simp

/-- The signatures a batch submission carries are exactly the hub's confirmations by current members
    of the multisig (when no address is listed twice among the members): a confirmation of a member
    is never dropped, one of a non-member never included. -/
theorem batchSignatures_members {members confirmers : List String} (hnd : members.Nodup) :
    batchSignatures members confirmers = confirmers.filter fun c => members.contains c := by
  unfold batchSignatures
  induction confirmers with
  | nil => rfl
  | cons c cs ih =>
    rw [List.flatMap_cons, ih, List.filter_cons]
    by_cases hc : c ∈ members
    · have h1 : (members.filter fun m => m == c) = [c] := filter_eq_singleton_of_nodup hnd hc
      simp [h1, hc]
    · have h1 : (members.filter fun m => m == c) = [] := by
        rw [List.filter_eq_nil_iff]; intro a ha; simp; intro e; exact hc (e ▸ ha)
      simp [h1, hc]

theorem valsetSignatures_members (members confirmers : List String) :
    valsetSignatures true members confirmers = confirmers.filter fun c => members.contains c := by
  unfold valsetSignatures; simp

/-! ### 2b. Progress: the transaction that is next gets submitted and, if confirmed, executed -/

/-- **Progress of batches in sequence order.**  If the batch `b` carries the multisig's next nonce as
    its sequence, has a confirmation, every batch the hub still lists has a sequence at or above it
    (the earlier ones were executed and removed), sequences are distinct and the connector has not
    counted more executed batches than `b`'s nonce, then `b` is the batch a connector submits. -/
theorem pickBatch_next {last : Nat} {bs : List HubTx} {b : HubTx}
    (hb : b ∈ bs) (hs : b.nsigs > 0) (hlast : last ≤ b.nonce)
    (hmin : ∀ x ∈ bs, b.seq ≤ x.seq) (hdist : ∀ x ∈ bs, x.seq = b.seq → x = b) :
    pickBatch last bs = some b := by
  unfold pickBatch
  have hsorted := isort_sorted_desc_seq bs
  have hf : ((isort (fun a b => decide (a.seq > b.seq)) bs).filter (fun b => decide (b.nsigs > 0))).Pairwise (fun a b => a.seq ≥ b.seq) :=
    List.Pairwise.filter _ hsorted
  have hbm : b ∈ (isort (fun a b => decide (a.seq > b.seq)) bs).filter (fun b => decide (b.nsigs > 0)) := by
    rw [List.mem_filter]
    exact ⟨(Enc.isort_perm _ bs).mem_iff.mpr hb, by simpa using hs⟩
  cases hl : ((isort (fun a b => decide (a.seq > b.seq)) bs).filter (fun b => decide (b.nsigs > 0))).getLast? with
  | none =>
    rw [List.getLast?_eq_none_iff] at hl
    rw [hl] at hbm; simp at hbm
  | some y =>
    have hym : y ∈ (isort (fun a b => decide (a.seq > b.seq)) bs).filter (fun b => decide (b.nsigs > 0)) := List.mem_of_getLast? hl
    have hyb : y ∈ bs := (Enc.isort_perm _ bs).mem_iff.mp (List.mem_filter.mp hym).1
    have h1 : y.seq ≤ b.seq := getLast_le_of_pairwise_ge hf hl hbm
    have h2 : b.seq ≤ y.seq := hmin y hyb
    have hyeq : y = b := hdist y hyb (by omega)
    subst hyeq
    simp only []
    have : ¬ y.nonce < last := by omega
    simp [this]

/-- **Progress of signer sets.**  If `v` is the first signed set of the hub's answer that is newer than
    the last set the connector saw executed, it is the one the connector submits. -/
theorem pickValset_next {last : Nat} {pre post : List HubTx} {v : HubTx}
    (hs : v.nsigs > 0) (hn : last < v.nonce) (hpre : ∀ x ∈ pre, x.nsigs > 0 → x.nonce ≤ last) :
    pickValset last (pre ++ v :: post) = some v := by
  have key : ∀ (pre : List HubTx) (cur : Option HubTx), (∀ x ∈ pre, x.nsigs > 0 → x.nonce ≤ last) →
      pickValsetLoop last cur (pre ++ v :: post) = some v := by
    intro pre
    induction pre with
    | nil =>
      intro cur _
      simp only [List.nil_append, pickValsetLoop, hs, hn, if_true]
    | cons x xs ih =>
      intro cur hp
      simp only [List.cons_append, pickValsetLoop]
      by_cases hx : x.nsigs > 0
      · have : ¬ x.nonce > last := by have := hp x (by simp) hx; omega
        simp only [hx, this, if_true, if_false]
        exact ih _ (fun y hy => hp y (by simp [hy]))
      · simp only [hx, if_false]
        exact ih _ (fun y hy => hp y (by simp [hy]))
  unfold pickValset
  rw [key pre none hpre]
  have : ¬ v.nonce ≤ last := by omega
  simp [this]

/-- **From confirmations to execution, one step.**  The transaction whose sequence is the multisig's next
    nonce, picked as above and carrying the signatures of members whose installed weights reach 667, is
    accepted by the multisig. -/
theorem next_confirmed_batch_is_executed {last next : Nat} {bs : List HubTx} {b : HubTx}
    {weights : List Nat} {signed : List Bool}
    (hb : b ∈ bs) (hs : b.nsigs > 0) (hlast : last ≤ b.nonce) (hseq : b.seq = next)
    (hmin : ∀ x ∈ bs, b.seq ≤ x.seq) (hdist : ∀ x ∈ bs, x.seq = b.seq → x = b)
    (hw : sumNats ((weights.zip signed).filterMap fun (w, s) => if s then some w else none) ≥ 667) :
    ∃ t, pickBatch last bs = some t ∧ minterAccepts next t.seq weights signed = true := by
  refine ⟨b, pickBatch_next hb hs hlast hmin hdist, ?_⟩
  unfold minterAccepts minterThreshold
  simp [hseq, hw]

/-! ### 3. Bridge lemmas: the source of main.go the model was written from -/

theorem fact_conn_threshold : Generated.conn_threshold = "667" := rfl
theorem fact_conn_batches_conds : Generated.conn_batches_conds =
    "err != nil | err != nil | err != nil | len(confirms) > 0 | err != nil | err != nil | sigs.Size() > 0 | oldestSignedBatch == nil | oldestSignedBatch.BatchNonce < ctx.LastBatchNonce() | err != nil | err != nil | strings.ToLower(member[2:]) == strings.ToLower(sig.ExternalSigner[2:]) | err != nil | err != nil | err != nil | err != nil | response.Code != 0" := rfl
theorem fact_conn_batches_calls : Generated.conn_batches_calls =
    "tx.SetNonce(batch.Sequence).SetGasPrice(1).SetGasCoin(0).SetSignatureType(transaction.SignatureTypeMulti) | sort.Slice(latestBatches.Batches, func(i, j int) bool { return latestBatches.Batches[i].Sequence > latestBatches.Batches[j].Sequence }) | tx.SetNonce(oldestSignedBatch.Sequence).SetGasPrice(1).SetGasCoin(0).SetSignatureType(transaction.SignatureTypeMulti)" := rfl
theorem fact_conn_valsets_conds : Generated.conn_valsets_conds =
    "err != nil | err != nil | err != nil | len(confirms) > 0 | err != nil | err != nil | sigs.Size() > 0 | oldestSignedValset.Nonce > ctx.LastValsetNonce() | oldestSignedValset == nil | oldestSignedValset.Nonce <= ctx.LastValsetNonce() | err != nil | err != nil | msig.Multisig != nil | strings.ToLower(member[2:]) == strings.ToLower(sig.ExternalSigner[2:]) | hasMember || msig.Multisig == nil | err != nil | err != nil | err != nil | err != nil | response.Code != 0" := rfl
theorem fact_conn_valsets_weight : Generated.conn_valsets_weight =
    "uint32(sdk.NewUint(val.Power).MulUint64(1000).QuoUint64(totalPower).Uint64()) | uint32(sdk.NewUint(val.Power).MulUint64(1000).QuoUint64(totalPower).Uint64())" := rfl
theorem fact_conn_valsets_calls : Generated.conn_valsets_calls =
    "tx.SetPayload([]byte(strconv.Itoa(int(valset.Nonce)))) | tx.SetNonce(valset.Sequence).SetGasPrice(1).SetGasCoin(0).SetSignatureType(transaction.SignatureTypeMulti) | tx.SetNonce(oldestSignedValset.Sequence).SetGasPrice(1).SetGasCoin(0).SetSignatureType(transaction.SignatureTypeMulti) | tx.SetPayload([]byte(strconv.Itoa(int(oldestSignedValset.Nonce))))" := rfl

/-! ### 4. Non-vacuity -/

example : pickBatch 2 [⟨6, 3, 3⟩, ⟨8, 4, 3⟩, ⟨10, 6, 1⟩, ⟨13, 7, 0⟩, ⟨5, 2, 3⟩, ⟨9, 5, 3⟩] = some ⟨5, 2, 3⟩ := by decide
example : pickBatch 3 [⟨6, 3, 3⟩, ⟨5, 2, 3⟩] = none := by decide
example : pickBatch 2 [⟨6, 3, 3⟩, ⟨5, 2, 1⟩, ⟨9, 5, 0⟩] = some ⟨5, 2, 1⟩ := by decide
example : pickValset 2 [⟨1, 1, 3⟩, ⟨2, 2, 3⟩, ⟨4, 3, 1⟩, ⟨7, 4, 2⟩] = some ⟨4, 3, 1⟩ := by decide
example : pickValset 2 [⟨1, 1, 3⟩, ⟨2, 2, 3⟩, ⟨4, 3, 0⟩] = none := by decide
example : minterAccepts 4 4 [564, 408, 27] [true, true, false] = true ∧ minterAccepts 4 4 [564, 408, 27] [true, false, true] = false := by decide
example : batchSignatures ["a", "b", "c"] ["c", "x", "a"] = ["c", "a"] := by decide

end Mhub2.C08M
