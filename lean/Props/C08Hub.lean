/-
  C08 (hub ↔ contract link) — the signer set the hub emits, read as the contract's current
  validator set.

  `Hub.currentSigners` (CurrentSignerSet) normalises the members' staking powers to 2^32 − 1 with
  one floor division per member; `checkSigs` (checkValidatorSignatures) adds the powers of the
  validly signing members and accepts iff the sum exceeds the deployed threshold 2863311530.
  Since 4294967295 = 3 · 1431655765 and 2863311530 = 2 · 1431655765, the threshold is *exactly*
  two thirds of the normalisation constant.  This file proves

    1. the emitted powers sum to a number in [2^32 − 1 − n, 2^32 − 1]          (`emitted_set_sum_bounds`)
    2. a selection of k members with stake S out of T gets normalised power N with
       N·T ≤ S·(2^32−1) < (N + k)·T                                          (`selected_power_bounds`)
    3. a stake share of at least 2/3 + k/(2^32−1) — a fortiori any share above 2/3 + (k+1)/2^32 —
       gives N > threshold, and the contract accepts the signatures of these members
                      (`two_thirds_of_stake_suffices`, `two_thirds_plus_slack_suffices`, `two_thirds_of_stake_is_accepted`)
    4. whatever the contract accepts was validly signed by members holding strictly more than two
       thirds of the members' stake                                           (`accepted_needs_two_thirds_of_stake`)
    5. a set that is not normalised against its own total can reject even unanimous signatures
                                                                              (`unnormalised_set_bricks_contract`)

  Selections are Boolean masks over the member list (`SetNorm.sel`); the signature vector in which
  exactly the masked members signed is `SetNorm.maskSlots`.  The members' address strings are
  turned into the contract's address bytes by an arbitrary function `enc` (the theorems hold for
  every encoding; the examples use `ethAddrBytes`).

  Import note.  Lemmas/Keys.lean (which defines `Hub.rawSigners` and is used by Props/C09.lean) and
  Lemmas/Contract.lean (used by Props/C08.lean) both declare `Mhub2.sum_floor_le_nat`, so they
  cannot be imported into one file.  This file needs the contract lemmas; the pre-normalisation
  member list is therefore restated here as `stakeMembers`, whose body is literally the `raw` list
  inside `Hub.currentSigners` (`currentSigners_eq` below holds by `rfl`) and is syntactically the
  unfolding of `Hub.rawSigners`/`regSigner` of Lemmas/Keys.lean.

  Property theorems only; helper lemmas live in Lemmas/SetNorm.lean.
-/
import Mhub2.Ledger
import Mhub2.Votes
import Mhub2.Contract
import Lemmas.Contract
import Lemmas.SetNorm
import Props.C08
namespace Mhub2.C08Hub
open Mhub2 Mhub2.C08 Mhub2.SetNorm

/-! ### 0. The members before normalisation -/

/-- Bonded validators with a registered non-zero external address, with their *staking* power, in
    bonded-by-power order (the list `raw` of `Hub.currentSigners`). -/
def stakeMembers (h : Hub) (chain : String) : List Signer :=
  h.bondedByPower.filterMap fun v =>
    match alGet (h.chain chain).valExt v.addr with
    | none => none
    | some e => if e == zeroEth then none else some (Signer.mk v.power e)

/-- The total the powers are normalised against: the staking power of exactly the members. -/
def totalStake (h : Hub) (chain : String) : Nat := sumNats ((stakeMembers h chain).map (·.power))

/-- Staking power held by the members selected by `mask`. -/
def selStake (h : Hub) (chain : String) (mask : List Bool) : Nat :=
  sumNats ((sel mask (stakeMembers h chain)).map (·.power))

/-- Normalised power (as emitted to the contract) of the members of `l` selected by `mask`. -/
def selPower (l : List Signer) (mask : List Bool) : Nat := sumNats ((sel mask l).map (·.power))

/-- Number of selected members. -/
def selCount (l : List Signer) (mask : List Bool) : Nat := (sel mask l).length

theorem currentSigners_eq (h : Hub) (chain : String) :
    h.currentSigners chain =
      (if (stakeMembers h chain).isEmpty then .ok []
       else if totalStake h chain == 0 then panicM "division by zero"
       else .ok ((stakeMembers h chain).map fun s =>
          { s with power := s.power * maxU32 / totalStake h chain })) := rfl

/-- What `CurrentSignerSet` returns: every member's staking power `p` replaced by
    `⌊p · (2^32 − 1) / total⌋`; a non-empty result means a positive total. -/
theorem currentSigners_ok {h : Hub} {chain : String} {l : List Signer}
    (hok : h.currentSigners chain = .ok l) :
    l = (stakeMembers h chain).map (fun s => ⟨s.power * 4294967295 / totalStake h chain, s.addr⟩) ∧
    (l ≠ [] → 0 < totalStake h chain) := by
  rw [currentSigners_eq] at hok
  split at hok
  · rename_i he
    injection hok with hok
    have : stakeMembers h chain = [] := by simpa using he
    rw [this]
    exact ⟨hok.symm, fun hne => absurd hok.symm hne⟩
  · split at hok
    · cases hok
    · rename_i hz
      injection hok with hok
      refine ⟨hok.symm, fun _ => ?_⟩
      have : totalStake h chain ≠ 0 := by simpa using hz
      omega

/-- The normalised powers, as a list of numbers. -/
theorem powers_eq {h : Hub} {chain : String} {l : List Signer}
    (hok : h.currentSigners chain = .ok l) :
    l.map (·.power) =
      ((stakeMembers h chain).map (·.power)).map (fun p => p * 4294967295 / totalStake h chain) := by
  conv => lhs; rw [(currentSigners_ok hok).1]
  rw [List.map_map, List.map_map]
  rfl

theorem selPower_eq {h : Hub} {chain : String} {l : List Signer}
    (hok : h.currentSigners chain = .ok l) (mask : List Bool) :
    selPower l mask =
      sumNats ((sel mask ((stakeMembers h chain).map (·.power))).map
        (fun p => p * 4294967295 / totalStake h chain)) := by
  unfold selPower
  rw [← sel_map, powers_eq hok, sel_map]

theorem selStake_eq (h : Hub) (chain : String) (mask : List Bool) :
    selStake h chain mask = sumNats (sel mask ((stakeMembers h chain).map (·.power))) := by
  unfold selStake
  rw [sel_map]

theorem selCount_eq {h : Hub} {chain : String} {l : List Signer}
    (hok : h.currentSigners chain = .ok l) (mask : List Bool) :
    selCount l mask = (sel mask ((stakeMembers h chain).map (·.power))).length := by
  unfold selCount
  conv => lhs; rw [(currentSigners_ok hok).1]
  rw [sel_map, sel_map, List.length_map, List.length_map]

/-- A selection holds at most the whole stake. -/
theorem selStake_le_total (h : Hub) (chain : String) (mask : List Bool) :
    selStake h chain mask ≤ totalStake h chain := by
  rw [selStake_eq]
  exact sumNats_sel_le _ _

/-! ### 1. The emitted powers sum to almost exactly 2^32 − 1 -/

/-- The powers of a non-empty emitted signer set sum to a number between `2^32 − 1 − n` and
    `2^32 − 1`, `n` the number of members: each floor loses less than one unit and the exact
    proportions sum to `2^32 − 1`. -/
theorem emitted_set_sum_bounds {h : Hub} {chain : String} {l : List Signer}
    (hok : h.currentSigners chain = .ok l) (hne : l ≠ []) :
    4294967295 - l.length ≤ sumNats (l.map (·.power)) ∧ sumNats (l.map (·.power)) ≤ 4294967295 := by
  have hT := (currentSigners_ok hok).2 hne
  have hlen : l.length = ((stakeMembers h chain).map (·.power)).length := by
    conv => lhs; rw [(currentSigners_ok hok).1]
    rw [List.length_map, List.length_map]
  have hne' : (stakeMembers h chain).map (·.power) ≠ [] := by
    intro he
    rw [he] at hlen
    exact hne (List.eq_nil_of_length_eq_zero hlen)
  rw [powers_eq hok, hlen]
  unfold totalStake at hT ⊢
  have h1 := sumNats_floor_total_lower 4294967295 _ hT hne'
  have h2 := sumNats_floor_total_upper 4294967295 _ hT
  omega

/-- Sharper lower bound: strictly more than `2^32 − 1 − n`. -/
theorem emitted_set_sum_gt {h : Hub} {chain : String} {l : List Signer}
    (hok : h.currentSigners chain = .ok l) (hne : l ≠ []) :
    4294967295 < sumNats (l.map (·.power)) + l.length := by
  have hT := (currentSigners_ok hok).2 hne
  have hlen : l.length = ((stakeMembers h chain).map (·.power)).length := by
    conv => lhs; rw [(currentSigners_ok hok).1]
    rw [List.length_map, List.length_map]
  have hne' : (stakeMembers h chain).map (·.power) ≠ [] := by
    intro he
    rw [he] at hlen
    exact hne (List.eq_nil_of_length_eq_zero hlen)
  rw [powers_eq hok, hlen]
  unfold totalStake at hT ⊢
  exact sumNats_floor_total_lower 4294967295 _ hT hne'

/-! ### 2. Stake share versus normalised power -/

/-- For any selection of `k` members holding stake `S` out of the members' total `T`, the sum `N` of
    their normalised powers is at most the exact proportion `S·(2^32−1)/T` and less than `k` units
    below it: `N·T ≤ S·(2^32−1)`, `S·(2^32−1) + k ≤ (N + k)·T`, and, for a non-empty selection,
    `S·(2^32−1) < (N + k)·T`.  (No hypothesis on `l`: for the empty set all quantities are 0.) -/
theorem selected_power_bounds {h : Hub} {chain : String} {l : List Signer}
    (hok : h.currentSigners chain = .ok l) (mask : List Bool) :
    selPower l mask * totalStake h chain ≤ selStake h chain mask * 4294967295 ∧
    selStake h chain mask * 4294967295 + selCount l mask
      ≤ (selPower l mask + selCount l mask) * totalStake h chain ∧
    (0 < selCount l mask →
      selStake h chain mask * 4294967295 < (selPower l mask + selCount l mask) * totalStake h chain) := by
  rw [selPower_eq hok, selStake_eq, selCount_eq hok]
  have hup := sumNats_floor_upper 4294967295 (totalStake h chain)
    (sel mask ((stakeMembers h chain).map (·.power)))
  have hlow : sumNats (sel mask ((stakeMembers h chain).map (·.power))) * 4294967295
        + (sel mask ((stakeMembers h chain).map (·.power))).length
      ≤ (sumNats ((sel mask ((stakeMembers h chain).map (·.power))).map
            (fun p => p * 4294967295 / totalStake h chain))
          + (sel mask ((stakeMembers h chain).map (·.power))).length) * totalStake h chain := by
    by_cases hl : l = []
    · -- no members at all: the selection is empty
      have hraw : (stakeMembers h chain).map (·.power) = [] := by
        have h0 := (currentSigners_ok hok).1
        rw [hl] at h0
        have : (stakeMembers h chain) = [] := by
          cases hs : stakeMembers h chain with
          | nil => rfl
          | cons a t => rw [hs] at h0; cases h0
        rw [this]; rfl
      rw [hraw, sel_nil_right]
      simp
    · exact sumNats_floor_lower 4294967295 _ ((currentSigners_ok hok).2 hl) _
  refine ⟨hup, hlow, fun hk => ?_⟩
  omega

/-! ### 3. Two thirds of the stake (plus rounding slack) suffice -/

/-- If the selected `k` members hold a share of the members' stake of at least
    `2/3 + k/(2^32−1)` — written without division: `(2863311530 + k)·T ≤ S·4294967295`, where
    2863311530 / 4294967295 = 2/3 exactly — their normalised powers sum to more than the contract's
    threshold 2863311530. -/
theorem two_thirds_of_stake_suffices {h : Hub} {chain : String} {l : List Signer}
    (hok : h.currentSigners chain = .ok l) (hne : l ≠ []) (mask : List Bool)
    (hS : (2863311530 + selCount l mask) * totalStake h chain ≤ selStake h chain mask * 4294967295) :
    selPower l mask > 2863311530 := by
  have hT := (currentSigners_ok hok).2 hne
  obtain ⟨_, hlow, _⟩ := selected_power_bounds hok mask
  -- an empty selection holds no stake
  have hk : 0 < selCount l mask := by
    apply Nat.pos_of_ne_zero
    intro hk0
    have hS0 : selStake h chain mask = 0 := by
      rw [selCount_eq hok] at hk0
      rw [selStake_eq, List.eq_nil_of_length_eq_zero hk0]; rfl
    rw [hS0, hk0] at hS
    generalize totalStake h chain = T at hT hS
    omega
  apply Nat.lt_of_not_le
  intro hN
  have hmono : (selPower l mask + selCount l mask) * totalStake h chain
      ≤ (2863311530 + selCount l mask) * totalStake h chain :=
    Nat.mul_le_mul_right _ (by omega)
  omega

/-- The same with the share written in thirds: `3·S·(2^32−1) ≥ (2·(2^32−1) + 3k)·T`, i.e.
    `S/T ≥ 2/3 + k/(2^32−1)`. -/
theorem two_thirds_of_stake_suffices_thirds {h : Hub} {chain : String} {l : List Signer}
    (hok : h.currentSigners chain = .ok l) (hne : l ≠ []) (mask : List Bool)
    (hS : (2 * 4294967295 + 3 * selCount l mask) * totalStake h chain
            ≤ 3 * selStake h chain mask * 4294967295) :
    selPower l mask > 2863311530 := by
  apply two_thirds_of_stake_suffices hok hne mask
  have e : (2 * 4294967295 + 3 * selCount l mask) * totalStake h chain
      = 3 * ((2863311530 + selCount l mask) * totalStake h chain) := by
    rw [← Nat.mul_assoc]; congr 1; omega
  rw [e, Nat.mul_assoc] at hS
  omega

/-- The weaker sufficient condition with one more unit of slack, `S/T ≥ 2/3 + (k+1)/(2^32−1)`. -/
theorem two_thirds_plus_unit_suffices {h : Hub} {chain : String} {l : List Signer}
    (hok : h.currentSigners chain = .ok l) (hne : l ≠ []) (mask : List Bool)
    (hS : (3 * 2863311530 + 3 * selCount l mask + 3) * totalStake h chain
            ≤ 3 * selStake h chain mask * 4294967295) :
    selPower l mask > 2863311530 := by
  apply two_thirds_of_stake_suffices hok hne mask
  have e : (3 * 2863311530 + 3 * selCount l mask + 3) * totalStake h chain
      = 3 * ((2863311530 + selCount l mask) * totalStake h chain) + 3 * totalStake h chain := by
    rw [← Nat.mul_assoc, ← Nat.add_mul]; congr 1; omega
  rw [e, Nat.mul_assoc] at hS
  omega

/-- A SHARE OF STAKE ABOVE `2/3 + (k+1)/2^32` SUFFICES: `S/T > 2/3 + (k+1)/2^32`, written without
    division as `(2·2^32 + 3·(k+1))·T < 3·S·2^32`, implies normalised power above the threshold.
    (Uses `S ≤ T`; no bound on `k` is needed.) -/
theorem two_thirds_plus_slack_suffices {h : Hub} {chain : String} {l : List Signer}
    (hok : h.currentSigners chain = .ok l) (hne : l ≠ []) (mask : List Bool)
    (hS : (2 * 4294967296 + 3 * (selCount l mask + 1)) * totalStake h chain
            < 3 * selStake h chain mask * 4294967296) :
    selPower l mask > 2863311530 := by
  apply two_thirds_of_stake_suffices hok hne mask
  have hle := selStake_le_total h chain mask
  have e : (2 * 4294967296 + 3 * (selCount l mask + 1)) * totalStake h chain
      = 8589934595 * totalStake h chain + 3 * (selCount l mask * totalStake h chain) := by
    rw [← Nat.mul_assoc, ← Nat.add_mul]; congr 1; omega
  rw [e] at hS
  rw [Nat.add_mul]
  generalize selCount l mask * totalStake h chain = X at hS ⊢
  omega

/-- The contract's view of an emitted set: address bytes and powers in the emitted order. -/
def valsOf (enc : String → Bytes) (l : List Signer) : List Bytes := l.map (fun s => enc s.addr)
def powersOf (l : List Signer) : List Nat := l.map (·.power)

theorem valsOf_length (enc : String → Bytes) (l : List Signer) :
    (valsOf enc l).length = (powersOf l).length := by
  unfold valsOf powersOf; rw [List.length_map, List.length_map]

/-- With the emitted set as the contract's current validator set and exactly the masked members
    signing `theHash`, the valid power the contract counts is the selection's normalised power. -/
theorem validPower_emitted (enc : String → Bytes) (l : List Signer) (mask : List Bool) (theHash : Bytes) :
    validPower (valsOf enc l) (powersOf l) (maskSlots theHash mask (valsOf enc l)) theHash
      = selPower l mask := by
  rw [validPower_maskSlots _ _ _ _ (valsOf_length enc l)]
  unfold powersOf selPower
  rw [sel_map]

/-- For such signature vectors the contract's decision is exactly "selected normalised power above
    the threshold". -/
theorem accepted_iff_selected_power (enc : String → Bytes) (l : List Signer) (mask : List Bool)
    (theHash : Bytes) (th : Nat) :
    checkSigs (valsOf enc l) (powersOf l) (maskSlots theHash mask (valsOf enc l)) theHash th = true
      ↔ selPower l mask > th := by
  rw [contract_accepts_iff (slotsOK_maskSlots _ _ _), validPower_emitted]

/-- TWO THIRDS OF THE STAKE ARE ACCEPTED.  Let the contract's current validator set be the set the
    hub emitted (addresses and normalised powers in order), let the members marked in `mask` sign
    `theHash` (slot `.sig addr theHash`) and all other slots be absent.  If the signing members hold a
    share of the members' stake of at least `2/3 + k/(2^32−1)` (`k` = number of signers), then
    `checkValidatorSignatures` with the deployed threshold 2863311530 accepts. -/
theorem two_thirds_of_stake_is_accepted (enc : String → Bytes) {h : Hub} {chain : String}
    {l : List Signer} (hok : h.currentSigners chain = .ok l) (hne : l ≠ []) (mask : List Bool)
    (theHash : Bytes)
    (hS : (2863311530 + selCount l mask) * totalStake h chain ≤ selStake h chain mask * 4294967295) :
    checkSigs (valsOf enc l) (powersOf l) (maskSlots theHash mask (valsOf enc l)) theHash 2863311530
      = true :=
  (accepted_iff_selected_power enc l mask theHash _).2 (two_thirds_of_stake_suffices hok hne mask hS)

/-- The same from the hypothesis "share of stake above `2/3 + (k+1)/2^32`". -/
theorem two_thirds_plus_slack_is_accepted (enc : String → Bytes) {h : Hub} {chain : String}
    {l : List Signer} (hok : h.currentSigners chain = .ok l) (hne : l ≠ []) (mask : List Bool)
    (theHash : Bytes)
    (hS : (2 * 4294967296 + 3 * (selCount l mask + 1)) * totalStake h chain
            < 3 * selStake h chain mask * 4294967296) :
    checkSigs (valsOf enc l) (powersOf l) (maskSlots theHash mask (valsOf enc l)) theHash 2863311530
      = true :=
  (accepted_iff_selected_power enc l mask theHash _).2 (two_thirds_plus_slack_suffices hok hne mask hS)

/-- The same with the signature vector described slot by slot instead of by `maskSlots`: one slot
    per member, the slot of a selected member is that member's signature over `theHash`, the slot
    of an unselected member is absent. -/
theorem two_thirds_of_stake_is_accepted_pointwise (enc : String → Bytes) {h : Hub} {chain : String}
    {l : List Signer} (hok : h.currentSigners chain = .ok l) (hne : l ≠ []) (mask : List Bool)
    (theHash : Bytes) (sigs : List SigSlot)
    (hlm : mask.length = l.length) (hls : sigs.length = l.length)
    (hsel : ∀ (i : Nat) (hi : i < l.length), mask[i]'(hlm ▸ hi) = true →
      sigs[i]'(hls ▸ hi) = .sig (enc l[i].addr) theHash)
    (hunsel : ∀ (i : Nat) (hi : i < l.length), mask[i]'(hlm ▸ hi) = false →
      sigs[i]'(hls ▸ hi) = .absent)
    (hS : (2863311530 + selCount l mask) * totalStake h chain ≤ selStake h chain mask * 4294967295) :
    checkSigs (valsOf enc l) (powersOf l) sigs theHash 2863311530 = true := by
  have hsig : sigs = maskSlots theHash mask (valsOf enc l) := by
    clear hS hok hne
    induction l generalizing mask sigs with
    | nil =>
      have : sigs = [] := List.eq_nil_of_length_eq_zero hls
      rw [this]; unfold valsOf; rw [List.map_nil, maskSlots_nil_right]
    | cons s t ih =>
      cases mask with
      | nil => simp at hlm
      | cons b bs =>
        cases sigs with
        | nil => simp at hls
        | cons g gs =>
          have hlm' : bs.length = t.length := by simpa using hlm
          have hls' : gs.length = t.length := by simpa using hls
          have hrest := ih bs gs hlm' hls'
            (fun i hi hb => by
              have := hsel (i + 1) (by simp; omega) (by simpa using hb)
              simpa using this)
            (fun i hi hb => by
              have := hunsel (i + 1) (by simp; omega) (by simpa using hb)
              simpa using this)
          unfold valsOf at hrest ⊢
          rw [List.map_cons, maskSlots_cons_cons, ← hrest]
          congr 1
          cases b with
          | true => exact hsel 0 (by simp) rfl
          | false => exact hunsel 0 (by simp) rfl
  rw [hsig]
  exact two_thirds_of_stake_is_accepted enc hok hne mask theHash hS

/-! ### 4. Nothing confirmed by two thirds of the stake or less is accepted -/

/-- Normalised power above the threshold needs strictly more than two thirds of the stake. -/
theorem power_above_threshold_needs_two_thirds {h : Hub} {chain : String} {l : List Signer}
    (hok : h.currentSigners chain = .ok l) (mask : List Bool)
    (hN : selPower l mask > 2863311530) :
    selStake h chain mask * 4294967295 > 2863311530 * totalStake h chain ∧
    2 * totalStake h chain < 3 * selStake h chain mask := by
  obtain ⟨hup, _, _⟩ := selected_power_bounds hok mask
  have hne : l ≠ [] := by
    intro hl
    rw [hl] at hN
    unfold selPower at hN
    rw [sel_nil_right] at hN
    exact absurd hN (by decide)
  have hT := (currentSigners_ok hok).2 hne
  have hmono : (2863311530 + 1) * totalStake h chain ≤ selPower l mask * totalStake h chain :=
    Nat.mul_le_mul_right _ hN
  generalize selPower l mask * totalStake h chain = X at hup hmono
  generalize totalStake h chain = T at hT hmono ⊢
  generalize selStake h chain mask = S at hup ⊢
  omega

/-- THE CONTRACT ACCEPTS NOTHING CONFIRMED BY LESS.  With the emitted set as the contract's current
    validator set and exactly the members in `mask` signing, acceptance by
    `checkValidatorSignatures` (threshold 2863311530) implies that the signers hold *strictly more
    than two thirds* of the members' stake: `S·4294967295 > 2863311530·T`, equivalently
    `3·S > 2·T`. -/
theorem accepted_needs_two_thirds_of_stake (enc : String → Bytes) {h : Hub} {chain : String}
    {l : List Signer} (hok : h.currentSigners chain = .ok l) (mask : List Bool) (theHash : Bytes)
    (hacc : checkSigs (valsOf enc l) (powersOf l) (maskSlots theHash mask (valsOf enc l)) theHash
      2863311530 = true) :
    selStake h chain mask * 4294967295 > 2863311530 * totalStake h chain ∧
    2 * totalStake h chain < 3 * selStake h chain mask :=
  power_above_threshold_needs_two_thirds hok mask
    ((accepted_iff_selected_power enc l mask theHash _).1 hacc)

/-- The same for an *arbitrary* signature vector (wrong signers, wrong digests, any length): if the
    contract accepts, the members whose slot really holds their signature over `theHash`
    (`validMask`) hold strictly more than two thirds of the members' stake. -/
theorem accepted_needs_two_thirds_of_stake_any_sigs (enc : String → Bytes) {h : Hub} {chain : String}
    {l : List Signer} (hok : h.currentSigners chain = .ok l) (sigs : List SigSlot) (theHash : Bytes)
    (hacc : checkSigs (valsOf enc l) (powersOf l) sigs theHash 2863311530 = true) :
    selStake h chain (validMask theHash (valsOf enc l) sigs) * 4294967295
        > 2863311530 * totalStake h chain ∧
    2 * totalStake h chain < 3 * selStake h chain (validMask theHash (valsOf enc l) sigs) := by
  apply power_above_threshold_needs_two_thirds hok
  have hp := contract_rejects_less hacc
  rw [validPower_eq_sel _ _ _ _ (valsOf_length enc l)] at hp
  unfold powersOf at hp
  rw [sel_map] at hp
  exact hp

/-- Contrapositive: signers with at most two thirds of the stake are rejected, whatever else the
    signature vector contains. -/
theorem two_thirds_or_less_rejected (enc : String → Bytes) {h : Hub} {chain : String}
    {l : List Signer} (hok : h.currentSigners chain = .ok l) (sigs : List SigSlot) (theHash : Bytes)
    (hS : 3 * selStake h chain (validMask theHash (valsOf enc l) sigs) ≤ 2 * totalStake h chain) :
    checkSigs (valsOf enc l) (powersOf l) sigs theHash 2863311530 = false := by
  cases hc : checkSigs (valsOf enc l) (powersOf l) sigs theHash 2863311530 with
  | false => rfl
  | true =>
    have := (accepted_needs_two_thirds_of_stake_any_sigs enc hok sigs theHash hc).2
    omega

/-- The threshold is exactly two thirds of the normalisation constant. -/
theorem threshold_is_two_thirds : 3 * 2863311530 = 2 * 4294967295 := by decide

/-! ### 5. Why normalising against the members' own total matters -/

/-- Three validators with a third of the stake each, one of them without a registered key.  Had the
    two keyed members been normalised against the total of *all three* (⌊(2^32−1)/3⌋ = 1431655765
    each), their powers would sum to 2863311530, which is not *above* the threshold: the contract
    rejects even when every member of its set signs validly — no signer-set update or batch could
    ever be executed again. -/
theorem unnormalised_set_bricks_contract :
    checkSigs [[1], [2]] [1431655765, 1431655765] [.sig [1] [9], .sig [2] [9]] [9] 2863311530 = false := by
  decide +kernel

/-- … and no signature vector at all helps (the valid power is at most the sum of the powers). -/
theorem unnormalised_set_bricks_contract_all (sigs : List SigSlot) (theHash : Bytes) :
    checkSigs [[1], [2]] [1431655765, 1431655765] sigs theHash 2863311530 = false := by
  cases hc : checkSigs [[1], [2]] [1431655765, 1431655765] sigs theHash 2863311530 with
  | false => rfl
  | true =>
    have hp := contract_rejects_less hc
    rw [validPower_eq_sel _ _ _ _ (by rfl)] at hp
    have := sumNats_sel_le (validMask theHash [[1], [2]] sigs) [1431655765, 1431655765]
    have e : sumNats [1431655765, 1431655765] = 2863311530 := by decide +kernel
    omega

/-! ### 6. Non-vacuity -/

/-- Three bonded validators with registered keys and stakes 40, 35, 25. -/
def exHub : Hub :=
  { chains := ["eth"], height := 7,
    staking := [⟨"aa", 40, true⟩, ⟨"bb", 35, true⟩, ⟨"cc", 25, true⟩],
    cs := [("eth", { valExt := [("aa", "0x00000000000000000000000000000000000000a1"),
                                ("bb", "0x00000000000000000000000000000000000000b1"),
                                ("cc", "0x00000000000000000000000000000000000000c1")] })] }

def exSet : List Signer :=
  [⟨1717986918, "0x00000000000000000000000000000000000000a1"⟩,
   ⟨1503238553, "0x00000000000000000000000000000000000000b1"⟩,
   ⟨1073741823, "0x00000000000000000000000000000000000000c1"⟩]

theorem exHub_signers : exHub.currentSigners "eth" = .ok exSet := by rfl

/-- (1) on the example: the sum is 2^32 − 1 − 1, within [2^32 − 1 − 3, 2^32 − 1]. -/
example : sumNats (exSet.map (·.power)) = 4294967294 := by decide +kernel
example : 4294967295 - exSet.length ≤ sumNats (exSet.map (·.power)) ∧
    sumNats (exSet.map (·.power)) ≤ 4294967295 :=
  emitted_set_sum_bounds exHub_signers (by decide)

/-- The first two members hold 75 of 100: `(2863311530 + 2)·100 ≤ 75·4294967295`. -/
theorem exHub_hyp :
    (2863311530 + selCount exSet [true, true, false]) * totalStake exHub "eth"
      ≤ selStake exHub "eth" [true, true, false] * 4294967295 := by decide +kernel

example : selStake exHub "eth" [true, true, false] = 75 ∧ totalStake exHub "eth" = 100 ∧
    selCount exSet [true, true, false] = 2 ∧ selPower exSet [true, true, false] = 3221225471 := by
  decide +kernel

/-- (3) applies: their signatures are accepted … -/
example (theHash : Bytes) :
    checkSigs (valsOf ethAddrBytes exSet) (powersOf exSet)
      (maskSlots theHash [true, true, false] (valsOf ethAddrBytes exSet)) theHash 2863311530 = true :=
  two_thirds_of_stake_is_accepted ethAddrBytes exHub_signers (by decide) _ theHash exHub_hyp

/-- … also from the hypothesis in the "above 2/3 + (k+1)/2^32" form … -/
example (theHash : Bytes) :
    checkSigs (valsOf ethAddrBytes exSet) (powersOf exSet)
      (maskSlots theHash [true, true, false] (valsOf ethAddrBytes exSet)) theHash 2863311530 = true :=
  two_thirds_plus_slack_is_accepted ethAddrBytes exHub_signers (by decide) _ theHash (by decide +kernel)

/-- … which is what the contract model computes on the concrete vectors … -/
example : checkSigs (valsOf ethAddrBytes exSet) (powersOf exSet)
      [.sig (ethAddrBytes "0x00000000000000000000000000000000000000a1") [9],
       .sig (ethAddrBytes "0x00000000000000000000000000000000000000b1") [9], .absent] [9] 2863311530
    = true := by decide +kernel

/-- … while the first and the third member (65 of 100, less than two thirds) are rejected, by
    computation and by (4). -/
example : checkSigs (valsOf ethAddrBytes exSet) (powersOf exSet)
      (maskSlots [9] [true, false, true] (valsOf ethAddrBytes exSet)) [9] 2863311530 = false := by
  decide +kernel

example (theHash : Bytes) : checkSigs (valsOf ethAddrBytes exSet) (powersOf exSet)
      (maskSlots theHash [true, false, true] (valsOf ethAddrBytes exSet)) theHash 2863311530 = false := by
  cases hc : checkSigs (valsOf ethAddrBytes exSet) (powersOf exSet)
      (maskSlots theHash [true, false, true] (valsOf ethAddrBytes exSet)) theHash 2863311530 with
  | false => rfl
  | true =>
    have h2 := (accepted_needs_two_thirds_of_stake ethAddrBytes exHub_signers _ theHash hc).2
    have e : selStake exHub "eth" [true, false, true] = 65 ∧ totalStake exHub "eth" = 100 := by
      decide +kernel
    rw [e.1, e.2] at h2
    omega

/-- The slack in (3) is needed only for rounding: exactly two thirds of the stake is *not* enough
    (stakes 1, 1, 1; two members sign) — consistent with (4), which demands strictly more. -/
def exHubThirds : Hub :=
  { chains := ["eth"], height := 7,
    staking := [⟨"aa", 1, true⟩, ⟨"bb", 1, true⟩, ⟨"cc", 1, true⟩],
    cs := [("eth", { valExt := [("aa", "0x00000000000000000000000000000000000000a1"),
                                ("bb", "0x00000000000000000000000000000000000000b1"),
                                ("cc", "0x00000000000000000000000000000000000000c1")] })] }

example : (match exHubThirds.currentSigners "eth" with
    | .ok l => l.map (·.power) == [1431655765, 1431655765, 1431655765] &&
        !checkSigs (valsOf ethAddrBytes l) (powersOf l)
          (maskSlots [9] [true, true, false] (valsOf ethAddrBytes l)) [9] 2863311530 &&
        checkSigs (valsOf ethAddrBytes l) (powersOf l)
          (maskSlots [9] [true, true, true] (valsOf ethAddrBytes l)) [9] 2863311530
    | _ => false) = true := by decide +kernel

/-- The situation of §5 in the real model: with the third validator keyless, the hub normalises the
    two keyed members against *their* total (2147483647 each, sum 2^32 − 2), and their joint
    signatures are accepted. -/
def exHubKeyless : Hub :=
  { chains := ["eth"], height := 7,
    staking := [⟨"aa", 1, true⟩, ⟨"bb", 1, true⟩, ⟨"cc", 1, true⟩],
    cs := [("eth", { valExt := [("aa", "0x00000000000000000000000000000000000000a1"),
                                ("bb", "0x00000000000000000000000000000000000000b1")] })] }

example : (match exHubKeyless.currentSigners "eth" with
    | .ok l => l.map (·.power) == [2147483647, 2147483647] &&
        checkSigs (valsOf ethAddrBytes l) (powersOf l)
          (maskSlots [9] [true, true] (valsOf ethAddrBytes l)) [9] 2863311530
    | _ => false) = true := by decide +kernel

end Mhub2.C08Hub
