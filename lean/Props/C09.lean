/-
  C09 — Signer sets mirror bonded voting power.

  About `Hub.currentSigners` (CurrentSignerSet), `sortSigners`, `Hub.createSignerSet`,
  `Hub.createSignerSetTxs` (the begin-block decision) and `powerDiffNum` (PowerDiff, as an integer
  numerator over 2^32 − 1).

  Property theorems only; helper lemmas live in Lemmas/Keys.lean.
-/
import Mhub2.Step
import Mhub2.Generated.Facts
import Lemmas.Keys
namespace Mhub2.C09
open Mhub2

/-! ### 1. Who is a member -/

/-- The members of the current signer set are, in the staking keeper's bonded-by-power order, the
    registered non-zero external addresses of the bonded validators — nobody else, nobody twice
    unless listed twice by the staking keeper. -/
theorem members_exact {h : Hub} {chain : String} {l : List Signer}
    (hok : h.currentSigners chain = .ok l) :
    l.map (·.addr) = h.bondedByPower.filterMap fun v =>
      match alGet (h.chain chain).valExt v.addr with
      | some e => if e == zeroEth then none else some e
      | none => none := by
  rw [(currentSigners_ok hok).1, List.map_map]
  unfold Hub.rawSigners
  rw [List.map_filterMap]
  congr 1
  funext v
  unfold regSigner
  cases alGet (h.chain chain).valExt v.addr with
  | none => rfl
  | some e => by_cases hz : (e == zeroEth) = true <;> simp [hz]

/-- The validators the members are drawn from are exactly the bonded validators of the staking
    view (each as often as it is listed there). -/
theorem members_source (h : Hub) : h.bondedByPower.Perm (h.staking.filter (·.bonded)) :=
  bondedByPower_perm h

/-- Membership, spelled out. -/
theorem member_iff {h : Hub} {chain : String} {l : List Signer}
    (hok : h.currentSigners chain = .ok l) (e : String) :
    e ∈ l.map (·.addr) ↔
      ∃ v ∈ h.staking, v.bonded = true ∧ alGet (h.chain chain).valExt v.addr = some e ∧ e ≠ zeroEth := by
  rw [(currentSigners_ok hok).1, List.map_map]
  unfold Hub.rawSigners
  simp only [List.mem_map, List.mem_filterMap, Function.comp]
  constructor
  · rintro ⟨s, ⟨v, hv, hs⟩, he⟩
    have hm := (bondedByPower_perm h).mem_iff.mp hv
    obtain ⟨h1, h2, _⟩ := regSigner_some.mp hs
    subst he
    exact ⟨v, (List.mem_filter.mp hm).1, (List.mem_filter.mp hm).2, h1, h2⟩
  · rintro ⟨v, hv, hb, h1, h2⟩
    refine ⟨⟨v.power, e⟩, ⟨v, (bondedByPower_perm h).mem_iff.mpr (List.mem_filter.mpr ⟨hv, hb⟩), ?_⟩, rfl⟩
    exact regSigner_some.mpr ⟨h1, h2, rfl⟩

/-- With a one-to-one registry (C17, every reachable state) and validators listed once, member
    addresses are pairwise distinct. -/
theorem members_distinct {h : Hub} {chain : String} {l : List Signer}
    (hi : RegInv (h.chain chain)) (hs : (h.staking.map (·.addr)).Nodup)
    (hok : h.currentSigners chain = .ok l) : (l.map (·.addr)).Nodup :=
  currentSigners_addr_nodup hi hs hok

/-! ### 2. Powers are normalised to 2^32 − 1 -/

/-- Each member's power is `⌊p · (2^32 − 1) / total⌋` with `p` the validator's staking power and
    `total` the sum of the members' staking powers; so it is within one unit below the exact
    proportion, and the normalised powers sum to at most 2^32 − 1. -/
theorem power_normalised {h : Hub} {chain : String} {l : List Signer}
    (hok : h.currentSigners chain = .ok l) :
    ∃ total, total = sumNats ((h.rawSigners chain).map (·.power)) ∧
      l = (h.rawSigners chain).map (fun s => ⟨s.power * 4294967295 / total, s.addr⟩) ∧
      (∀ s ∈ h.rawSigners chain, ∃ v ∈ h.bondedByPower, s.power = v.power ∧
        alGet (h.chain chain).valExt v.addr = some s.addr) ∧
      (l ≠ [] → 0 < total ∧ ∀ s ∈ h.rawSigners chain,
        (s.power * 4294967295 / total) * total ≤ s.power * 4294967295 ∧
        s.power * 4294967295 < (s.power * 4294967295 / total + 1) * total) ∧
      sumNats (l.map (·.power)) ≤ 4294967295 := by
  obtain ⟨hl, hpos⟩ := currentSigners_ok hok
  refine ⟨_, rfl, hl, ?_, ?_, ?_⟩
  · intro s hs
    obtain ⟨v, hv, hf⟩ := List.mem_filterMap.mp hs
    obtain ⟨h1, _, h3⟩ := regSigner_some.mp hf
    exact ⟨v, hv, h3, h1⟩
  · intro hne
    have hT := hpos hne
    refine ⟨hT, fun s _ => ?_⟩
    generalize sumNats ((h.rawSigners chain).map (·.power)) = T at hT
    generalize s.power * 4294967295 = a
    have h1 := Nat.div_add_mod a T
    have h2 := Nat.mod_lt a hT
    rw [Nat.mul_comm] at h1
    rw [Nat.succ_mul]
    omega
  · by_cases hne : l = []
    · rw [hne]; exact Nat.zero_le _
    · have hT := hpos hne
      rw [hl, List.map_map]
      have := sum_floor_le_nat 4294967295 ((h.rawSigners chain).map (·.power)) hT
      rw [List.map_map] at this
      exact this

/-! ### 3. The stored order -/

/-- `sortSigners` permutes its input and orders it by power descending, ties by address bytes
    ascending (equal power and equal address only for a repeated member). -/
theorem sorted_desc_tiebreak (l : List Signer) :
    (sortSigners l).Perm l ∧
    (sortSigners l).Pairwise (fun a b =>
      a.power > b.power ∨
      (a.power = b.power ∧ bytesLt (strBytes a.addr) (strBytes b.addr) = true) ∨
      (a.power = b.power ∧ a.addr = b.addr)) := by
  refine ⟨sortSigners_perm l, List.Pairwise.imp ?_ (sortSigners_sorted l)⟩
  intro a b hab
  rcases (signerLt_false_iff a b).mp hab with h | ⟨h1, h2⟩
  · exact Or.inl h
  · right
    cases h3 : bytesLt (strBytes a.addr) (strBytes b.addr) with
    | true => exact Or.inl ⟨h1, rfl⟩
    | false => exact Or.inr ⟨h1, strBytes_inj_k (bytesLt_total h3 h2)⟩

/-- With pairwise distinct addresses the order is strict. -/
theorem sorted_strict (l : List Signer) (hn : (l.map (·.addr)).Nodup) :
    (sortSigners l).Pairwise (fun a b => signerLt a b = true) := by
  have hperm := sortSigners_perm l
  have hn' : ((sortSigners l).map (·.addr)).Nodup := (hperm.map _).nodup_iff.mpr hn
  have hs := (sorted_desc_tiebreak l).2
  generalize sortSigners l = m at hn' hs
  induction m with
  | nil => exact List.Pairwise.nil
  | cons a t ih =>
    obtain ⟨ha, ht⟩ := List.pairwise_cons.mp hs
    simp only [List.map_cons, List.nodup_cons] at hn'
    refine List.pairwise_cons.mpr ⟨?_, ih hn'.2 ht⟩
    intro b hb
    unfold signerLt
    rcases ha b hb with h | ⟨h1, h2⟩ | ⟨_, h2⟩
    · have : ¬ (a.power == b.power) = true := by simp; omega
      rw [if_neg this]; simpa using h
    · have : (a.power == b.power) = true := by simpa using h1
      rw [if_pos this]; exact h2
    · exact absurd (List.mem_map.mpr ⟨b, hb, h2.symm⟩) hn'.1

/-! ### 4. Nonces of stored signer sets -/

/-- A new signer set gets nonce `latestSetNonce + 1`, which becomes the latest nonce, the current
    block height and the sorted current members; with the invariant "stored nonces ≤ latest" it is
    strictly above every stored nonce, it is what `latestSignerSet` then returns, and the invariant
    is kept.  If moreover the new nonce fits `uint64`, no stored set is overwritten. -/
theorem nonce_strictly_increasing {h h' : Hub} {chain : String}
    (hok : h.createSignerSet chain = .ok h') :
    ∃ s, s ∈ (h'.chain chain).sets ∧
      s.nonce = (h.chain chain).latestSetNonce + 1 ∧
      (h'.chain chain).latestSetNonce = s.nonce ∧
      s.height = h.height ∧
      (∃ cur, h.currentSigners chain = .ok cur ∧ s.signers = sortSigners cur) ∧
      (SetsInv (h.chain chain) →
        (∀ s' ∈ (h.chain chain).sets, s'.nonce < s.nonce) ∧
        h'.latestSignerSet chain = some s ∧
        SetsInv (h'.chain chain) ∧
        (s.nonce < 2 ^ 64 → (h'.chain chain).sets.Perm (s :: (h.chain chain).sets))) := by
  have hinv := createSignerSet_setsInv hok
  obtain ⟨cur, hcur, e⟩ := createSignerSet_ok hok
  subst e
  rw [chain_setChain] at hinv ⊢
  refine ⟨_, mem_insertByKey _ _ _, rfl, rfl, rfl, ⟨cur, hcur, rfl⟩, ?_⟩
  intro hi
  have hlt : ∀ s' ∈ (h.chain chain).sets, s'.nonce < (h.chain chain).latestSetNonce + 1 :=
    fun s' hs' => Nat.lt_succ_of_le (hi s' hs')
  refine ⟨hlt, ?_, hinv hi, ?_⟩
  · unfold Hub.latestSignerSet
    rw [chain_setChain]
    refine find?_unique (mem_insertByKey _ _ _) (by simp) ?_
    intro y hy hp
    rcases mem_insertByKey_imp hy with e | hm
    · exact e
    · have h1 : y.nonce = (h.chain chain).latestSetNonce + 1 := by simpa using hp
      have := hlt y hm
      omega
  · intro hb
    apply insertByKey_perm_fresh
    intro y hy hk
    have := hlt y hy
    have : y.nonce = (h.chain chain).latestSetNonce + 1 :=
      be8_inj (by simp only at hb; omega) hb hk
    omega

/-- The invariant "stored set nonces ≤ latest set nonce" is kept by creating and by pruning … -/
theorem sets_inv_createSignerSet {h h' : Hub} {chain : String}
    (hok : h.createSignerSet chain = .ok h') (hi : SetsInv (h.chain chain)) :
    SetsInv (h'.chain chain) := createSignerSet_setsInv hok hi

theorem sets_inv_pruneSignerSets (h : Hub) (chain : String) (hi : SetsInv (h.chain chain)) :
    SetsInv ((h.pruneSignerSets chain).chain chain) := pruneSignerSets_setsInv h chain hi

/-- … and holds for every chain in every state reachable from genesis. -/
theorem sets_inv_reachable (ops : List Op) (chain : String) : SetsInv ((runOps ops).chain chain) :=
  setsInv_reachable ops chain

/-! ### 5. After the begin-block decision the latest set is fresh -/

/-- A member list with pairwise distinct addresses has zero power difference to its sorted form. -/
theorem powerDiff_sorted_zero (cur : List Signer) (hn : (cur.map (·.addr)).Nodup) :
    powerDiffNum cur (sortSigners cur) = 0 :=
  powerDiffNum_perm_zero (sortSigners_perm cur) hn

/-- After `createSignerSetTxs` succeeded there is a latest stored signer set, and it is within 5 %
    (`20 · diff ≤ 2^32 − 1`) of the current members — which are the same before and after the call:
    either the set was created just now from the current members, or the existing latest set was
    within the bound.  (`SetsInv` and distinct member addresses hold in reachable states, see
    `fresh_after_begin_block_reachable`.) -/
theorem fresh_after_begin_block {h h' : Hub} {chain : String}
    (hok : h.createSignerSetTxs chain = .ok h') (hinv : SetsInv (h.chain chain)) :
    ∃ cur, h.currentSigners chain = .ok cur ∧ h'.currentSigners chain = .ok cur ∧
      ((cur.map (·.addr)).Nodup →
        ∃ s, h'.latestSignerSet chain = some s ∧ 20 * powerDiffNum cur s.signers ≤ maxU32) := by
  have created : ∀ {h' : Hub}, h.createSignerSet chain = .ok h' →
      ∃ cur, h.currentSigners chain = .ok cur ∧ h'.currentSigners chain = .ok cur ∧
        ((cur.map (·.addr)).Nodup →
          ∃ s, h'.latestSignerSet chain = some s ∧ 20 * powerDiffNum cur s.signers ≤ maxU32) := by
    intro h' hc
    obtain ⟨s, _, _, _, _, ⟨cur, hcur, hsig⟩, hrest⟩ := nonce_strictly_increasing hc
    obtain ⟨_, hlatest, _, _⟩ := hrest hinv
    refine ⟨cur, hcur, ?_, fun hn => ⟨s, hlatest, ?_⟩⟩
    · rw [← hcur]
      obtain ⟨cur', _, e⟩ := createSignerSet_ok hc
      subst e
      exact currentSigners_congr rfl (by rw [chain_setChain])
    · rw [hsig, powerDiff_sorted_zero cur hn]; exact Nat.zero_le _
  rcases createSignerSetTxs_ok hok with ⟨_, hc⟩ | ⟨latest, cur, hl, hcur, ⟨_, hc⟩ | ⟨hle, e⟩⟩
  · exact created hc
  · exact created hc
  · subst e
    exact ⟨cur, hcur, hcur, fun _ => ⟨latest, hl, hle⟩⟩

/-- The same in every reachable state, with validators listed once in the staking view: no
    invariant has to be assumed. -/
theorem fresh_after_begin_block_reachable (ops : List Op) {h' : Hub} {chain : String}
    (hs : ((runOps ops).staking.map (·.addr)).Nodup)
    (hok : (runOps ops).createSignerSetTxs chain = .ok h') :
    ∃ cur s, h'.currentSigners chain = .ok cur ∧ h'.latestSignerSet chain = some s ∧
      20 * powerDiffNum cur s.signers ≤ maxU32 := by
  obtain ⟨cur, hcur, hcur', hrest⟩ := fresh_after_begin_block hok (setsInv_reachable ops chain)
  obtain ⟨s, h1, h2⟩ := hrest (currentSigners_addr_nodup (regInv_reachable ops chain) hs hcur)
  exact ⟨cur, s, hcur', h1, h2⟩

/-! ### 6. Bridge lemmas -/

theorem fact_signerset_normalise : Generated.signerset_normalise =
    "sdk.NewUint(externalSigners[i].Power).MulUint64(math.MaxUint32).QuoUint64(totalPower).Uint64()" := rfl
theorem fact_signerset_member_cond : Generated.signerset_member_cond =
    "extAddr.Hex() != \"0x0000000000000000000000000000000000000000\"" := rfl
theorem fact_signerset_source : Generated.signerset_source =
    "k.StakingKeeper.GetBondedValidatorsByPower(ctx)" := rfl
theorem fact_signer_sort_body : Generated.signer_sort_body =
    "{ sort.Slice(b, func(i, j int) bool { if b[i].Power == b[j].Power { return EthereumAddrLessThan(b[i].ExternalAddress, b[j].ExternalAddress) } return b[i].Power > b[j].Power }) }" := rfl
theorem fact_powerdiff_return : Generated.powerdiff_return =
    "math.Abs(delta / float64(math.MaxUint32))" := rfl
theorem fact_new_signerset_sorts : Generated.new_signerset_sorts = "true" := rfl
theorem fact_signerset_should_create : Generated.signerset_should_create =
    "(lastUnbondingHeight == blockHeight) || (powerDiff > 0.05)" := rfl
theorem fact_signerset_nil_cond : Generated.signerset_nil_cond = "latestSignerSetTx == nil" := rfl
theorem fact_prune_conds : Generated.prune_conds =
    "lastObserved != nil && !tooEarly | set.Nonce < lastObserved.Nonce && set.Height < earliestToPrune" := rfl

/-! ### Non-vacuity -/

def exHub : Hub :=
  { chains := ["eth"], height := 7,
    staking := [⟨"aa", 30, true⟩, ⟨"bb", 10, true⟩, ⟨"cc", 50, false⟩, ⟨"dd", 5, true⟩],
    cs := [("eth", { valExt := [("aa", "0xA1"), ("bb", "0xB1"), ("cc", "0xC1")] })] }

/-- Bonded validators with a registered address, in power order, normalised to 2^32 − 1. -/
example : (match exHub.currentSigners "eth" with
    | .ok l => l == [⟨3221225471, "0xA1"⟩, ⟨1073741823, "0xB1"⟩]
    | _ => false) = true := by decide +kernel

/-- The first begin-block creates set 1 from them; a second call changes nothing. -/
example : (match exHub.createSignerSetTxs "eth" with
    | .ok h' =>
      (match h'.latestSignerSet "eth" with
        | some s => s.nonce == 1 && s.height == 7 && s.signers == [⟨3221225471, "0xA1"⟩, ⟨1073741823, "0xB1"⟩]
        | none => false) &&
      (match h'.createSignerSetTxs "eth" with
        | .ok h'' => (h''.chain "eth").latestSetNonce == 1 && (h''.chain "eth").sets.length == 1
        | _ => false)
    | _ => false) = true := by decide +kernel

/-- Ties are broken by address bytes. -/
example : (sortSigners [⟨5, "0xB"⟩, ⟨7, "0xC"⟩, ⟨5, "0xA"⟩] ==
    [⟨7, "0xC"⟩, ⟨5, "0xA"⟩, ⟨5, "0xB"⟩]) = true := by
  decide +kernel

end Mhub2.C09
