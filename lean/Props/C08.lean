/-
  C08 — external acceptance of what the hub's validators confirmed.

  "Whenever validators holding more than the contract's threshold of its current signer set have
   confirmed a hub signer-set update or batch (before its timeout, in nonce order), the external
   contract or Minter multisig accepts it, and it accepts nothing confirmed by less.  The events it
   then emits keep hub and external nonces in step."

  The contract is the state machine of Mhub2/Contract.lean (differentially tested against the
  compiled Hub2.sol).  Signatures are idealised as (signer, digest) pairs; `keccak256` is never
  unfolded.  Collision resistance appears only as an explicit hypothesis of the theorems that need
  it (`checkpoint_binds_set`, `valset_nonce_monotone`, `update_valset_in_nonce_order`).
-/
import Mhub2.Contract
import Mhub2.Generated.Facts
import Lemmas.Contract
namespace Mhub2.C08
open Mhub2

/-! ### 1. `checkValidatorSignatures` -/

/-- Specification of `validPower` (defined in Lemmas/Contract.lean): a slot that is a signature by
    the validator of its position over `h` contributes that validator's power … -/
theorem validPower_valid (v : Bytes) (vs : List Bytes) (p : Nat) (ps : List Nat) (ss : List SigSlot) (h : Bytes) :
    validPower (v :: vs) (p :: ps) (.sig v h :: ss) h = p + validPower vs ps ss h := by
  simp [SigSlot.validFor]

/-- … and any other slot (absent, another signer, another digest) contributes nothing. -/
theorem validPower_invalid (v : Bytes) (vs : List Bytes) (p : Nat) (ps : List Nat) (s : SigSlot)
    (ss : List SigSlot) (h : Bytes) (hs : s ≠ .sig v h) :
    validPower (v :: vs) (p :: ps) (s :: ss) h = validPower vs ps ss h := by
  have : s.validFor v h = false := by
    cases hc : s.validFor v h with
    | false => rfl
    | true => exact absurd ((SigSlot.validFor_iff _ _ _).1 hc) hs
  simp [this]

/-- The contract accepts nothing confirmed by less: whatever `checkValidatorSignatures` accepts was
    signed, over that very digest, by current members holding more than the threshold. -/
theorem contract_rejects_less {vals : List Bytes} {powers : List Nat} {sigs : List SigSlot} {h : Bytes}
    {th : Nat} (hc : checkSigs vals powers sigs h th = true) : validPower vals powers sigs h > th := by
  obtain ⟨c, hg, hgt⟩ := (checkSigs_true_iff _ _ _ _ _).1 hc
  have := (go_some_bounds h th vals powers sigs 0 c hg).2
  omega

/-- Acceptance, list form: every present slot valid and valid power above the threshold. -/
theorem contract_accepts_of_slotsOK {vals : List Bytes} {powers : List Nat} {sigs : List SigSlot} {h : Bytes}
    {th : Nat} (hok : SlotsOK vals sigs h) (hp : validPower vals powers sigs h > th) :
    checkSigs vals powers sigs h th = true :=
  (checkSigs_true_iff _ _ _ _ _).2 (go_accepts h th vals powers sigs 0 hok (by omega))

/-- Whenever current members holding more than the threshold confirmed `h` and every supplied
    signature is valid, the contract accepts. -/
theorem contract_accepts_confirmed {vals : List Bytes} {powers : List Nat} {sigs : List SigSlot} {h : Bytes}
    {th : Nat} (_hl1 : vals.length = powers.length) (hl2 : vals.length = sigs.length)
    (hok : ∀ (i : Nat) (hi : i < vals.length),
      sigs[i]'(hl2 ▸ hi) = .absent ∨ sigs[i]'(hl2 ▸ hi) = .sig vals[i] h)
    (hp : validPower vals powers sigs h > th) : checkSigs vals powers sigs h th = true := by
  apply contract_accepts_of_slotsOK _ hp
  apply slotsOK_of_index
  intro i v s hv hs
  obtain ⟨hi, rfl⟩ := List.getElem?_eq_some_iff.1 hv
  obtain ⟨_, rfl⟩ := List.getElem?_eq_some_iff.1 hs
  exact hok i hi

/-- With only valid signatures supplied the contract's decision is exactly "valid power > threshold". -/
theorem contract_accepts_iff {vals : List Bytes} {powers : List Nat} {sigs : List SigSlot} {h : Bytes}
    {th : Nat} (hok : SlotsOK vals sigs h) :
    checkSigs vals powers sigs h th = true ↔ validPower vals powers sigs h > th :=
  ⟨contract_rejects_less, contract_accepts_of_slotsOK hok⟩

/-- A present slot `j` that is not a signature by `vals[j]` over `h` reverts the whole call, provided
    the loop reaches it: the valid power of the slots before `j` is not yet above the threshold.
    (Earlier invalid slots need no separate hypothesis: they are reached too, and revert as well.) -/
theorem bad_slot_reverts {vals : List Bytes} {powers : List Nat} {sigs : List SigSlot} {h : Bytes} {th : Nat}
    {j : Nat} {v : Bytes} {p : Nat} {a d : Bytes}
    (hv : vals[j]? = some v) (hpw : powers[j]? = some p) (hs : sigs[j]? = some (.sig a d))
    (hbad : ¬ (a = v ∧ d = h))
    (hreach : validPower (vals.take j) (powers.take j) (sigs.take j) h ≤ th) :
    checkSigs vals powers sigs h th = false := by
  rw [checkSigs_eq, go_bad_slot h th j vals powers sigs 0 v p a d hv hpw hs hbad (by omega)]

/-- Why "reached" matters: after the threshold is passed the loop `break`s and later slots are not
    inspected at all, so a bad slot there does not revert. -/
example : checkSigs [[1], [2]] [10, 10] [.sig [1] [7], .sig [9] [9]] [7] 5 = true := by decide

/-! ### 2. `updateValset` -/

/-- A confirmed signer-set update with a larger nonce is accepted; the new checkpoint and nonce are
    stored, one event with the next event nonce is emitted, nothing else changes. -/
theorem update_valset_accepts (s : Hub2St) (newV cur : ValsetArgs) (sigs : List SigSlot)
    (hn : newV.nonce > cur.nonce) (hnl : newV.validators.length = newV.powers.length)
    (hcl : cur.validators.length = cur.powers.length) (hsl : cur.validators.length = sigs.length)
    (hcp : makeCheckpoint s.gravityId cur = s.checkpoint)
    (hok : SlotsOK cur.validators sigs (makeCheckpoint s.gravityId newV))
    (hpow : validPower cur.validators cur.powers sigs (makeCheckpoint s.gravityId newV) > s.threshold) :
    s.updateValset newV cur sigs =
      some ({ s with checkpoint := makeCheckpoint s.gravityId newV, valsetNonce := newV.nonce,
                     eventNonce := s.eventNonce + 1 },
            .valsetUpdated newV.nonce (s.eventNonce + 1)) :=
  (updateValset_eq_some_iff s newV cur sigs _).2
    ⟨⟨hn, hnl, hcl, hsl, hcp, contract_accepts_of_slotsOK hok hpow⟩, rfl⟩

/-- The same, field by field. -/
theorem update_valset_accepts_fields (s : Hub2St) (newV cur : ValsetArgs) (sigs : List SigSlot)
    (hn : newV.nonce > cur.nonce) (hnl : newV.validators.length = newV.powers.length)
    (hcl : cur.validators.length = cur.powers.length) (hsl : cur.validators.length = sigs.length)
    (hcp : makeCheckpoint s.gravityId cur = s.checkpoint)
    (hok : SlotsOK cur.validators sigs (makeCheckpoint s.gravityId newV))
    (hpow : validPower cur.validators cur.powers sigs (makeCheckpoint s.gravityId newV) > s.threshold) :
    ∃ s' log, s.updateValset newV cur sigs = some (s', log) ∧
      s'.checkpoint = makeCheckpoint s.gravityId newV ∧ s'.valsetNonce = newV.nonce ∧
      s'.eventNonce = s.eventNonce + 1 ∧ log = .valsetUpdated newV.nonce (s.eventNonce + 1) ∧
      s'.gravityId = s.gravityId ∧ s'.threshold = s.threshold ∧ s'.batchNonces = s.batchNonces ∧
      s'.blockNumber = s.blockNumber ∧ s'.erc20 = s.erc20 ∧ s'.allowance = s.allowance ∧ s'.self = s.self :=
  ⟨_, _, update_valset_accepts s newV cur sigs hn hnl hcl hsl hcp hok hpow,
    rfl, rfl, rfl, rfl, rfl, rfl, rfl, rfl, rfl, rfl, rfl⟩

/-- Conversely, an accepted update had a strictly larger nonce, presented arguments hashing to the
    stored checkpoint, and was confirmed over the NEW checkpoint by more than the threshold of the
    presented set; and its effect is exactly the one above. -/
theorem update_valset_only_if {s : Hub2St} {newV cur : ValsetArgs} {sigs : List SigSlot} {s' : Hub2St}
    {log : EvmLog} (h : s.updateValset newV cur sigs = some (s', log)) :
    newV.nonce > cur.nonce ∧ newV.validators.length = newV.powers.length ∧
      cur.validators.length = cur.powers.length ∧ cur.validators.length = sigs.length ∧
      makeCheckpoint s.gravityId cur = s.checkpoint ∧
      validPower cur.validators cur.powers sigs (makeCheckpoint s.gravityId newV) > s.threshold ∧
      s' = { s with checkpoint := makeCheckpoint s.gravityId newV, valsetNonce := newV.nonce,
                    eventNonce := s.eventNonce + 1 } ∧
      log = .valsetUpdated newV.nonce (s.eventNonce + 1) := by
  obtain ⟨⟨h1, h2, h3, h4, h5, h6⟩, hr⟩ := (updateValset_eq_some_iff s newV cur sigs _).1 h
  injection hr with hs hl
  exact ⟨h1, h2, h3, h4, h5, contract_rejects_less h6, hs, hl⟩

/-! ### 3. `submitBatch` and the ERC-20 payouts -/

/-- `payOut` changes nothing but ERC-20 balances. -/
theorem payOut_frame {l : List (Bytes × Nat)} {s s' : Hub2St} {token : Bytes}
    (h : payOut s token l = some s') : s' = { s with erc20 := s'.erc20 } := payOut_core l s s' token h

/-- Conservation: over any duplicate-free list of holders containing the contract and every
    destination, the total of the token's balances is unchanged by the payouts. -/
theorem payOut_conserves {l : List (Bytes × Nat)} {s s' : Hub2St} {token : Bytes} {holders : List Bytes}
    (h : payOut s token l = some s') (hnd : holders.Nodup) (hself : s.self ∈ holders)
    (hdest : ∀ p ∈ l, p.1 ∈ holders) :
    sumNats (holders.map (s'.bal token)) = sumNats (holders.map (s.bal token)) :=
  payOut_conserves_aux l s s' token holders h hnd hself hdest

/-- Every holder other than the contract gains exactly the amounts addressed to it; other tokens are
    untouched. -/
theorem payOut_credits {l : List (Bytes × Nat)} {s s' : Hub2St} {token : Bytes}
    (h : payOut s token l = some s') :
    (∀ d, d ≠ s.self → s'.bal token d = s.bal token d + paidTo d l) ∧
    (∀ tk x, tk ≠ token → s'.bal tk x = s.bal tk x) :=
  ⟨fun d hd => payOut_bal_dest l s s' token d h hd,
   fun tk x hne => payOut_bal_other_token l s s' token tk x h hne⟩

/-- The contract's balance drops by exactly the sum of the amounts when no destination is the
    contract itself. -/
theorem payOut_debits {l : List (Bytes × Nat)} {s s' : Hub2St} {token : Bytes}
    (h : payOut s token l = some s') (hne : ∀ p ∈ l, p.1 ≠ s.self) :
    s'.bal token s.self + sumNats (l.map (·.2)) = s.bal token s.self := by
  have := payOut_bal_self l s s' token h
  rwa [filter_ne_self_eq hne] at this

/-- In general (a destination may be the contract): it drops by the amounts addressed elsewhere. -/
theorem payOut_debits_general {l : List (Bytes × Nat)} {s s' : Hub2St} {token : Bytes}
    (h : payOut s token l = some s') :
    s'.bal token s.self + sumNats ((l.filter (fun p => p.1 != s.self)).map (·.2)) = s.bal token s.self :=
  payOut_bal_self l s s' token h

/-- The payouts succeed iff the contract holds the total (destinations other than the contract). -/
theorem payOut_succeeds_iff {l : List (Bytes × Nat)} {s : Hub2St} {token : Bytes}
    (hne : ∀ p ∈ l, p.1 ≠ s.self) :
    (payOut s token l).isSome = true ↔ sumNats (l.map (·.2)) ≤ s.bal token s.self :=
  payOut_isSome_iff l s token hne

/-- The conditions under which `submitBatch` does not revert (everything but the payouts). -/
def BatchGuards (s : Hub2St) (cur : ValsetArgs) (sigs : List SigSlot) (b : BatchView) : Prop :=
  s.lastBatchNonce b.token < b.nonce ∧ s.blockNumber < b.timeout ∧
  cur.validators.length = cur.powers.length ∧ cur.validators.length = sigs.length ∧
  makeCheckpoint s.gravityId cur = s.checkpoint ∧
  b.amounts.length = b.destinations.length ∧ b.amounts.length = b.fees.length ∧
  checkSigs cur.validators cur.powers sigs (batchDigest s.gravityId b) s.threshold = true

/-- `submitBatch` accepts iff the nonce is new for the token, the timeout block is in the future,
    the arrays are well-formed, the presented set hashes to the stored checkpoint, the signatures
    pass, and the payouts succeed; the effect is the recorded nonce, the payouts, and one event. -/
theorem submit_batch_iff (s : Hub2St) (cur : ValsetArgs) (sigs : List SigSlot) (b : BatchView)
    (s' : Hub2St) (log : EvmLog) :
    s.submitBatch cur sigs b = some (s', log) ↔
      BatchGuards s cur sigs b ∧
      ∃ s2, payOut { s with batchNonces := alSet s.batchNonces b.token b.nonce } b.token
              (b.destinations.zip b.amounts) = some s2 ∧
        s' = { s2 with eventNonce := s.eventNonce + 1 } ∧
        log = .batchExecuted b.nonce b.token (s.eventNonce + 1) := by
  rw [submitBatch_eq_some_iff]
  unfold BatchGuards Hub2St.batchPre
  constructor
  · rintro ⟨hg, s2, hp, hr⟩
    refine ⟨hg, s2, hp, ?_⟩
    have he : s2.eventNonce = s.eventNonce := by rw [payOut_core _ _ _ _ hp]
    rw [he] at hr
    injection hr
    exact ⟨by assumption, by assumption⟩
  · rintro ⟨hg, s2, hp, hs, hl⟩
    refine ⟨hg, s2, hp, ?_⟩
    have he : s2.eventNonce = s.eventNonce := by rw [payOut_core _ _ _ _ hp]
    rw [he, hs, hl]

/-- A confirmed batch, in nonce order and before its timeout, whose payouts the contract can
    afford, is accepted. -/
theorem submit_batch_accepts (s : Hub2St) (cur : ValsetArgs) (sigs : List SigSlot) (b : BatchView)
    (hn : s.lastBatchNonce b.token < b.nonce) (hto : s.blockNumber < b.timeout)
    (hcl : cur.validators.length = cur.powers.length) (hsl : cur.validators.length = sigs.length)
    (hcp : makeCheckpoint s.gravityId cur = s.checkpoint)
    (hbl : b.amounts.length = b.destinations.length) (hfl : b.amounts.length = b.fees.length)
    (hok : SlotsOK cur.validators sigs (batchDigest s.gravityId b))
    (hpow : validPower cur.validators cur.powers sigs (batchDigest s.gravityId b) > s.threshold)
    (hne : ∀ d ∈ b.destinations, d ≠ s.self)
    (hfunds : sumNats b.amounts ≤ s.bal b.token s.self) :
    ∃ s', s.submitBatch cur sigs b = some (s', .batchExecuted b.nonce b.token (s.eventNonce + 1)) ∧
      s'.lastBatchNonce b.token = b.nonce ∧ s'.eventNonce = s.eventNonce + 1 ∧
      s'.bal b.token s.self + sumNats b.amounts = s.bal b.token s.self := by
  let s1 : Hub2St := { s with batchNonces := alSet s.batchNonces b.token b.nonce }
  have hne' : ∀ p ∈ b.destinations.zip b.amounts, p.1 ≠ s1.self := fun p hp => hne p.1 (mem_zip_fst hp)
  have hsum : sumNats ((b.destinations.zip b.amounts).map (·.2)) = sumNats b.amounts := by
    rw [map_snd_zip_of_length _ _ (by omega)]
  have hsome : (payOut s1 b.token (b.destinations.zip b.amounts)).isSome = true := by
    rw [payOut_isSome_iff _ _ _ hne', hsum]; exact hfunds
  obtain ⟨s2, hp⟩ := Option.isSome_iff_exists.1 hsome
  refine ⟨{ s2 with eventNonce := s.eventNonce + 1 }, ?_, ?_, rfl, ?_⟩
  · exact (submit_batch_iff s cur sigs b _ _).2
      ⟨⟨hn, hto, hcl, hsl, hcp, hbl, hfl, contract_accepts_of_slotsOK hok hpow⟩, s2, hp, rfl, rfl⟩
  · have : s2.batchNonces = alSet s.batchNonces b.token b.nonce := by rw [payOut_core _ _ _ _ hp]
    simp [Hub2St.lastBatchNonce, this]
  · have := payOut_debits hp hne'
    rw [hsum] at this
    exact this

/-- Conversely an accepted batch satisfied every guard, was confirmed by more than the threshold of
    the presented set over the batch digest, and had exactly the stated effects. -/
theorem submit_batch_only_if {s : Hub2St} {cur : ValsetArgs} {sigs : List SigSlot} {b : BatchView}
    {s' : Hub2St} {log : EvmLog} (h : s.submitBatch cur sigs b = some (s', log)) :
    s.lastBatchNonce b.token < b.nonce ∧ s.blockNumber < b.timeout ∧
      cur.validators.length = cur.powers.length ∧ cur.validators.length = sigs.length ∧
      makeCheckpoint s.gravityId cur = s.checkpoint ∧
      b.amounts.length = b.destinations.length ∧ b.amounts.length = b.fees.length ∧
      validPower cur.validators cur.powers sigs (batchDigest s.gravityId b) > s.threshold ∧
      s' = { s with batchNonces := alSet s.batchNonces b.token b.nonce, eventNonce := s.eventNonce + 1,
                    erc20 := s'.erc20 } ∧
      log = .batchExecuted b.nonce b.token (s.eventNonce + 1) ∧
      s'.lastBatchNonce b.token = b.nonce ∧
      (∀ t, t ≠ b.token → s'.lastBatchNonce t = s.lastBatchNonce t) ∧
      (∀ d, d ≠ s.self → s'.bal b.token d = s.bal b.token d + paidTo d (b.destinations.zip b.amounts)) ∧
      (∀ tk x, tk ≠ b.token → s'.bal tk x = s.bal tk x) ∧
      ((∀ d ∈ b.destinations, d ≠ s.self) →
        s'.bal b.token s.self + sumNats b.amounts = s.bal b.token s.self) := by
  obtain ⟨⟨h1, h2, h3, h4, h5, h6, h7, h8⟩, s2, hp, hs, hl⟩ := (submit_batch_iff s cur sigs b s' log).1 h
  have hcore := payOut_core _ _ _ _ hp
  have hs' : s' = { s with
      batchNonces := alSet s.batchNonces b.token b.nonce, eventNonce := s.eventNonce + 1,
      erc20 := s'.erc20 } := by
    rw [hs, hcore]
  have hbal : ∀ tk x, s'.bal tk x = s2.bal tk x := by intro tk x; rw [hs]; rfl
  refine ⟨h1, h2, h3, h4, h5, h6, h7, contract_rejects_less h8, hs', hl, ?_, ?_, ?_, ?_, ?_⟩
  · rw [hs']; simp [Hub2St.lastBatchNonce]
  · intro t ht
    rw [hs']
    simp only [Hub2St.lastBatchNonce]
    rw [alGet_alSet_other _ _ _ _ (fun e => ht e.symm)]
  · intro d hd
    rw [hbal]
    exact payOut_bal_dest _ (s.batchPre b) _ _ d hp hd
  · intro tk x hne
    rw [hbal]
    exact payOut_bal_other_token _ (s.batchPre b) _ _ tk x hp hne
  · intro hne
    rw [hbal]
    have := payOut_debits hp (fun p hp' => hne p.1 (mem_zip_fst hp'))
    rw [map_snd_zip_of_length _ _ (by omega)] at this
    exact this

/-- A batch is never executed at or after its timeout block. -/
theorem batch_not_after_timeout (s : Hub2St) (cur : ValsetArgs) (sigs : List SigSlot) (b : BatchView)
    (h : b.timeout ≤ s.blockNumber) : s.submitBatch cur sigs b = none := by
  cases hr : s.submitBatch cur sigs b with
  | none => rfl
  | some r =>
    have := (submit_batch_only_if (s' := r.1) (log := r.2) hr).2.1
    omega

/-- A batch whose nonce is not above the last executed one for its token is rejected. -/
theorem batch_stale_rejected (s : Hub2St) (cur : ValsetArgs) (sigs : List SigSlot) (b : BatchView)
    (h : b.nonce ≤ s.lastBatchNonce b.token) : s.submitBatch cur sigs b = none := by
  cases hr : s.submitBatch cur sigs b with
  | none => rfl
  | some r =>
    have := (submit_batch_only_if (s' := r.1) (log := r.2) hr).1
    omega

/-! ### 4. `transferToChain` -/

/-- A deposit locks exactly `amount`: the contract gains it, the sender loses it, the event carries
    `amount` and `fee` unchanged with the next event nonce.  The fee is not locked on top (it is
    part of the event only): the contract's gain does not depend on `fee`. -/
theorem transfer_locks_exactly_amount {s : Hub2St} {token sender : Bytes} {amount fee : Nat} {s' : Hub2St}
    {log : EvmLog} (h : s.transferToChain token sender amount fee = some (s', log)) (hne : sender ≠ s.self) :
    s'.bal token s.self = s.bal token s.self + amount ∧
      s'.bal token sender + amount = s.bal token sender ∧
      log = .transferToChain token sender amount fee (s.eventNonce + 1) ∧
      s'.eventNonce = s.eventNonce + 1 ∧
      (∀ tk x, ¬ (tk = token ∧ (x = sender ∨ x = s.self)) → s'.bal tk x = s.bal tk x) ∧
      s'.checkpoint = s.checkpoint ∧ s'.valsetNonce = s.valsetNonce ∧ s'.batchNonces = s.batchNonces ∧
      s'.gravityId = s.gravityId ∧ s'.threshold = s.threshold ∧ s'.self = s.self ∧
      s'.blockNumber = s.blockNumber := by
  obtain ⟨⟨hb, _⟩, hr⟩ := (transferToChain_eq_some_iff s token sender amount fee _).1 h
  injection hr with hs hl
  subst hs
  have hne' : ¬ s.self = sender := fun e => hne e.symm
  refine ⟨?_, ?_, hl, rfl, ?_, rfl, rfl, rfl, rfl, rfl, rfl, rfl⟩
  · rw [bal_afterTransfer]; simp [hne]
  · rw [bal_afterTransfer]; simp [hne]; omega
  · intro tk x hx
    rw [bal_afterTransfer]
    have h1 : ¬ (tk = token ∧ x = s.self) := fun ⟨a, b⟩ => hx ⟨a, Or.inr b⟩
    have h2 : ¬ (tk = token ∧ x = sender) := fun ⟨a, b⟩ => hx ⟨a, Or.inl b⟩
    simp [h1, h2]

/-- The resulting state does not depend on the fee at all: nothing is locked for it. -/
theorem transfer_fee_not_locked (s : Hub2St) (token sender : Bytes) (amount fee fee' : Nat) :
    (s.transferToChain token sender amount fee).map (·.1) =
      (s.transferToChain token sender amount fee').map (·.1) := by
  by_cases h : (decide (s.bal token sender < amount) ||
      decide ((alGet s.allowance (token, sender)).getD 0 < amount)) = true <;>
    simp only [Hub2St.transferToChain, h, if_true, if_false, Option.map, Bool.false_eq_true]

/-- A deposit needs the balance and the allowance, and nothing else. -/
theorem transfer_accepts_iff (s : Hub2St) (token sender : Bytes) (amount fee : Nat) :
    (s.transferToChain token sender amount fee).isSome = true ↔
      amount ≤ s.bal token sender ∧ amount ≤ (alGet s.allowance (token, sender)).getD 0 := by
  constructor
  · intro h
    obtain ⟨r, hr⟩ := Option.isSome_iff_exists.1 h
    exact ((transferToChain_eq_some_iff s token sender amount fee r).1 hr).1
  · intro h
    rw [(transferToChain_eq_some_iff s token sender amount fee _).2 ⟨h, rfl⟩]
    rfl

/-- The contract depositing to itself moves nothing (degenerate case excluded above). -/
theorem transfer_from_self {s : Hub2St} {token : Bytes} {amount fee : Nat} {s' : Hub2St} {log : EvmLog}
    (h : s.transferToChain token s.self amount fee = some (s', log)) :
    s'.bal token s.self = s.bal token s.self := by
  obtain ⟨⟨hb, _⟩, hr⟩ := (transferToChain_eq_some_iff s token s.self amount fee _).1 h
  injection hr with hs hl
  subst hs
  rw [bal_afterTransfer]; simp; omega

/-! ### 5. Sequences of operations: nonces only move forward, events are numbered consecutively -/

/-- Anything that happens around the contract without writing its own storage: blocks being mined,
    other ERC-20 transfers and approvals, reverted calls.  The block number never decreases. -/
def EnvStep (s s' : Hub2St) : Prop :=
  s'.gravityId = s.gravityId ∧ s'.threshold = s.threshold ∧ s'.checkpoint = s.checkpoint ∧
  s'.valsetNonce = s.valsetNonce ∧ s'.eventNonce = s.eventNonce ∧ s'.batchNonces = s.batchNonces ∧
  s'.self = s.self ∧ s.blockNumber ≤ s'.blockNumber

/-- One step: a successful call of one of the three entry points (emitting one event), or an
    environment step (emitting none).  `P` restricts the signer-set arguments of `updateValset`
    (`fun _ => True` for no restriction, `ValsetArgs.WT` for "they are EVM values"). -/
inductive Step (P : ValsetArgs → Prop) : Hub2St → List EvmLog → Hub2St → Prop
  | updateValset {s s' : Hub2St} {newV cur : ValsetArgs} {sigs : List SigSlot} {log : EvmLog} :
      P newV → P cur → s.updateValset newV cur sigs = some (s', log) → Step P s [log] s'
  | submitBatch {s s' : Hub2St} {cur : ValsetArgs} {sigs : List SigSlot} {b : BatchView} {log : EvmLog} :
      s.submitBatch cur sigs b = some (s', log) → Step P s [log] s'
  | transferToChain {s s' : Hub2St} {token sender : Bytes} {amount fee : Nat} {log : EvmLog} :
      s.transferToChain token sender amount fee = some (s', log) → Step P s [log] s'
  | env {s s' : Hub2St} : EnvStep s s' → Step P s [] s'

/-- Any finite sequence of steps, with the events in emission order. -/
inductive Trace (P : ValsetArgs → Prop) : Hub2St → List EvmLog → Hub2St → Prop
  | nil {s : Hub2St} : Trace P s [] s
  | cons {s s1 s2 : Hub2St} {l1 l2 : List EvmLog} : Step P s l1 s1 → Trace P s1 l2 s2 → Trace P s (l1 ++ l2) s2

/-- The event nonce an event carries. -/
def eventNonceOf : EvmLog → Nat
  | .valsetUpdated _ en => en
  | .batchExecuted _ _ en => en
  | .transferToChain _ _ _ _ en => en

/-- What every single step guarantees. -/
def StepFacts (s : Hub2St) (logs : List EvmLog) (s' : Hub2St) : Prop :=
  s'.gravityId = s.gravityId ∧ s'.threshold = s.threshold ∧ s'.self = s.self ∧
  s.blockNumber ≤ s'.blockNumber ∧
  (∀ t, s.lastBatchNonce t ≤ s'.lastBatchNonce t) ∧
  s'.eventNonce = s.eventNonce + logs.length ∧
  logs.map eventNonceOf = List.range' (s.eventNonce + 1) logs.length

theorem updateValset_facts {s s' : Hub2St} {newV cur : ValsetArgs} {sigs : List SigSlot} {log : EvmLog}
    (hu : s.updateValset newV cur sigs = some (s', log)) : StepFacts s [log] s' := by
  obtain ⟨_, _, _, _, _, _, hs, hl⟩ := update_valset_only_if hu
  subst hs hl
  exact ⟨rfl, rfl, rfl, Nat.le_refl _, fun _ => Nat.le_refl _, rfl, rfl⟩

theorem submitBatch_facts {s s' : Hub2St} {cur : ValsetArgs} {sigs : List SigSlot} {b : BatchView} {log : EvmLog}
    (hb : s.submitBatch cur sigs b = some (s', log)) : StepFacts s [log] s' := by
  obtain ⟨h1, _, _, _, _, _, _, _, hs, hl, hsame, hother, _⟩ := submit_batch_only_if hb
  subst hl
  refine ⟨by rw [hs], by rw [hs], by rw [hs], by rw [hs]; exact Nat.le_refl _, ?_, by rw [hs]; rfl, rfl⟩
  intro t
  by_cases ht : t = b.token
  · subst ht; omega
  · rw [hother t ht]; exact Nat.le_refl _

theorem transferToChain_facts {s s' : Hub2St} {token sender : Bytes} {amount fee : Nat} {log : EvmLog}
    (ht : s.transferToChain token sender amount fee = some (s', log)) : StepFacts s [log] s' := by
  obtain ⟨⟨_, _⟩, hr⟩ := (transferToChain_eq_some_iff _ _ _ _ _ _).1 ht
  injection hr with hs hl
  subst hs hl
  exact ⟨rfl, rfl, rfl, Nat.le_refl _, fun _ => Nat.le_refl _, rfl, rfl⟩

theorem step_facts {P : ValsetArgs → Prop} {s s' : Hub2St} {logs : List EvmLog} (h : Step P s logs s') :
    StepFacts s logs s' := by
  cases h with
  | updateValset _ _ hu => exact updateValset_facts hu
  | submitBatch hb => exact submitBatch_facts hb
  | transferToChain ht => exact transferToChain_facts ht
  | env he =>
    obtain ⟨h1, h2, _, _, h5, h6, h7, h8⟩ := he
    refine ⟨h1, h2, h7, h8, ?_, by simpa using h5, rfl⟩
    intro t
    simp [Hub2St.lastBatchNonce, h6]

/-- The contract's constants never change. -/
theorem trace_constants {P : ValsetArgs → Prop} {s s' : Hub2St} {logs : List EvmLog} (h : Trace P s logs s') :
    s'.gravityId = s.gravityId ∧ s'.threshold = s.threshold ∧ s'.self = s.self := by
  induction h with
  | nil => exact ⟨rfl, rfl, rfl⟩
  | cons hs _ ih =>
    obtain ⟨a, b, c, _⟩ := step_facts hs
    exact ⟨ih.1.trans a, ih.2.1.trans b, ih.2.2.trans c⟩

theorem block_number_monotone {P : ValsetArgs → Prop} {s s' : Hub2St} {logs : List EvmLog}
    (h : Trace P s logs s') : s.blockNumber ≤ s'.blockNumber := by
  induction h with
  | nil => exact Nat.le_refl _
  | cons hs _ ih => exact Nat.le_trans (step_facts hs).2.2.2.1 ih

/-- `state_lastBatchNonces[token]` never decreases, whatever happens. -/
theorem batch_nonce_monotone {P : ValsetArgs → Prop} {s s' : Hub2St} {logs : List EvmLog}
    (h : Trace P s logs s') (t : Bytes) : s.lastBatchNonce t ≤ s'.lastBatchNonce t := by
  induction h with
  | nil => exact Nat.le_refl _
  | cons hs _ ih => exact Nat.le_trans ((step_facts hs).2.2.2.2.1 t) ih

/-- The event nonce increases by exactly one per accepted operation (= per emitted event). -/
theorem event_nonce_counts_accepted {P : ValsetArgs → Prop} {s s' : Hub2St} {logs : List EvmLog}
    (h : Trace P s logs s') : s'.eventNonce = s.eventNonce + logs.length := by
  induction h with
  | nil => rfl
  | cons hs _ ih =>
    have := (step_facts hs).2.2.2.2.2.1
    rw [ih, this, List.length_append]; omega

theorem event_nonce_monotone {P : ValsetArgs → Prop} {s s' : Hub2St} {logs : List EvmLog}
    (h : Trace P s logs s') : s.eventNonce ≤ s'.eventNonce := by
  rw [event_nonce_counts_accepted h]; omega

/-- The events the hub's oracles observe carry consecutive event nonces, starting right after the
    contract's current one: no gap, no repeat.  This is what lets the hub apply them strictly in
    order (C03) and keeps hub and external nonces in step. -/
theorem event_nonces_consecutive {P : ValsetArgs → Prop} {s s' : Hub2St} {logs : List EvmLog}
    (h : Trace P s logs s') : logs.map eventNonceOf = List.range' (s.eventNonce + 1) logs.length := by
  induction h with
  | nil => rfl
  | @cons s s1 s2 l1 l2 hs _ ih =>
    obtain ⟨_, _, _, _, _, hen, hl⟩ := step_facts hs
    have e : s.eventNonce + l1.length + 1 = s.eventNonce + 1 + l1.length := by omega
    rw [List.map_append, hl, ih, hen, List.length_append, e, List.range'_append_1]

/-- After a batch was executed, the same batch — or any batch of that token with the same or a
    smaller nonce — is rejected in every later state. -/
theorem batch_executed_at_most_once {P : ValsetArgs → Prop} {s s1 s2 : Hub2St} {cur : ValsetArgs}
    {sigs : List SigSlot} {b : BatchView} {log : EvmLog} {logs : List EvmLog}
    (hex : s.submitBatch cur sigs b = some (s1, log)) (htr : Trace P s1 logs s2)
    (cur' : ValsetArgs) (sigs' : List SigSlot) (b' : BatchView)
    (htok : b'.token = b.token) (hn : b'.nonce ≤ b.nonce) :
    s2.submitBatch cur' sigs' b' = none := by
  apply batch_stale_rejected
  have h1 : s1.lastBatchNonce b.token = b.nonce := (submit_batch_only_if hex).2.2.2.2.2.2.2.2.2.2.1
  have h2 := batch_nonce_monotone htr b.token
  rw [htok]; omega

/-- Once the timeout block is reached the batch can never be executed any more. -/
theorem batch_not_after_timeout_later {P : ValsetArgs → Prop} {s s' : Hub2St} {logs : List EvmLog}
    (htr : Trace P s logs s') (cur : ValsetArgs) (sigs : List SigSlot) (b : BatchView)
    (h : b.timeout ≤ s.blockNumber) : s'.submitBatch cur sigs b = none :=
  batch_not_after_timeout s' cur sigs b (Nat.le_trans h (block_number_monotone htr))

/-- Executed batches of one token appear with strictly increasing batch nonces. -/
theorem batch_events_increasing {P : ValsetArgs → Prop} {s s' : Hub2St} {logs : List EvmLog}
    (h : Trace P s logs s') (n : Nat) (t : Bytes) (en : Nat) (hm : .batchExecuted n t en ∈ logs) :
    s.lastBatchNonce t < n ∧ n ≤ s'.lastBatchNonce t := by
  induction h with
  | nil => simp at hm
  | @cons s s1 s2 l1 l2 hs htr ih =>
    rcases List.mem_append.1 hm with hm1 | hm2
    · have hmono := batch_nonce_monotone htr t
      cases hs with
      | updateValset _ _ hu =>
        obtain ⟨_, _, _, _, _, _, _, hl⟩ := update_valset_only_if hu
        subst hl; simp at hm1
      | submitBatch hb =>
        obtain ⟨h1, _, _, _, _, _, _, _, _, hl, hsame, _⟩ := submit_batch_only_if hb
        subst hl
        simp only [List.mem_singleton, EvmLog.batchExecuted.injEq] at hm1
        obtain ⟨rfl, rfl, _⟩ := hm1
        omega
      | transferToChain ht =>
        obtain ⟨_, hr⟩ := (transferToChain_eq_some_iff _ _ _ _ _ _).1 ht
        injection hr with _ hl
        subst hl; simp at hm1
      | env _ => simp at hm1
    · have := ih hm2
      have := (step_facts hs).2.2.2.2.1 t
      omega

/-! #### The signer-set nonce

  `updateValset` compares the new nonce with the *presented* current nonce; the presented set is
  tied to the stored one only through the checkpoint hash.  So "the stored nonce never decreases"
  needs (a) collision resistance for the checkpoint hash, as a hypothesis, (b) the arguments to be
  EVM values (`ValsetArgs.WT`, guaranteed by calldata decoding), and (c) the invariant that the
  stored checkpoint is the hash of a set whose nonce is the stored nonce — true at deployment
  (constructor) and preserved by every step. -/

/-- Collision resistance of `keccak256`, used only as a hypothesis. -/
def CollisionFree : Prop := ∀ x y : Bytes, keccak256 x = keccak256 y → x = y

/-- The stored checkpoint is the checkpoint of a well-typed set carrying the stored nonce. -/
def CheckpointInv (s : Hub2St) : Prop :=
  s.gravityId.length = 32 ∧
  ∃ v : ValsetArgs, v.WT ∧ s.checkpoint = makeCheckpoint s.gravityId v ∧ s.valsetNonce = v.nonce

/-- Item 8: the checkpoint binds the signer set.  If the two pre-images do not collide under
    `keccak256` (hypothesis `hcr`), equal checkpoints mean equal `(validators, powers, nonce)`: the
    relayer must present exactly the stored set, in the stored order. -/
theorem checkpoint_binds_set {g : Bytes} {v1 v2 : ValsetArgs} (hg : g.length = 32) (h1 : v1.WT) (h2 : v2.WT)
    (hcr : keccak256 (checkpointPre g v1) = keccak256 (checkpointPre g v2) →
      checkpointPre g v1 = checkpointPre g v2)
    (h : makeCheckpoint g v1 = makeCheckpoint g v2) : v1 = v2 :=
  checkpointPre_inj hg h1 h2 (hcr h)

/-- The same with the global assumption `keccak256 x = keccak256 y → x = y`. -/
theorem checkpoint_binds_set' (hcr : CollisionFree) {g : Bytes} {v1 v2 : ValsetArgs} (hg : g.length = 32)
    (h1 : v1.WT) (h2 : v2.WT) (h : makeCheckpoint g v1 = makeCheckpoint g v2) : v1 = v2 :=
  checkpoint_binds_set hg h1 h2 (hcr _ _) h

/-- Signer-set updates are accepted in nonce order: the presented set IS the stored one, so the new
    nonce is strictly above the stored nonce; and the invariant is re-established. -/
theorem update_valset_in_nonce_order (hcr : CollisionFree) {s s' : Hub2St} {newV cur : ValsetArgs}
    {sigs : List SigSlot} {log : EvmLog} (hinv : CheckpointInv s) (hwn : newV.WT) (hwc : cur.WT)
    (h : s.updateValset newV cur sigs = some (s', log)) :
    cur.nonce = s.valsetNonce ∧ s.valsetNonce < s'.valsetNonce ∧ s'.valsetNonce = newV.nonce ∧
      CheckpointInv s' := by
  obtain ⟨hg, v, hv, hck, hvn⟩ := hinv
  obtain ⟨hn, _, _, _, hcp, _, hs, _⟩ := update_valset_only_if h
  have hcv : cur = v := checkpoint_binds_set' hcr hg hwc hv (hcp.trans hck)
  subst hcv hs
  exact ⟨hvn.symm, by rw [hvn]; exact hn, rfl, hg, newV, hwn, rfl, rfl⟩

theorem step_valset {hcr : CollisionFree} {s s' : Hub2St} {logs : List EvmLog}
    (h : Step ValsetArgs.WT s logs s') (hinv : CheckpointInv s) :
    CheckpointInv s' ∧ s.valsetNonce ≤ s'.valsetNonce := by
  cases h with
  | updateValset hp1 hp2 hu =>
    obtain ⟨_, hlt, _, hi⟩ := update_valset_in_nonce_order hcr hinv hp1 hp2 hu
    exact ⟨hi, Nat.le_of_lt hlt⟩
  | submitBatch hb =>
    obtain ⟨_, _, _, _, _, _, _, _, hs, _⟩ := submit_batch_only_if hb
    have e1 : s'.gravityId = s.gravityId := by rw [hs]
    have e2 : s'.checkpoint = s.checkpoint := by rw [hs]
    have e3 : s'.valsetNonce = s.valsetNonce := by rw [hs]
    unfold CheckpointInv
    rw [e1, e2, e3]; exact ⟨hinv, Nat.le_refl _⟩
  | transferToChain ht =>
    obtain ⟨_, hr⟩ := (transferToChain_eq_some_iff _ _ _ _ _ _).1 ht
    injection hr with hs _
    subst hs
    exact ⟨hinv, Nat.le_refl _⟩
  | env he =>
    obtain ⟨e1, _, e2, e3, _⟩ := he
    unfold CheckpointInv
    rw [e1, e2, e3]; exact ⟨hinv, Nat.le_refl _⟩

/-- Over any sequence of operations the signer-set nonce and the event nonce never decrease. -/
theorem valset_nonce_monotone (hcr : CollisionFree) {s s' : Hub2St} {logs : List EvmLog}
    (h : Trace ValsetArgs.WT s logs s') (hinv : CheckpointInv s) :
    s.valsetNonce ≤ s'.valsetNonce ∧ s.eventNonce ≤ s'.eventNonce ∧ CheckpointInv s' := by
  refine ⟨?_, event_nonce_monotone h, ?_⟩
  · induction h with
    | nil => exact Nat.le_refl _
    | cons hs _ ih =>
      obtain ⟨hi, hle⟩ := step_valset (hcr := hcr) hs hinv
      exact Nat.le_trans hle (ih hi)
  · induction h with
    | nil => exact hinv
    | cons hs _ ih => exact ih (step_valset (hcr := hcr) hs hinv).1

/-- Accepted signer-set updates appear with strictly increasing signer-set nonces, all above the
    nonce stored at the start and at most the one stored at the end. -/
theorem valset_events_increasing (hcr : CollisionFree) {s s' : Hub2St} {logs : List EvmLog}
    (h : Trace ValsetArgs.WT s logs s') (hinv : CheckpointInv s) (n en : Nat)
    (hm : .valsetUpdated n en ∈ logs) : s.valsetNonce < n ∧ n ≤ s'.valsetNonce := by
  induction h with
  | nil => simp at hm
  | @cons s s1 s2 l1 l2 hs htr ih =>
    obtain ⟨hi1, hle1⟩ := step_valset (hcr := hcr) hs hinv
    rcases List.mem_append.1 hm with hm1 | hm2
    · have hmono := (valset_nonce_monotone hcr htr hi1).1
      cases hs with
      | updateValset hp1 hp2 hu =>
        obtain ⟨_, hlt, hnew, _⟩ := update_valset_in_nonce_order hcr hinv hp1 hp2 hu
        obtain ⟨_, _, _, _, _, _, _, hl⟩ := update_valset_only_if hu
        subst hl
        simp only [List.mem_singleton, EvmLog.valsetUpdated.injEq] at hm1
        obtain ⟨rfl, _⟩ := hm1
        omega
      | submitBatch hb =>
        obtain ⟨_, _, _, _, _, _, _, _, _, hl, _⟩ := submit_batch_only_if hb
        subst hl; simp at hm1
      | transferToChain ht =>
        obtain ⟨_, hr⟩ := (transferToChain_eq_some_iff _ _ _ _ _ _).1 ht
        injection hr with _ hl
        subst hl; simp at hm1
      | env _ => simp at hm1
    · have := ih hi1 hm2
      omega

/-- What holds without any assumption on the hash: the new stored nonce is above the *presented*
    nonce, and the presented set hashes to the stored checkpoint. -/
theorem valset_nonce_monotone_partial {s s' : Hub2St} {newV cur : ValsetArgs} {sigs : List SigSlot}
    {log : EvmLog} (h : s.updateValset newV cur sigs = some (s', log)) :
    cur.nonce < s'.valsetNonce ∧ makeCheckpoint s.gravityId cur = s.checkpoint := by
  obtain ⟨hn, _, _, _, hcp, _, hs, _⟩ := update_valset_only_if h
  subst hs
  exact ⟨hn, hcp⟩

/-! ### 6. The Minter multisig -/

/-- The weights the connector installs sum to at most 1000: Σ⌊pᵢ·1000/T⌋ ≤ 1000 with T = Σpᵢ. -/
theorem minter_weights_sum_le (powers : List Nat) : sumNats (minterWeights powers) ≤ 1000 := by
  rw [minterWeights_eq]
  have h := sum_floor_le_nat 1000 (sumNats powers) powers
  by_cases hT : sumNats powers = 0
  · exact Nat.le_trans h (by rw [hT]; simp)
  · rw [Nat.mul_div_cancel_left _ (Nat.pos_of_ne_zero hT)] at h; exact h

/-- The multisig rule, spelled out. -/
theorem minter_accepts_iff (next n : Nat) (weights : List Nat) (signed : List Bool) :
    minterAccepts next n weights signed = true ↔ n = next ∧ signedSum weights signed ≥ 667 := by
  rw [minterAccepts_eq]; simp [minterThreshold]

/-- Accepted by the multisig ⇒ it carries the next nonce and the signing members hold at least
    66.7 % of the hub power the weights were computed from (floors only lose weight).  No length
    hypothesis is needed: `zip` ignores surplus entries on either side. -/
theorem minter_accept_needs_two_thirds {next n : Nat} {powers : List Nat} {signed : List Bool}
    (h : minterAccepts next n (minterWeights powers) signed = true) :
    n = next ∧ 1000 * signedSum powers signed ≥ 667 * sumNats powers := by
  obtain ⟨hn, hw⟩ := (minter_accepts_iff _ _ _ _).1 h
  refine ⟨hn, ?_⟩
  rw [minterWeights_eq] at hw
  have hle := signedSum_floor_le 1000 (sumNats powers) powers signed
  by_cases hT : sumNats powers = 0
  · rw [hT]; omega
  · have := (Nat.le_div_iff_mul_le (Nat.pos_of_ne_zero hT)).1 (Nat.le_trans hw hle)
    omega

/-- Floors can lose up to one unit of weight per member, so 66.7 % is necessary but not always
    sufficient: here the signers hold 668/1001 ≈ 66.73 % and are still rejected (666 < 667). -/
example : minterAccepts 5 5 (minterWeights [334, 334, 333]) [true, true, false] = false ∧
    1000 * signedSum [334, 334, 333] [true, true, false] ≥ 667 * sumNats [334, 334, 333] := by decide

/-- A sufficient share: with `m` signing members, `1000·(signed power) > 666·T + m·(T−1)` is enough
    (each floor loses less than one unit). -/
theorem minter_accepts_enough {next : Nat} {powers : List Nat} {signed : List Bool}
    (hT : 0 < sumNats powers)
    (h : 1000 * signedSum powers signed >
      666 * sumNats powers + signedSum (powers.map fun _ => 1) signed * (sumNats powers - 1)) :
    minterAccepts next next (minterWeights powers) signed = true := by
  rw [minter_accepts_iff, minterWeights_eq]
  refine ⟨rfl, ?_⟩
  have key : ∀ (L : Nat) (ps : List Nat) (bs : List Bool) (T : Nat), 0 < T →
      signedSum ps bs * L ≤ signedSum (ps.map fun p => p * L / T) bs * T +
        signedSum (ps.map fun _ => 1) bs * (T - 1) := by
    intro L ps
    induction ps with
    | nil => intro bs T _; simp [signedSum_nil_left]
    | cons p ps ih =>
      intro bs T hT
      cases bs with
      | nil => simp [signedSum_nil_right]
      | cons b bs =>
        simp only [List.map_cons, signedSum_cons]
        have := ih bs T hT
        cases b
        · simpa using this
        · simp only [if_true]
          have h1 : p * L / T * T + p * L % T = p * L := by
            rw [Nat.mul_comm]; exact Nat.div_add_mod (p * L) T
          have h2 := Nat.mod_lt (p * L) hT
          rw [Nat.add_mul, Nat.add_mul, Nat.add_mul, Nat.one_mul]
          generalize p * L / T * T = qT at h1 ⊢
          generalize p * L % T = r at h1 h2
          generalize signedSum (List.map (fun p => p * L / T) ps) bs * T = WT at this ⊢
          generalize signedSum (List.map (fun _ => 1) ps) bs * (T - 1) = CT at this ⊢
          generalize signedSum ps bs * L = S at this ⊢
          generalize p * L = pL at h1 ⊢
          omega
  have hk := key 1000 powers signed (sumNats powers) hT
  apply Nat.le_of_not_lt
  intro hlt
  have : signedSum (powers.map fun p => p * 1000 / sumNats powers) signed * sumNats powers ≤
      666 * sumNats powers := Nat.mul_le_mul_right _ (by omega)
  omega

/-- A stream of multisig transactions `(nonce, installed weights, signature bitmap)` submitted in any
    order and with any weights; returns the nonces of the accepted ones.  The multisig's next nonce
    advances exactly on acceptance. -/
def minterRun : Nat → List (Nat × List Nat × List Bool) → List Nat
  | _, [] => []
  | next, (n, ws, signed) :: rest =>
    if minterAccepts next n ws signed then n :: minterRun (next + 1) rest else minterRun next rest

/-- Only the transaction whose nonce equals the multisig's next nonce can be accepted, so the
    accepted outgoing sequence numbers are `next, next+1, …` — consumed strictly in order, without
    gap or repeat. -/
theorem minter_sequence_gapfree (next : Nat) (txs : List (Nat × List Nat × List Bool)) :
    minterRun next txs = List.range' next (minterRun next txs).length := by
  induction txs generalizing next with
  | nil => rfl
  | cons t rest ih =>
    obtain ⟨n, ws, signed⟩ := t
    unfold minterRun
    by_cases hacc : minterAccepts next n ws signed = true
    · have hn : n = next := ((minter_accepts_iff _ _ _ _).1 hacc).1
      simp only [hacc, if_true, List.length_cons, List.range'_succ]
      rw [← ih (next + 1), hn]
    · simp only [hacc, Bool.false_eq_true, if_false]
      exact ih next

theorem minter_wrong_nonce_rejected {next n : Nat} (weights : List Nat) (signed : List Bool) (h : n ≠ next) :
    minterAccepts next n weights signed = false := by
  cases hc : minterAccepts next n weights signed with
  | false => rfl
  | true => exact absurd ((minter_accepts_iff _ _ _ _).1 hc).1 h

/-! ### 7. Bridge to the Solidity source (regenerated facts) -/

theorem fact_sol_check_sigs_requires : Generated.sol_check_sigs_requires =
    "verifySig(_currentValidators[i], _theHash, _v[i], _r[i], _s[i]) | cumulativePower > _powerThreshold" := rfl
theorem fact_sol_check_sigs_ifs : Generated.sol_check_sigs_ifs =
    "_v[i] != 0 | cumulativePower > _powerThreshold" := rfl
theorem fact_sol_update_valset_requires : Generated.sol_update_valset_requires =
    "_newValsetNonce > _currentValsetNonce | _newValidators.length == _newPowers.length | _currentValidators.length == _currentPowers.length && _currentValidators.length == _v.length && _currentValidators.length == _r.length && _currentValidators.length == _s.length | makeCheckpoint( _currentValidators, _currentPowers, _currentValsetNonce, state_gravityId ) == state_lastValsetCheckpoint" := rfl
theorem fact_sol_submit_batch_requires : Generated.sol_submit_batch_requires =
    "state_lastBatchNonces[_tokenContract] < _batchNonce | block.number < _batchTimeout | _currentValidators.length == _currentPowers.length && _currentValidators.length == _v.length && _currentValidators.length == _r.length && _currentValidators.length == _s.length | makeCheckpoint( _currentValidators, _currentPowers, _currentValsetNonce, state_gravityId ) == state_lastValsetCheckpoint | _amounts.length == _destinations.length && _amounts.length == _fees.length" := rfl
theorem fact_sol_transfer_lock : Generated.sol_transfer_lock =
    "msg.sender, address(this), _amount" := rfl
theorem fact_sol_transfer_event : Generated.sol_transfer_event =
    "_tokenContract, msg.sender, _destinationChain, _destination, _amount, _fee, state_lastEventNonce" := rfl

/-! ### 8. Non-vacuity -/

section Examples

/-- Three validators 10/20/30, threshold 35; validators 1 and 3 signed digest `[9]`. -/
example : checkSigs [[1], [2], [3]] [10, 20, 30] [.sig [1] [9], .absent, .sig [3] [9]] [9] 35 = true := by decide
example : validPower [[1], [2], [3]] [10, 20, 30] [.sig [1] [9], .absent, .sig [3] [9]] [9] = 40 := by decide
/-- Confirmed by exactly the threshold (not more): rejected. -/
example : checkSigs [[1], [2], [3]] [10, 20, 30] [.sig [1] [9], .absent, .sig [3] [9]] [9] 40 = false := by decide
/-- A signature over another digest, or by another validator, reverts. -/
example : checkSigs [[1], [2], [3]] [10, 20, 30] [.sig [1] [9], .sig [2] [8], .sig [3] [9]] [9] 35 = false := by
  decide
example : checkSigs [[1], [2], [3]] [10, 20, 30] [.sig [1] [9], .sig [3] [9], .sig [3] [9]] [9] 35 = false := by
  decide
/-- `bad_slot_reverts` applies to the first of these. -/
example : checkSigs [[1], [2], [3]] [10, 20, 30] [.sig [1] [9], .sig [2] [8], .sig [3] [9]] [9] 35 = false :=
  bad_slot_reverts (j := 1) (v := [2]) (p := 20) (a := [2]) (d := [8]) rfl rfl rfl (by decide) (by decide)

def exCur : ValsetArgs := { validators := [[1], [2], [3]], powers := [10, 20, 30], nonce := 4 }
def exNew : ValsetArgs := { validators := [[1], [2]], powers := [50, 50], nonce := 5 }
def exSt : Hub2St :=
  { threshold := 35, checkpoint := makeCheckpoint [] exCur, valsetNonce := 4, eventNonce := 7,
    erc20 := [(([0xaa], [0xcc]), 100), (([0xaa], [0x01]), 20)], allowance := [(([0xaa], [0x01]), 50)],
    self := [0xcc], blockNumber := 10 }

/-- Validators 1 and 3 signed `H` (any digest): valid power 40.  Stated for a variable digest so that
    no proof term ever makes the kernel compare two keccak values. -/
theorem exPower (H : Bytes) :
    validPower [[1], [2], [3]] [10, 20, 30] [.sig [1] H, .absent, .sig [3] H] H = 40 := by
  simp [SigSlot.validFor, validPower_nil_left]

/-- `update_valset_accepts` is not vacuous (the digest stays symbolic: keccak is not evaluated). -/
example : ∃ s', exSt.updateValset exNew exCur
      [.sig [1] (makeCheckpoint [] exNew), .absent, .sig [3] (makeCheckpoint [] exNew)] =
      some (s', .valsetUpdated 5 8) ∧ s'.valsetNonce = 5 ∧ s'.eventNonce = 8 :=
  ⟨_, update_valset_accepts exSt exNew exCur _ (by decide) rfl rfl rfl rfl
      ⟨Or.inr rfl, Or.inl rfl, Or.inr rfl, trivial⟩
      (Nat.lt_of_lt_of_eq (by decide : 35 < 40) (exPower _).symm), rfl, rfl⟩

def exBatch : BatchView :=
  { amounts := [5, 6], destinations := [[0x01], [0x02]], fees := [1, 1], nonce := 3, token := [0xaa], timeout := 11 }

/-- `submit_batch_accepts` is not vacuous. -/
example : ∃ s', exSt.submitBatch exCur
      [.sig [1] (batchDigest [] exBatch), .absent, .sig [3] (batchDigest [] exBatch)] exBatch =
      some (s', .batchExecuted 3 [0xaa] 8) ∧ s'.lastBatchNonce [0xaa] = 3 ∧
      s'.bal [0xaa] [0xcc] + 11 = 100 := by
  obtain ⟨s', h1, h2, _, h4⟩ := submit_batch_accepts exSt exCur
    [.sig [1] (batchDigest [] exBatch), .absent, .sig [3] (batchDigest [] exBatch)] exBatch
    (by decide) (by decide) rfl rfl rfl rfl rfl ⟨Or.inr rfl, Or.inl rfl, Or.inr rfl, trivial⟩
    (Nat.lt_of_lt_of_eq (by decide : 35 < 40) (exPower _).symm) (by decide) (by decide)
  exact ⟨s', h1, h2, h4⟩

/-- The batch is rejected at its timeout block and when its nonce is not new. -/
example (sigs : List SigSlot) : ({ exSt with blockNumber := 11 }).submitBatch exCur sigs exBatch = none :=
  batch_not_after_timeout _ _ _ _ (by decide)
example (sigs : List SigSlot) :
    ({ exSt with batchNonces := [([0xaa], 3)] }).submitBatch exCur sigs exBatch = none :=
  batch_stale_rejected _ _ _ _ (by decide)

/-- A deposit of 5 with fee 1: the contract gains 5, the sender loses 5, allowance drops to 45. -/
example : (exSt.transferToChain [0xaa] [0x01] 5 1).map
    (fun r => (r.1.bal [0xaa] [0xcc], r.1.bal [0xaa] [0x01], alGet r.1.allowance ([0xaa], [0x01]), r.1.eventNonce)) =
    some (105, 15, some 45, 8) := by decide
example : (exSt.transferToChain [0xaa] [0x01] 21 1).isSome = false := by decide
example : (exSt.transferToChain [0xaa] [0x01] 5 1).map (fun r => r.2 == .transferToChain [0xaa] [0x01] 5 1 8) =
    some true := by decide

/-- A two-step trace, with consecutive event nonces 8 and 9. -/
example : ∃ s' logs, Trace (fun _ => True) exSt logs s' ∧ logs.map eventNonceOf = [8, 9] := by
  obtain ⟨r1, h1⟩ := Option.isSome_iff_exists.1
    ((transfer_accepts_iff exSt [0xaa] [0x01] 5 1).2 (by decide))
  obtain ⟨r2, h2⟩ := Option.isSome_iff_exists.1
    ((transfer_accepts_iff r1.1 [0xaa] [0x01] 0 0).2 ⟨Nat.zero_le _, Nat.zero_le _⟩)
  have tr : Trace (fun _ => True) exSt ([r1.2] ++ ([r2.2] ++ [])) r2.1 :=
    .cons (.transferToChain h1) (.cons (.transferToChain h2) .nil)
  exact ⟨_, _, tr, event_nonces_consecutive tr⟩

/-- The checkpoint invariant holds in a freshly deployed contract (constructor: nonce 0). -/
example : CheckpointInv
    { gravityId := List.replicate 32 0,
      checkpoint := makeCheckpoint (List.replicate 32 0)
        { validators := [List.replicate 20 1], powers := [4294967295], nonce := 0 } } :=
  ⟨by decide, _, ⟨by decide, by decide, by decide, by decide, by decide⟩, rfl, rfl⟩

def exCurBig : ValsetArgs := { exCur with nonce := 2 ^ 256 + 5 }
def exCurSmall : ValsetArgs := { exCur with nonce := 5 }
def exNew6 : ValsetArgs := { exNew with nonce := 6 }
def exStBig : Hub2St := { exSt with checkpoint := makeCheckpoint [] exCurBig, valsetNonce := 2 ^ 256 + 5 }

/-- A `uint256` word holds its value modulo `2^256`: nonces `5` and `2^256 + 5` share a pre-image. -/
theorem exPreWrap : checkpointPre [] exCurSmall = checkpointPre [] exCurBig := by decide +kernel

theorem exCkWrap : makeCheckpoint [] exCurSmall = makeCheckpoint [] exCurBig := by
  rw [makeCheckpoint_eq, makeCheckpoint_eq, exPreWrap]

/-- Why `valset_nonce_monotone` asks for EVM-typed arguments (`ValsetArgs.WT`): the model's naturals
    are unbounded, so a (non-EVM) stored nonce `2^256 + 5` has the same checkpoint as nonce `5`, and
    the stored nonce can then go DOWN from `2^256 + 5` to `6`.  On the real contract calldata
    decoding makes this impossible (every `uint256` is below `2^256`). -/
example : ∃ s', exStBig.updateValset exNew6 exCurSmall
      [.sig [1] (makeCheckpoint [] exNew6), .absent, .sig [3] (makeCheckpoint [] exNew6)] =
        some (s', .valsetUpdated 6 8) ∧ s'.valsetNonce = 6 ∧ s'.valsetNonce < exStBig.valsetNonce :=
  ⟨_, update_valset_accepts exStBig exNew6 exCurSmall _ (by decide) rfl rfl rfl exCkWrap
      ⟨Or.inr rfl, Or.inl rfl, Or.inr rfl, trivial⟩
      (Nat.lt_of_lt_of_eq (by decide : 35 < 40) (exPower _).symm), rfl, by decide⟩

/-- Multisig: weights 334/333/333; the first two members reach 667, the last two do not. -/
example : minterWeights [334, 333, 333] = [334, 333, 333] := by decide
example : minterAccepts 5 5 (minterWeights [334, 333, 333]) [true, true, false] = true := by decide
example : minterAccepts 5 5 (minterWeights [334, 333, 333]) [false, true, true] = false := by decide
/-- The right signatures on the wrong sequence number are rejected. -/
example : minterAccepts 5 6 (minterWeights [334, 333, 333]) [true, true, false] = false := by decide
/-- Submitted out of order (6, 5, 5 again, 6): accepted in order 5, 6, each once. -/
example : minterRun 5
    [(6, [334, 333, 333], [true, true, true]), (5, [334, 333, 333], [true, true, false]),
     (5, [334, 333, 333], [true, true, true]), (6, [334, 333, 333], [true, true, false])] = [5, 6] := by decide

end Examples

end Mhub2.C08
