/-
  C18 — Prices and holder lists change only at an epoch boundary when distinct validators holding
  at least 66 % of voting power reported in that epoch, each validator's latest report counting
  once.  Every stored price is the stake-weighted median of the reported values, and a holder
  list is adopted only when more than two-thirds of stake reported the identical list.
  Property theorems only; helper lemmas (and the invariant `OracleSt.WF`) live in Lemmas/Oracle.
-/
import Mhub2.Oracle
import Mhub2.Generated.Facts
import Lemmas.Oracle
namespace Mhub2.C18
open Mhub2

/-! ### 1. Nothing changes outside an epoch boundary -/

/-- A price claim never touches prices, holders or the epoch counter. -/
theorem claims_do_not_change_prices {h : Hub} {o o' : OracleSt} {v : String} {e : Nat}
    {ps : List (String × Int)} (hok : oraclePriceClaim h o v e ps = .ok o') :
    o'.prices = o.prices ∧ o'.holders = o.holders ∧ o'.epoch = o.epoch := by
  obtain ⟨_, _, hc⟩ := oraclePriceClaim_ok hok
  rcases hc with ⟨_, rfl⟩ | ⟨_, _, rfl⟩ <;> exact ⟨rfl, rfl, rfl⟩

/-- Neither does a holders claim. -/
theorem holder_claims_do_not_change_prices {h : Hub} {o o' : OracleSt} {v : String} {e : Nat}
    {hs : List (String × Int)} (hok : oracleHoldersClaim h o v e hs = .ok o') :
    o'.prices = o.prices ∧ o'.holders = o.holders ∧ o'.epoch = o.epoch := by
  obtain ⟨_, _, _, hc⟩ := oracleHoldersClaim_ok hok
  rcases hc with ⟨_, rfl⟩ | ⟨_, rfl⟩ <;> exact ⟨rfl, rfl, rfl⟩

/-- Off the epoch boundary (`height % 5 ≠ 0`) the end-blocker does nothing at all. -/
theorem no_boundary_no_change {h : Hub} {o o' : OracleSt} {n a d : Int}
    (hb : h.height % 5 ≠ 0) (hok : oracleEndBlock h o n a d = .ok o') : o' = o := by
  rcases endBlock_cases hok with ⟨_, he⟩ | ⟨h0, _⟩
  · exact he
  · exact absurd h0 hb

/-- A price claim for another epoch is accepted but ignored. -/
theorem price_claim_other_epoch_ignored {h : Hub} {o o' : OracleSt} {v : String} {e : Nat}
    {ps : List (String × Int)} (hne : o.epoch ≠ e) (hok : oraclePriceClaim h o v e ps = .ok o') :
    o' = o := by
  obtain ⟨_, _, hc⟩ := oraclePriceClaim_ok hok
  rcases hc with ⟨_, he⟩ | ⟨he, _⟩
  · exact he
  · exact absurd he hne

/-- A holders claim for another epoch is accepted but ignored. -/
theorem holders_claim_other_epoch_ignored {h : Hub} {o o' : OracleSt} {v : String} {e : Nat}
    {hs : List (String × Int)} (hne : o.epoch ≠ e) (hok : oracleHoldersClaim h o v e hs = .ok o') :
    o' = o := by
  obtain ⟨_, _, _, hc⟩ := oracleHoldersClaim_ok hok
  rcases hc with ⟨_, he⟩ | ⟨he, _⟩
  · exact he
  · exact absurd he hne

/-- Only known validators can claim, and a claim counted for the current epoch carries a positive
    value for every required price name. -/
theorem price_claim_validated {h : Hub} {o o' : OracleSt} {v : String} {e : Nat}
    {ps : List (String × Int)} (hok : oraclePriceClaim h o v e ps = .ok o') :
    e ≠ 0 ∧ (h.validator? v).isSome ∧
    (o.epoch = e → ∀ n ∈ requiredPriceNames h, ∃ p ∈ ps, p.1 = n ∧ p.2 > 0) := by
  obtain ⟨h1, h2, hc⟩ := oraclePriceClaim_ok hok
  refine ⟨h1, h2, ?_⟩
  intro he n hn
  rcases hc with ⟨hne, _⟩ | ⟨_, hreq, _⟩
  · exact absurd he hne
  · have := (List.all_eq_true.mp hreq) n hn
    obtain ⟨p, hp, hpp⟩ := List.any_eq_true.mp this
    exact ⟨p, hp, by simpa using hpp⟩

/-! ### 2. Each validator is counted once, with its latest report -/

/-- The invariant holds initially … -/
theorem votes_nodup_init : OracleSt.WF {} := OracleSt.WF_init

/-- … and is preserved by every operation of the module. -/
theorem votes_nodup {h : Hub} {o o' : OracleSt} (hwf : o.WF) :
    (∀ v e ps, oraclePriceClaim h o v e ps = .ok o' → o'.WF) ∧
    (∀ v e hs, oracleHoldersClaim h o v e hs = .ok o' → o'.WF) ∧
    (∀ n a d, oracleProcessEpoch h o n a d = .ok o' → o'.WF) ∧
    (∀ n a d, oracleEndBlock h o n a d = .ok o' → o'.WF) :=
  ⟨fun _ _ _ hok => OracleSt.WF_priceClaim hwf hok,
   fun _ _ _ hok => OracleSt.WF_holdersClaim hwf hok,
   fun _ _ _ hok => OracleSt.WF_processEpoch hwf hok,
   fun _ _ _ hok => OracleSt.WF_endBlock hwf hok⟩

/-- What the invariant says: no validator is listed twice, and every listed validator has
    exactly one stored claim. -/
theorem votes_nodup_meaning {o : OracleSt} (hwf : o.WF) :
    o.priceVotes.Nodup ∧ o.holderVotes.Nodup ∧
    (∀ v ∈ o.priceVotes, ∃ ps, alGet o.priceClaims v = some ps) ∧
    (∀ v ∈ o.holderVotes, ∃ hs, alGet o.holderClaims v = some hs) := by
  obtain ⟨h1, h2, _, _, h5, h6⟩ := hwf
  exact ⟨h1, h2, fun v hv => Option.isSome_iff_exists.mp (h5 v hv),
    fun v hv => Option.isSome_iff_exists.mp (h6 v hv)⟩

/-- A successful price claim for the current epoch: the validator is listed (once — if it was
    listed before, the vote list does not change), its stored claim is the new one (the previous
    one is gone), and nobody else's claim is touched. -/
theorem price_claim_latest_once {h : Hub} {o o' : OracleSt} {v : String} {ps : List (String × Int)}
    (hok : oraclePriceClaim h o v o.epoch ps = .ok o') :
    alGet o'.priceClaims v = some ps ∧ v ∈ o'.priceVotes ∧
    (v ∈ o.priceVotes → o'.priceVotes = o.priceVotes) ∧
    (∀ w ∈ o.priceVotes, w ∈ o'.priceVotes) ∧
    (∀ w, w ≠ v → alGet o'.priceClaims w = alGet o.priceClaims w ∧
                   (w ∈ o'.priceVotes ↔ w ∈ o.priceVotes)) := by
  obtain ⟨_, _, hc⟩ := oraclePriceClaim_ok hok
  rcases hc with ⟨hne, _⟩ | ⟨_, _, rfl⟩
  · exact absurd rfl hne
  · refine ⟨alGet_alSet_same _ _ _, mem_addVoteOnce.mpr (Or.inr rfl), addVoteOnce_of_mem,
      fun w hw => mem_addVoteOnce.mpr (Or.inl hw), ?_⟩
    intro w hw
    refine ⟨alGet_alSet_other _ _ _ _ (Ne.symm hw), ?_⟩
    constructor
    · intro hm
      rcases mem_addVoteOnce.mp hm with hm | hm
      · exact hm
      · exact absurd hm hw
    · intro hm; exact mem_addVoteOnce.mpr (Or.inl hm)

/-- The same for holders claims. -/
theorem holders_claim_latest_once {h : Hub} {o o' : OracleSt} {v : String} {hs : List (String × Int)}
    (hok : oracleHoldersClaim h o v o.epoch hs = .ok o') :
    alGet o'.holderClaims v = some hs ∧ v ∈ o'.holderVotes ∧
    (v ∈ o.holderVotes → o'.holderVotes = o.holderVotes) ∧
    (∀ w ∈ o.holderVotes, w ∈ o'.holderVotes) ∧
    (∀ w, w ≠ v → alGet o'.holderClaims w = alGet o.holderClaims w ∧
                   (w ∈ o'.holderVotes ↔ w ∈ o.holderVotes)) := by
  obtain ⟨_, _, _, hc⟩ := oracleHoldersClaim_ok hok
  rcases hc with ⟨hne, _⟩ | ⟨_, rfl⟩
  · exact absurd rfl hne
  · refine ⟨alGet_alSet_same _ _ _, mem_addVoteOnce.mpr (Or.inr rfl), addVoteOnce_of_mem,
      fun w hw => mem_addVoteOnce.mpr (Or.inl hw), ?_⟩
    intro w hw
    refine ⟨alGet_alSet_other _ _ _ _ (Ne.symm hw), ?_⟩
    constructor
    · intro hm
      rcases mem_addVoteOnce.mp hm with hm | hm
      · exact hm
      · exact absurd hm hw
    · intro hm; exact mem_addVoteOnce.mpr (Or.inl hm)

/-- Epoch processing always advances the epoch and empties both vote lists: reports of one epoch
    are never counted in another. -/
theorem epoch_resets_votes {h : Hub} {o o' : OracleSt} {n a d : Int}
    (hok : oracleProcessEpoch h o n a d = .ok o') :
    o'.epoch = o.epoch + 1 ∧ o'.priceVotes = [] ∧ o'.holderVotes = [] :=
  processEpoch_frame hok

/-- **Latest report, counted once** (prices).  From an empty vote list (the state every epoch
    starts in, see `epoch_resets_votes`) deliver any sequence of price-claim messages — for any
    epoch, valid or rejected, repeated or not.  Then the vote list holds exactly the validators
    with a counted message, each once; the claim stored for a voter is the prices of its *last*
    counted message; prices, holders and the epoch do not move. -/
theorem latest_report_counts_once (h : Hub) (o : OracleSt) (msgs : List PriceMsg)
    (hstart : o.priceVotes = []) :
    (priceClaimRun h o msgs).priceVotes.Nodup ∧
    (priceClaimRun h o msgs).prices = o.prices ∧ (priceClaimRun h o msgs).holders = o.holders ∧
    (priceClaimRun h o msgs).epoch = o.epoch ∧
    ∀ v, (v ∈ (priceClaimRun h o msgs).priceVotes ↔
            ∃ m ∈ msgs, m.1 = v ∧ priceClaimCounts h o.epoch m = true) ∧
         (v ∈ (priceClaimRun h o msgs).priceVotes →
            ∃ m, (msgs.filter fun m => priceClaimCounts h o.epoch m && m.1 == v).getLast? = some m ∧
              alGet (priceClaimRun h o msgs).priceClaims v = some m.2.2) :=
  priceClaimRun_latest h o msgs hstart

/-- The same for holders claims. -/
theorem latest_holders_report_counts_once (h : Hub) (o : OracleSt) (msgs : List HoldersMsg)
    (hstart : o.holderVotes = []) :
    (holdersClaimRun h o msgs).holderVotes.Nodup ∧
    (holdersClaimRun h o msgs).prices = o.prices ∧ (holdersClaimRun h o msgs).holders = o.holders ∧
    (holdersClaimRun h o msgs).epoch = o.epoch ∧
    ∀ v, (v ∈ (holdersClaimRun h o msgs).holderVotes ↔
            ∃ m ∈ msgs, m.1 = v ∧ holdersClaimCounts h o.epoch m = true) ∧
         (v ∈ (holdersClaimRun h o msgs).holderVotes →
            ∃ m, (msgs.filter fun m => holdersClaimCounts h o.epoch m && m.1 == v).getLast? = some m ∧
              alGet (holdersClaimRun h o msgs).holderClaims v = some m.2.2) :=
  holdersClaimRun_latest h o msgs hstart

/-- "Counted" is what the model does: the message is for the current epoch and is accepted —
    non-zero epoch, no duplicated name, a known validator, a positive value for every required
    price name. -/
theorem counted_meaning (h : Hub) (o : OracleSt) (m : PriceMsg) :
    (priceClaimCounts h o.epoch m = true ↔
      (m.2.1 = o.epoch ∧ ∃ o', oraclePriceClaim h o m.1 m.2.1 m.2.2 = .ok o')) ∧
    (priceClaimCounts h o.epoch m = true ↔
      m.2.1 ≠ 0 ∧ (m.2.2.map (·.1)).eraseDups.length = m.2.2.length ∧ (h.validator? m.1).isSome ∧
      m.2.1 = o.epoch ∧ ∀ n ∈ requiredPriceNames h, ∃ p ∈ m.2.2, p.1 = n ∧ p.2 > 0) :=
  ⟨priceClaimCounts_iff_ok h o m, priceClaimCounts_iff h o.epoch m⟩

/-- The reports that enter the medians at the end of an epoch are exactly the values of the
    *last* counted message of each validator (with non-zero normalised power), once each. -/
theorem epoch_reports_are_latest (h : Hub) (o : OracleSt) (msgs : List PriceMsg)
    (hstart : o.priceVotes = []) (pw : List (String × Nat)) (name : String) (x : Int) (w : Nat) :
    (x, w) ∈ priceReports pw (priceClaimRun h o msgs).priceVotes (priceClaimRun h o msgs).priceClaims name ↔
      ∃ v m, w = (alGet pw v).getD 0 ∧ w ≠ 0 ∧
        (msgs.filter fun m => priceClaimCounts h o.epoch m && m.1 == v).getLast? = some m ∧
        (name, x) ∈ m.2.2 := by
  obtain ⟨_, _, _, _, hall⟩ := priceClaimRun_latest h o msgs hstart
  rw [mem_priceReports]
  constructor
  · rintro ⟨v, hv, hw, hw0, hmem⟩
    obtain ⟨m, hm, hget⟩ := (hall v).2 hv
    rw [hget] at hmem
    exact ⟨v, m, hw, hw0, hm, hmem⟩
  · rintro ⟨v, m, hw, hw0, hm, hmem⟩
    have hmf := List.mem_of_getLast? hm
    obtain ⟨hmm, hmc⟩ := List.mem_filter.mp hmf
    have hmc' : priceClaimCounts h o.epoch m = true ∧ m.1 = v := by simpa using hmc
    have hv : v ∈ (priceClaimRun h o msgs).priceVotes := (hall v).1.mpr ⟨m, hmm, hmc'.2, hmc'.1⟩
    obtain ⟨m', hm', hget⟩ := (hall v).2 hv
    rw [hm] at hm'
    cases hm'
    exact ⟨v, hv, hw, hw0, by rw [hget]; exact hmem⟩

/-! ### 3. Quorum -/

/-- Prices change in an epoch only if pairwise distinct validators holding at least 66 % of the
    bonded power reported prices in it. -/
theorem price_quorum {h : Hub} {o o' : OracleSt}
    (hok : oracleProcessEpoch h o 66 99 100 = .ok o') (hch : o'.prices ≠ o.prices) :
    o.priceVotes ≠ [] ∧ oracleReached h 66 99 100 o.priceVotes = true ∧
    (o.WF → o.priceVotes.Nodup ∧
      66 * h.totalPower ≤ 100 * sumNats (o.priceVotes.map h.lastPower) ∧
      sumNats (o.priceVotes.map h.lastPower) ≤ h.totalPower) := by
  rcases processEpoch_prices hok with heq | ⟨hne, hr, _⟩
  · exact absurd heq hch
  · exact ⟨hne, hr, fun hwf => ⟨hwf.1, oracleReached_quorum hr, sum_lastPower_le_total h hwf.1⟩⟩

/-- The holder list changes in an epoch only if pairwise distinct validators holding at least
    66 % of the bonded power reported holders in it. -/
theorem holders_quorum {h : Hub} {o o' : OracleSt}
    (hok : oracleProcessEpoch h o 66 99 100 = .ok o') (hch : o'.holders ≠ o.holders) :
    o.holderVotes ≠ [] ∧ oracleReached h 66 99 100 o.holderVotes = true ∧
    (o.WF → o.holderVotes.Nodup ∧
      66 * h.totalPower ≤ 100 * sumNats (o.holderVotes.map h.lastPower) ∧
      sumNats (o.holderVotes.map h.lastPower) ≤ h.totalPower) := by
  rcases processEpoch_holders hok with heq | ⟨hne, hr, _⟩
  · exact absurd heq hch
  · exact ⟨hne, hr, fun hwf => ⟨hwf.2.1, oracleReached_quorum hr, sum_lastPower_le_total h hwf.2.1⟩⟩

/-- The whole statement on the end-blocker: a change of prices or holders happens only on an
    epoch boundary and only with the quorum. -/
theorem change_only_at_boundary_with_quorum {h : Hub} {o o' : OracleSt} (hwf : o.WF)
    (hok : oracleEndBlock h o 66 99 100 = .ok o') :
    (o'.prices ≠ o.prices → h.height % 5 = 0 ∧ o.priceVotes.Nodup ∧
      66 * h.totalPower ≤ 100 * sumNats (o.priceVotes.map h.lastPower)) ∧
    (o'.holders ≠ o.holders → h.height % 5 = 0 ∧ o.holderVotes.Nodup ∧
      66 * h.totalPower ≤ 100 * sumNats (o.holderVotes.map h.lastPower)) := by
  rcases endBlock_cases hok with ⟨_, rfl⟩ | ⟨h0, hp⟩
  · exact ⟨fun hc => absurd rfl hc, fun hc => absurd rfl hc⟩
  · constructor
    · intro hc
      obtain ⟨_, _, hq⟩ := price_quorum hp hc
      exact ⟨h0, (hq hwf).1, (hq hwf).2.1⟩
    · intro hc
      obtain ⟨_, _, hq⟩ := holders_quorum hp hc
      exact ⟨h0, (hq hwf).1, (hq hwf).2.1⟩

/-- The two arithmetic facts behind the quorum: the running sum of natural powers only grows,
    and the truncated `(66·T + 99) / 100` is the ceiling of 66 % of `T`. -/
theorem threshold_arith {power : String → Nat} {req : Int} {votes : List String} (T : Nat) (s : Int) :
    (reachesThreshold power req votes 0 = true → req ≤ ((sumNats (votes.map power) : Nat) : Int)) ∧
    (Int.tdiv (66 * (T : Int) + 99) 100 ≤ s → 66 * (T : Int) ≤ 100 * s) := by
  constructor
  · intro hr; have := reachesThreshold_sum hr; omega
  · intro hs; exact threshold_le (T := T) hs

/-! ### 4. Every stored price is the stake-weighted median -/

theorem weightedNth_eq_getElem? (l : List (Int × Nat)) (k : Nat) :
    weightedNth l k = (expandWeighted l)[k]? := Mhub2.weightedNth_eq_getElem? l k

theorem expandWeighted_length (l : List (Int × Nat)) : (expandWeighted l).length = totalWeight l :=
  length_expandWeighted l

theorem sortByValue_perm_sorted (l : List (Int × Nat)) :
    (sortByValue l).Perm l ∧ (sortByValue l).Pairwise (fun a b => a.1 ≤ b.1) :=
  ⟨sortByValue_perm l, sortByValue_sorted l⟩

/-- `weightedMedian l` is the median of `e`, the ascending list in which every reported value
    appears as many times as the weight reported for it: the middle element for odd length, the
    truncated mean of the two middle elements for even length, nothing for the empty list. -/
theorem weightedMedian_spec (l : List (Int × Nat)) :
    let e := expandWeighted (sortByValue l)
    let W := e.length
    e.Pairwise (· ≤ ·) ∧ e.Perm (expandWeighted l) ∧ W = totalWeight l ∧
    (∀ x, e.count x = sumNats ((l.filter fun p => p.1 == x).map (·.2))) ∧
    (W = 0 → weightedMedian l = none) ∧
    (W % 2 = 1 → weightedMedian l = e[W / 2]?) ∧
    (W % 2 = 0 → W > 0 → ∃ a b, e[W / 2]? = some a ∧ e[W / 2 - 1]? = some b ∧
      weightedMedian l = some (Int.tdiv (a + b) 2)) := by
  intro e W
  refine ⟨medianList_sorted l, medianList_perm l, medianList_length l, count_medianList l, ?_, ?_, ?_⟩
  · intro h0
    rw [weightedMedian_eq]
    show (if W = 0 then _ else _) = _
    rw [if_pos h0]
  · intro h1
    rw [weightedMedian_eq]
    show (if W = 0 then _ else if W % 2 = 0 then _ else _) = _
    rw [if_neg (by omega), if_neg (by omega)]
    rfl
  · intro h0 hpos
    have ha : W / 2 < e.length := by show W / 2 < W; omega
    have hb : W / 2 - 1 < e.length := by show W / 2 - 1 < W; omega
    refine ⟨e[W / 2], e[W / 2 - 1], List.getElem?_eq_getElem ha, List.getElem?_eq_getElem hb, ?_⟩
    rw [weightedMedian_eq]
    show (if W = 0 then _ else if W % 2 = 0 then _ else _) = _
    rw [if_neg (by omega), if_pos h0]
    show (match e[W / 2]?, e[W / 2 - 1]? with
      | some a, some b => some (Int.tdiv (a + b) 2)
      | _, _ => none) = _
    rw [List.getElem?_eq_getElem ha, List.getElem?_eq_getElem hb]

/-- A median is defined exactly when some weight was reported. -/
theorem weightedMedian_isSome (l : List (Int × Nat)) :
    (weightedMedian l).isSome ↔ totalWeight l > 0 := by
  have hs := weightedMedian_spec l
  simp only at hs
  obtain ⟨_, _, hW, _, h0, h1, h2⟩ := hs
  rw [← hW]
  constructor
  · intro hsome
    by_cases hz : (expandWeighted (sortByValue l)).length = 0
    · rw [h0 hz] at hsome; cases hsome
    · omega
  · intro hpos
    by_cases hodd : (expandWeighted (sortByValue l)).length % 2 = 1
    · rw [h1 hodd, List.getElem?_eq_getElem (by omega)]; rfl
    · obtain ⟨a, b, _, _, hm⟩ := h2 (by omega) hpos
      rw [hm]; rfl

/-- The median splits the weight: in the sorted expanded list everything up to the middle is
    `≤ m` and everything from the middle on is `≥ m` (odd total weight). -/
theorem weightedMedian_splits_odd (l : List (Int × Nat)) {m : Int}
    (hodd : (expandWeighted (sortByValue l)).length % 2 = 1) (hm : weightedMedian l = some m) :
    let e := expandWeighted (sortByValue l)
    (∀ i (hi : i < e.length), i ≤ e.length / 2 → e[i] ≤ m) ∧
    (∀ i (hi : i < e.length), e.length / 2 ≤ i → m ≤ e[i]) := by
  intro e
  obtain ⟨hsorted, _, _, _, _, h1, _⟩ := weightedMedian_spec l
  have hodd' : e.length % 2 = 1 := hodd
  have hmid : e.length / 2 < e.length := by omega
  have hme : e[e.length / 2] = m := by
    have := h1 hodd
    rw [hm] at this
    have h2 : e[e.length / 2]? = some e[e.length / 2] := List.getElem?_eq_getElem hmid
    have h3 : some m = some e[e.length / 2] := this.trans h2
    exact (Option.some.inj h3).symm
  constructor
  · intro i hi hle
    rw [← hme]; exact sorted_getElem_le hsorted hle hmid
  · intro i hi hle
    rw [← hme]; exact sorted_getElem_le hsorted hle hi

/-- For an even total weight the stored value lies between the two middle elements. -/
theorem weightedMedian_between_even (l : List (Int × Nat)) {m : Int}
    (heven : (expandWeighted (sortByValue l)).length % 2 = 0) (hm : weightedMedian l = some m) :
    let e := expandWeighted (sortByValue l)
    ∃ a b, e[e.length / 2 - 1]? = some b ∧ e[e.length / 2]? = some a ∧ b ≤ m ∧ m ≤ a := by
  intro e
  obtain ⟨hsorted, _, hW, _, h0, _, h2⟩ := weightedMedian_spec l
  have heven : e.length % 2 = 0 := heven
  have hpos : e.length > 0 := by
    by_cases hz : e.length = 0
    · rw [h0 hz] at hm; cases hm
    · omega
  obtain ⟨a, b, ha, hb, hmed⟩ := h2 heven hpos
  have hia : e.length / 2 < e.length := by omega
  have hib : e.length / 2 - 1 < e.length := by omega
  have hae : a = e[e.length / 2] := by
    have : some a = some e[e.length / 2] := ha.symm.trans (List.getElem?_eq_getElem hia)
    exact Option.some.inj this
  have hbe : b = e[e.length / 2 - 1] := by
    have : some b = some e[e.length / 2 - 1] := hb.symm.trans (List.getElem?_eq_getElem hib)
    exact Option.some.inj this
  have hba : b ≤ a := by
    rw [hae, hbe]; exact sorted_getElem_le hsorted (by omega) hia
  have hmv : m = Int.tdiv (a + b) 2 := by
    rw [hm] at hmed; exact Option.some.inj hmed
  refine ⟨a, b, hb, ha, ?_⟩
  rw [hmv]
  by_cases hs : 0 ≤ a + b
  · rw [Int.tdiv_eq_ediv_of_nonneg hs]; omega
  · have hneg : Int.tdiv (a + b) 2 = -(Int.tdiv (-(a + b)) 2) := by
      rw [Int.neg_tdiv]; omega
    rw [hneg, Int.tdiv_eq_ediv_of_nonneg (by omega)]; omega

/-- Every price stored by an epoch that changed prices is the weighted median of the values the
    voters' latest claims carry for that name, each weighted by the voter's normalised power
    `⌊power · 65535 / total⌋`. -/
theorem stored_price_is_median {h : Hub} {o o' : OracleSt} {n a d : Int}
    (hok : oracleProcessEpoch h o n a d = .ok o') (hch : o'.prices ≠ o.prices) :
    ∃ pw, h.normalizedPowers = .ok pw ∧
      (∀ v, (alGet pw v).getD 0 = h.bondedPower v * 65535 / h.totalPower) ∧
      ∀ name m, (name, m) ∈ o'.prices ↔
        ((∃ x w, (x, w) ∈ priceReports pw o.priceVotes o.priceClaims name) ∧
         weightedMedian (priceReports pw o.priceVotes o.priceClaims name) = some m) := by
  rcases processEpoch_prices hok with heq | ⟨_, _, pw, hpw, hpr⟩
  · exact absurd heq hch
  · refine ⟨pw, hpw, normalizedPowers_ok hpw, ?_⟩
    intro name m
    rw [hpr, mem_computePrices_iff]
    constructor
    · rintro ⟨hn, hm⟩
      refine ⟨?_, hm⟩
      obtain ⟨c, hc, hcn⟩ := List.mem_map.mp hn
      refine ⟨c.2.1, c.2.2, ?_⟩
      unfold priceReports
      exact List.mem_map.mpr ⟨c, List.mem_filter.mpr ⟨hc, by simpa using hcn⟩, rfl⟩
    · rintro ⟨⟨x, w, hxw⟩, hm⟩
      refine ⟨?_, hm⟩
      unfold priceReports at hxw
      obtain ⟨c, hc, _⟩ := List.mem_map.mp hxw
      obtain ⟨hc1, hc2⟩ := List.mem_filter.mp hc
      exact List.mem_map.mpr ⟨c, hc1, by simpa using hc2⟩

/-- Every name some voter (with non-zero normalised power) reported gets a price: the median is
    never undefined for a reported name, and nothing else is stored. -/
theorem reported_name_has_price {pw : List (String × Nat)} {votes : List String}
    {claims : List (String × List (String × Int))} {name : String} :
    (∃ m, (name, m) ∈ computePrices pw votes claims) ↔
      ∃ x w, (x, w) ∈ priceReports pw votes claims name := by
  constructor
  · rintro ⟨m, hm⟩
    obtain ⟨hn, _⟩ := mem_computePrices_iff.mp hm
    obtain ⟨c, hc, hcn⟩ := List.mem_map.mp hn
    refine ⟨c.2.1, c.2.2, ?_⟩
    unfold priceReports
    exact List.mem_map.mpr ⟨c, List.mem_filter.mpr ⟨hc, by simpa using hcn⟩, rfl⟩
  · rintro ⟨x, w, hxw⟩
    have hw0 : w ≠ 0 := by
      obtain ⟨_, _, _, hw0, _⟩ := mem_priceReports.mp hxw
      exact hw0
    have hpos : totalWeight (priceReports pw votes claims name) > 0 := by
      have := le_totalWeight_of_mem hxw
      simp only at this
      omega
    obtain ⟨m, hm⟩ := Option.isSome_iff_exists.mp ((weightedMedian_isSome _).mpr hpos)
    refine ⟨m, mem_computePrices_iff.mpr ⟨?_, hm⟩⟩
    unfold priceReports at hxw
    obtain ⟨c, hc, _⟩ := List.mem_map.mp hxw
    obtain ⟨hc1, hc2⟩ := List.mem_filter.mp hc
    exact List.mem_map.mpr ⟨c, hc1, by simpa using hc2⟩

/-- The reports entering the median of `name`: exactly the values the stored (latest) claims of
    the voters carry for `name`, weighted by the voter's non-zero normalised power. -/
theorem price_reports_are_latest_claims {pw : List (String × Nat)} {votes : List String}
    {claims : List (String × List (String × Int))} {name : String} {x : Int} {w : Nat} :
    (x, w) ∈ priceReports pw votes claims name ↔
      ∃ v ∈ votes, w = (alGet pw v).getD 0 ∧ w ≠ 0 ∧ (name, x) ∈ (alGet claims v).getD [] :=
  mem_priceReports

/-! ### 5. Holder lists -/

/-- An adopted holder list is one a voter reported, and the voters whose list has the same
    canonical form hold more than 43690 of 65535 in normalised power. -/
theorem computeHolders_spec {powers : List (String × Nat)} {votes : List String}
    {claims : List (String × List (String × Int))} {l : List (String × Int)}
    (h : computeHolders powers votes claims = some l) :
    ∃ c, (sumNats (((votes.map fun v => (v, (alGet claims v).getD [])).filter
            fun p => holdersCanon p.2 == c).map fun p => (alGet powers p.1).getD 0) > 43690) ∧
      ∃ v ∈ votes, (alGet claims v).getD [] = l ∧ holdersCanon l = c :=
  computeHolders_some h

/-- More than 43690 of 65535 in normalised powers is more than two thirds of the raw power. -/
theorem two_thirds (ps : List Nat) (T : Nat) (_hT : T > 0)
    (h : sumNats (ps.map fun p => p * 65535 / T) > 43690) : 3 * sumNats ps > 2 * T :=
  two_thirds' ps T h

/-- Lists with the same canonical form are the same list up to the order of entries (as
    rendered "address:value"). -/
theorem same_canon_same_entries {l l' : List (String × Int)} (h : holdersCanon l = holdersCanon l') :
    (l.map fun p => s!"{p.1}:{p.2}").Perm (l'.map fun p => s!"{p.1}:{p.2}") := by
  unfold holdersCanon at h
  have h1 := isort_perm (fun a b => bytesLt (strBytes a) (strBytes b)) (l.map fun p => s!"{p.1}:{p.2}")
  have h2 := isort_perm (fun a b => bytesLt (strBytes a) (strBytes b)) (l'.map fun p => s!"{p.1}:{p.2}")
  rw [h] at h1
  exact h1.symm.trans h2

/-- The holder list changes in an epoch only to a list that a voter reported in that epoch, and
    the (pairwise distinct) voters who reported that identical list hold more than two thirds
    of the bonded power. -/
theorem holders_two_thirds_of_stake {h : Hub} {o o' : OracleSt} {n a d : Int} (hwf : o.WF)
    (hok : oracleProcessEpoch h o n a d = .ok o') (hch : o'.holders ≠ o.holders) :
    ∃ group : List String, group.Nodup ∧ (∀ v ∈ group, v ∈ o.holderVotes) ∧
      (∀ v ∈ group, holdersCanon ((alGet o.holderClaims v).getD []) = holdersCanon o'.holders) ∧
      (∃ v ∈ group, alGet o.holderClaims v = some o'.holders) ∧
      3 * sumNats (group.map h.bondedPower) > 2 * h.totalPower ∧
      sumNats (group.map h.bondedPower) ≤ h.totalPower := by
  rcases processEpoch_holders hok with heq | ⟨_, _, pw, hpw, hcomp⟩
  · exact absurd heq hch
  · obtain ⟨c, hsum, v, hv, hvl, hcan⟩ := computeHolders_some hcomp
    have hnorm := normalizedPowers_ok hpw
    have hsub : ((holdersGroup o.holderVotes o.holderClaims c).map (·.1)).Sublist o.holderVotes := by
      unfold holdersGroup
      have h1 := List.filter_sublist (p := fun (p : String × List (String × Int)) => holdersCanon p.2 == c)
        (l := o.holderVotes.map fun v => (v, (alGet o.holderClaims v).getD []))
      have h2 := h1.map (·.1)
      have h3 : (o.holderVotes.map fun v => (v, (alGet o.holderClaims v).getD [])).map (·.1) = o.holderVotes := by
        rw [List.map_map]
        exact List.map_id'' (fun _ => rfl) _
      rwa [h3] at h2
    have hmemG : ∀ w, w ∈ (holdersGroup o.holderVotes o.holderClaims c).map (·.1) ↔
        w ∈ o.holderVotes ∧ holdersCanon ((alGet o.holderClaims w).getD []) = c := by
      intro w
      unfold holdersGroup
      simp only [List.mem_map, List.mem_filter]
      constructor
      · rintro ⟨p, ⟨⟨u, hu, rfl⟩, hcn⟩, rfl⟩
        exact ⟨hu, by simpa using hcn⟩
      · rintro ⟨hw, hcn⟩
        exact ⟨(w, (alGet o.holderClaims w).getD []), ⟨⟨w, hw, rfl⟩, by simpa using hcn⟩, rfl⟩
    have hnd : ((holdersGroup o.holderVotes o.holderClaims c).map (·.1)).Nodup := hsub.nodup hwf.2.1
    refine ⟨(holdersGroup o.holderVotes o.holderClaims c).map (·.1), hnd,
      fun w hw => ((hmemG w).mp hw).1, fun w hw => by rw [((hmemG w).mp hw).2, hcan], ?_, ?_,
      sum_bondedPower_le_total h hnd⟩
    · refine ⟨v, (hmemG v).mpr ⟨hv, by rw [hvl, hcan]⟩, ?_⟩
      obtain ⟨hs, hsv⟩ := Option.isSome_iff_exists.mp (hwf.2.2.2.2.2 v hv)
      rw [hsv] at hvl ⊢
      simpa using hvl
    · apply two_thirds' _ h.totalPower
      have : (List.map (fun p => p * 65535 / h.totalPower)
          (List.map h.bondedPower (List.map (fun x => x.fst) (holdersGroup o.holderVotes o.holderClaims c))))
          = (holdersGroup o.holderVotes o.holderClaims c).map fun p => (alGet pw p.1).getD 0 := by
        rw [List.map_map, List.map_map]
        apply List.map_congr_left
        intro p _
        simp [hnorm p.1]
      rw [this]
      exact hsum

/-! ### 6. Bridge lemmas: the source expressions the model was written from -/

theorem fact_oracle_threshold : Generated.oracle_threshold = "sdk.NewInt(66)" := rfl
theorem fact_oracle_required : Generated.oracle_required =
    "types.AttestationVotesPowerThreshold.Mul(totalPower).Add(sdk.NewInt(99)).Quo(sdk.NewInt(100))" := rfl
theorem fact_oracle_epoch_period : Generated.oracle_epoch_period = "ctx.BlockHeight()%5 == 0" := rfl
theorem fact_oracle_try_conds : Generated.oracle_try_conds =
    "!att.Observed && k.GetCurrentEpoch(ctx) > claim.GetEpoch() | err != nil | attestationPower.GTE(requiredPower)" := rfl
theorem fact_oracle_vote_body : Generated.oracle_vote_body =
    "{ att := k.GetAttestation(ctx, details.GetEpoch(), details) if att == nil { att = &types.Attestation{ Epoch: details.GetEpoch(), Observed: false, } } sval := k.StakingKeeper.Validator(ctx, sdk.ValAddress(details.GetClaimer())) for _, vote := range att.Votes { if vote == sval.GetOperator().String() { return att } } att.Votes = append(att.Votes, sval.GetOperator().String()) return att }" := rfl
theorem fact_oracle_handle_conds : Generated.oracle_handle_conds =
    "len(price)%2 == 0 | votes > math.MaxUint16*2/3" := rfl
theorem fact_oracle_median : Generated.oracle_median =
    "price[len(price)/2].Add(price[len(price)/2-1]).QuoInt64(2) | price[len(price)/2]" := rfl
theorem fact_oracle_normalise : Generated.oracle_normalise =
    "sdk.NewUint(power).MulUint64(math.MaxUint16).QuoUint64(totalPower).Uint64()" := rfl
theorem fact_oracle_epoch_order : Generated.oracle_epoch_order =
    "setCurrentEpoch,tryAttestation,deletePriceClaim,DeleteAttestation,tryAttestation,deleteHoldersClaim,DeleteAttestation" := rfl
theorem fact_oracle_price_conds : Generated.oracle_price_conds =
    "sval == nil | k.GetCurrentEpoch(ctx) != msg.GetEpoch() | price.GetName() == requiredPrice && price.Value.IsPositive() | !found | err != nil" := rfl
theorem fact_oracleThresholdNum : Generated.oracleThresholdNum = 66 := rfl
theorem fact_oracleThresholdAdd : Generated.oracleThresholdAdd = 99 := rfl
theorem fact_oracleThresholdDen : Generated.oracleThresholdDen = 100 := rfl

/-! ### 7. Non-vacuity -/

/-- 1 5 5 9 9 → 5. -/
example : weightedMedian [(5, 2), (1, 1), (9, 2)] = some 5 := by
  have hs : sortByValue [(5, 2), (1, 1), (9, 2)] = [(1, 1), (5, 2), (9, 2)] := by
    simp [sortByValue, List.mergeSort, List.MergeSort.Internal.splitInTwo]
  simp only [weightedMedian, hs]; decide

/-- Even total weight: the truncated mean of the two middle values. -/
example : weightedMedian [(4, 1), (7, 1)] = some 5 := by
  have hs : sortByValue [(4, 1), (7, 1)] = [(4, 1), (7, 1)] := by
    simp [sortByValue, List.mergeSort, List.MergeSort.Internal.splitInTwo]
  simp only [weightedMedian, hs]; decide

example : weightedMedian [] = none := by
  have hs : sortByValue [] = [] := by simp [sortByValue]
  simp only [weightedMedian, hs]; decide

def exHub : Hub := { height := 5, staking := [⟨"a", 5, true⟩, ⟨"b", 3, true⟩, ⟨"c", 2, true⟩] }
def exPs (x : Int) : List (String × Int) := [("eth", x), ("ethereum/gas", 1), ("bnb", 1), ("bsc/gas", 1)]

/-- The state after `a` reported eth = 10 and `b` reported eth = 12 in epoch 1. -/
def exO : OracleSt :=
  { priceClaims := [("a", exPs 10), ("b", exPs 12)], priceVotes := ["a", "b"] }

/-- `exO` is reached from the initial state by two claims; a repeated claim by `a` is counted once
    and only its latest values are kept. -/
example : (match oraclePriceClaim exHub {} "a" 1 (exPs 11) with
    | .ok o1 => match oraclePriceClaim exHub o1 "a" 1 (exPs 10) with
      | .ok o2 => match oraclePriceClaim exHub o2 "b" 1 (exPs 12) with
        | .ok o3 => o3.priceVotes == exO.priceVotes && o3.priceClaims == exO.priceClaims && o3.epoch == 1
        | _ => false
      | _ => false
    | _ => false) = true := by decide

example : exO.WF := by
  refine ⟨by decide, by decide, by decide, by decide, by decide, by decide⟩


/-- An epoch in which prices change: `a` and `b` hold 8 of 10, the eth price becomes the
    weighted median 10 (weights 32767 and 19660). -/
example : ∃ o', oracleEndBlock exHub exO 66 99 100 = .ok o' ∧ ("eth", 10) ∈ o'.prices ∧
    o'.prices ≠ exO.prices ∧ o'.epoch = 2 ∧ o'.priceVotes = [] := by
  have hrun : (match oracleEndBlock exHub exO 66 99 100 with | .ok _ => true | _ => false) = true := by
    decide
  cases hok : oracleEndBlock exHub exO 66 99 100 with
  | error e => rw [hok] at hrun; cases hrun
  | ok o' =>
    rcases endBlock_cases hok with ⟨hb, _⟩ | ⟨_, hp⟩
    · exact absurd (by decide) hb
    · obtain ⟨pw, hpw, hpr⟩ := processEpoch_prices_reached hp (by decide) (by decide)
      have hpowers : exHub.normalizedPowers = .ok [("a", 32767), ("b", 19660), ("c", 13107)] := rfl
      rw [hpowers] at hpw
      cases hpw
      have hrep : priceReports [("a", 32767), ("b", 19660), ("c", 13107)] exO.priceVotes exO.priceClaims "eth"
          = [(10, 32767), (12, 19660)] := by decide
      have hs : sortByValue [(10, 32767), (12, 19660)] = [(10, 32767), (12, 19660)] := by
        simp [sortByValue, List.mergeSort, List.MergeSort.Internal.splitInTwo]
      have hmem : ("eth", 10) ∈ o'.prices := by
        rw [hpr, mem_computePrices_iff, hrep]
        refine ⟨by decide, ?_⟩
        simp only [weightedMedian, hs]; decide
      obtain ⟨he, hv, _⟩ := processEpoch_frame hp
      refine ⟨o', rfl, hmem, ?_, he, hv⟩
      intro h
      rw [h] at hmem
      exact absurd hmem (by decide)

/-- Without the quorum (only `c`, 2 of 10, reported) the epoch passes and prices stay. -/
example : (match oracleEndBlock exHub { priceClaims := [("c", exPs 10)], priceVotes := ["c"], prices := [("eth", 7)] } 66 99 100 with
    | .ok o' => o'.prices == [("eth", 7)] && o'.epoch == 2 && o'.priceVotes == [] && o'.priceClaims == []
    | _ => false) = true := by decide

/-- Off the boundary nothing happens. -/
example : (match oracleEndBlock { exHub with height := 6 } exO 66 99 100 with
    | .ok o' => o'.epoch == 1 && o'.priceVotes == ["a", "b"] | _ => false) = true := by decide

/-- A holder list adopted by `a` and `b` (52427 of 65535 > 43690); `c` disagrees. -/
example : computeHolders [("a", 32767), ("b", 19660), ("c", 13107)] ["a", "c", "b"]
    [("a", [("0xa", 1)]), ("b", [("0xa", 1)]), ("c", [("0xa", 2)])] = some [("0xa", 1)] := by decide

/-- `a` alone (32767 ≤ 43690) is not enough. -/
example : computeHolders [("a", 32767), ("b", 19660), ("c", 13107)] ["a", "c", "b"]
    [("a", [("0xa", 1)]), ("b", [("0xa", 3)]), ("c", [("0xa", 2)])] = none := by decide

/-- An epoch in which the holder list changes. -/
example : (match oracleEndBlock exHub
      { holderClaims := [("a", [("0xa", 1)]), ("b", [("0xa", 1)])], holderVotes := ["a", "b"] } 66 99 100 with
    | .ok o' => o'.holders == [("0xa", 1)] && o'.holderVotes == [] && o'.epoch == 2
    | _ => false) = true := by decide

/-- The arithmetic of `two_thirds` on 8 of 10. -/
example : sumNats ([5, 3].map fun p => p * 65535 / 10) > 43690 ∧ 3 * sumNats [5, 3] > 2 * 10 := by decide

end Mhub2.C18
