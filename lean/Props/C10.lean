/-
  C10 — Batches are well formed.
  Property theorems only; helper lemmas live in Lemmas/Pool.lean.
-/
import Mhub2.Votes
import Mhub2.Step
import Mhub2.Generated.Facts
import Lemmas.Pool
namespace Mhub2.C10
open Mhub2

/-! `PoolKeysDistinct`, `PoolSorted` (strictly ascending by `poolKey` w.r.t. `bytesLt`) and
    `PoolIdsDistinct` are defined in Lemmas/Pool.lean. -/

/-- 1. A stored batch is non-empty and holds at most `maxN` transfers … -/
theorem batch_nonempty_bounded {h h' : Hub} {chain tok : String} {maxN : Nat} {b : Batch}
    (hb : h.buildBatch chain tok maxN = (h', some b)) : b.txs ≠ [] ∧ b.txs.length ≤ maxN := by
  obtain ⟨hne, htx, _⟩ := buildBatch_some hb
  rw [htx]
  exact ⟨hne, by unfold selectForBatch; exact List.length_take_le _ _⟩

/-- … and when no batch is returned nothing was stored and no counter consumed. -/
theorem batch_none_noop {h h' : Hub} {chain tok : String} {maxN : Nat}
    (hb : h.buildBatch chain tok maxN = (h', none)) : h' = h :=
  (buildBatch_none hb).1

/-- 2. Every transfer of a batch is of the batch's token and was in the pool. -/
theorem batch_uniform {h h' : Hub} {chain tok : String} {maxN : Nat} {b : Batch}
    (hb : h.buildBatch chain tok maxN = (h', some b)) :
    b.extToken = tok ∧ ∀ t ∈ b.txs, t.extToken = tok ∧ t ∈ (h.chain chain).pool := by
  obtain ⟨_, htx, htok, _⟩ := buildBatch_some hb
  refine ⟨htok, ?_⟩
  intro t ht
  rw [htx] at ht
  exact ⟨(mem_selectForBatch ht).2, (mem_selectForBatch ht).1⟩

/-- 3. Building a batch takes exactly the selected entries out of the pool: the new pool is the
    old pool (same order) without the entries of the batch. -/
theorem batch_takes_from_pool {h h' : Hub} {chain tok : String} {maxN : Nat} {b : Batch}
    (hb : h.buildBatch chain tok maxN = (h', some b))
    (hd : PoolKeysDistinct (h.chain chain).pool) :
    (h'.chain chain).pool = (h.chain chain).pool.filter fun u => decide (u ∉ b.txs) := by
  obtain ⟨_, htx, _, _, _, _, hpool, _⟩ := buildBatch_some hb
  rw [hpool, htx]
  exact foldl_eraseByKey_eq_filter_mem poolKey _ _ hd (fun t ht => (mem_selectForBatch ht).1)

/-- … in particular, as sets. -/
theorem batch_takes_from_pool_mem {h h' : Hub} {chain tok : String} {maxN : Nat} {b : Batch}
    (hb : h.buildBatch chain tok maxN = (h', some b))
    (hd : PoolKeysDistinct (h.chain chain).pool) (u : Ste) :
    u ∈ (h'.chain chain).pool ↔ u ∈ (h.chain chain).pool ∧ u ∉ b.txs := by
  rw [batch_takes_from_pool hb hd, List.mem_filter]
  simp

/-! ### 4. The batch holds the best-paying transfers of its token -/

/-- `insertByKey poolKey` keeps the pool in store order. -/
theorem insert_preserves_sorted {pool : List Ste} (x : Ste) (h : PoolSorted pool) :
    PoolSorted (insertByKey poolKey x pool) := insertByKey_sorted poolKey h

/-- `eraseByKey` keeps the pool in store order. -/
theorem erase_preserves_sorted {pool : List Ste} (k : Bytes) (h : PoolSorted pool) :
    PoolSorted (eraseByKey poolKey k pool) := eraseByKey_sorted poolKey h

/-- Store order of the pool is preserved by `buildBatch`. -/
theorem build_preserves_sorted {h h' : Hub} {chain tok : String} {maxN : Nat} {ob : Option Batch}
    (hb : h.buildBatch chain tok maxN = (h', ob)) (hs : PoolSorted (h.chain chain).pool) :
    PoolSorted (h'.chain chain).pool := by
  cases ob with
  | none => rw [(buildBatch_none hb).1]; exact hs
  | some b =>
    rw [batch_takes_from_pool hb hs.keysDistinct]
    exact List.Pairwise.filter _ hs

/-- Fixed-width big-endian bytes are ordered like the numbers (the fact behind fee ordering). -/
theorem be_order {w n m : Nat} (hn : n < 256 ^ w) (hm : m < 256 ^ w) :
    bytesLt (beBytes w n) (beBytes w m) = true ↔ n < m := by
  rw [bytesLt_beBytes w n m hn hm]; simp

/-- Keys of one token compare by their `fee ‖ id` suffix … -/
theorem same_token_key_order (tokBytes x y : Bytes) :
    bytesLt (tokBytes ++ x) (tokBytes ++ y) = bytesLt x y := bytesLt_append_left tokBytes x y

/-- … which compares like the pair `(fee, id)`. -/
theorem fee_id_order {f f' i i' : Nat} (hf : f < 2 ^ 256) (hf' : f' < 2 ^ 256)
    (hi : i < 2 ^ 64) (hi' : i' < 2 ^ 64) :
    bytesLt (fill32 f ++ be8 i) (fill32 f' ++ be8 i') = true ↔ f < f' ∨ (f = f' ∧ i < i') :=
  bytesLt_fee_id hf hf' hi hi'

/-- With the pool in store order, fees in `[0, 2^256)` and ids below `2^64`: every transfer in the
    batch beats every transfer of the same token left in the pool — higher fee, or equal fee and
    higher id. -/
theorem batch_top_fees {h h' : Hub} {chain tok : String} {maxN : Nat} {b : Batch}
    (hb : h.buildBatch chain tok maxN = (h', some b))
    (hs : PoolSorted (h.chain chain).pool)
    (hfee : ∀ v ∈ (h.chain chain).pool, 0 ≤ v.fee ∧ v.fee < 2 ^ 256)
    (hid : ∀ v ∈ (h.chain chain).pool, v.id < 2 ^ 64)
    {t u : Ste} (ht : t ∈ b.txs) (hu : u ∈ (h.chain chain).pool) (hutok : u.extToken = tok)
    (hun : u ∉ b.txs) :
    u.fee < t.fee ∨ (u.fee = t.fee ∧ u.id < t.id) := by
  obtain ⟨_, htx, _⟩ := buildBatch_some hb
  rw [htx] at ht hun
  obtain ⟨htp, httok⟩ := mem_selectForBatch ht
  have hlt := selectForBatch_lt hs ht hu hutok hun
  exact (poolKey_lt_iff (by rw [hutok, httok]) (hfee u hu) (hfee t htp) (hid u hu) (hid t htp)).mp hlt

/-- A batch that is not full leaves nothing of its token behind. -/
theorem batch_not_full_takes_all {h h' : Hub} {chain tok : String} {maxN : Nat} {b : Batch}
    (hb : h.buildBatch chain tok maxN = (h', some b)) (hlen : b.txs.length < maxN)
    {u : Ste} (hu : u ∈ (h.chain chain).pool) (hutok : u.extToken = tok) : u ∈ b.txs := by
  obtain ⟨_, htx, _⟩ := buildBatch_some hb
  rw [htx] at hlen ⊢
  exact selectForBatch_all hlen hu hutok

/-- 5a. Batch nonces are consecutive per chain. -/
theorem batch_nonce_gapfree {h h' : Hub} {chain tok : String} {maxN : Nat} {b : Batch}
    (hb : h.buildBatch chain tok maxN = (h', some b)) :
    b.nonce = (h.chain chain).lastBatchNonce + 1 ∧ (h'.chain chain).lastBatchNonce = b.nonce := by
  obtain ⟨_, _, _, hn, _, _, _, hn', _⟩ := buildBatch_some hb
  exact ⟨hn, by rw [hn', hn]⟩

/-- 5b. The outgoing sequence is consecutive per chain. -/
theorem sequence_gapfree {h h' : Hub} {chain tok : String} {maxN : Nat} {b : Batch}
    (hb : h.buildBatch chain tok maxN = (h', some b)) :
    b.seq = (h.chain chain).outSeq + 1 ∧ (h'.chain chain).outSeq = b.seq := by
  obtain ⟨_, _, _, _, hs, _, _, _, hs', _⟩ := buildBatch_some hb
  exact ⟨hs, by rw [hs', hs]⟩

/-- 5c. A new signer set takes the next set nonce and the next outgoing sequence number; the
    batch nonce is not touched. -/
theorem signer_set_counters {h h' : Hub} {chain : String} (hs : h.createSignerSet chain = .ok h') :
    ∃ s ∈ (h'.chain chain).sets,
      s.seq = (h.chain chain).outSeq + 1 ∧ s.nonce = (h.chain chain).latestSetNonce + 1 ∧
      s.height = h.height ∧
      (h'.chain chain).outSeq = s.seq ∧ (h'.chain chain).latestSetNonce = s.nonce ∧
      (h'.chain chain).lastBatchNonce = (h.chain chain).lastBatchNonce ∧
      (h'.chain chain).pool = (h.chain chain).pool := by
  unfold Hub.createSignerSet at hs
  simp only [bind, Except.bind] at hs
  split at hs
  · simp at hs
  · rename_i cur _
    simp only [pure, Except.pure, Except.ok.injEq] at hs
    subst hs
    rw [chain_setChain]
    exact ⟨_, mem_insertByKey _ _ _, rfl, rfl, rfl, rfl, rfl, rfl, rfl⟩

/-- 5d (stretch). Nothing but batch building and signer-set creation consumes a batch nonce or a
    sequence number: every operation of the model other than `reset` (which wipes the state),
    `beginBlock` (which runs `createSignerSetTxs` and `createBatches`) and `reqBatch` leaves
    `lastBatchNonce` and `outSeq` of every chain unchanged — whether it succeeds or fails.  The
    per-function versions (`quiet_cancelMsg`, `quiet_sendToExternal`, `quiet_endBlock`,
    `quiet_batchExecuted`, `quiet_cancelBatch`, `quiet_refundExpired`, …) are in Lemmas/Pool.lean. -/
theorem counters_only_by_batches_and_sets (h : Hub) (op : Op) (hop : op.mayAdvanceCounters = false)
    (c : String) :
    ((apply h op).1.chain c).lastBatchNonce = (h.chain c).lastBatchNonce ∧
    ((apply h op).1.chain c).outSeq = (h.chain c).outSeq :=
  ⟨(quiet_apply h op hop c).1, (quiet_apply h op hop c).2.1⟩

/-- The hypothesis `PoolSorted` of `batch_top_fees` (and of the C12 theorems) holds in every state
    reachable from genesis: the pool is only ever changed by `insertByKey poolKey` / `eraseByKey`. -/
theorem reachable_pool_sorted (ops : List Op) (c : String) : PoolSorted ((runOps ops).chain c).pool :=
  runOps_sorted ops c

/-- Globally: in every state reachable from genesis, every stored batch of every chain is
    non-empty, has at most 100 transfers, and all its transfers are of the batch's token (batches are
    only ever stored by `buildBatch … 100` and otherwise only deleted). -/
theorem reachable_batches_wf (ops : List Op) (c : String) :
    ∀ b ∈ ((runOps ops).chain c).batches,
      b.txs ≠ [] ∧ b.txs.length ≤ 100 ∧ ∀ t ∈ b.txs, t.extToken = b.extToken :=
  (runOps_inv ops c).2.2

/-- … and no transfer id, in the pool or in a stored batch, is ahead of the id counter or names two
    different transfers (so a transfer sits in the pool or in batches under one id only). -/
theorem reachable_ids_wf (ops : List Op) (c : String) :
    (∀ u, ((runOps ops).chain c).Has u → u.id ≤ ((runOps ops).chain c).lastSteId) ∧
    (∀ u v, ((runOps ops).chain c).Has u → ((runOps ops).chain c).Has v → u.id = v.id → u = v) :=
  (runOps_inv ops c).2.1

/-- `requestBatch` is `buildBatch` for the token registered under `denom` with the maximal size
    100, so every statement above applies to it. -/
theorem request_batch_is_build {h h' : Hub} {chain denom : String} {ob : Option Batch}
    (hr : h.requestBatch chain denom = .ok (h', ob)) :
    ∃ t, h.tokenByDenom chain denom = some t ∧ h.hasChain chain = true ∧
      h.buildBatch chain t.extId 100 = (h', ob) := by
  unfold Hub.requestBatch at hr
  split at hr
  · simp [failM] at hr
  · rename_i hch
    split at hr
    · simp [failM] at hr
    · rename_i t ht
      simp only [Except.ok.injEq] at hr
      exact ⟨t, ht, by simpa using hch, hr⟩

/-! ### 6. `createBatches` visits the pool's tokens once each, in ascending byte order -/

/-- `createBatches` runs on even heights only and then folds `buildBatch … 100` over
    `batchTokenIds pool`, which is duplicate-free, strictly ascending in the byte order of the
    token-id strings, and consists exactly of the token ids present in the pool. -/
theorem create_batches_sorted_tokens (h : Hub) (chain : String) :
    (h.createBatches chain =
      if h.height % 2 == 0 then
        (batchTokenIds (h.chain chain).pool).foldl (fun h id => (h.buildBatch chain id 100).1) h
      else h) ∧
    (batchTokenIds (h.chain chain).pool).Nodup ∧
    (batchTokenIds (h.chain chain).pool).Pairwise
      (fun a b => bytesLt (strBytes a) (strBytes b) = true) ∧
    ∀ id, id ∈ batchTokenIds (h.chain chain).pool ↔ ∃ s ∈ (h.chain chain).pool, s.extToken = id := by
  have hnd : (batchTokenIds (h.chain chain).pool).Nodup :=
    isort_nodup _ (nodup_eraseDups _)
  refine ⟨createBatches_eq h chain, hnd, ?_, ?_⟩
  · have hs := isort_sorted (fun a b : String => bytesLt (strBytes a) (strBytes b))
      (fun a b => bytesLt_asymm) (fun a b c => bytesLt_trans)
      ((h.chain chain).pool.map (·.extToken)).eraseDups
    have hboth := List.Pairwise.and hs (List.nodup_iff_pairwise_ne.mp hnd)
    refine List.Pairwise.imp ?_ hboth
    intro a b hab
    cases hlt : bytesLt (strBytes a) (strBytes b) with
    | true => rfl
    | false => exact absurd (strBytes_inj (bytesLt_total hlt hab.1)) hab.2
  · intro id
    unfold batchTokenIds
    rw [mem_isort, List.mem_eraseDups, List.mem_map]

/-! ### 7. Bridge lemmas: the source expressions the model was written from -/

theorem fact_batch_tx_size : Generated.batch_tx_size = "100" := rfl
theorem fact_build_batch_stop : Generated.build_batch_stop = "len(selectedStes) == maxElements" := rfl
theorem fact_build_batch_nonce : Generated.build_batch_nonce =
    "k.incrementLastOutgoingBatchNonce(ctx, chainId)" := rfl
theorem fact_build_batch_txs : Generated.build_batch_txs = "selectedStes" := rfl
theorem fact_build_batch_token : Generated.build_batch_token = "externalTokenId" := rfl
theorem fact_create_batch_period : Generated.create_batch_period = "ctx.BlockHeight()%2 == 0" := rfl
theorem fact_create_batch_call : Generated.create_batch_call = "k.BuildBatchTx(ctx, chainId, id, 100)" := rfl
theorem fact_create_batch_sorts : Generated.create_batch_sorts = "true" := rfl
theorem fact_pool_by_coin_prefix : Generated.pool_by_coin_prefix =
    "prefix.NewStore(ctx.KVStore(k.storeKey), bytes.Join([][]byte{{types.SendToExternalKey}, chainId.Bytes(), []byte(externalTokenId)}, []byte{}))" := rfl
theorem fact_pool_by_coin_reverse : Generated.pool_by_coin_reverse = "true" := rfl
theorem fact_key_MakeSendToExternalKey : Generated.key_MakeSendToExternalKey =
    "bytes.Join([][]byte{{SendToExternalKey}, chainId.Bytes(), []byte(fee.ExternalTokenId), fee.Amount.BigInt().FillBytes(amount), sdk.Uint64ToBigEndian(id)}, []byte{})" := rfl
theorem fact_key_MakeBatchTxKey : Generated.key_MakeBatchTxKey =
    "bytes.Join([][]byte{{BatchTxPrefixByte}, chainId.Bytes(), []byte(externalTokenId), sdk.Uint64ToBigEndian(nonce)}, []byte{})" := rfl


/-! ### Non-vacuity -/

def exSte (id : Nat) (fee : Int) : Ste :=
  { id := id, sender := "a", recipient := "r", tokenId := 1, extToken := "T", amount := 5, fee := fee,
    comm := 0, chain := "e", txHash := "x", createdAt := 0, refundAddr := "a", refundChain := "hub" }

/-- Three transfers of token "T" in store order: (fee 1, id 2), (fee 3, id 1), (fee 3, id 3). -/
def exHub : Hub :=
  { chains := ["e"], cs := [("e", { pool := [exSte 2 1, exSte 1 3, exSte 3 3], lastSteId := 3 })],
    height := 2 }

theorem exHub_pool : (exHub.chain "e").pool = [exSte 2 1, exSte 1 3, exSte 3 3] := by rfl

theorem exHub_sorted : PoolSorted (exHub.chain "e").pool := by
  rw [exHub_pool]
  simp only [PoolSorted, KeySorted, List.pairwise_cons, List.mem_cons, List.not_mem_nil, or_false,
    forall_eq_or_imp, forall_eq, false_imp_iff, implies_true, List.Pairwise.nil, and_true]
  refine ⟨⟨?_, ?_⟩, ?_⟩ <;>
  · rw [poolKey_assoc, poolKey_assoc]
    show bytesLt (strBytes "T" ++ _) (strBytes "T" ++ _) = true
    rw [bytesLt_append_left]
    decide

theorem exHub_select : selectForBatch (exHub.chain "e").pool "T" 2 = [exSte 3 3, exSte 1 3] := by
  rw [exHub_pool]
  unfold selectForBatch
  have : List.filter (fun s => isPrefix (strBytes "T") (poolKey s) && s.extToken == "T")
      [exSte 2 1, exSte 1 3, exSte 3 3] = [exSte 2 1, exSte 1 3, exSte 3 3] := by
    apply List.filter_eq_self.mpr
    intro a ha
    simp only [List.mem_cons, List.not_mem_nil, or_false] at ha
    rcases ha with rfl | rfl | rfl <;> exact batchFilter_of_token rfl
  rw [this]; rfl

/-- All hypotheses of the C10 theorems hold for `exHub`: a batch of size 2 is built, it holds the two
    fee-3 transfers (higher id first) and leaves the fee-1 transfer. -/
example : ∃ h' b, exHub.buildBatch "e" "T" 2 = (h', some b) ∧ b.txs = [exSte 3 3, exSte 1 3] ∧
    b.nonce = 1 ∧ b.seq = 1 ∧
    PoolSorted (exHub.chain "e").pool ∧
    (∀ v ∈ (exHub.chain "e").pool, 0 ≤ v.fee ∧ v.fee < 2 ^ 256) ∧
    (∀ v ∈ (exHub.chain "e").pool, v.id < 2 ^ 64) ∧
    (h'.chain "e").pool = [exSte 2 1] := by
  cases hb : exHub.buildBatch "e" "T" 2 with
  | mk h' ob =>
    cases ob with
    | none =>
      have := (buildBatch_none hb).2
      rw [exHub_select] at this; cases this
    | some b =>
      obtain ⟨_, htx, _, hn, hs, _⟩ := buildBatch_some hb
      have hfee : ∀ v ∈ (exHub.chain "e").pool, 0 ≤ v.fee ∧ v.fee < 2 ^ 256 := by
        rw [exHub_pool]; intro v hv
        simp only [List.mem_cons, List.not_mem_nil, or_false] at hv
        rcases hv with rfl | rfl | rfl <;> decide
      have hid : ∀ v ∈ (exHub.chain "e").pool, v.id < 2 ^ 64 := by
        rw [exHub_pool]; intro v hv
        simp only [List.mem_cons, List.not_mem_nil, or_false] at hv
        rcases hv with rfl | rfl | rfl <;> decide
      refine ⟨h', b, rfl, by rw [htx, exHub_select], hn, hs, exHub_sorted, hfee, hid, ?_⟩
      rw [batch_takes_from_pool hb exHub_sorted.keysDistinct, htx, exHub_select, exHub_pool]
      rfl

/-- With room for 5 the batch is not full and takes everything of the token. -/
example : ∃ h' b, exHub.buildBatch "e" "T" 5 = (h', some b) ∧ b.txs.length < 5 := by
  cases hb : exHub.buildBatch "e" "T" 5 with
  | mk h' ob =>
    have hlen := selectForBatch_length (exHub.chain "e").pool "T" 5
    have hmem : exSte 2 1 ∈ (exHub.chain "e").pool.filter (batchFilter "T") :=
      List.mem_filter.mpr ⟨by rw [exHub_pool]; simp, batchFilter_of_token rfl⟩
    have hle := List.length_filter_le (batchFilter "T") (exHub.chain "e").pool
    rw [exHub_pool] at hle
    simp only [List.length_cons, List.length_nil] at hle
    cases ob with
    | none =>
      have h0 := (buildBatch_none hb).2
      rw [h0] at hlen
      have := List.length_pos_of_mem hmem
      rw [exHub_pool] at this hlen
      simp only [List.length_nil] at hlen
      omega
    | some b =>
      obtain ⟨_, htx, _⟩ := buildBatch_some hb
      refine ⟨h', b, rfl, ?_⟩
      rw [htx, hlen, exHub_pool]; omega

/-- No batch for a token that is not in the pool: nothing changes. -/
example : exHub.buildBatch "e" "U" 2 = (exHub, none) := by
  cases hb : exHub.buildBatch "e" "U" 2 with
  | mk h' ob =>
    cases ob with
    | none => rw [(buildBatch_none hb).1]
    | some b =>
      obtain ⟨hne, htx, _⟩ := buildBatch_some hb
      exfalso
      cases hsel : selectForBatch (exHub.chain "e").pool "U" 2 with
      | nil => exact hne hsel
      | cons t ts =>
        have ht : t ∈ selectForBatch (exHub.chain "e").pool "U" 2 := by rw [hsel]; exact List.mem_cons_self
        obtain ⟨hm, htok⟩ := mem_selectForBatch ht
        rw [exHub_pool] at hm
        simp only [List.mem_cons, List.not_mem_nil, or_false] at hm
        rcases hm with rfl | rfl | rfl <;> exact absurd htok (by decide)

example : (match ({ chains := ["e"], staking := [] } : Hub).createSignerSet "e" with
    | .ok h' => (h'.chain "e").outSeq == 1 && (h'.chain "e").latestSetNonce == 1
    | _ => false) = true := by decide

end Mhub2.C10
