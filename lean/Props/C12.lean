/-
  C12 — Cancellation and expiry refund exactly, once, to the right party.
  Property theorems only; helper lemmas live in Lemmas/Pool.lean.
-/
import Mhub2.Votes
import Mhub2.Step
import Mhub2.Generated.Facts
import Lemmas.Pool
namespace Mhub2.C12
open Mhub2

/-- A successful `cancelMsg` is a successful `cancelSte` with a non-zero id on a known chain. -/
theorem cancelMsg_ok {h h' : Hub} {sender chain : String} {id : Nat}
    (hc : h.cancelMsg sender chain id = .ok h') :
    id ≠ 0 ∧ h.hasChain chain = true ∧ h.cancelSte chain id sender = (h', none) := by
  unfold Hub.cancelMsg at hc
  split at hc
  · simp [failM] at hc
  · rename_i hid
    split at hc
    · simp [failM] at hc
    · rename_i hch
      split at hc
      · rename_i h'' heq
        simp only [Except.ok.injEq] at hc
        subst hc
        exact ⟨by simpa using hid, by simpa using hch, heq⟩
      · simp at hc

/-- 1. A cancellation only succeeds for an entry that is still in the pool (unbatched) and only
    for its sender. -/
theorem cancel_authorised {h h' : Hub} {sender chain : String} {id : Nat}
    (hc : h.cancelMsg sender chain id = .ok h') :
    ∃ s ∈ (h.chain chain).pool, s.id = id ∧ s.sender = sender := by
  obtain ⟨_, _, hs⟩ := cancelMsg_ok hc
  obtain ⟨s, hl, hsnd, _⟩ := cancelSte_none hs
  exact ⟨s, (cancelLookup_some hl).1, (cancelLookup_some hl).2, hsnd.symm⟩


/-- An id that is not in the pool — for instance because its transfer has been moved into a batch —
    cannot be cancelled. -/
theorem cancel_batched_fails {h : Hub} {sender chain : String} {id : Nat}
    (hno : ∀ s ∈ (h.chain chain).pool, s.id ≠ id) :
    ∃ msg, h.cancelMsg sender chain id = .error (.fail msg) := by
  have hnone : h.cancelLookup chain id = none := by
    cases hl : h.cancelLookup chain id with
    | none => rfl
    | some t => exact absurd (cancelLookup_some hl).2 (hno t (cancelLookup_some hl).1)
  unfold Hub.cancelMsg
  split
  · exact ⟨_, rfl⟩
  · split
    · exact ⟨_, rfl⟩
    · rw [cancelSte_eq, hnone]
      exact ⟨_, rfl⟩

/-! ### 2. The entry is removed; a second cancellation fails -/

/-- Under unique ids the entry a cancellation finds is *the* pool entry with that id. -/
theorem cancel_lookup_unique {h : Hub} {chain : String} {s : Ste}
    (hids : PoolIdsDistinct (h.chain chain).pool) (hs : s ∈ (h.chain chain).pool) :
    h.cancelLookup chain s.id = some s := by
  cases hl : h.cancelLookup chain s.id with
  | none => exact absurd rfl (cancelLookup_none hl s hs)
  | some t =>
    obtain ⟨ht, hid⟩ := cancelLookup_some hl
    rw [hids t ht s hs hid]

/-- The `cancelSte` form of `cancel_removes` (also covers the expiry path). -/
theorem cancelSte_removes {h h' : Hub} {sender chain : String} {id : Nat}
    (hs : h.cancelSte chain id sender = (h', none)) (hsorted : PoolSorted (h.chain chain).pool) :
    ∃ s, h.cancelLookup chain id = some s ∧ ∀ u ∈ (h'.chain chain).pool, poolKey u ≠ poolKey s := by
  obtain ⟨s, hl, _, _, _, hcases⟩ := cancelSte_none_pool hs
  refine ⟨s, hl, ?_⟩
  intro u hu
  rcases hcases with ⟨_, hp, _⟩ | ⟨_, _, _, new, _, hp, _⟩
  · rw [hp] at hu
    exact not_mem_eraseByKey poolKey (KeySorted.distinct poolKey hsorted) hu
  · rw [hp] at hu
    exact not_mem_eraseByKey poolKey
      (KeySorted.distinct poolKey (insertByKey_sorted poolKey hsorted)) hu

/-- After a successful cancellation no entry with the cancelled entry's store key is left in the
    pool of `chain` (the pool being in store order, hence with distinct keys). -/
theorem cancel_removes {h h' : Hub} {sender chain : String} {id : Nat}
    (hc : h.cancelMsg sender chain id = .ok h') (hsorted : PoolSorted (h.chain chain).pool) :
    ∃ s, h.cancelLookup chain id = some s ∧ ∀ u ∈ (h'.chain chain).pool, poolKey u ≠ poolKey s :=
  cancelSte_removes (cancelMsg_ok hc).2.2 hsorted

/-- The `cancelSte` form of `cancel_pool_hub` (also covers the expiry path). -/
theorem cancelSte_pool_hub {h h' : Hub} {sender chain : String} {id : Nat} {s : Ste}
    (hs : h.cancelSte chain id sender = (h', none)) (hl : h.cancelLookup chain id = some s)
    (hr : s.refundChain = "hub" ∨ s.refundChain = "") :
    (h'.chain chain).pool = eraseByKey poolKey (poolKey s) (h.chain chain).pool ∧
    (h'.chain chain).lastSteId = (h.chain chain).lastSteId ∧
    ∀ c', chain ≠ c' → h'.chain c' = h.chain c' := by
  obtain ⟨s', hl', _, _, hcases⟩ := cancelSte_none hs
  rw [hl] at hl'
  cases hl'
  have key : ∃ acc, h' = (h.refundCredit acc (h.denomOfTokenId s.tokenId) (h.refundValue chain s)).cancelFinish chain s := by
    rcases hcases with ⟨_, he⟩ | ⟨_, he⟩ | ⟨h1, h2, _⟩
    · exact ⟨_, he⟩
    · exact ⟨_, he⟩
    · rcases hr with hr | hr
      · exact absurd hr h2
      · exact absurd hr h1
  obtain ⟨acc, he⟩ := key
  subst he
  refine ⟨by rw [cancelFinish_pool, refundCredit_chain], by rw [cancelFinish_lastSteId, refundCredit_chain], ?_⟩
  intro c' hne
  rw [cancelFinish_chain_other _ _ hne, refundCredit_chain]

/-- When the refund goes to a hub account (or stays in the module) the cancellation only deletes:
    the pool of `chain` loses the entry and every other chain state is untouched. -/
theorem cancel_pool_hub {h h' : Hub} {sender chain : String} {id : Nat} {s : Ste}
    (hc : h.cancelMsg sender chain id = .ok h') (hl : h.cancelLookup chain id = some s)
    (hr : s.refundChain = "hub" ∨ s.refundChain = "") :
    (h'.chain chain).pool = eraseByKey poolKey (poolKey s) (h.chain chain).pool ∧
    (h'.chain chain).lastSteId = (h.chain chain).lastSteId ∧
    ∀ c', chain ≠ c' → h'.chain c' = h.chain c' :=
  cancelSte_pool_hub (cancelMsg_ok hc).2.2 hl hr

/-- The `cancelSte` form of `cancel_removes_id`. -/
theorem cancelSte_removes_id {h h' : Hub} {sender chain : String} {id : Nat}
    (hs : h.cancelSte chain id sender = (h', none)) (hsorted : PoolSorted (h.chain chain).pool)
    (hids : PoolIdsDistinct (h.chain chain).pool) (hfresh : id ≤ (h.chain chain).lastSteId) :
    ∀ u ∈ (h'.chain chain).pool, u.id ≠ id := by
  obtain ⟨s, hl, _, _, _, hcases⟩ := cancelSte_none_pool hs
  obtain ⟨hsmem, hsid⟩ := cancelLookup_some hl
  intro u hu huid
  rcases hcases with ⟨_, hp, _⟩ | ⟨_, _, _, new, hnew, hp, _⟩
  · rw [hp] at hu
    have hk := not_mem_eraseByKey poolKey (KeySorted.distinct poolKey hsorted) hu
    have hup := mem_of_mem_eraseByKey poolKey hu
    rw [hids u hup s hsmem (by rw [huid, hsid])] at hk
    exact hk rfl
  · rw [hp] at hu
    have hk := not_mem_eraseByKey poolKey
      (KeySorted.distinct poolKey (insertByKey_sorted poolKey hsorted)) hu
    rcases mem_insertByKey_cases poolKey (mem_of_mem_eraseByKey poolKey hu) with e | hup
    · rw [e, hnew] at huid; omega
    · rw [hids u hup s hsmem (by rw [huid, hsid])] at hk
      exact hk rfl

/-- With unique ids (and the id counter not behind the cancelled id, so that a refund entry
    created on the same chain gets a different id) no entry with that id is left. -/
theorem cancel_removes_id {h h' : Hub} {sender chain : String} {id : Nat}
    (hc : h.cancelMsg sender chain id = .ok h') (hsorted : PoolSorted (h.chain chain).pool)
    (hids : PoolIdsDistinct (h.chain chain).pool) (hfresh : id ≤ (h.chain chain).lastSteId) :
    ∀ u ∈ (h'.chain chain).pool, u.id ≠ id :=
  cancelSte_removes_id (cancelMsg_ok hc).2.2 hsorted hids hfresh

/-- Hence a second cancellation of the same id fails, whoever asks. -/
theorem cancel_once {h h' : Hub} {sender chain : String} {id : Nat}
    (hc : h.cancelMsg sender chain id = .ok h') (hsorted : PoolSorted (h.chain chain).pool)
    (hids : PoolIdsDistinct (h.chain chain).pool) (hfresh : id ≤ (h.chain chain).lastSteId)
    (sender' : String) : ∃ msg, h'.cancelMsg sender' chain id = .error (.fail msg) := by
  have hnone : h'.cancelLookup chain id = none := by
    cases hl : h'.cancelLookup chain id with
    | none => rfl
    | some t =>
      obtain ⟨ht, hid⟩ := cancelLookup_some hl
      exact absurd hid (cancel_removes_id hc hsorted hids hfresh t ht)
  unfold Hub.cancelMsg
  split
  · exact ⟨_, rfl⟩
  · split
    · exact ⟨_, rfl⟩
    · rw [cancelSte_eq, hnone]
      exact ⟨_, rfl⟩

/-! ### 3. Refund to a hub account -/

/-- The `cancelSte` form of `refund_to_hub_sender` (also covers the expiry path, where the entry's own
    sender is passed). -/
theorem cancelSte_refund_to_hub_sender {h h' : Hub} {sender chain : String} {id : Nat} {s : Ste}
    (hs : h.cancelSte chain id sender = (h', none)) (hl : h.cancelLookup chain id = some s)
    (hr : s.refundChain = "hub") :
    let denom := h.denomOfTokenId s.tokenId
    h'.balance sender denom = h.balance sender denom + h.refundValue chain s ∧
    h'.supplyOf denom = h.supplyOf denom + h.refundValue chain s ∧
    (∀ acc d, (sender, denom) ≠ (acc, d) → h'.balance acc d = h.balance acc d) ∧
    (∀ d, denom ≠ d → h'.supplyOf d = h.supplyOf d) := by
  intro denom
  obtain ⟨s', hl', _, _, hcases⟩ := cancelSte_none hs
  rw [hl] at hl'
  cases hl'
  have he : h' = (h.refundCredit sender denom (h.refundValue chain s)).cancelFinish chain s := by
    rcases hcases with ⟨h1, _⟩ | ⟨_, he⟩ | ⟨_, h2, _⟩
    · rw [hr] at h1; exact absurd h1 (by decide)
    · exact he
    · exact absurd hr h2
  subst he
  refine ⟨refundCredit_balance _ _ _ _, refundCredit_supply _ _ _ _, ?_, ?_⟩
  · intro acc d hne; exact refundCredit_balance_other _ _ hne
  · intro d hne; exact refundCredit_supply_other _ _ hne


/-- If the entry names `"hub"` as refund chain, the sender's balance of the token's hub denom and
    the supply of that denom grow by exactly `refundValue`; no other balance or supply moves. -/
theorem refund_to_hub_sender {h h' : Hub} {sender chain : String} {id : Nat} {s : Ste}
    (hc : h.cancelMsg sender chain id = .ok h') (hl : h.cancelLookup chain id = some s)
    (hr : s.refundChain = "hub") :
    let denom := h.denomOfTokenId s.tokenId
    h'.balance sender denom = h.balance sender denom + h.refundValue chain s ∧
    h'.supplyOf denom = h.supplyOf denom + h.refundValue chain s ∧
    (∀ acc d, (sender, denom) ≠ (acc, d) → h'.balance acc d = h.balance acc d) ∧
    (∀ d, denom ≠ d → h'.supplyOf d = h.supplyOf d) :=
  cancelSte_refund_to_hub_sender (cancelMsg_ok hc).2.2 hl hr

/-- Guard case: an entry with an *empty* refund chain (module-initiated transfers: commission and
    fee payouts) is "refunded" into the module account — nobody's balance but `moduleAcc`'s grows. -/
theorem cancelSte_refund_to_module {h h' : Hub} {sender chain : String} {id : Nat} {s : Ste}
    (hs : h.cancelSte chain id sender = (h', none)) (hl : h.cancelLookup chain id = some s)
    (hr : s.refundChain = "") :
    let denom := h.denomOfTokenId s.tokenId
    h'.balance moduleAcc denom = h.balance moduleAcc denom + h.refundValue chain s ∧
    h'.supplyOf denom = h.supplyOf denom + h.refundValue chain s ∧
    (∀ acc d, (moduleAcc, denom) ≠ (acc, d) → h'.balance acc d = h.balance acc d) := by
  intro denom
  obtain ⟨s', hl', _, _, hcases⟩ := cancelSte_none hs
  rw [hl] at hl'
  cases hl'
  have he : h' = (h.refundCredit moduleAcc denom (h.refundValue chain s)).cancelFinish chain s := by
    rcases hcases with ⟨_, he⟩ | ⟨h1, _⟩ | ⟨h1, _⟩
    · exact he
    · rw [hr] at h1; exact absurd h1 (by decide)
    · exact absurd hr h1
  subst he
  refine ⟨refundCredit_balance _ _ _ _, refundCredit_supply _ _ _ _, ?_⟩
  intro acc d hne; exact refundCredit_balance_other _ _ hne

/-! ### 4. Refund to the chain the transfer came from -/

/-- The `cancelSte` form of `refund_to_origin_chain` (also covers the expiry path). -/
theorem cancelSte_refund_to_origin_chain {h h' : Hub} {sender chain : String} {id : Nat} {s : Ste}
    (hs : h.cancelSte chain id sender = (h', none)) (hl : h.cancelLookup chain id = some s)
    (hr1 : s.refundChain ≠ "") (hr2 : s.refundChain ≠ "hub")
    (hfresh : s.refundChain ≠ chain ∨
      (id ≤ (h.chain chain).lastSteId ∧ (h.chain chain).lastSteId + 1 < 2 ^ 64)) :
    let denom := h.denomOfTokenId s.tokenId
    0 < h.refundValue chain s ∧
    (∃ tok, h.tokenByDenom s.refundChain denom = some tok ∧
      ∃ new ∈ (h'.chain s.refundChain).pool,
        new.id = (h.chain s.refundChain).lastSteId + 1 ∧
        new.sender = tempAddr ∧ new.recipient = s.refundAddr ∧
        new.tokenId = tok.id ∧ new.extToken = tok.extId ∧
        new.amount = h.toExternal s.refundChain tok.extId (h.refundValue chain s) ∧
        new.fee = 0 ∧ new.comm = 0 ∧ new.refundChain = "" ∧ new.refundAddr = "") ∧
    h'.balance tempAddr denom = h.balance tempAddr denom ∧
    h'.supplyOf denom = h.supplyOf denom := by
  intro denom
  have hd : denom = h.denomOfTokenId s.tokenId := rfl
  clear_value denom
  subst hd
  obtain ⟨s', hl', _, _, hcases⟩ := cancelSte_none hs
  rw [hl] at hl'
  cases hl'
  obtain ⟨hsmem, hsid⟩ := cancelLookup_some hl
  rcases hcases with ⟨h1, _⟩ | ⟨h1, _⟩ | ⟨_, _, h2, n, hcr, he⟩
  · exact absurd h1 hr1
  · exact absurd h1 hr2
  · subst he
    obtain ⟨new, hid, hrcp, hsnd, hnrc, hnra, _, _, ⟨tok, htok, hext, htid, hamt, hfee, hcomm⟩,
      hpool, _, _, _, hother, _, _, hburn⟩ := createSte_chains hcr
    have htoks := refundCredit_tokens h tempAddr (h.denomOfTokenId s.tokenId) (h.refundValue chain s)
    have htok' : h.tokenByDenom s.refundChain (h.denomOfTokenId s.tokenId) = some tok := by
      rw [← htok]; simp only [Hub.tokenByDenom, htoks]
    have hconv : ∀ x, (h.refundCredit tempAddr (h.denomOfTokenId s.tokenId) (h.refundValue chain s)).toExternal
        s.refundChain tok.extId x = h.toExternal s.refundChain tok.extId x := by
      intro x; simp only [Hub.toExternal, Hub.tokenByExt, htoks]
    obtain ⟨hpos, _, hbal, hsup, _⟩ := burnFrom_ok hburn
    have hpos : 0 < h.refundValue chain s := by omega
    rw [refundCredit_chain] at hid hpool
    refine ⟨hpos, ⟨tok, htok', new, ?_, hid, hsnd, hrcp, htid, hext, ?_, ?_, ?_, hnrc, hnra⟩, ?_, ?_⟩
    · -- the new entry survives the final deletion
      by_cases hsame : s.refundChain = chain
      · rcases hfresh with hne | ⟨hle, hlt⟩
        · exact absurd hsame hne
        · rw [hsame] at hpool hid ⊢
          rw [cancelFinish_pool, hpool]
          refine mem_eraseByKey_of_ne poolKey (mem_insertByKey _ _ _) ?_
          exact poolKey_ne_of_id (by omega) (by omega) (by omega)
      · rw [cancelFinish_chain_other _ _ (fun e => hsame e.symm), hpool]
        exact mem_insertByKey _ _ _
    · rw [hamt, hconv]
    · rw [hfee, hconv, toExternal_zero]
    · rw [hcomm, hconv, toExternal_zero]
    · have : h2.balance tempAddr (h.denomOfTokenId s.tokenId) =
          (h.refundCredit tempAddr (h.denomOfTokenId s.tokenId) (h.refundValue chain s)).balance tempAddr (h.denomOfTokenId s.tokenId) -
            (h.refundValue chain s + 0 + 0) := hbal
      rw [refundCredit_balance] at this
      show h2.balance tempAddr (h.denomOfTokenId s.tokenId) = _
      omega
    · have : h2.supplyOf (h.denomOfTokenId s.tokenId) =
          (h.refundCredit tempAddr (h.denomOfTokenId s.tokenId) (h.refundValue chain s)).supplyOf (h.denomOfTokenId s.tokenId) -
            (h.refundValue chain s + 0 + 0) := hsup
      rw [refundCredit_supply] at this
      show h2.supplyOf (h.denomOfTokenId s.tokenId) = _
      omega

/-- If the entry names another chain as refund chain, a successful cancellation schedules a
    transfer on that chain: a new pool entry (next id of that chain) to `refundAddr`, with fee 0,
    commission 0 and the whole `refundValue` (converted to that chain's units) as amount.  The
    value passes through `TempAddress`, whose balance — like the supply — is unchanged overall.

    Side condition for the case `refundChain = chain` only: the new entry is inserted into the
    very pool the cancelled entry is then erased from by key, so its key must differ; this holds
    when the cancelled id is not ahead of the id counter and the counter does not wrap in 8 bytes. -/
theorem refund_to_origin_chain {h h' : Hub} {sender chain : String} {id : Nat} {s : Ste}
    (hc : h.cancelMsg sender chain id = .ok h') (hl : h.cancelLookup chain id = some s)
    (hr1 : s.refundChain ≠ "") (hr2 : s.refundChain ≠ "hub")
    (hfresh : s.refundChain ≠ chain ∨
      (id ≤ (h.chain chain).lastSteId ∧ (h.chain chain).lastSteId + 1 < 2 ^ 64)) :
    let denom := h.denomOfTokenId s.tokenId
    0 < h.refundValue chain s ∧
    (∃ tok, h.tokenByDenom s.refundChain denom = some tok ∧
      ∃ new ∈ (h'.chain s.refundChain).pool,
        new.id = (h.chain s.refundChain).lastSteId + 1 ∧
        new.sender = tempAddr ∧ new.recipient = s.refundAddr ∧
        new.tokenId = tok.id ∧ new.extToken = tok.extId ∧
        new.amount = h.toExternal s.refundChain tok.extId (h.refundValue chain s) ∧
        new.fee = 0 ∧ new.comm = 0 ∧ new.refundChain = "" ∧ new.refundAddr = "") ∧
    h'.balance tempAddr denom = h.balance tempAddr denom ∧
    h'.supplyOf denom = h.supplyOf denom :=
  cancelSte_refund_to_origin_chain (cancelMsg_ok hc).2.2 hl hr1 hr2 hfresh

/-! ### 5. Arithmetic of the refund -/

/-- The refunded value is the stored amount, fee and commission converted back together; for an
    entry created by `sendToExternal` these are `toExt d` of the hub amounts (C11 `withdraw_debit`),
    so the theorems below describe exactly how the refund relates to what was taken. -/
theorem refund_value_formula {h : Hub} {chain : String} {s : Ste} {t : TokenInfo}
    (ht : h.tokenByExt chain s.extToken = some t) :
    h.refundValue chain s = fromExt t.dec (s.amount + s.fee + s.comm) := by
  simp [Hub.refundValue, Hub.fromExternal, ht]

/-- For tokens with at least 18 external decimals the refund is exactly what was taken. -/
theorem refund_exact_ge18 {d : Nat} (hd : 18 ≤ d) (a f c : Int) :
    fromExt d (toExt d a + toExt d f + toExt d c) = a + f + c := by
  rw [toExt_ge18 hd, toExt_ge18 hd, toExt_ge18 hd, ← Int.add_mul, ← Int.add_mul]
  by_cases h : d = 18
  · subst h
    rw [fromExt_le18 (Nat.le_refl _)]
    simp [pow10]
  · rw [fromExt_gt18 (by omega)]
    exact Int.mul_ediv_cancel _ (Int.ne_of_gt (pow10_pos _))

/-- For tokens with fewer than 18 external decimals each of the three stored amounts was
    truncated to a multiple of `10^(18-d)`; the refund is the sum of the truncated amounts. -/
theorem refund_bounds_lt18 {d : Nat} (hd : d < 18) (a f c : Int) :
    a + f + c - 3 * pow10 (18 - d) < fromExt d (toExt d a + toExt d f + toExt d c) ∧
    fromExt d (toExt d a + toExt d f + toExt d c) ≤ a + f + c := by
  rw [fromExt_le18 (Nat.le_of_lt hd), toExt_lt18 hd, toExt_lt18 hd, toExt_lt18 hd,
    Int.add_mul, Int.add_mul]
  have hq := pow10_pos (18 - d)
  obtain ⟨a1, a2⟩ := floor_bounds a hq
  obtain ⟨f1, f2⟩ := floor_bounds f hq
  obtain ⟨c1, c2⟩ := floor_bounds c hq
  rw [Int.add_mul, Int.one_mul] at a2 f2 c2
  constructor <;> omega

/-- … with equality when nothing was truncated. -/
theorem refund_exact_lt18_of_dvd {d : Nat} (hd : d < 18) {a f c : Int}
    (ha : pow10 (18 - d) ∣ a) (hf : pow10 (18 - d) ∣ f) (hc : pow10 (18 - d) ∣ c) :
    fromExt d (toExt d a + toExt d f + toExt d c) = a + f + c := by
  rw [fromExt_le18 (Nat.le_of_lt hd), toExt_lt18 hd, toExt_lt18 hd, toExt_lt18 hd,
    Int.add_mul, Int.add_mul, Int.ediv_mul_cancel ha, Int.ediv_mul_cancel hf, Int.ediv_mul_cancel hc]

/-- The statement "the refund is exactly the amount taken" is false for `d < 18`: with 6 external
    decimals, 1.0000005 hub units are stored as 1000000 external units and refunded as 1.0. -/
theorem refund_not_exact_witness :
    fromExt 6 (toExt 6 1000000500000000000 + toExt 6 0 + toExt 6 0) = 1000000000000000000 ∧
    fromExt 6 (toExt 6 1000000500000000000 + toExt 6 0 + toExt 6 0) ≠ 1000000500000000000 + 0 + 0 := by
  decide

/-! ### 6. Expiry -/

/-- The expiry test is strict: `createdAt·1000 + timeout < now·1000`. -/
theorem expired_iff (h : Hub) (s : Ste) :
    h.expired s = true ↔ s.createdAt * 1000 + h.params.outgoingTimeoutMs < h.time * 1000 := by
  simp [Hub.expired]

/-- `refundExpired` attempts a cancellation (`expiryStep`: `cancelSte` in the entry's own name,
    plain failures ignored) exactly for the entries of the pool snapshot that satisfy the expiry
    test, highest key first; entries that do not satisfy it are skipped. -/
theorem expiry_condition (h : Hub) (chain : String) :
    h.refundExpired chain =
      ((h.chain chain).pool.reverse.filter h.expired).foldlM (Hub.expiryStep chain) h := by
  rw [refundExpired_eq]
  exact foldlM_expiry_filter chain h _ h rfl rfl

/-- Each step of the expiry loop is `cancelSte` in the entry's own name: either it succeeds — then
    the `cancelSte_…` theorems above describe the refund (to the entry's sender on the hub, or as a
    new transfer on its refund chain) — or it fails plainly and no chain state, clock or parameter
    changed (see `expiry_failed_refund_witness` for what *does* change then). -/
theorem expiry_step_is_cancel {h h1 : Hub} {chain : String} {s : Ste}
    (hs : h.expiryStep chain s = .ok h1) :
    h.cancelSte chain s.id s.sender = (h1, none) ∨
    (∃ e, h.cancelSte chain s.id s.sender = (h1, some e)) ∧
      h1.cs = h.cs ∧ h1.time = h.time ∧ h1.params = h.params := by
  rcases expiryStep_ok hs with hc | ⟨e, hc⟩
  · exact Or.inl hc
  · exact Or.inr ⟨⟨e, hc⟩, cancelSte_some hc⟩

/-- Entries that are not expired survive the expiry pass.  Hypotheses: the pool is in store order,
    ids are unique and not ahead of the id counter, and the counter cannot wrap in 8 bytes during
    the pass (each refund routed to the same chain takes one new id). -/
theorem expiry_keeps_unexpired {h h' : Hub} {chain : String} {u : Ste}
    (hok : h.refundExpired chain = .ok h')
    (hsorted : PoolSorted (h.chain chain).pool) (hids : PoolIdsDistinct (h.chain chain).pool)
    (hbound : ∀ v ∈ (h.chain chain).pool, v.id ≤ (h.chain chain).lastSteId)
    (hroom : (h.chain chain).lastSteId + (h.chain chain).pool.length < 2 ^ 64)
    (hu : u ∈ (h.chain chain).pool)
    (hnexp : ¬ (u.createdAt * 1000 + h.params.outgoingTimeoutMs < h.time * 1000)) :
    u ∈ (h'.chain chain).pool := by
  rw [expiry_condition] at hok
  have hlen : ((h.chain chain).pool.reverse.filter h.expired).length ≤ (h.chain chain).pool.length := by
    have := List.length_filter_le h.expired (h.chain chain).pool.reverse
    rwa [List.length_reverse] at this
  refine (foldlM_expiry_inv _ ⟨hsorted, hbound, by omega, hu⟩ ?_ hok).mem
  intro s hs hid
  rw [List.mem_filter, List.mem_reverse] at hs
  have : s = u := hids s hs.1 u hu hid
  rw [this, expired_iff] at hs
  exact hnexp hs.2

/-- The side conditions used above and in `cancel_removes`, `cancel_once`,
    `refund_to_origin_chain` — pool in store order, ids unique, ids not ahead of the id counter —
    hold in every state reachable from genesis by model operations.  (What remains an assumption
    is only that the id counter stays below `2^64`.) -/
theorem reachable_pool_invariants (ops : List Op) (c : String) :
    PoolSorted ((runOps ops).chain c).pool ∧
    PoolIdsDistinct ((runOps ops).chain c).pool ∧
    ∀ v ∈ ((runOps ops).chain c).pool, v.id ≤ ((runOps ops).chain c).lastSteId := by
  obtain ⟨hs, ⟨hb, hu⟩, _⟩ := runOps_inv ops c
  exact ⟨hs, fun u hu' v hv' e => hu u v (Or.inl hu') (Or.inl hv') e, fun v hv => hb v (Or.inl hv)⟩

/-! ### 7. Bridge lemmas -/

theorem fact_cancel_conds : Generated.cancel_conds =
    "ste.Id == id | send == nil | sender.String() != send.Sender | err != nil | err != nil | send.RefundChainId != \"\" | send.RefundChainId == \"hub\" | err != nil | err != nil | err != nil" := rfl
theorem fact_cancel_call_order : Generated.cancel_call_order =
    "MintCoins,SendCoinsFromModuleToAccount,SendCoinsFromModuleToAccount,createSendToExternal,SetTxStatus,deleteUnbatchedSendToExternal" := rfl
theorem fact_cancel_lookup : Generated.cancel_lookup = "k.getUnbatchedSendToExternals(ctx, chainId)" := rfl
theorem fact_cancel_refund_arith : Generated.cancel_refund_arith =
    "send.Token.HubCoin(func(id uint64) (string, error) { info, err := k.TokenIdToTokenInfoLookup(ctx, id) if err != nil { return \"\", err } return info.Denom, nil }) | totalToRefund.Amount.Add(send.Fee.Amount).Add(send.ValCommission.Amount) | k.ConvertFromExternalValue(ctx, chainId, send.Token.ExternalTokenId, totalToRefund.Amount) | sdk.NewCoins(totalToRefund)" := rfl
theorem fact_expiry_conds : Generated.expiry_conds =
    "ctx.BlockHeight()%1 == 0 | time.Unix(int64(ste.CreatedAt), 0).Add(k.GetOutgoingTxTimeout(ctx)).Before(ctx.BlockTime())" := rfl
theorem fact_end_order : Generated.end_order = "eventVoteRecordTally,refundExpiredTxs" := rfl


/-! ### Non-vacuity -/

def exSte (id : Nat) (fee : Int) (created : Nat) (rc : String) : Ste :=
  { id := id, sender := "a", recipient := "r", tokenId := 1, extToken := "T", amount := 5000000, fee := fee,
    comm := 0, chain := "e", txHash := "x", createdAt := created, refundAddr := "b", refundChain := rc }

/-- Two pool entries of one 6-decimals token on chain "e": #1 refunds to the hub and is expired at
    time 50 (timeout 10 s), #2 refunds to chain "m" and is not expired. -/
def exHub : Hub :=
  { chains := ["e", "m"], tokens := [⟨1, "hub", "e", "T", 6, 0⟩, ⟨2, "hub", "m", "0", 18, 0⟩],
    cs := [("e", { pool := [exSte 1 0 0 "hub", exSte 2 7 100 "m"], lastSteId := 2 })],
    time := 50, params := { outgoingTimeoutMs := 10000 } }

theorem exHub_pool : (exHub.chain "e").pool = [exSte 1 0 0 "hub", exSte 2 7 100 "m"] := by rfl

theorem exHub_sorted : PoolSorted (exHub.chain "e").pool := by
  rw [exHub_pool]
  simp only [PoolSorted, KeySorted, List.pairwise_cons, List.mem_cons, List.not_mem_nil, or_false,
    forall_eq, false_imp_iff, implies_true, List.Pairwise.nil, and_true]
  rw [poolKey_assoc, poolKey_assoc]
  show bytesLt (strBytes "T" ++ _) (strBytes "T" ++ _) = true
  rw [bytesLt_append_left]
  decide

theorem exHub_ids : PoolIdsDistinct (exHub.chain "e").pool := by
  rw [exHub_pool]
  intro u hu v hv
  simp only [List.mem_cons, List.not_mem_nil, or_false] at hu hv
  rcases hu with rfl | rfl <;> rcases hv with rfl | rfl <;> simp [exSte]

/-- `cancel_authorised`, `cancel_removes`, `cancel_once`, `refund_to_hub_sender` apply: the sender
    cancels #1 and gets 5 hub units; somebody else cannot. -/
example : ∃ h', exHub.cancelMsg "a" "e" 1 = .ok h' ∧
    exHub.cancelLookup "e" 1 = some (exSte 1 0 0 "hub") ∧ (exSte 1 0 0 "hub").refundChain = "hub" ∧
    PoolSorted (exHub.chain "e").pool ∧ PoolIdsDistinct (exHub.chain "e").pool ∧
    1 ≤ (exHub.chain "e").lastSteId := by
  obtain ⟨h', hc⟩ := ok_of_isOk (x := exHub.cancelMsg "a" "e" 1) (by decide)
  exact ⟨h', hc, by rfl, rfl, exHub_sorted, exHub_ids, by decide⟩

example : (match exHub.cancelMsg "a" "e" 1 with
    | .ok h' => h'.balance "a" "hub" == 5000000000000000000 && h'.supplyOf "hub" == 5000000000000000000
    | _ => false) = true := by decide

example : (match exHub.cancelMsg "b" "e" 1 with | .error (.fail _) => true | _ => false) = true := by decide

/-- `refund_to_origin_chain` applies: cancelling #2 schedules a transfer on chain "m". -/
example : ∃ h', exHub.cancelMsg "a" "e" 2 = .ok h' ∧
    exHub.cancelLookup "e" 2 = some (exSte 2 7 100 "m") ∧
    (exSte 2 7 100 "m").refundChain ≠ "" ∧ (exSte 2 7 100 "m").refundChain ≠ "hub" ∧
    (exSte 2 7 100 "m").refundChain ≠ "e" := by
  obtain ⟨h', hc⟩ := ok_of_isOk (x := exHub.cancelMsg "a" "e" 2) (by decide)
  exact ⟨h', hc, by rfl, by decide, by decide, by decide⟩

/-- `expiry_condition` / `expiry_keeps_unexpired` apply: the pass succeeds, #1 is expired, #2 is
    not (and therefore stays). -/
example : ∃ h', exHub.refundExpired "e" = .ok h' ∧
    exHub.expired (exSte 1 0 0 "hub") = true ∧ exHub.expired (exSte 2 7 100 "m") = false ∧
    (∀ v ∈ (exHub.chain "e").pool, v.id ≤ (exHub.chain "e").lastSteId) ∧
    (exHub.chain "e").lastSteId + (exHub.chain "e").pool.length < 2 ^ 64 ∧
    exSte 2 7 100 "m" ∈ (h'.chain "e").pool := by
  obtain ⟨h', hc⟩ := ok_of_isOk (x := exHub.refundExpired "e") (by decide)
  have hb : ∀ v ∈ (exHub.chain "e").pool, v.id ≤ (exHub.chain "e").lastSteId := by
    rw [exHub_pool]; intro v hv
    simp only [List.mem_cons, List.not_mem_nil, or_false] at hv
    rcases hv with rfl | rfl <;> decide
  have hroom : (exHub.chain "e").lastSteId + (exHub.chain "e").pool.length < 2 ^ 64 := by decide
  refine ⟨h', hc, by decide, by decide, hb, hroom, ?_⟩
  exact expiry_keeps_unexpired hc exHub_sorted exHub_ids hb hroom (by rw [exHub_pool]; simp) (by decide)

/-- The boundary is exclusive: an entry created exactly `timeout` before now is not expired. -/
example : ({ exHub with time := 10 } : Hub).expired (exSte 1 0 0 "hub") = false := by decide

/-- A state in which the refund of an expired entry cannot be routed: the entry names chain "m" as
    refund chain but the token's denom is not registered there. -/
def exStuck : Hub :=
  { chains := ["e", "m"], tokens := [⟨1, "hub", "e", "T", 6, 0⟩],
    cs := [("e", { pool := [exSte 2 7 0 "m"], lastSteId := 2 })],
    time := 50, params := { outgoingTimeoutMs := 10000 } }

/-- **Finding (expiry path is not atomic).**  `refundExpired` swallows the plain failure of
    `cancelSte` but keeps the writes made before it: the refund value (5.000007 hub units here) has
    already been minted and credited to `TempAddress`, the entry stays in the pool, and the next
    pass mints again.  So "refunded exactly once, to the right party" fails for expired entries
    whose refund cannot be scheduled on the refund chain; the message path (`cancelMsg`) is
    unaffected because it is rolled back as a whole. -/
theorem expiry_failed_refund_witness :
    (match exStuck.refundExpired "e" with
      | .ok h1 =>
        h1.supplyOf "hub" == 5000007000000000000 && h1.balance tempAddr "hub" == 5000007000000000000 &&
        (h1.chain "e").pool.length == 1 &&
        (match h1.refundExpired "e" with
          | .ok h2 => h2.supplyOf "hub" == 10000014000000000000 && (h2.chain "e").pool.length == 1
          | _ => false)
      | _ => false) = true ∧
    (match exStuck.cancelMsg "a" "e" 2 with | .error (.fail _) => true | _ => false) = true := by
  decide

end Mhub2.C12
