/-
  C03 — Events are applied once, in nonce order, and a validator votes once per nonce.
  Property theorems only; helper lemmas (the vote machine `vstep`/`vrun`, its invariants, the
  `insertByKey` and `bytesLt` facts) live in Lemmas/Votes.lean.

  `Reach c`  : `c` is the vote bookkeeping after some sequence of claims and tallies from genesis.
  `ReachB c` : the same, every claimed event nonce being `< 2^64` (`uint64` in the implementation).
  The bound is needed only where a statement depends on `be8` (the 8-byte store-key encoding of the
  nonce) being injective: in the unbounded model two nonces that differ by a multiple of 2^64 share
  a store key, so after 2^64 consecutive claims a validator would be appended a second time to its
  first record.
-/
import Mhub2.Votes
import Mhub2.Step
import Mhub2.Generated.Facts
import Lemmas.Votes
namespace Mhub2.C03
open Mhub2

/-- 1. An accepted record is never ahead of the last observed nonce. -/
theorem accepted_le_last {c : ChainSt} (h : Reach c) :
    ∀ r ∈ c.records, r.accepted = true → r.nonce ≤ c.lastObserved :=
  h.inv.acc_le

/-- 2. At most one record is accepted per nonce (whatever the claim hashes). -/
theorem one_accepted_per_nonce {c : ChainSt} (h : Reach c) :
    ∀ r1 ∈ c.records, ∀ r2 ∈ c.records, r1.accepted = true → r2.accepted = true →
      r1.nonce = r2.nonce → r1 = r2 :=
  h.inv.acc_uniq

/-- 3. One tally applies records at exactly the next nonces `last+1, last+2, …` and leaves the
    counter at the last one applied.  Holds in every state. -/
theorem tally_applies_consecutive (c : ChainSt) (p : String → Nat) (req : Int) (ht : Nat) :
    let res := c.tallyPure p req ht
    res.2.map (·.nonce) = List.range' (c.lastObserved + 1) res.2.length ∧
    res.1.lastObserved = c.lastObserved + res.2.length := by
  intro res
  obtain ⟨new, h1, h2, h3, _⟩ := tallyFold_consec p req ht c.records (c, [])
  rw [← tallyPure_eq] at h1 h3
  simp only [List.nil_append] at h1
  show (c.tallyPure p req ht).2.map (·.nonce) = _ ∧ (c.tallyPure p req ht).1.lastObserved = _
  rw [h1]
  exact ⟨h2, h3⟩

/-- 4. Over a whole run from genesis the applied events have nonces `1, 2, …, lastObserved`, in that
    order. -/
theorem applied_history_consecutive (ops : List VOp) :
    (vapplied ops).map (·.nonce) = List.range' 1 (vrun ops).lastObserved := by
  have := foldl_vstepA_consec ops ({}, []) rfl
  rw [foldl_vstepA_fst] at this
  exact this

/-- … hence no nonce is applied twice. -/
theorem applied_nodup (ops : List VOp) : ((vapplied ops).map (·.nonce)).Nodup := by
  rw [applied_history_consecutive]; exact List.nodup_range' 1

theorem applied_count (ops : List VOp) : (vapplied ops).length = (vrun ops).lastObserved := by
  have := congrArg List.length (applied_history_consecutive ops)
  simpa using this

/-- 5. A validator with a stored last nonce `n` can only claim `n + 1`, and the claim moves its
    stored nonce to `n + 1`.  (Stored nonces are never 0 because claims pass `validBasic`; the
    contiguity check is skipped when the last nonce is 0.) -/
theorem validator_claims_consecutive {c c' : ChainSt} {v : String} {n : Nat} {ev : Event} {hash : Bytes}
    (h : Reach c) (hget : alGet c.lastNonceBy v = some n) (hok : c.recordVote ev hash v = .ok c') :
    ev.nonce = n + 1 ∧ alGet c'.lastNonceBy v = some (n + 1) := by
  obtain ⟨hcont, hc'⟩ := recordVote_ok hok
  have hpos := h.inv.stored_pos v n hget
  rw [lastNonceOf_some hget] at hcont
  have hn : ev.nonce = n + 1 := by omega
  refine ⟨hn, ?_⟩
  rw [hc']
  show alGet (alSet c.lastNonceBy v ev.nonce) v = some (n + 1)
  rw [alGet_alSet_same, hn]

/-- 6. A validator appears at most once in a record, and in at most one record per nonce.
    Needs `uint64` nonces (`ReachB`), see the header. -/
theorem one_vote_per_validator_per_nonce {c : ChainSt} {v : String} (h : ReachB c) :
    (∀ r ∈ c.records, r.votes.Nodup) ∧
    (∀ r1 ∈ c.records, ∀ r2 ∈ c.records, r1.nonce = r2.nonce → v ∈ r1.votes → v ∈ r2.votes → r1 = r2) :=
  ⟨h.inv.nodup, fun r1 h1 r2 h2 hn => h.inv.one_vote r1 h1 r2 h2 hn v⟩

/-- A validator's votes are all at or below its stored last nonce (`ReachB`). -/
theorem votes_below_stored {c : ChainSt} (h : ReachB c) :
    ∀ r ∈ c.records, ∀ v ∈ r.votes, ∃ n, alGet c.lastNonceBy v = some n ∧ r.nonce ≤ n :=
  h.inv.voted_le

/-- The store holds at most one record per key, and for `uint64` nonces per (nonce, claim hash). -/
theorem one_record_per_claim {c : ChainSt} (h : ReachB c) :
    ∀ r1 ∈ c.records, ∀ r2 ∈ c.records, r1.nonce = r2.nonce → r1.hash = r2.hash → r1 = r2 := by
  intro r1 h1 r2 h2 hn hh
  exact sorted_key_inj h.inv.base.sorted h1 h2 (by unfold recKey; rw [hn, hh])

/-- 7. The "attempting to process observed external event" panic of `TryEventVoteRecord` (a record
    at `lastObserved + 1` that is already accepted) is unreachable. -/
theorem try_panic_unreachable {c : ChainSt} (h : Reach c) :
    ¬ ∃ r ∈ c.records, r.nonce = c.lastObserved + 1 ∧ r.accepted = true := by
  rintro ⟨r, hr, hn, ha⟩
  have := h.inv.acc_le r hr ha
  omega

/-- Stretch: on the vote bookkeeping of the chain, the hub's end-block tally (handler included, its
    writes kept or rolled back) is exactly `tallyPure` run with the power table, required power and
    height the hub had when the tally started.  So 3. and C02 speak about `Hub.tally`. -/
theorem hub_tally_refines_pure {h h' : Hub} {mf : Bool} {chain : String}
    (hok : h.tally mf chain = .ok h') :
    (h'.chain chain).lastObserved =
      ((h.chain chain).tallyPure h.lastPower h.requiredPower h.height).1.lastObserved ∧
    (h'.chain chain).records =
      ((h.chain chain).tallyPure h.lastPower h.requiredPower h.height).1.records :=
  Mhub2.hub_tally_refines_pure hok

/-- 7 at hub level: the tally's only error is that panic, so from reachable bookkeeping `Hub.tally`
    always succeeds. -/
theorem hub_tally_never_panics {h : Hub} (mf : Bool) (chain : String) (hr : Reach (h.chain chain)) :
    ∃ h', h.tally mf chain = .ok h' :=
  hub_tally_total mf chain hr.inv

/-- A change of the validator set — validators bonding, leaving, being removed and created again under the same operator
    address, changing power — writes no bridge state at all: every chain's vote records, the per-validator last voted nonces
    and the observed nonce are what they were.  (So the statements above, which hold for arbitrary power functions, cover
    histories with staking changes; the real staking hooks are empty: `fact_staking_hooks`.) -/
theorem staking_change_keeps_vote_state (h : Hub) (vs : List Validator) (c : String) :
    (apply h (.staking vs)).1.chain c = h.chain c := rfl

theorem fact_staking_hooks : Generated.staking_hooks =
    "AfterDelegationModified{} | AfterValidatorBeginUnbonding{} | AfterValidatorBonded{} | AfterValidatorCreated{} | AfterValidatorRemoved{} | BeforeDelegationCreated{} | BeforeDelegationRemoved{} | BeforeDelegationSharesModified{} | BeforeValidatorModified{} | BeforeValidatorSlashed{}" := rfl

/-- Bridge lemmas: the source expressions the model was written from. -/
theorem fact_tally_gate : Generated.tally_gate =
    "nonce == uint64(k.GetLastObservedEventNonce(ctx, chainId))+1" := rfl
theorem fact_record_contiguity : Generated.record_contiguity =
    "event.GetEventNonce() != expectedNonce && lastEventNonce != 0" := rfl
theorem fact_record_vote_append : Generated.record_vote_append =
    "append(eventVoteRecord.Votes, val.String())" := rfl
theorem fact_try_write_order : Generated.try_write_order =
    "setLastObservedEventNonce,SetLastObservedExternalBlockHeight,setExternalEventVoteRecord,processExternalEvent" := rfl
theorem fact_try_accepted_guard : Generated.try_accepted_guard = "!eventVoteRecord.Accepted" := rfl

/-! Non-vacuity: two validators claim events 1 and 2, two tallies apply them in order. -/
def exPower (v : String) : Nat := if v == "a" then 5 else if v == "b" then 3 else 2
def exOps : List VOp :=
  [.vote "a" (.contractCall 1 [] 0 10) [1], .vote "b" (.contractCall 1 [] 0 10) [1],
   .vote "a" (.contractCall 2 [] 0 11) [2], .tally exPower 7 5,
   .vote "b" (.contractCall 2 [] 0 11) [2], .tally exPower 7 6]

example : ((vrun exOps).lastObserved == 2) = true := by decide
example : ((vapplied exOps).map (·.nonce) == [1, 2]) = true := by decide
example : ((vrun exOps).records.map (fun r => (r.nonce, r.votes, r.accepted))
    == [(1, ["a", "b"], true), (2, ["a", "b"], true)]) = true := by decide
/-- A claim by a validator with a stored nonce succeeds only at the next nonce. -/
example : (match (vrun exOps).recordVote (.contractCall 3 [] 0 12) [3] "a" with
    | .ok c => alGet c.lastNonceBy "a" == some 3 | _ => false) = true := by decide
example : (match (vrun exOps).recordVote (.contractCall 5 [] 0 12) [3] "a" with
    | .ok _ => false | _ => true) = true := by decide
example : OpsBounded exOps := by
  intro op h
  simp only [exOps, List.mem_cons, List.not_mem_nil, or_false] at h
  rcases h with h | h | h | h | h | h <;> subst h <;> simp [OpBounded, Event.nonce]

end Mhub2.C03
