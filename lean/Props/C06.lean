/-
  C06 — Executing the same genesis and the same ordered blocks always yields byte-identical module
  state and emitted events, independent of map iteration order, goroutine scheduling or process
  instance.

  The Lean model is a function, so the model is trivially deterministic.  The content of this file
  is that every place where the Go code ranges over a `map` (random order in Go) or sorts computes
  something that does not depend on the enumeration order.  The sites are regenerated from the Go
  sources on every run (`Generated.det_map_ranges`, `det_sorts`, `det_floats`, `det_goroutines`,
  `det_time_rand`) and pinned in section 7: a new site changes the string and breaks the build.

  `l1.Perm l2` models "the same map enumerated in two different orders".  For the sites whose model
  definition fixes one enumeration (`eraseDups` of the inserted keys), a `…Via` variant takes the
  enumeration as a parameter; it is the model for the model's own enumeration (by `rfl`) and is
  proved not to depend on the enumeration.

  Trusted base, outside Lean: Go `uint64`/`int64` arithmetic at these sites does not wrap for the
  bounded powers involved, and IEEE-754 double addition of integers below 2^53 is exact (section 3).
  Helper lemmas live in Lemmas/Det.lean.
-/
import Mhub2.Oracle
import Mhub2.Generated.Facts
import Lemmas.Det
namespace Mhub2.C06
open Mhub2 Mhub2.Det

/-! ### 1. Sorted key lists: `sort.Strings` / `sort.Slice` after `for k := range m` -/

/-- For a strict total order the sorted list depends only on the multiset of inputs.  (The
    distinctness hypothesis — map keys are distinct — is not even needed, see
    `sort_perm_invariant_multiset`.) -/
theorem sort_perm_invariant {α : Type} (lt : α → α → Bool)
    (hirr : ∀ a, lt a a = false)
    (htrans : ∀ a b c, lt a b = true → lt b c = true → lt a c = true)
    (htot : ∀ a b, a ≠ b → lt a b = true ∨ lt b a = true)
    {l1 l2 : List α} (h : l1.Perm l2) (_hnd : l1.Nodup) : isort lt l1 = isort lt l2 :=
  isort_perm_invariant lt hirr htrans htot h

theorem sort_perm_invariant_multiset {α : Type} (lt : α → α → Bool)
    (hirr : ∀ a, lt a a = false)
    (htrans : ∀ a b c, lt a b = true → lt b c = true → lt a c = true)
    (htot : ∀ a b, a ≠ b → lt a b = true ∨ lt b a = true)
    {l1 l2 : List α} (h : l1.Perm l2) : isort lt l1 = isort lt l2 :=
  isort_perm_invariant lt hirr htrans htot h

/-- The byte order on strings (`sort.Strings`) is a strict total order: `strBytes` is injective. -/
theorem string_order_strict_total :
    (∀ a, strLt a a = false) ∧
    (∀ a b c, strLt a b = true → strLt b c = true → strLt a c = true) ∧
    (∀ a b, a ≠ b → strLt a b = true ∨ strLt b a = true) :=
  ⟨strLt_irrefl, strLt_trans, strLt_total⟩

/-! #### 1a. `createBatchTxs`: `for k := range coinIds { ids = append(ids, k) }; sort.Strings(ids)` -/

/-- `createBatchTxs` with the enumeration of the `coinIds` map supplied from outside. -/
def createBatchesVia (h : Hub) (chain : String) (keys : List String) : Hub :=
  if h.height % 2 == 0 then
    (isort (fun a b => bytesLt (strBytes a) (strBytes b)) keys).foldl
      (fun h id => (h.buildBatch chain id 100).1) h
  else h

/-- The model is the instance for the model's own enumeration of the key set. -/
theorem createBatchesVia_model (h : Hub) (chain : String) :
    createBatchesVia h chain ((h.chain chain).pool.map (·.extToken)).eraseDups = h.createBatches chain :=
  rfl

/-- Two enumerations of the same `coinIds` map build the same batches in the same order. -/
theorem create_batches_perm_invariant (h : Hub) (chain : String) {k1 k2 : List String}
    (hp : k1.Perm k2) : createBatchesVia h chain k1 = createBatchesVia h chain k2 := by
  unfold createBatchesVia
  have : isort (fun a b => bytesLt (strBytes a) (strBytes b)) k1 =
      isort (fun a b => bytesLt (strBytes a) (strBytes b)) k2 := isort_strLt_perm hp
  rw [this]

/-- Whatever duplicate-free enumeration of the token ids present in the pool Go's map iteration
    produces, the resulting state is the model's. -/
theorem create_batches_order_independent (h : Hub) (chain : String) {keys : List String}
    (hn : keys.Nodup) (hm : ∀ x, x ∈ keys ↔ ∃ s ∈ (h.chain chain).pool, s.extToken = x) :
    createBatchesVia h chain keys = h.createBatches chain := by
  rw [← createBatchesVia_model]
  apply create_batches_perm_invariant
  apply perm_eraseDups_of_nodup hn
  intro x; rw [hm, List.mem_map]

/-! #### 1b. `eventVoteRecordTally`: `for k := range attmap`, `sort.Slice(keys, <)` -/

/-- The nonce keys sorted with `<` do not depend on the enumeration of `attmap`. -/
theorem tally_keys_order_independent {k1 k2 : List Nat} (hp : k1.Perm k2) :
    isort natLt k1 = isort natLt k2 :=
  isort_natLt_perm hp

/-- `eventVoteRecordTally` as written in Go: the snapshot `attmap` groups the records by nonce
    (each group in store-iterator order, `GetExternalEventVoteRecordMapping` appends while
    iterating the store), the nonces are enumerated from the map (`keys`), sorted, and the groups
    are processed in that order. -/
def tallyVia (h : Hub) (mintsFee : Bool) (chain : String) (keys : List Nat) : M Hub :=
  let recs := (h.chain chain).records
  (isort natLt keys).foldlM (fun (h : Hub) n =>
    (recs.filter (fun r => r.nonce == n)).foldlM (fun (h : Hub) r => h.tryRecord mintsFee chain r) h) h

theorem tally_perm_invariant (h : Hub) (mintsFee : Bool) (chain : String) {k1 k2 : List Nat}
    (hp : k1.Perm k2) : tallyVia h mintsFee chain k1 = tallyVia h mintsFee chain k2 := by
  unfold tallyVia
  rw [tally_keys_order_independent hp]

/-- The per-nonce record lists come from the store iterator, not from the map: for a store in key
    order (`be8 nonce ++ hash`, `uint64` nonces) and any duplicate-free enumeration of the nonces
    present, the Go loop visits the records exactly in store order, which is what the model's
    `Hub.tally` folds over.  The two hypotheses on the store are fields of the reachable-state
    invariant `VInvB` of Lemmas/Votes (`base.sorted`, `bounded`). -/
theorem tally_order_independent (h : Hub) (mintsFee : Bool) (chain : String) {keys : List Nat}
    (hn : keys.Nodup) (hm : ∀ n, n ∈ keys ↔ ∃ r ∈ (h.chain chain).records, r.nonce = n)
    (hs : (h.chain chain).records.Pairwise (fun a b => bytesLt (recKey a) (recKey b) = true))
    (hb : ∀ r ∈ (h.chain chain).records, r.nonce < 2 ^ 64) :
    tallyVia h mintsFee chain keys = h.tally mintsFee chain := by
  unfold tallyVia Hub.tally
  simp only
  rw [← foldlM_flatMap (m := M)
    (fun (h : Hub) r => h.tryRecord mintsFee chain r)
    (fun n => (h.chain chain).records.filter (fun r => r.nonce == n))]
  rw [flatMap_groups_eq VoteRec.nonce (isort natLt keys) (isort_natLt_strict hn)
    (h.chain chain).records (records_sorted_by_nonce hs hb)]
  intro r hr
  rw [(Enc.isort_perm natLt keys).mem_iff, hm]
  exact ⟨r, hr, rfl⟩

/-! #### 1c. Oracle price names: `for name := range pricesSum`, `sort.Strings(priceNames)` -/

theorem price_names_order_independent {n1 n2 : List String} (hp : n1.Perm n2) :
    isort (fun a b => bytesLt (strBytes a) (strBytes b)) n1 =
      isort (fun a b => bytesLt (strBytes a) (strBytes b)) n2 :=
  isort_strLt_perm hp

/-- The price handler with the enumeration of the `pricesSum` map supplied from outside.  The
    per-name value lists (`priceReports`) are appended in vote order, a slice order. -/
def computePricesVia (powers : List (String × Nat)) (votes : List String)
    (claims : List (String × List (String × Int))) (names : List String) : List (String × Int) :=
  (isort (fun a b => bytesLt (strBytes a) (strBytes b)) names).filterMap fun n =>
    (weightedMedian (priceReports powers votes claims n)).map fun m => (n, m)

theorem computePricesVia_model (powers : List (String × Nat)) (votes : List String)
    (claims : List (String × List (String × Int))) :
    computePricesVia powers votes claims ((priceContributions powers votes claims).map (·.1)).eraseDups
      = computePrices powers votes claims := rfl

theorem compute_prices_order_independent (powers : List (String × Nat)) (votes : List String)
    (claims : List (String × List (String × Int))) {names : List String} (hn : names.Nodup)
    (hm : ∀ x, x ∈ names ↔ x ∈ (priceContributions powers votes claims).map (·.1)) :
    computePricesVia powers votes claims names = computePrices powers votes claims := by
  rw [← computePricesVia_model]
  unfold computePricesVia
  rw [price_names_order_independent (perm_eraseDups_of_nodup hn hm)]

/-! ### 2. `getLastEventNonceByValidator`: `for nonce, atts := range attmap` computing a minimum -/

/-- The running minimum over accepted records does not depend on the order of the records. -/
theorem min_fold_perm_invariant {l1 l2 : List VoteRec} (h : l1.Perm l2) (s : Nat) :
    l1.foldl (fun lo r => if r.accepted && r.nonce < lo then r.nonce else lo) s =
      l2.foldl (fun lo r => if r.accepted && r.nonce < lo then r.nonce else lo) s :=
  foldl_minStep_perm h s

/-- What the fold computes: `min start (min of the accepted nonces)`. -/
theorem min_fold_is_min (l : List VoteRec) (s : Nat) :
    let m := l.foldl (fun lo r => if r.accepted && r.nonce < lo then r.nonce else lo) s
    m ≤ s ∧ (∀ r ∈ l, r.accepted = true → m ≤ r.nonce) ∧
    (m = s ∨ ∃ r ∈ l, r.accepted = true ∧ m = r.nonce) :=
  ⟨foldl_minStep_le_start l s, fun _ hr ha => foldl_minStep_le_mem l s hr ha,
    foldl_minStep_attained l s⟩

/-- The model function built on that fold gives the same answer for any enumeration of the vote
    records. -/
theorem last_nonce_order_independent (c : ChainSt) {recs2 : List VoteRec}
    (hp : c.records.Perm recs2) (v : String) :
    ({ c with records := recs2 } : ChainSt).lastNonceOf v = c.lastNonceOf v := by
  unfold ChainSt.lastNonceOf
  simp only
  rw [← perm_isEmpty hp, ← min_fold_perm_invariant hp c.lastObserved]

/-! ### 3. `PowerDiff`: `for _, v := range powers { delta += math.Abs(float64(v)) }` -/

/-- The sum over the `powers` map does not depend on the enumeration of its keys. -/
theorem powerdiff_range_order_independent (a b : List Signer) {keys : List String}
    (hp : keys.Perm (pdKeys a b)) : sumNats (keys.map (pdTerm a b)) = powerDiffNum a b := by
  rw [powerDiffNum_eq]
  exact sumNats_perm (hp.map _)

/-- `PowerDiff` is a function of the two signer *sets*: reordering either argument (both slices
    come from stores/sorts, this is belt and braces) does not change it, provided the addresses
    of the first are pairwise distinct (its loop is last-write-wins).  The distinctness of `b` is
    not needed: its loop subtracts cumulatively. -/
theorem powerdiff_perm_invariant {a1 a2 b1 b2 : List Signer} (ha : a1.Perm a2) (hb : b1.Perm b2)
    (hna : (a1.map (·.addr)).Nodup) (_hnb : (b1.map (·.addr)).Nodup) :
    powerDiffNum a1 b1 = powerDiffNum a2 b2 := by
  rw [powerDiffNum_eq, powerDiffNum_eq]
  have hf : pdTerm a1 b1 = pdTerm a2 b2 := funext (pdTerm_perm ha hb hna)
  rw [hf]
  exact sumNats_perm ((pdKeys_perm ha hb).map _)

/-- The decision of `createSignerSetTxs` (`powerDiff > 0.05`, in the model
    `20 * powerDiffNum … > MaxUint32`) does not depend on the order of either signer list. -/
theorem signerset_decision_order_independent {a1 a2 b1 b2 : List Signer} (ha : a1.Perm a2)
    (hb : b1.Perm b2) (hna : (a1.map (·.addr)).Nodup) (hnb : (b1.map (·.addr)).Nodup) :
    decide (20 * powerDiffNum a1 b1 > maxU32) = decide (20 * powerDiffNum a2 b2 > maxU32) := by
  rw [powerdiff_perm_invariant ha hb hna hnb]

/-- Without distinct addresses in the first argument the value depends on the *slice* order of
    that argument (last write wins) — a property of the input, not of map iteration. -/
example : powerDiffNum [⟨1, "x"⟩, ⟨5, "x"⟩] [] = 5 ∧ powerDiffNum [⟨5, "x"⟩, ⟨1, "x"⟩] [] = 1 := by
  decide

/-- The float comparison `delta / 4294967295 > 0.05` against the integer test of the model
    `20 * delta > 4294967295`: the two sides of the threshold are separated by an integer gap.
    For `delta ≤ 214748364` the exact quotient is at most `0.05·(1 − 15/4294967295)`, for
    `delta ≥ 214748365` at least `0.05·(1 + 5/4294967295)`: relative margins above `10⁻⁹`, seven
    orders of magnitude more than the `2⁻⁵²` relative error of one correctly rounded division and
    of the literal `0.05`.  (IEEE-754 correct rounding is the trusted base; not modelled.) -/
theorem powerdiff_threshold_int (delta : Nat) :
    (delta ≤ 214748364 → 20 * delta + 15 ≤ 4294967295) ∧
    (214748365 ≤ delta → 4294967295 + 5 ≤ 20 * delta) ∧
    (20 * delta > maxU32 ↔ 214748365 ≤ delta) := by
  unfold maxU32; omega

/-- Every partial sum of at most `2^20` terms bounded by `MaxUint32` is below `2^53`, so it is an
    exactly representable double, every `delta += …` is exact, and the float sum equals the
    integer sum whatever the order.  (Exactness of IEEE-754 addition on integers `< 2^53` is the
    trusted base.) -/
theorem sum_below_2_53 {l : List Nat} (hlen : l.length ≤ 2 ^ 20) (hb : ∀ x ∈ l, x ≤ 4294967295) :
    sumNats l < 2 ^ 53 := by
  have h1 := sumNats_le_length_mul hb
  have h2 : l.length * 4294967295 ≤ 2 ^ 20 * 4294967295 := Nat.mul_le_mul_right _ hlen
  omega

theorem partial_sums_below_2_53 {l : List Nat} (hlen : l.length ≤ 2 ^ 20)
    (hb : ∀ x ∈ l, x ≤ 4294967295) (k : Nat) : sumNats (l.take k) < 2 ^ 53 := by
  have := sum_below_2_53 hlen hb
  have := sumNats_take_le l k
  omega

/-- … instantiated: for signer sets with at most `2^20` members in total, powers at most
    `MaxUint32` and distinct addresses in the second set, every partial sum of `PowerDiff`, in
    any enumeration order of the map, is below `2^53`. -/
theorem powerdiff_partial_sums_below_2_53 {a b : List Signer} (hlen : a.length + b.length ≤ 2 ^ 20)
    (ha : ∀ s ∈ a, s.power ≤ 4294967295) (hb : ∀ s ∈ b, s.power ≤ 4294967295)
    (hnb : (b.map (·.addr)).Nodup) {keys : List String} (hp : keys.Perm (pdKeys a b)) (k : Nat) :
    sumNats ((keys.map (pdTerm a b)).take k) < 2 ^ 53 := by
  apply partial_sums_below_2_53
  · rw [List.length_map, hp.length_eq]
    exact Nat.le_trans (pdKeys_length_le a b) hlen
  · intro x hx
    obtain ⟨y, _, rfl⟩ := List.mem_map.mp hx
    exact pdTerm_le ha hb hnb y

/-! ### 4. Normalisation: `for address, power := range bridgeValidators { … power * M / total }` -/

/-- Rewriting every entry to `power * M / total` (`total` summed over all entries) commutes with
    reordering the entries, and the resulting map has the same lookups. -/
theorem normalise_pointwise_perm_invariant (M : Nat) {l1 l2 : List (String × Nat)}
    (h : l1.Perm l2) (hn : (l1.map (·.1)).Nodup) :
    sumNats (l1.map (·.2)) = sumNats (l2.map (·.2)) ∧
    (normalise M l1).Perm (normalise M l2) ∧
    ∀ k, alGet (normalise M l1) k = alGet (normalise M l2) k := by
  refine ⟨sumNats_perm (h.map _), normalise_perm M h, fun k => ?_⟩
  exact alGet_perm (normalise_perm M h) (by rw [normalise_keys]; exact hn) k

/-- `GetNormalizedValPowers` on a reordered validator set: same outcome (same error, or maps with
    the same entries and the same lookups). -/
theorem normalized_powers_order_independent (h : Hub) {st2 : List Validator}
    (hp : h.staking.Perm st2) (hn : ((h.staking.filter (·.bonded)).map (·.addr)).Nodup) :
    (∀ e, h.normalizedPowers = .error e → ({ h with staking := st2 } : Hub).normalizedPowers = .error e) ∧
    (∀ p1, h.normalizedPowers = .ok p1 →
      ∃ p2, ({ h with staking := st2 } : Hub).normalizedPowers = .ok p2 ∧ p1.Perm p2 ∧
        ∀ k, alGet p1 k = alGet p2 k) := by
  have hb : (h.staking.filter (·.bonded)).Perm (st2.filter (·.bonded)) := hp.filter _
  have hbm : ((h.staking.filter (·.bonded)).map fun v => (v.addr, v.power)).Perm
      ((st2.filter (·.bonded)).map fun v => (v.addr, v.power)) := hb.map _
  have hnm : (((h.staking.filter (·.bonded)).map fun v => (v.addr, v.power)).map (·.1)).Nodup := by
    rw [List.map_map]; exact hn
  obtain ⟨_, hperm, hget⟩ := normalise_pointwise_perm_invariant maxU16 hbm hnm
  rw [normalizedPowers_eq, normalizedPowers_eq]
  simp only
  rw [← perm_isEmpty hb, ← sumNats_perm (hb.map (·.power))]
  exact ite_outcome _ _ (.panic "division by zero") _ _
    (fun p1 p2 => p1.Perm p2 ∧ ∀ k, alGet p1 k = alGet p2 k)
    ⟨List.Perm.refl _, fun _ => rfl⟩ ⟨hperm, hget⟩

/-- `CurrentSignerSet` on a reordered validator set: same error, or the same members in possibly
    another order — and the stored signer set (`sortSigners`, hence its checkpoint hash) is
    identical. -/
theorem current_signers_order_independent (h : Hub) (chain : String) {st2 : List Validator}
    (hp : h.staking.Perm st2) :
    (∀ e, h.currentSigners chain = .error e →
      ({ h with staking := st2 } : Hub).currentSigners chain = .error e) ∧
    (∀ s1, h.currentSigners chain = .ok s1 →
      ∃ s2, ({ h with staking := st2 } : Hub).currentSigners chain = .ok s2 ∧ s1.Perm s2 ∧
        sortSigners s1 = sortSigners s2) := by
  have hb : h.bondedByPower.Perm ({ h with staking := st2 } : Hub).bondedByPower :=
    (Enc.isort_perm _ _).trans ((hp.filter _).trans (Enc.isort_perm _ _).symm)
  have hr : (rawSigners (h.chain chain).valExt h.bondedByPower).Perm
      (rawSigners (h.chain chain).valExt ({ h with staking := st2 } : Hub).bondedByPower) :=
    hb.filterMap _
  have hc : ({ h with staking := st2 } : Hub).chain chain = h.chain chain := rfl
  rw [currentSigners_eq, currentSigners_eq, hc]
  simp only
  rw [← perm_isEmpty hr, ← sumNats_perm (hr.map (·.power))]
  exact ite_outcome _ _ (.panic "division by zero") _ _
    (fun s1 s2 => s1.Perm s2 ∧ sortSigners s1 = sortSigners s2)
    ⟨List.Perm.refl _, rfl⟩
    ⟨normaliseSigners_perm hr, Enc.sortSigners_eq_of_perm (normaliseSigners_perm hr)⟩

/-! ### 5. Holders: `for hash, votes := range holdersTally { if votes > 43690 { …; return } }` -/

/-- Two disjoint groups of voters cannot both hold more than 43690 when all voters together hold
    at most 65535. -/
theorem holders_winner_unique {α : Type} (w : α → Nat) (p q : α → Bool) (l : List α)
    (hd : ∀ x ∈ l, ¬ (p x = true ∧ q x = true)) (htot : sumNats (l.map w) ≤ 65535) :
    ¬ (sumNats ((l.filter p).map w) > 43690 ∧ sumNats ((l.filter q).map w) > 43690) := by
  have := sum_filter_disjoint_le w p q l hd
  omega

/-- The voters with their stored lists. -/
def holdersLists (votes : List String) (claims : List (String × List (String × Int))) :
    List (String × List (String × Int)) :=
  votes.map fun v => (v, (alGet claims v).getD [])

/-- The keys of `holdersTally` (claim hashes, here canonical forms) in the model's enumeration. -/
def holdersCanons (votes : List String) (claims : List (String × List (String × Int))) :
    List (List String) :=
  ((holdersLists votes claims).map fun p => holdersCanon p.2).eraseDups

/-- `votes > math.MaxUint16*2/3` for one key of the tally. -/
def holdersWins (powers : List (String × Nat)) (votes : List String)
    (claims : List (String × List (String × Int))) (c : List String) : Bool :=
  decide (sumNats (((holdersLists votes claims).filter fun p => holdersCanon p.2 == c).map
    fun p => (alGet powers p.1).getD 0) > maxU16 * 2 / 3)

/-- The holders handler with the enumeration of the `holdersTally` map supplied from outside:
    the first key over the threshold wins (`return nil` inside the range loop). -/
def computeHoldersVia (powers : List (String × Nat)) (votes : List String)
    (claims : List (String × List (String × Int))) (enum : List (List String)) :
    Option (List (String × Int)) :=
  match enum.filter (holdersWins powers votes claims) with
  | [] => none
  | c :: _ => (((holdersLists votes claims).filter fun p => holdersCanon p.2 == c).getLast?).map (·.2)

theorem computeHoldersVia_model (powers : List (String × Nat)) (votes : List String)
    (claims : List (String × List (String × Int))) :
    computeHoldersVia powers votes claims (holdersCanons votes claims) =
      computeHolders powers votes claims := rfl

/-- At most one key of the tally is over the threshold. -/
theorem holders_winners_agree {powers : List (String × Nat)} {votes : List String}
    {claims : List (String × List (String × Int))}
    (hsum : sumNats (votes.map fun v => (alGet powers v).getD 0) ≤ 65535) {c1 c2 : List String}
    (h1 : holdersWins powers votes claims c1 = true) (h2 : holdersWins powers votes claims c2 = true) :
    c1 = c2 := by
  apply Classical.byContradiction
  intro hne
  unfold holdersWins at h1 h2
  rw [decide_eq_true_eq, twoThirdsU16] at h1 h2
  refine holders_winner_unique (fun p => (alGet powers p.1).getD 0)
    (fun p => holdersCanon p.2 == c1) (fun p => holdersCanon p.2 == c2) (holdersLists votes claims)
    ?_ ?_ ⟨h1, h2⟩
  · intro x _ ⟨e1, e2⟩
    rw [beq_iff_eq] at e1 e2
    exact hne (e1.symm.trans e2)
  · unfold holdersLists
    rw [List.map_map]
    exact hsum

theorem holders_winners_length_le_one {powers : List (String × Nat)} {votes : List String}
    {claims : List (String × List (String × Int))}
    (hsum : sumNats (votes.map fun v => (alGet powers v).getD 0) ≤ 65535) :
    ((holdersCanons votes claims).filter (holdersWins powers votes claims)).length ≤ 1 := by
  apply length_le_one_of_all_eq ((nodup_eraseDups _).sublist List.filter_sublist)
  intro a ha b hb
  exact holders_winners_agree hsum (List.mem_filter.mp ha).2 (List.mem_filter.mp hb).2

/-- Whatever order Go enumerates `holdersTally` in, the handler stores what the model stores —
    given that the normalised powers of the voters sum to at most 65535. -/
theorem compute_holders_order_independent {powers : List (String × Nat)} {votes : List String}
    {claims : List (String × List (String × Int))} {enum : List (List String)}
    (hp : enum.Perm (holdersCanons votes claims))
    (hsum : sumNats (votes.map fun v => (alGet powers v).getD 0) ≤ 65535) :
    computeHoldersVia powers votes claims enum = computeHolders powers votes claims := by
  rw [← computeHoldersVia_model]
  unfold computeHoldersVia
  rw [filter_unique_perm_eq hp.symm (nodup_eraseDups _)
    (fun a _ b _ ha hb => holders_winners_agree hsum ha hb)]

/-- The hypothesis holds in every epoch: the powers come from `GetNormalizedValPowers`
    (`Σ ⌊pᵢ·65535/T⌋ ≤ 65535` over distinct bonded validators) and the voters are pairwise distinct
    (`OracleSt.WF`, an invariant of the oracle state). -/
theorem compute_holders_order_independent_epoch {h : Hub} {o : OracleSt} (hwf : o.WF)
    {powers : List (String × Nat)} (hok : h.normalizedPowers = .ok powers)
    {enum : List (List String)} (hp : enum.Perm (holdersCanons o.holderVotes o.holderClaims)) :
    computeHoldersVia powers o.holderVotes o.holderClaims enum =
      computeHolders powers o.holderVotes o.holderClaims :=
  compute_holders_order_independent hp (normalized_sum_le hok hwf.2.1)

/-! ### 6. Weighted median: values appended in vote order, then `sort.Slice` (not stable) -/

/-- The sorted expanded list depends only on the multiset of reports. -/
theorem expand_sorted_perm_invariant {l1 l2 : List (Int × Nat)} (h : l1.Perm l2) :
    expandWeighted (sortByValue l1) = expandWeighted (sortByValue l2) :=
  medianList_perm_invariant h

/-- `sort.Slice` is not stable, but any sorted arrangement of the appended values is the same
    list of values. -/
theorem any_sort_same_values {l : List (Int × Nat)} {e : List Int}
    (hp : e.Perm (expandWeighted l)) (hs : e.Pairwise (· ≤ ·)) :
    e = expandWeighted (sortByValue l) :=
  sorted_expansion_unique hp hs

theorem median_perm_invariant {l1 l2 : List (Int × Nat)} (h : l1.Perm l2) :
    weightedMedian l1 = weightedMedian l2 :=
  weightedMedian_perm_invariant h

/-! ### 7. The regenerated site lists are exactly the sites covered above -/

/-- Map ranges: 1a, 1b, 5, 1c/6, 2, 4, 3. -/
theorem fact_det_map_ranges : Generated.det_map_ranges =
    "abci.go:createBatchTxs:coinIds abci.go:eventVoteRecordTally:attmap attestation_handler.go:Handle:holdersTally attestation_handler.go:Handle:pricesSum external_event_vote.go:getLastEventNonceByValidator:attmap keeper.go:GetNormalizedValPowers:bridgeValidators types.go:PowerDiff:powers" :=
  rfl

/-- Sorts.  Fed from a map range, so the input order is random and the comparator must leave no
    freedom: `createBatchTxs` (1a), `eventVoteRecordTally` (1b), `Handle:sort.Strings` (1c) — strict
    total orders on distinct keys; `Handle:sort.Slice` (6) — ties are equal values.
    Fed from a slice in deterministic order (store iterator or message field), where `sort.Slice`
    is a deterministic function of its input (Go's pdqsort draws no randomness — trusted):
    `types.go:Sort` (`ExternalSigners.Sort`; in addition a strict total order, see
    `signer_sort_order_independent`), `StabilizedClaimHash` (`holders_canon_order_independent`),
    `getDelegateKeys`/`getNonces` (genesis export, C15) and `UnsignedBatchTxs` (a gRPC query, not
    state; its comparator `BatchNonce <` is not total across tokens, so the order of ties is
    whatever pdqsort makes of the store order — the model's stable `isort` may differ there). -/
theorem fact_det_sorts : Generated.det_sorts =
    "abci.go:createBatchTxs:sort.Strings abci.go:eventVoteRecordTally:sort.Slice attestation_handler.go:Handle:sort.Slice attestation_handler.go:Handle:sort.Strings grpc_query.go:UnsignedBatchTxs:sort.Slice keeper.go:getDelegateKeys:sort.Slice keeper.go:getNonces:sort.Slice msgs.go:StabilizedClaimHash:sort.Strings types.go:Sort:sort.Slice" :=
  rfl

/-- The only floating-point computation in the state machine (section 3). -/
theorem fact_det_floats : Generated.det_floats = "types.go:PowerDiff" := rfl

/-- No goroutines in the modules. -/
theorem fact_det_goroutines : Generated.det_goroutines = "" := rfl

/-- No wall-clock time and no randomness in the modules. -/
theorem fact_det_time_rand : Generated.det_time_rand = "" := rfl

/-- The other sorts of the list, as model facts: the signer order and the holders canonical form
    depend only on the multiset of inputs. -/
theorem signer_sort_order_independent {l1 l2 : List Signer} (h : l1.Perm l2) :
    sortSigners l1 = sortSigners l2 :=
  Enc.sortSigners_eq_of_perm h

theorem holders_canon_order_independent {l1 l2 : List (String × Int)} (h : l1.Perm l2) :
    holdersCanon l1 = holdersCanon l2 :=
  isort_strLt_perm (h.map _)

/-- All five regenerated lists at once. -/
theorem sites_covered :
    Generated.det_map_ranges =
      "abci.go:createBatchTxs:coinIds abci.go:eventVoteRecordTally:attmap attestation_handler.go:Handle:holdersTally attestation_handler.go:Handle:pricesSum external_event_vote.go:getLastEventNonceByValidator:attmap keeper.go:GetNormalizedValPowers:bridgeValidators types.go:PowerDiff:powers" ∧
    Generated.det_sorts =
      "abci.go:createBatchTxs:sort.Strings abci.go:eventVoteRecordTally:sort.Slice attestation_handler.go:Handle:sort.Slice attestation_handler.go:Handle:sort.Strings grpc_query.go:UnsignedBatchTxs:sort.Slice keeper.go:getDelegateKeys:sort.Slice keeper.go:getNonces:sort.Slice msgs.go:StabilizedClaimHash:sort.Strings types.go:Sort:sort.Slice" ∧
    Generated.det_floats = "types.go:PowerDiff" ∧ Generated.det_goroutines = "" ∧
    Generated.det_time_rand = "" :=
  ⟨rfl, rfl, rfl, rfl, rfl⟩

/-! ### 8. Non-vacuity -/

/-- Sorting two enumerations of the same key set, concretely. -/
example : isort strLt ["bsc", "eth", "abc"] = ["abc", "bsc", "eth"] ∧
    isort strLt ["eth", "abc", "bsc"] = ["abc", "bsc", "eth"] := by decide +kernel

example : isort natLt [7, 5, 6] = [5, 6, 7] ∧ isort natLt [6, 7, 5] = [5, 6, 7] := by decide

/-- A comparator that is not total (compares only the first component) does depend on the
    enumeration order: the totality hypothesis of `sort_perm_invariant` is needed. -/
example : isort (fun (a b : Nat × Nat) => decide (a.1 < b.1)) [(1, 0), (1, 1)] ≠
    isort (fun (a b : Nat × Nat) => decide (a.1 < b.1)) [(1, 1), (1, 0)] := by decide

def exSte (id : Nat) (tok : String) : Ste :=
  { id := id, sender := "a", recipient := "r", tokenId := 1, extToken := tok, amount := 5, fee := 1,
    comm := 0, chain := "e", txHash := "x", createdAt := 0, refundAddr := "a", refundChain := "hub" }

def exHub : Hub :=
  { chains := ["e"], cs := [("e", { pool := [exSte 1 "T", exSte 2 "U", exSte 3 "T"], lastSteId := 3 })],
    height := 2 }

/-- Both enumerations of `{T, U}` satisfy the hypotheses of `create_batches_order_independent`,
    and the batches come out in the same order with the same nonces. -/
example : ((createBatchesVia exHub "e" ["U", "T"]).chain "e").batches.map (fun b => (b.extToken, b.nonce))
      = ((createBatchesVia exHub "e" ["T", "U"]).chain "e").batches.map (fun b => (b.extToken, b.nonce)) ∧
    (((createBatchesVia exHub "e" ["U", "T"]).chain "e").batches.map (·.nonce)).length = 2 := by
  decide +kernel

example : createBatchesVia exHub "e" ["U", "T"] = exHub.createBatches "e" :=
  create_batches_order_independent exHub "e" (by decide) (by
    intro x
    show x ∈ ["U", "T"] ↔ ∃ s ∈ [exSte 1 "T", exSte 2 "U", exSte 3 "T"], s.extToken = x
    simp only [List.mem_cons, List.not_mem_nil, or_false, exists_eq_or_imp, exists_eq_left, exSte]
    constructor
    · rintro (h | h) <;> simp [h]
    · rintro (h | h | h) <;> simp [← h])

/-- Grouping a nonce-sorted store by the sorted keys of the map gives the store order back … -/
example : (isort natLt [2, 1]).flatMap (fun n => [(1, "a"), (1, "b"), (2, "c")].filter (fun r => r.1 == n))
    = [(1, "a"), (1, "b"), (2, "c")] := by decide

/-- … which is not so for a list that is not sorted by nonce (the store-order hypothesis of
    `tally_order_independent` is used). -/
example : (isort natLt [2, 1]).flatMap (fun n => [(2, "c"), (1, "a")].filter (fun r => r.1 == n))
    ≠ [(2, "c"), (1, "a")] := by decide

def exRec (n : Nat) (acc : Bool) : VoteRec :=
  { nonce := n, hash := [], ev := .contractCall n [] 0 0, votes := [], accepted := acc }

/-- The minimum fold on two orders of the same records: accepted nonces 7 and 4, start 9. -/
example :
    [exRec 7 true, exRec 2 false, exRec 4 true].foldl
      (fun lo r => if r.accepted && r.nonce < lo then r.nonce else lo) 9 = 4 ∧
    [exRec 4 true, exRec 7 true, exRec 2 false].foldl
      (fun lo r => if r.accepted && r.nonce < lo then r.nonce else lo) 9 = 4 := by decide

example : ({ records := [exRec 7 true, exRec 4 true], lastObserved := 9 } : ChainSt).lastNonceOf "v" = 3 ∧
    ({ records := [exRec 4 true, exRec 7 true], lastObserved := 9 } : ChainSt).lastNonceOf "v" = 3 := by
  decide

/-- `PowerDiff` on reordered sets: |10−0| + |20−15| + |0−7| = 22. -/
example : powerDiffNum [⟨10, "x"⟩, ⟨20, "y"⟩] [⟨15, "y"⟩, ⟨7, "z"⟩] = 22 ∧
    powerDiffNum [⟨20, "y"⟩, ⟨10, "x"⟩] [⟨7, "z"⟩, ⟨15, "y"⟩] = 22 ∧
    sumNats (["z", "x", "y"].map (pdTerm [⟨10, "x"⟩, ⟨20, "y"⟩] [⟨15, "y"⟩, ⟨7, "z"⟩])) = 22 := by decide

/-- The threshold: 5 % of `MaxUint32` sits strictly between 214748364 and 214748365. -/
example : ¬ (20 * 214748364 > maxU32) ∧ 20 * 214748365 > maxU32 := by decide

/-- Normalisation of a reordered map: same entries, same lookups. -/
example : normalise 65535 [("a", 5), ("b", 3), ("c", 2)] = [("a", 32767), ("b", 19660), ("c", 13107)] ∧
    normalise 65535 [("c", 2), ("a", 5), ("b", 3)] = [("c", 13107), ("a", 32767), ("b", 19660)] ∧
    alGet (normalise 65535 [("c", 2), ("a", 5), ("b", 3)]) "b" = some 19660 := by decide

/-- Holders: `a` and `b` agree (52427 > 43690); either enumeration of the two tally keys stores
    the same list. -/
example :
    computeHoldersVia [("a", 32767), ("b", 19660), ("c", 13107)] ["a", "c", "b"]
      [("a", [("0xa", 1)]), ("b", [("0xa", 1)]), ("c", [("0xa", 2)])] [["0xa:1"], ["0xa:2"]]
      = some [("0xa", 1)] ∧
    computeHoldersVia [("a", 32767), ("b", 19660), ("c", 13107)] ["a", "c", "b"]
      [("a", [("0xa", 1)]), ("b", [("0xa", 1)]), ("c", [("0xa", 2)])] [["0xa:2"], ["0xa:1"]]
      = some [("0xa", 1)] := by decide

/-- The bound on the voters' total power is what makes the winner unique: with (impossible)
    powers summing to 100000 two keys are over the threshold and the enumeration order would
    decide. -/
example :
    computeHoldersVia [("a", 50000), ("c", 50000)] ["a", "c"]
      [("a", [("0xa", 1)]), ("c", [("0xa", 2)])] [["0xa:1"], ["0xa:2"]] = some [("0xa", 1)] ∧
    computeHoldersVia [("a", 50000), ("c", 50000)] ["a", "c"]
      [("a", [("0xa", 1)]), ("c", [("0xa", 2)])] [["0xa:2"], ["0xa:1"]] = some [("0xa", 2)] := by decide

/-- The weighted median of reordered reports (equal values with different weights included). -/
example : weightedMedian [(5, 2), (1, 1), (9, 2), (5, 1)] = weightedMedian [(5, 1), (9, 2), (5, 2), (1, 1)] :=
  median_perm_invariant (by decide)

example : weightedMedian [(5, 2), (1, 1), (9, 2)] = some 5 := by
  have hs : sortByValue [(5, 2), (1, 1), (9, 2)] = [(1, 1), (5, 2), (9, 2)] := by
    simp [sortByValue, List.mergeSort, List.MergeSort.Internal.splitInTwo]
  simp only [weightedMedian, hs]; decide

end Mhub2.C06
