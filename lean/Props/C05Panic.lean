/-
  C05 — Block processing never panics: panic freedom of the model's begin block, end block and
  oracle end block, and the lock discipline of the repaired refund loop.
  Property theorems only; the helper lemmas live in Lemmas/PanicA.lean (which imports neither
  Lemmas/Votes.lean nor Lemmas/Ledger.lean; the bridge from the ledger invariant of C04 is in
  Lemmas/PanicB.lean, the bridge from C03's reachable vote bookkeeping is below).

  In the model a panic is the result `.error (.panic msg)`.  The panic sources reachable from
  `beginBlock` / `endBlock` / `oracleEndBlock` and the hypothesis that excludes each:

  * `tryRecord`, "attempting to process observed external event"  — `AcceptedBehind`
    (accepted vote records are never ahead of the last observed nonce; C03 proves it of every
    reachable vote bookkeeping).  The weaker `NoStaleAccepted` is NOT enough, see
    `end_block_noStale_insufficient`.
  * `cancelBatch`, "CANNOT CANCEL MINTER BATCH" / "nil batch"      — begin block skips "minter";
    `BatchKeysSorted` (every batch store is strictly ascending by store key, as a KV store is), or
    `BatchKeysDistinct` together with `h.chains.Nodup`.
  * `currentSigners`, "division by zero"                             — `StakingSane` (implied by
    `BondedPositive`).
  * `normalizedPowers`, "division by zero"                           — `OracleStakingSane` (implied by
    `BondedPositive`).
  * `cancelSte` in `refundExpired`, "negative coin amount"           — `EntriesNonneg`.
  * every panic of the event handler                                 — swallowed by `tryRecord`.

  The four state hypotheses together (`BlockInv`) are an invariant: begin block and end block
  preserve them (`begin_block_blockInv`, `end_block_blockInv`), and so does every other operation of
  the model, so they hold in every state reachable from genesis with sane staking updates
  (`reachable_blockInv`) and the model never answers "panic" to `begin`, `end` or `oend` there.
-/
import Props.C03
import Props.C05
import Lemmas.PanicA
namespace Mhub2.C05
open Mhub2 Mhub2.Lock

/-! ### Begin block -/

/-- 2. Begin block does not panic: batch stores sorted by key, sane signer-set computation. -/
theorem begin_block_no_panic {h : Hub} (hb : BatchKeysSorted h) (hs : StakingSane h) :
    ∀ m, h.beginBlock ≠ .error (.panic m) :=
  (beginBlock_spec h hb hs).1

/-- … and its hypotheses hold again in the state it returns, as do the hypotheses of
    `end_block_no_panic` if they held before: the clean-up only moves transfers from batches back
    to pools, batch creation only moves them from pools to batches, and nothing touches the vote
    bookkeeping, the staking view or the registered keys. -/
theorem begin_block_preserves {h h' : Hub} (hb : BatchKeysSorted h) (hs : StakingSane h)
    (hok : h.beginBlock = .ok h') :
    BatchKeysSorted h' ∧ StakingSane h' ∧ (AcceptedBehind h → AcceptedBehind h') ∧
    (EntriesNonneg h → EntriesNonneg h') := by
  have hk := (beginBlock_spec h hb hs).2 h' hok
  exact ⟨hk.toLKeeps.batchKeysSorted hb, hk.toLKeeps.stakingSane hs, hk.acceptedBehind, hk.nonneg⟩

/-- 2, variant: distinct (not necessarily sorted) batch keys suffice when no chain is listed twice.
    `Hub.LedgerInv` with `Hub.Bounded` gives distinct keys (Lemmas/PanicB.lean). -/
theorem begin_block_no_panic_nodup {h : Hub} (hn : h.chains.Nodup) (hb : BatchKeysDistinct h)
    (hs : StakingSane h) : ∀ m, h.beginBlock ≠ .error (.panic m) :=
  beginBlock_spec_nodup h hn hb hs

/-- The time-out clean-up alone: on a chain other than "minter" whose batch keys are distinct, every
    batch it cancels is still in the store ("nil batch" is unreachable). -/
theorem cleanup_no_panic {h : Hub} {c : String} (hne : c ≠ "minter")
    (hd : KeysDistinct batchKey (h.chain c).batches) :
    ∀ m, h.cleanupTimedOutBatches c ≠ .error (.panic m) :=
  (cleanup_spec hne hd).1

/-- The signer-set computation panics only by dividing by zero, and not at all when bonded validators
    have positive power. -/
theorem current_signers_no_panic {h : Hub} (hp : BondedPositive h) (c m : String) :
    h.currentSigners c ≠ .error (.panic m) :=
  hp.stakingSane.no_panic c m

theorem begin_block_no_panic_of_bonded {h : Hub} (hb : BatchKeysSorted h) (hp : BondedPositive h) :
    ∀ m, h.beginBlock ≠ .error (.panic m) :=
  begin_block_no_panic hb hp.stakingSane

/-! ### End block -/

/-- 3. End block does not panic: accepted vote records are behind the counters, entries of pools and
    batches are non-negative.  (For either value of the `mintsFee` switch.) -/
theorem end_block_no_panic {h : Hub} (mf : Bool) (ha : AcceptedBehind h) (hn : EntriesNonneg h) :
    ∀ m, h.endBlock mf ≠ .error (.panic m) :=
  (endBlock_spec h mf ⟨ha, hn⟩).1

/-- … and its hypotheses hold again in the state it returns: the handlers, which run inside it and
    create pool entries (deposits to other chains, fee refunds, commission payouts), create only
    non-negative ones, and neither they nor the refunds touch the vote bookkeeping. -/
theorem end_block_preserves {h h' : Hub} (mf : Bool) (ha : AcceptedBehind h) (hn : EntriesNonneg h)
    (hok : h.endBlock mf = .ok h') :
    AcceptedBehind h' ∧ EntriesNonneg h' ∧ (BatchKeysSorted h → BatchKeysSorted h') ∧
    (StakingSane h → StakingSane h') := by
  obtain ⟨hi, hl⟩ := (endBlock_spec h mf ⟨ha, hn⟩).2 h' hok
  exact ⟨hi.1, hi.2, hl.batchKeysSorted, hl.stakingSane⟩

/-- C03's invariant of reachable vote bookkeeping gives `AcceptedBehind`.  (`Reach` speaks about a
    chain state that holds nothing but votes, so it is applied to a state with the same records and
    counter.) -/
theorem acceptedBehind_of_reach {h : Hub}
    (hr : ∀ c, ∃ v, Reach v ∧ v.records = (h.chain c).records ∧ v.lastObserved = (h.chain c).lastObserved) :
    AcceptedBehind h := by
  intro c r hrm hacc
  obtain ⟨v, hv, e1, e2⟩ := hr c
  rw [← e1] at hrm
  rw [← e2]
  exact C03.accepted_le_last hv r hrm hacc

theorem end_block_no_panic_of_reach {h : Hub} (mf : Bool)
    (hr : ∀ c, ∃ v, Reach v ∧ v.records = (h.chain c).records ∧ v.lastObserved = (h.chain c).lastObserved)
    (hn : EntriesNonneg h) : ∀ m, h.endBlock mf ≠ .error (.panic m) :=
  end_block_no_panic mf (acceptedBehind_of_reach hr) hn

theorem acceptedBehind_noStale {h : Hub} (ha : AcceptedBehind h) : NoStaleAccepted h := ha.noStale

/-- The four hypotheses together are an invariant of block processing: begin block and end block
    neither panic from it nor leave it, so a block's begin-block/end-block pair (with nothing in
    between) cannot panic, block after block. -/
def BlockInv (h : Hub) : Prop :=
  BatchKeysSorted h ∧ StakingSane h ∧ AcceptedBehind h ∧ EntriesNonneg h

theorem begin_block_blockInv {h : Hub} (hi : BlockInv h) :
    (∀ m, h.beginBlock ≠ .error (.panic m)) ∧ ∀ h', h.beginBlock = .ok h' → BlockInv h' := by
  obtain ⟨hb, hs, ha, hn⟩ := hi
  refine ⟨begin_block_no_panic hb hs, fun h' hok => ?_⟩
  obtain ⟨b', s', a', n'⟩ := begin_block_preserves hb hs hok
  exact ⟨b', s', a' ha, n' hn⟩

theorem end_block_blockInv {h : Hub} (mf : Bool) (hi : BlockInv h) :
    (∀ m, h.endBlock mf ≠ .error (.panic m)) ∧ ∀ h', h.endBlock mf = .ok h' → BlockInv h' := by
  obtain ⟨hb, hs, ha, hn⟩ := hi
  refine ⟨end_block_no_panic mf ha hn, fun h' hok => ?_⟩
  obtain ⟨a', n', b', s'⟩ := end_block_preserves mf ha hn hok
  exact ⟨b' hb, s' hs, a', n'⟩

/-- Begin block followed by end block does not panic from a state satisfying the block invariant,
    and the invariant holds again afterwards. -/
theorem block_no_panic {h : Hub} (mf : Bool) (hi : BlockInv h) :
    (∀ m, (h.beginBlock >>= fun h1 => h1.endBlock mf) ≠ .error (.panic m)) ∧
    ∀ h', (h.beginBlock >>= fun h1 => h1.endBlock mf) = .ok h' → BlockInv h' := by
  have hb := begin_block_blockInv hi
  exact Safe.bind (P := BlockInv) hb fun h1 hi1 => end_block_blockInv mf hi1

/-- The tally of one chain alone. -/
theorem tally_no_panic {h : Hub} (mf : Bool) (c : String) (ha : AcceptedBehind h) (hn : EntriesNonneg h) :
    ∀ m, h.tally mf c ≠ .error (.panic m) :=
  (tally_spec h mf c ⟨ha, hn⟩).1

/-- 4. The expiry refunds of a chain do not panic when entries are non-negative: the refund value of
    a non-negative entry is non-negative, and a refund only removes an entry and possibly adds a
    non-negative one to another chain's pool. -/
theorem refund_expired_no_panic {h : Hub} (c : String) (hn : EntriesNonneg h) :
    ∀ m, h.refundExpired c ≠ .error (.panic m) :=
  (refundExpired_spec h c hn).1

/-- 6. The only panic `TryEventVoteRecord` lets through is its own check; every panic of the event
    handler is swallowed. -/
theorem handler_panic_confined (h : Hub) (mf : Bool) (c : String) (r : VoteRec) (m : String)
    (e : h.tryRecord mf c r = .error (.panic m)) :
    m = "attempting to process observed external event" :=
  tryRecord_panic_msg e

/-- A malformed or malicious transfer, deposit or claim can at worst fail on its own: whatever the
    handler does with the event of a record (fail, panic, succeed), `TryEventVoteRecord` succeeds
    unless the record is "already accepted at the next nonce". -/
theorem handler_failure_confined (h : Hub) (mf : Bool) (c : String) (r : VoteRec)
    (hnp : ¬ (r.nonce = (h.chain c).lastObserved + 1 ∧ r.accepted = true)) :
    ∃ h', h.tryRecord mf c r = .ok h' := by
  obtain ⟨h', e, _⟩ := tryRecord_cases h mf c hnp
  exact ⟨h', e⟩

/-! ### Oracle -/

/-- 5. The oracle's end block does not panic when there is no bonded validator or the bonded
    validators have positive total power. -/
theorem oracle_end_block_no_panic {h : Hub} (hs : OracleStakingSane h) (o : OracleSt) (n a d : Int) :
    ∀ m, oracleEndBlock h o n a d ≠ .error (.panic m) :=
  (oracleEndBlock_safe hs o n a d).1

theorem oracle_end_block_no_panic_of_bonded {h : Hub} (hp : BondedPositive h) (o : OracleSt) (n a d : Int) :
    ∀ m, oracleEndBlock h o n a d ≠ .error (.panic m) :=
  oracle_end_block_no_panic hp.oracleSane o n a d

/-! ### Reachable states -/

/-- Every state the model reaches from genesis — by any history of messages (sends, cancellations,
    batch requests, claims, confirmations, key delegations), begin and end blocks and environment
    changes, as long as staking updates give bonded validators positive power — satisfies the block
    invariant … -/
theorem reachable_blockInv (ops : List Op) (hops : ∀ op ∈ ops, SaneOp op) : BlockInv (runOps ops) := by
  obtain ⟨hb, hp, ha, hn⟩ := runOps_rinv ops hops
  exact ⟨hb, hp.stakingSane, ha, hn⟩

/-- … hence begin block, end block and the oracle's end block never panic in a reachable state:
    the model never answers "panic" to `begin`, `end` or `oend`. -/
theorem reachable_begin_block_no_panic (ops : List Op) (hops : ∀ op ∈ ops, SaneOp op) :
    ∀ m, (runOps ops).beginBlock ≠ .error (.panic m) :=
  (begin_block_blockInv (reachable_blockInv ops hops)).1

theorem reachable_end_block_no_panic (ops : List Op) (hops : ∀ op ∈ ops, SaneOp op) (mf : Bool) :
    ∀ m, (runOps ops).endBlock mf ≠ .error (.panic m) :=
  (end_block_blockInv mf (reachable_blockInv ops hops)).1

theorem reachable_oracle_end_block_no_panic (ops : List Op) (hops : ∀ op ∈ ops, SaneOp op)
    (o : OracleSt) (n a d : Int) : ∀ m, oracleEndBlock (runOps ops) o n a d ≠ .error (.panic m) :=
  oracle_end_block_no_panic_of_bonded (runOps_rinv ops hops).2.1 o n a d

theorem reachable_no_panic_output (ops : List Op) (hops : ∀ op ∈ ops, SaneOp op) :
    (apply (runOps ops) .beginBlock).2 ≠ "panic" ∧ (apply (runOps ops) .endBlock).2 ≠ "panic" := by
  constructor
  · intro e
    obtain ⟨m, hm⟩ := (outM_panic_iff _ _).mp e
    exact reachable_begin_block_no_panic ops hops m hm
  · intro e
    obtain ⟨m, hm⟩ := (outM_panic_iff _ _).mp e
    exact reachable_end_block_no_panic ops hops mintsFee m hm

/-! ### Lock discipline of the repaired refund loop -/

theorem disc_writes (w : Nat) (rest : List SOp) (s : St)
    (hrest : ∀ s', s'.iters = s.iters → s'.nextId = s.nextId → Disciplined s' rest) :
    Disciplined s (List.replicate w .write ++ rest) := by
  induction w generalizing s with
  | zero => exact hrest s rfl rfl
  | succ w ih =>
    rw [List.replicate_succ, List.cons_append]
    unfold Disciplined
    refine ⟨fun e => (by cases e), ?_⟩
    show Disciplined { s with dirty := s.dirty + 1 } _
    exact ih _ (fun s' h1 h2 => hrest s' h1 h2)

theorem disc_nexts (p : Nat) (rest : List SOp) (s : St) (hz : ∀ it ∈ s.iters, it.1 = 0)
    (hrest : ∀ s', (∀ it ∈ s'.iters, it.1 = 0) → s'.nextId = s.nextId → Disciplined s' rest) :
    Disciplined s (List.replicate p (.next 0) ++ rest) := by
  induction p generalizing s with
  | zero => exact hrest s hz rfl
  | succ p ih =>
    rw [List.replicate_succ, List.cons_append]
    unfold Disciplined
    refine ⟨fun e => (by cases e), ?_⟩
    show Disciplined { s with iters := s.iters.map fun it => if it.1 == 0 then (it.1, it.2 - 1) else it } _
    refine ih _ ?_ (fun s' h1 h2 => hrest s' h1 h2)
    intro it hit
    obtain ⟨it0, h0, rfl⟩ := List.mem_map.mp hit
    have := hz it0 h0
    split <;> simp [this]

theorem disc_refunds (r a : Nat) (s : St) (hi : s.iters = []) (hn : s.nextId = a + 1) :
    Disciplined s ((List.range' a r).flatMap fun k => [.openIter, .close (k + 1), .write]) := by
  induction r generalizing a s with
  | zero => simp [Disciplined]
  | succ r ih =>
    rw [List.range'_succ, List.flatMap_cons]
    simp only [List.cons_append, List.nil_append]
    unfold Disciplined
    refine ⟨fun _ => hi, ?_⟩
    have h1 : stepS s .openIter = some (St.mk 0 (s.sorted + s.dirty) [(a + 1, s.sorted + s.dirty)] (a + 2)) := by
      simp [stepS, St.readLocked, hi, hn]
    rw [h1]
    simp only []
    unfold Disciplined
    refine ⟨fun e => (by cases e), ?_⟩
    have h2 : stepS (St.mk 0 (s.sorted + s.dirty) [(a + 1, s.sorted + s.dirty)] (a + 2)) (.close (a + 1)) =
        some (St.mk 0 (s.sorted + s.dirty) [] (a + 2)) := by
      simp [stepS]
    rw [h2]
    simp only []
    unfold Disciplined
    refine ⟨fun e => (by cases e), ?_⟩
    exact ih (a + 1) _ rfl rfl

/-- 7. The schedule of the repaired `refundExpiredTxs` never opens an iterator while another one is
    open, for every number of dirty keys, pool size and number of refunds … -/
theorem refundTrace_disciplined (w p r : Nat) : Disciplined {} (refundTrace w p r) := by
  unfold refundTrace
  simp only [List.append_assoc, List.cons_append, List.nil_append]
  refine disc_writes w _ _ ?_
  intro s1 hi1 hn1
  have hi1' : s1.iters = [] := hi1
  have hn1' : s1.nextId = 0 := hn1
  unfold Disciplined
  refine ⟨fun _ => hi1', ?_⟩
  have h1 : stepS s1 .openIter = some (St.mk 0 (s1.sorted + s1.dirty) [(0, s1.sorted + s1.dirty)] 1) := by
    simp [stepS, St.readLocked, hi1', hn1']
  rw [h1]
  simp only []
  refine disc_nexts p _ _ (by simp) ?_
  intro s2 hz2 hn2
  unfold Disciplined
  refine ⟨fun e => (by cases e), ?_⟩
  have h2 : stepS s2 (.close 0) = some { s2 with iters := s2.iters.filter fun it => it.1 != 0 } := rfl
  rw [h2]
  simp only []
  rw [List.range_eq_range']
  refine disc_refunds r 0 _ ?_ hn2
  show s2.iters.filter (fun it => it.1 != 0) = []
  rw [List.filter_eq_nil_iff]
  intro it hit
  simp [hz2 it hit]

/-- … hence it never blocks on the store lock. -/
theorem refundTrace_never_blocks (w p r : Nat) : (run {} (refundTrace w p r)).isSome = true :=
  no_nested_iterator_no_deadlock _ _ (refundTrace_disciplined w p r)

/-! ### `NoStaleAccepted` alone is not enough -/

/-- Vote bookkeeping that no run produces (C03): record 2 is accepted while the counter is at 0.
    No record at nonce 1 is accepted, so `NoStaleAccepted` holds; but once the tally has applied
    record 1, record 2 is "already accepted at the next nonce". -/
def badHub : Hub :=
  { chains := ["e"], staking := [⟨"v1", 10, true⟩],
    cs := [("e", { records := [⟨1, [1], .contractCall 1 [] 0 1, ["v1"], false⟩,
                               ⟨2, [2], .contractCall 2 [] 0 2, [], true⟩] })] }

theorem end_block_noStale_insufficient :
    NoStaleAccepted badHub ∧ EntriesNonneg badHub ∧
    ∃ m, badHub.endBlock false = .error (.panic m) := by
  refine ⟨fun c => ?_, fun c => ?_, ?_⟩
  · exact forall_chain (h := badHub)
      (P := fun c => ¬ ∃ r ∈ c.records, r.nonce = c.lastObserved + 1 ∧ r.accepted = true)
      (by decide) (by decide) c
  · exact forall_chain (h := badHub) (P := CNonneg) CNonneg.empty
      (by intro p hp; simp [badHub] at hp; subst hp; intro s hs; simp at hs) c
  · have h : (match badHub.endBlock false with | .error (.panic _) => true | _ => false) = true := by
      decide +kernel
    split at h
    · exact ⟨_, ‹_›⟩
    · cases h

/-! ### Non-vacuity -/

def exTx : Ste :=
  { id := 1, sender := "aa", recipient := "0xr", tokenId := 1, extToken := "T", amount := 7, fee := 2, comm := 1,
    chain := "ethereum", txHash := "t1", createdAt := 0, refundAddr := "Mxrefund", refundChain := "minter" }

/-- Chain "ethereum": two expired pool entries (refunded to a hub account, resp. re-sent to
    "minter"), one timed-out batch, event 1 applied, events 2–6 voted for by the only validator:
    a deposit, a transfer to "minter", the execution of the batch (commission payout, relayer
    reimbursement, fee refund), a deposit with a negative amount (its handler fails: confined), a
    transfer whose amount is less than its fee (fails: confined). -/
def exEth : ChainSt :=
  { pool := [{ exTx with id := 2, txHash := "t2", refundChain := "hub" }, { exTx with id := 3, txHash := "t3" }],
    batches := [⟨1, 100, 1, 1, "T", [exTx]⟩],
    lastSteId := 3, lastBatchNonce := 1, outSeq := 1, lastObserved := 1, obsExtHeight := 200, obsCosmosHeight := 1,
    records := [
      ⟨1, [1], .contractCall 1 [] 0 9, ["v1"], true⟩,
      ⟨2, [2], .sendToHub 2 "T" 5 "0xs" "bb" 10 "dep", ["v1"], false⟩,
      ⟨3, [3], .transfer 3 "T" 100 3 "0xs" "minter" "Mxrcv" 11 "tr", ["v1"], false⟩,
      ⟨4, [4], .batchExecuted "T" 4 1 12 "bx" 1 "Mxpayer", ["v1"], false⟩,
      ⟨5, [5], .sendToHub 5 "T" (-5) "0xs" "bb" 13 "neg", ["v1"], false⟩,
      ⟨6, [6], .transfer 6 "T" 1 3 "0xs" "minter" "Mxrcv" 14 "tr2", ["v1"], false⟩] }

def exHub : Hub :=
  { chains := ["hub", "ethereum", "minter"],
    cs := [("ethereum", exEth), ("minter", { valExt := [("v1", "0xab")] })],
    tokens := [⟨1, "hub", "ethereum", "T", 18, 0⟩, ⟨2, "hub", "minter", "M", 18, 0⟩],
    prices := [("eth", decOne), ("hub", decOne)],
    staking := [⟨"v1", 10, true⟩], time := 100000, height := 7 }

theorem exHub_acceptedBehind : AcceptedBehind exHub := fun c =>
  forall_chain (h := exHub)
    (P := fun c => ∀ r ∈ c.records, r.accepted = true → r.nonce ≤ c.lastObserved)
    (by decide) (by decide) c

theorem exHub_entriesNonneg : EntriesNonneg exHub := fun c =>
  forall_chain (h := exHub)
    (P := fun c => ∀ s ∈ c.pool ++ c.batches.flatMap (·.txs), 0 ≤ s.amount ∧ 0 ≤ s.fee ∧ 0 ≤ s.comm)
    (by decide) (by decide) c

theorem exHub_batchKeysSorted : BatchKeysSorted exHub := fun c =>
  forall_chain (h := exHub) (P := fun c => KeySorted batchKey c.batches)
    (by simp [KeySorted])
    (by intro p hp; simp [exHub] at hp; rcases hp with rfl | rfl <;> simp [KeySorted, exEth]) c

theorem exHub_bondedPositive : BondedPositive exHub := by
  unfold BondedPositive; decide

/-- All six pending events are consumed (two of them by failing handlers), both pool entries are
    refunded, and the pool of "minter" holds the five new transfers. -/
example : (match exHub.endBlock false with
    | .ok h' => (h'.chain "ethereum").lastObserved == 6 && (h'.chain "ethereum").pool.isEmpty
        && ((h'.chain "minter").pool.map Ste.id == [2, 3, 4, 5, 1]) && h'.balance "aa" "hub" == 10
    | _ => false) = true := by decide +kernel

/-- Begin block cancels the timed-out batch and creates the first signer set of "minter". -/
example : (match exHub.beginBlock with
    | .ok h' => (h'.chain "ethereum").batches.isEmpty && (h'.chain "ethereum").pool.length == 3
        && (h'.chain "minter").sets.length == 1
    | _ => false) = true := by decide +kernel

theorem exHub_blockInv : BlockInv exHub :=
  ⟨exHub_batchKeysSorted, exHub_bondedPositive.stakingSane, exHub_acceptedBehind, exHub_entriesNonneg⟩

example : ∀ m, exHub.endBlock false ≠ .error (.panic m) :=
  end_block_no_panic false exHub_acceptedBehind exHub_entriesNonneg
example : ∀ m, exHub.beginBlock ≠ .error (.panic m) :=
  begin_block_no_panic_of_bonded exHub_batchKeysSorted exHub_bondedPositive
example (o : OracleSt) : ∀ m, oracleEndBlock exHub o 2 0 3 ≠ .error (.panic m) :=
  oracle_end_block_no_panic_of_bonded exHub_bondedPositive o 2 0 3

/-- A history with sane staking: genesis set-up, a send, a batch request, two blocks. -/
def exOps : List Op :=
  [.chains ["hub", "ethereum", "minter"], .token ⟨1, "hub", "ethereum", "T", 18, 0⟩,
   .staking [⟨"v1", 10, true⟩, ⟨"v2", 0, false⟩], .fund "aa" "hub" 100, .block 2 10,
   .send "aa" "ethereum" "0xr" "hub" 50 1 "t", .reqBatch "ethereum" "hub", .beginBlock, .endBlock]
example : ∀ op ∈ exOps, SaneOp op := by
  intro op h
  simp only [exOps, List.mem_cons, List.not_mem_nil, or_false] at h
  rcases h with h | h | h | h | h | h | h | h | h <;> subst h <;> simp [SaneOp]
example : (((runOps exOps).chain "ethereum").batches.length == 1) = true := by decide +kernel

/-- The hypotheses exclude real panics: a validator set of total power 0 makes begin block and the
    oracle's epoch processing divide by zero, and a negative pool entry makes the expiry refund
    panic. -/
def zeroPowerHub : Hub :=
  { exHub with staking := [⟨"v1", 0, true⟩], height := 10 }
example : (match zeroPowerHub.beginBlock with
    | .error (.panic m) => m == "division by zero" | _ => false) = true := by decide +kernel
example : (match oracleEndBlock zeroPowerHub { priceVotes := ["v1"] } 0 0 3 with
    | .error (.panic m) => m == "division by zero" | _ => false) = true := by decide +kernel
def negEntryHub : Hub :=
  { exHub with cs := [("ethereum", { pool := [{ exTx with amount := -20 }] })] }
example : (match negEntryHub.refundExpired "ethereum" with
    | .error (.panic m) => m == "negative coin amount" | _ => false) = true := by decide +kernel

end Mhub2.C05
