/-
  C10 — sequence numbers of stored outgoing txs are stable.
  "Unique, strictly increasing and gap-free in creation order" is only worth something if a stored
  batch keeps the sequence number (and nonce) it was created with: validators sign it, the Minter
  multisig executes in that order.  Property theorems only.
-/
import Mhub2.Step
import Lemmas.Pool
import Props.C15
namespace Mhub2.C10S
open Mhub2

/-- Every operation other than `reset`, `beginBlock` and `reqBatch`: whatever batch is stored afterwards
    is, as a whole record (nonce, sequence, timeout, height, token, transfers), a batch that was stored
    before — nothing is re-stamped, re-ordered or rewritten in place. -/
theorem stored_batches_untouched (h : Hub) (op : Op) (hop : op.mayAdvanceCounters = false) (c : String) :
    ∀ x ∈ ((apply h op).1.chain c).batches, x ∈ (h.chain c).batches :=
  (quiet_apply h op hop c).2.2.2.2

/-- Building a batch: the stored batches of the chain afterwards are the new one — which carries the
    next sequence number — and, unchanged, those stored before; other chains are not touched at all. -/
theorem build_keeps_stored_batches {h h' : Hub} {chain tok : String} {maxN : Nat} {b : Batch}
    (hb : h.buildBatch chain tok maxN = (h', some b)) :
    (∀ x ∈ (h'.chain chain).batches, x = b ∨ x ∈ (h.chain chain).batches) ∧
    (∀ x ∈ (h.chain chain).batches, x ∈ (h'.chain chain).batches ∨ batchKey x = batchKey b) ∧
    b.seq = (h.chain chain).outSeq + 1 ∧
    (∀ c', chain ≠ c' → (h'.chain c').batches = (h.chain c').batches) := by
  obtain ⟨_, _, _, _, hs, _, _, _, _, hbs, _, hfr, _⟩ := buildBatch_some hb
  refine ⟨?_, ?_, hs, fun c' hc => by rw [hfr c' hc]⟩
  · intro x hx
    rw [hbs] at hx
    exact mem_insertByKey_cases batchKey hx
  · intro x hx
    rw [hbs]
    by_cases hk : batchKey x = batchKey b
    · exact Or.inr hk
    · exact Or.inl (mem_insertByKey_of_ne batchKey hx hk)

/-- A genesis round trip keeps both counters of every configured chain (so the next batch or signer set
    continues the numbering) and stores no batch: nothing can come back under a different number. -/
theorem roundtrip_keeps_counters (h : Hub) (c : String) (hc : c ∈ h.chains) :
    (h.exportImport.chain c).outSeq = (h.chain c).outSeq ∧
    (h.exportImport.chain c).lastBatchNonce = (h.chain c).lastBatchNonce ∧
    (h.exportImport.chain c).batches = [] := by
  rw [C15.chain_exportImport h c hc]
  exact ⟨rfl, rfl, rfl⟩

end Mhub2.C10S
