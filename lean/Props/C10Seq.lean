/-
  C10 — sequence numbers of stored outgoing txs are stable.
  "Unique, strictly increasing and gap-free in creation order" is only worth something if a stored
  batch keeps the sequence number (and nonce) it was created with: validators sign it, the Minter
  multisig executes in that order.  Property theorems only.
-/
import Mhub2.Step
import Lemmas.Pool
import Props.C15
namespace Mhub2.C10S
open Mhub2

/-- Every operation other than `reset`, `beginBlock` and `reqBatch`: whatever batch is stored afterwards
    is, as a whole record (nonce, sequence, timeout, height, token, transfers), a batch that was stored
    before — nothing is re-stamped, re-ordered or rewritten in place. -/
theorem stored_batches_untouched (h : Hub) (op : Op) (hop : op.mayAdvanceCounters = false) (c : String) :
    ∀ x ∈ ((apply h op).1.chain c).batches, x ∈ (h.chain c).batches :=
  (quiet_apply h op hop c).2.2.2.2

/-- Building a batch: the stored batches of the chain afterwards are the new one — which carries the
    next sequence number — and, unchanged, those stored before; other chains are not touched at all. -/
theorem build_keeps_stored_batches {h h' : Hub} {chain tok : String} {maxN : Nat} {b : Batch}
    (hb : h.buildBatch chain tok maxN = (h', some b)) :
    (∀ x ∈ (h'.chain chain).batches, x = b ∨ x ∈ (h.chain chain).batches) ∧
    (∀ x ∈ (h.chain chain).batches, x ∈ (h'.chain chain).batches ∨ batchKey x = batchKey b) ∧
    b.seq = (h.chain chain).outSeq + 1 ∧
    (∀ c', chain ≠ c' → (h'.chain c').batches = (h.chain c').batches) := by
  obtain ⟨_, _, _, _, hs, _, _, _, _, hbs, _, hfr, _⟩ := buildBatch_some hb
  refine ⟨?_, ?_, hs, fun c' hc => by rw [hfr c' hc]⟩
  · intro x hx
    rw [hbs] at hx
    exact mem_insertByKey_cases batchKey hx
  · intro x hx
    rw [hbs]
    by_cases hk : batchKey x = batchKey b
    · exact Or.inr hk
    · exact Or.inl (mem_insertByKey_of_ne batchKey hx hk)

/-- A genesis round trip keeps both counters of every configured chain (so the next batch or signer set
    continues the numbering) and stores no batch: nothing can come back under a different number. -/
theorem roundtrip_keeps_counters (h : Hub) (c : String) (hc : c ∈ h.chains) :
    (h.exportImport.chain c).outSeq = (h.chain c).outSeq ∧
    (h.exportImport.chain c).lastBatchNonce = (h.chain c).lastBatchNonce ∧
    (h.exportImport.chain c).batches = [] := by
  rw [C15.chain_exportImport h c hc]
  exact ⟨rfl, rfl, rfl⟩

/-! ### A hand-written genesis that carries outgoing transactions

`InitGenesis` first sets the chain's sequence counter to the exported value and then stores every
listed outgoing transaction with `SetOutgoingTx`, which stamps it with the next sequence number.
(`ExportGenesis` never writes that section, so the correspondence runs import it empty; the order of
the two steps is pinned by `fact_genesis_import_order`, and the `import_stamped` operation of the genesis profile runs the real
`InitGenesis` on such a genesis against `Mhub2.importStamps`.) -/

theorem importStamps_spec (s : Nat) (xs : List α) :
    (importStamps s xs).2 = s + xs.length ∧
    ((importStamps s xs).1.map (·.2)) = (List.range' (s + 1) xs.length) := by
  induction xs generalizing s with
  | nil => simp [importStamps]
  | cons x xs ih =>
    obtain ⟨h1, h2⟩ := ih (s + 1)
    simp only [importStamps, List.length_cons, List.map_cons, h1, h2]
    refine ⟨by omega, ?_⟩
    rw [List.range'_succ]

/-- The imported transactions get the consecutive numbers `s+1 … s+n`: pairwise distinct, all above the
    imported counter, and the counter ends on the last of them — the next batch or signer set gets a
    number none of them carries. -/
theorem import_stamps_fresh (s : Nat) (xs : List α) :
    ((importStamps s xs).1.map (·.2)).Nodup ∧
    (∀ n ∈ (importStamps s xs).1.map (·.2), s < n ∧ n ≤ (importStamps s xs).2) ∧
    (importStamps s xs).2 + 1 ∉ (importStamps s xs).1.map (·.2) := by
  obtain ⟨h1, h2⟩ := importStamps_spec s xs
  rw [h1, h2]
  refine ⟨List.nodup_range', fun n hn => ?_, fun hn => ?_⟩
  · have := List.mem_range'_1.mp hn; omega
  · have := List.mem_range'_1.mp hn; omega

example : importStamps 7 ["a", "b", "c"] = ([("a", 8), ("b", 9), ("c", 10)], 10) := by decide

theorem fact_genesis_import_order : Generated.genesis_import_order =
    "k.setParams | k.SetTokenInfos | k.setOutgoingSequence | k.setUnbatchedSendToExternal | k.setExternalEventVoteRecord | k.setLastObservedEventNonce | k.setLastEventNonceByValidator | k.SetOrchestratorValidatorAddress | k.setValidatorExternalAddress | k.setExternalOrchestratorAddress | k.SetOutgoingTx | k.SetExternalSignature | k.setLastEventNonceByValidator | k.setLastObservedSignerSetTx | k.setLastOutgoingBatchNonce | k.SetLastObservedExternalBlockHeight" := rfl

end Mhub2.C10S
