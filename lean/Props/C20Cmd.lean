/-
  C20 — "a deposit becomes a claim only if its command is well formed: a valid recipient for the
  target chain and a non-negative integer fee below the amount less 1 %", on the raw strings of the
  payload (`command.ValidateAndComplete` with go-ethereum's `common.IsHexAddress`,
  `common.HexToAddress(..).Hex()` and `sdk.NewIntFromString` modelled at byte level:
  `Mhub2.commandCheck`).  `sdk.AccAddressFromBech32` (hub recipients) is a parameter.
-/
import Mhub2.Connector
namespace Mhub2.C20C
open Mhub2

/-- The three command types the connector knows. -/
def typeKnown (type : String) : Bool :=
  type == "send_to_ethereum" || type == "send_to_bsc" || type == "send_to_hub"

/-- Recipient validity for the type: 40 hex digits (optional `0x`) for the EVM chains, the bech32
    check for the hub. -/
def recipientOk (type : String) (recipient : Bytes) (hubOk : Bool) : Bool :=
  if type == "send_to_ethereum" || type == "send_to_bsc" then isHexAddress recipient
  else if type == "send_to_hub" then hubOk else false

/-- The byte-level check accepts exactly what the abstract acceptance predicate `commandValid`
    (Props/C20.lean, `command_wellformed`) accepts, with the fee parsed as `sdk.NewIntFromString` does. -/
theorem commandCheck_isSome (type : String) (recipient : Bytes) (hubOk : Bool) (fee : Bytes) (amount : Int) :
    (commandCheck type recipient hubOk fee amount).isSome =
      commandValid (typeKnown type) (recipientOk type recipient hubOk) (parseSdkInt fee) amount := by
  unfold commandCheck commandValid typeKnown recipientOk
  generalize parseSdkInt fee = pf
  generalize (type == "send_to_ethereum") = e1
  generalize (type == "send_to_bsc") = e2
  generalize (type == "send_to_hub") = e3
  generalize isHexAddress recipient = ih
  generalize checksumHex (strip0xBytes recipient) = cr
  generalize Int.tdiv amount 100 = q
  cases pf with
  | none => cases e1 <;> cases e2 <;> cases e3 <;> cases ih <;> cases hubOk <;> rfl
  | some f =>
    by_cases hc : (!decide (f < 0) && !decide (amount - q ≤ f)) = true
    · cases e1 <;> cases e2 <;> cases e3 <;> cases ih <;> cases hubOk <;> simp [hc]
    · simp only [Bool.not_eq_true] at hc
      cases e1 <;> cases e2 <;> cases e3 <;> cases ih <;> cases hubOk <;> simp [hc]

/-- Accepted ⇒ known type, valid recipient for it, and the fee string is an integer `f` with
    `0 ≤ f < amount − amount/100`. -/
theorem accepted_only_if_wellformed {type : String} {recipient : Bytes} {hubOk : Bool} {fee : Bytes} {amount : Int} {r : Bytes}
    (h : commandCheck type recipient hubOk fee amount = some r) :
    typeKnown type = true ∧ recipientOk type recipient hubOk = true ∧
      ∃ f, parseSdkInt fee = some f ∧ 0 ≤ f ∧ f < amount - Int.tdiv amount 100 := by
  have hs : (commandCheck type recipient hubOk fee amount).isSome = true := by rw [h]; rfl
  rw [commandCheck_isSome] at hs
  unfold commandValid at hs
  generalize Int.tdiv amount 100 = q at hs ⊢
  cases hf : parseSdkInt fee with
  | none => rw [hf] at hs; simp at hs
  | some f =>
    rw [hf] at hs
    simp only [Bool.and_eq_true, Bool.not_eq_true', decide_eq_false_iff_not] at hs
    obtain ⟨⟨hk, hr⟩, h1, h2⟩ := hs
    exact ⟨hk, hr, f, rfl, by omega, by omega⟩

/-! ### The fee parser (`sdk.NewIntFromString` = `big.Int.SetString(s, 0)` + 256-bit bound) -/

/-- A parsed fee is below 2^256 in magnitude. -/
theorem parseSdkInt_bound {b : Bytes} {v : Int} (h : parseSdkInt b = some v) : v.natAbs < 2 ^ 256 := by
  unfold parseSdkInt at h
  split at h
  · cases h
  · split at h
    · cases h
    · simp only [Option.some.injEq] at h; subst h; omega

/-- The decimal digit loop on a string of decimal digits: reads them all, positionally. -/
theorem goScanDigits_decimal (ds : Bytes) (hd : ds.all isAsciiDigit = true) (a : ScanAcc) :
    goScanDigits 10 a ds =
      ({ val := ds.foldl (fun acc c => acc * 10 + (c - 48)) a.val, count := a.count + ds.length,
         prevUnderscore := if ds.isEmpty then a.prevUnderscore else false,
         prevDigit := if ds.isEmpty then a.prevDigit else true, invalSep := a.invalSep }, []) := by
  induction ds generalizing a with
  | nil => simp [goScanDigits]
  | cons c cs ih =>
    simp only [List.all_cons, Bool.and_eq_true] at hd
    have hc := hd.1
    unfold isAsciiDigit at hc
    simp only [Bool.and_eq_true, decide_eq_true_eq] at hc
    have h95 : (c == 95) = false := by simp; omega
    have hv : goDigitVal c = some (c - 48) := by
      unfold goDigitVal
      have : (decide (48 ≤ c) && decide (c ≤ 57)) = true := by simp; omega
      simp [this]
    have hlt : c - 48 < 10 := by omega
    rw [goScanDigits]
    simp only [h95, hv, hlt, if_true, Bool.false_eq_true, if_false]
    rw [ih hd.2]
    simp only [List.foldl_cons, List.length_cons, List.isEmpty_cons, Bool.false_eq_true, if_false]
    cases cs <;> simp <;> omega

/-- An ordinary decimal fee — digits only, no leading zero — is read as the number it spells. -/
theorem parseSdkInt_decimal (ds : Bytes) (hne : ds ≠ []) (hd : ds.all isAsciiDigit = true) (h0 : ds.head? ≠ some 48)
    (hb : digitsVal ds < 2 ^ 256) : parseSdkInt ds = some (digitsVal ds : Int) := by
  have hsign : splitSign ds = (false, ds) := by
    cases ds with
    | nil => exact absurd rfl hne
    | cons c cs =>
      simp only [List.all_cons, Bool.and_eq_true] at hd
      have hc := hd.1
      unfold isAsciiDigit at hc
      simp only [Bool.and_eq_true, decide_eq_true_eq] at hc
      unfold splitSign
      split
      · rename_i heq; injection heq with h1 _; omega
      · rename_i heq; injection heq with h1 _; omega
      · rfl
  have hnat : goScanNat ds = some (ScanAcc.mk (digitsVal ds) ds.length false true false, []) := by
    cases ds with
    | nil => exact absurd rfl hne
    | cons c cs =>
      have hc48 : c ≠ 48 := by intro h; apply h0; simp [h]
      unfold goScanNat
      split
      · rename_i heq; injection heq with h1 _; exact absurd h1 hc48
      · rename_i heq; injection heq with h1 _; exact absurd h1 hc48
      · rw [goScanDigits_decimal (c :: cs) hd]
        simp [digitsVal]
  have hscan : goSetString0 ds = some (digitsVal ds : Int) := by
    unfold goSetString0
    rw [hsign, hnat]
    simp
  unfold parseSdkInt
  rw [hscan]
  simp only [Int.natAbs_natCast]
  have : ¬ digitsVal ds ≥ 2 ^ 256 := by omega
  simp [this]

/-! ### The completed recipient is the same address -/

theorem isHexCharacter_lt {d : Nat} (h : isHexCharacter d = true) : d < 128 := by
  unfold isHexCharacter at h
  simp only [Bool.or_eq_true, Bool.and_eq_true, decide_eq_true_eq] at h
  omega

theorem checksum_char_table : ∀ d, d < 128 → ∀ b : Bool, isHexCharacter d = true →
    lowerHexChar (if (decide (97 ≤ lowerHexChar d) && b) = true then lowerHexChar d - 32 else lowerHexChar d) = lowerHexChar d := by
  decide

/-- EIP-55 only changes the case of letters: lower-casing the completed recipient gives the
    lower-cased digits that were supplied — `HexToAddress(..).Hex()` never turns a valid recipient into
    a different address.  Hypothesis `hlen`: the hash yields at least as many nibbles as there are
    digits (keccak256 yields 64; the hash is otherwise abstract here). -/
theorem checksumHex_same_address (digits : Bytes) (hhex : digits.all isHexCharacter = true)
    (hlen : digits.length ≤ (nibbles (keccak256 (digits.map lowerHexChar))).length) :
    ((checksumHex digits).drop 2).map lowerHexChar = digits.map lowerHexChar := by
  unfold checksumHex
  simp only [List.drop_append_of_le_length (l₁ := [48, 120]) (by simp : 2 ≤ [48, 120].length)]
  simp only [List.drop, List.nil_append, List.map_map]
  generalize nibbles (keccak256 (digits.map lowerHexChar)) = ns at hlen
  induction digits generalizing ns with
  | nil => simp
  | cons d ds ih =>
    simp only [List.all_cons, Bool.and_eq_true] at hhex
    cases ns with
    | nil => simp at hlen
    | cons n ns =>
      simp only [List.map_cons, List.zip_cons_cons, List.cons.injEq]
      refine ⟨?_, ih hhex.2 ns (by simpa using hlen)⟩
      simp only [Function.comp]
      exact checksum_char_table d (isHexCharacter_lt hhex.1) (decide (8 ≤ n)) hhex.1

/-- … and it has the canonical shape: `0x` followed by as many characters as digits were given. -/
theorem checksumHex_shape (digits : Bytes)
    (hlen : digits.length ≤ (nibbles (keccak256 (digits.map lowerHexChar))).length) :
    (checksumHex digits).take 2 = [48, 120] ∧ (checksumHex digits).length = digits.length + 2 := by
  unfold checksumHex
  refine ⟨by simp, ?_⟩
  simp only [List.length_append, List.length_cons, List.length_nil, List.length_map, List.length_zip]
  omega

/-! ### Non-vacuity -/

-- "0x" ++ 40 × '3' with fee "98" of amount 100
example : (commandCheck "send_to_ethereum" ([48, 120] ++ List.replicate 40 51) false [57, 56] 100).isSome = true := by decide
-- fee 99 of 100 is not below the amount less 1 %
example : commandCheck "send_to_ethereum" ([48, 120] ++ List.replicate 40 51) false [57, 57] 100 = none := by decide
-- 42 characters, 0x-prefixed, but one of them is the letter O: not an address
example : commandCheck "send_to_bsc" ([48, 120] ++ List.replicate 39 51 ++ [79]) false [48] 100 = none := by decide
-- Go's base-0 literal syntax: "+5", "007" (octal 7), "1_0" (= 10), "0x10" (= 16), "010" (= 8) parse;
-- " 5", "", "-", "1e3", "08", "0x", "1_", "1__0" do not
example : parseSdkInt [43, 53] = some 5 ∧ parseSdkInt [48, 48, 55] = some 7 ∧ parseSdkInt [45, 53] = some (-5) ∧
    parseSdkInt [49, 95, 48] = some 10 ∧ parseSdkInt [48, 120, 49, 48] = some 16 ∧ parseSdkInt [48, 49, 48] = some 8 ∧
    parseSdkInt [32, 53] = none ∧ parseSdkInt [] = none ∧ parseSdkInt [45] = none ∧ parseSdkInt [49, 101, 51] = none ∧
    parseSdkInt [48, 56] = none ∧ parseSdkInt [48, 120] = none ∧ parseSdkInt [49, 95] = none ∧
    parseSdkInt [49, 95, 95, 48] = none := by decide

end Mhub2.C20C
