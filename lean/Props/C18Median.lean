/-
  C18 — the stored price depends on the reports only through "how much weight stands behind each value".
  Property theorems only (the median itself is characterised in Props/C18.lean).
-/
import Mhub2.Oracle
import Lemmas.Oracle
namespace Mhub2.C18M
open Mhub2

/-- Two report lists with the same weighted multiset of values (the lists in which every value is repeated as often as its
    weight are permutations of each other) have the same median: nothing else about the reports — their order, who made
    them, how a weight is split over several entries — can move the stored price. -/
theorem weightedMedian_congr {l l' : List (Int × Nat)} (h : (expandWeighted l).Perm (expandWeighted l')) :
    weightedMedian l = weightedMedian l' := by
  have e : medianList l = medianList l' :=
    List.Perm.eq_of_pairwise (le := fun (a b : Int) => a ≤ b) (fun a b _ _ hab hba => Int.le_antisymm hab hba)
      (medianList_sorted l) (medianList_sorted l')
      (((medianList_perm l).trans h).trans (medianList_perm l').symm)
  rw [weightedMedian_eq, weightedMedian_eq, e]

/-- A report without voting power (a validator that is not bonded, or whose stake is below 1/65535 of the total) does not
    move the price, whatever value it names and wherever it stands among the reports. -/
theorem zero_weight_report_ignored (v : Int) (l₁ l₂ : List (Int × Nat)) :
    weightedMedian (l₁ ++ (v, 0) :: l₂) = weightedMedian (l₁ ++ l₂) := by
  apply weightedMedian_congr
  simp [expandWeighted, List.flatMap_append, List.flatMap_cons]

/-- The order of the reports does not matter. -/
theorem report_order_irrelevant {l l' : List (Int × Nat)} (h : l.Perm l') :
    weightedMedian l = weightedMedian l' :=
  weightedMedian_congr (expandWeighted_perm h)

/-- Two reports of one value count like one report with the sum of their weights. -/
theorem same_value_reports_add (v : Int) (a b : Nat) (l : List (Int × Nat)) :
    weightedMedian ((v, a) :: (v, b) :: l) = weightedMedian ((v, a + b) :: l) := by
  apply weightedMedian_congr
  unfold expandWeighted
  simp only [List.flatMap_cons, ← List.append_assoc, List.replicate_append_replicate]
  exact List.Perm.refl _

/-- Non-vacuity: the tie the generator builds — half of the weight at 1000, half at 3000, a powerless report of 1200 in
    between — has the median 2000 with or without the powerless report (small weights, so that the kernel can evaluate it). -/
example : weightedMedian [(1000, 2), (1200, 0), (3000, 2)] = some 2000 := by
  rw [show [((1000 : Int), 2), (1200, 0), (3000, 2)] = [((1000 : Int), 2)] ++ (1200, 0) :: [(3000, 2)] from rfl,
    zero_weight_report_ignored 1200 [(1000, 2)] [(3000, 2)]]
  have hs : sortByValue ([((1000 : Int), 2)] ++ [(3000, 2)]) = [(1000, 2), (3000, 2)] := by
    simp [sortByValue, List.mergeSort, List.MergeSort.Internal.splitInTwo]
  simp only [weightedMedian, hs]; decide

end Mhub2.C18M
