import Mhub2.Basic
import Mhub2.Arith
import Mhub2.Sha256
import Mhub2.Types
import Mhub2.Ledger
import Mhub2.Votes
import Mhub2.Step
import Mhub2.Connector
