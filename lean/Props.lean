import Props.C11
