import Props.C11
import Props.C02
import Props.C03
