// evmharness executes the repository's compiled Hub2 contract (solidity/contracts/Hub2.go) on
// go-ethereum's simulated backend.  Relayer calls are built from what the hub module produces
// (real SignerSetTx/BatchTx types, GetCheckpoint digests, NewEthereumSignature signatures); every
// operation is also written as one line for the Lean contract model, and a monitor checks the
// property C08 itself: a submission confirmed by more than the threshold is accepted, one
// confirmed by less is not.
package main

import (
	"context"
	"crypto/ecdsa"
	"crypto/sha256"
	"encoding/hex"
	"encoding/json"
	"flag"
	"fmt"
	"math/big"
	"math/rand"
	"os"
	"path/filepath"
	"sort"
	"strings"

	sdk "github.com/cosmos/cosmos-sdk/types"
	"github.com/ethereum/go-ethereum/accounts/abi/bind"
	"github.com/ethereum/go-ethereum/accounts/abi/bind/backends"
	"github.com/ethereum/go-ethereum/common"
	"github.com/ethereum/go-ethereum/core"
	"github.com/ethereum/go-ethereum/crypto"

	"github.com/MinterTeam/mhub2/module/x/mhub2/types"

	"verif/evmharness/hub2"
)

const threshold = 2863311530 // 2/3 of 2^32, as deployed by the repository's scripts

type val struct {
	key   *ecdsa.PrivateKey
	addr  common.Address
	power uint64
}

type world struct {
	sim      *backends.SimulatedBackend
	auth     *bind.TransactOpts
	user     *bind.TransactOpts
	hub      *hub2.Hub2
	hubAddr  common.Address
	token    *hub2.Erc20
	tokAddr  common.Address
	gid      string
	cur      []val // the signer set the contract currently knows, in its order
	curNonce uint64
	lastBatch uint64
	ops, outs []string
	viol     []violation
	stats    map[string]int
	keys     []*ecdsa.PrivateKey
}

type violation struct {
	Property string   `json:"property"`
	Class    string   `json:"class"`
	Detail   string   `json:"detail"`
	History  int      `json:"history"`
	OpIndex  int      `json:"op_index"`
	Ops      []string `json:"ops"`
}

func detKey(tag string) *ecdsa.PrivateKey {
	h := sha256.Sum256([]byte(tag))
	k, err := crypto.ToECDSA(h[:])
	if err != nil {
		panic(err)
	}
	return k
}

func newWorld(stats map[string]int) *world {
	w := &world{stats: stats}
	ak, uk := detKey("evm-admin"), detKey("evm-user")
	w.auth, _ = bind.NewKeyedTransactorWithChainID(ak, big.NewInt(1337))
	w.user, _ = bind.NewKeyedTransactorWithChainID(uk, big.NewInt(1337))
	w.auth.GasLimit, w.user.GasLimit = 25000000, 25000000
	bal, _ := new(big.Int).SetString("1000000000000000000000000", 10)
	w.sim = backends.NewSimulatedBackend(core.GenesisAlloc{w.auth.From: {Balance: bal}, w.user.From: {Balance: bal}}, 30000000)
	for i := 0; i < 8; i++ {
		w.keys = append(w.keys, detKey(fmt.Sprintf("evm-val-%d", i)))
	}
	return w
}

func (w *world) record(line, out string) {
	w.ops = append(w.ops, line)
	w.outs = append(w.outs, out)
	f := strings.Fields(line)
	cls := out
	if f[0] == "e_dump" {
		cls = "ok"
	}
	w.stats["op:"+f[0]+":"+cls]++
}

func (w *world) report(class, detail string) {
	for _, v := range w.viol {
		if v.Class == class {
			return
		}
	}
	w.viol = append(w.viol, violation{Property: "C08", Class: class, Detail: detail, OpIndex: len(w.ops) - 1})
}

func members(vs []val) string {
	if len(vs) == 0 {
		return "-"
	}
	var l []string
	for _, v := range vs {
		l = append(l, fmt.Sprintf("%s:%d", v.addr.Hex(), v.power))
	}
	return strings.Join(l, ",")
}

// hubOrder sorts a member list the way the hub publishes it (power descending, address ascending).
func hubOrder(vs []val) []val {
	signers := types.ExternalSigners{}
	by := map[string]val{}
	for _, v := range vs {
		signers = append(signers, &types.ExternalSigner{Power: v.power, ExternalAddress: v.addr.Hex()})
		by[v.addr.Hex()] = v
	}
	tx := types.NewSignerSetTx(1, 1, signers)
	out := make([]val, 0, len(vs))
	for _, s := range tx.Signers {
		out = append(out, by[s.ExternalAddress])
	}
	return out
}

func toSigners(vs []val) []*types.ExternalSigner {
	var l []*types.ExternalSigner
	for _, v := range vs {
		l = append(l, &types.ExternalSigner{Power: v.power, ExternalAddress: v.addr.Hex()})
	}
	return l
}

func (w *world) mined(err error) string {
	if err != nil {
		// the simulated backend refuses transactions whose gas estimation or validation fails
		return "revert"
	}
	w.sim.Commit()
	return "ok"
}

func (w *world) receiptOK(txHash common.Hash) bool {
	r, err := w.sim.TransactionReceipt(context.Background(), txHash)
	return err == nil && r.Status == 1
}

func (w *world) blockNumber() uint64 {
	return w.sim.Blockchain().CurrentBlock().NumberU64() + 1
}

// sigSlots builds (v, r, s) and the protocol description of the signature slots.
// mode per validator: 0 absent, 1 honest signature over digest, 2 signature by another key, 3 signature over another digest
func (w *world) sigSlots(cur []val, digest []byte, modes []int) ([]uint8, [][32]byte, [][32]byte, string) {
	vs := make([]uint8, len(cur))
	rs := make([][32]byte, len(cur))
	ss := make([][32]byte, len(cur))
	var desc []string
	for i, v := range cur {
		m := 0
		if i < len(modes) {
			m = modes[i]
		}
		if m == 0 {
			desc = append(desc, "-")
			continue
		}
		key, d := v.key, digest
		signer := v.addr
		if m == 2 {
			key = detKey("evm-stranger")
			signer = crypto.PubkeyToAddress(key.PublicKey)
		}
		if m == 3 {
			d = append([]byte{}, digest...)
			d[0] ^= 0xff
		}
		sig, err := types.NewEthereumSignature(d, key)
		if err != nil {
			panic(err)
		}
		copy(rs[i][:], sig[:32])
		copy(ss[i][:], sig[32:64])
		vs[i] = sig[64] + 27
		desc = append(desc, fmt.Sprintf("%s/%s", signer.Hex(), hex.EncodeToString(d)))
	}
	if len(desc) == 0 {
		return vs, rs, ss, "none"
	}
	return vs, rs, ss, strings.Join(desc, ",")
}

func addrs(vs []val) []common.Address {
	l := make([]common.Address, len(vs))
	for i, v := range vs {
		l[i] = v.addr
	}
	return l
}
func powers(vs []val) []*big.Int {
	l := make([]*big.Int, len(vs))
	for i, v := range vs {
		l[i] = new(big.Int).SetUint64(v.power)
	}
	return l
}

func honestPower(cur []val, modes []int) (uint64, bool) {
	// power the contract will count: slots in order, stopping after the threshold; a bad present slot reverts
	sum := uint64(0)
	for i, v := range cur {
		m := 0
		if i < len(modes) {
			m = modes[i]
		}
		switch m {
		case 1:
			sum += v.power
			if sum > threshold {
				return sum, true
			}
		case 2, 3:
			return sum, false
		}
	}
	return sum, true
}

func (w *world) deploy(r *rand.Rand) {
	n := 1 + r.Intn(6)
	var vs []val
	total := uint64(0)
	raw := make([]uint64, n)
	for i := range raw {
		raw[i] = uint64(1 + r.Intn(100))
		if r.Intn(4) == 0 {
			raw[i] = 50 // ties
		}
		total += raw[i]
	}
	for i := 0; i < n; i++ {
		p := new(big.Int).Mul(new(big.Int).SetUint64(raw[i]), big.NewInt(4294967295))
		p.Quo(p, new(big.Int).SetUint64(total))
		vs = append(vs, val{key: w.keys[i], addr: crypto.PubkeyToAddress(w.keys[i].PublicKey), power: p.Uint64()})
	}
	vs = hubOrder(vs)
	w.gid = []string{"defaultgravityid", "mhub-2", "g"}[r.Intn(3)]
	var gid32 [32]byte
	copy(gid32[:], w.gid)
	addr, _, h, err := hub2.DeployHub2(w.auth, w.sim, gid32, big.NewInt(threshold), addrs(vs), powers(vs), common.Address{}, w.auth.From)
	out := w.mined(err)
	w.hub, w.hubAddr = h, addr
	w.record(fmt.Sprintf("e_deploy %s %d %s %s", w.gid, threshold, members(vs), addr.Hex()), out)
	if out != "ok" {
		return
	}
	w.cur, w.curNonce = vs, 0
	taddr, _, tok, err := hub2.DeployErc20(w.auth, w.sim, addr, "T", "T", 18)
	if err != nil {
		panic(err)
	}
	w.sim.Commit()
	w.token, w.tokAddr = tok, taddr
	max := new(big.Int).Sub(new(big.Int).Lsh(big.NewInt(1), 256), big.NewInt(1))
	w.record(fmt.Sprintf("e_token %s %s", taddr.Hex(), max), "ok")
	// the constructor checkpoint equals the hub's digest for nonce 0
	cp, _ := h.StateLastValsetCheckpoint(nil)
	hubCp := types.SignerSetTx{Nonce: 0, Signers: toSigners(vs)}.GetCheckpoint([]byte(w.gid))
	if hex.EncodeToString(cp[:]) != hex.EncodeToString(hubCp) {
		w.report("constructor-checkpoint-differs-from-hub-digest", fmt.Sprintf("contract %x hub %x", cp, hubCp))
	}
}

func (w *world) dump(holders []common.Address) {
	vn, _ := w.hub.StateLastValsetNonce(nil)
	en, _ := w.hub.StateLastEventNonce(nil)
	bn, _ := w.hub.LastBatchNonce(nil, w.tokAddr)
	cp, _ := w.hub.StateLastValsetCheckpoint(nil)
	var names, bals []string
	for _, h := range holders {
		b, _ := w.token.BalanceOf(nil, h)
		bals = append(bals, b.String())
		if h == w.hubAddr {
			names = append(names, "self")
		} else {
			names = append(names, h.Hex())
		}
	}
	w.record(fmt.Sprintf("e_dump %s %s", w.tokAddr.Hex(), strings.Join(names, " ")),
		fmt.Sprintf("valset=%s event=%s batch=%s cp=%s bal=%s", vn, en, bn, hex.EncodeToString(cp[:]), strings.Join(bals, ",")))
}

func (w *world) randModes(r *rand.Rand, n int) []int {
	m := make([]int, n)
	switch r.Intn(5) {
	case 0: // everybody signs
		for i := range m {
			m[i] = 1
		}
	case 1: // nobody
	default:
		for i := range m {
			if r.Intn(3) > 0 {
				m[i] = 1
			}
		}
	}
	if r.Intn(8) == 0 && n > 0 {
		m[r.Intn(n)] = 2 + r.Intn(2)
	}
	return m
}

func (w *world) opUpdate(r *rand.Rand) {
	// a new signer set as the hub would publish it
	n := 1 + r.Intn(6)
	perm := r.Perm(len(w.keys))[:n]
	var vs []val
	total := uint64(0)
	raw := make([]uint64, n)
	for i := range raw {
		raw[i] = uint64(1 + r.Intn(100))
		total += raw[i]
	}
	for i, ki := range perm {
		p := new(big.Int).Mul(new(big.Int).SetUint64(raw[i]), big.NewInt(4294967295))
		p.Quo(p, new(big.Int).SetUint64(total))
		vs = append(vs, val{key: w.keys[ki], addr: crypto.PubkeyToAddress(w.keys[ki].PublicKey), power: p.Uint64()})
	}
	vs = hubOrder(vs)
	newNonce := w.curNonce + 1 + uint64(r.Intn(3))
	if r.Intn(10) == 0 {
		newNonce = w.curNonce // stale
	}
	if r.Intn(25) == 0 {
		newNonce = 1<<63 + uint64(r.Intn(5)) // beyond int64
	}
	claimedCur, claimedNonce := w.cur, w.curNonce
	if r.Intn(12) == 0 {
		claimedNonce++ // wrong current nonce
	}
	digest := types.SignerSetTx{Nonce: newNonce, Signers: toSigners(vs)}.GetCheckpoint([]byte(w.gid))
	modes := w.randModes(r, len(claimedCur))
	v, rr, ss, desc := w.sigSlots(claimedCur, digest, modes)
	bn := w.blockNumber()
	tx, err := w.hub.UpdateValset(w.auth, addrs(vs), powers(vs), new(big.Int).SetUint64(newNonce), addrs(claimedCur), powers(claimedCur), new(big.Int).SetUint64(claimedNonce), v, rr, ss)
	out := "revert"
	if err == nil {
		w.sim.Commit()
		if w.receiptOK(tx.Hash()) {
			out = "ok"
		}
	}
	w.record(fmt.Sprintf("e_update %d %d %s %d %s %s", bn, newNonce, members(vs), claimedNonce, members(claimedCur), desc), out)
	hp, clean := honestPower(claimedCur, modes)
	shouldAccept := clean && hp > threshold && newNonce > w.curNonce && claimedNonce == w.curNonce
	if shouldAccept && out != "ok" {
		w.report("confirmed-signer-set-rejected", fmt.Sprintf("nonce %d confirmed by power %d > %d", newNonce, hp, uint64(threshold)))
	}
	if out == "ok" && !(hp > threshold) {
		w.report("signer-set-accepted-below-threshold", fmt.Sprintf("nonce %d accepted with power %d", newNonce, hp))
	}
	if out == "ok" {
		w.cur, w.curNonce = vs, newNonce
	}
}

func (w *world) opBatch(r *rand.Rand) {
	n := r.Intn(5)
	if r.Intn(12) == 0 {
		n = 100
	}
	b := types.BatchTx{BatchNonce: w.lastBatch + 1 + uint64(r.Intn(2)), ExternalTokenId: w.tokAddr.Hex()}
	if r.Intn(10) == 0 {
		b.BatchNonce = w.lastBatch // stale
	}
	bn := w.blockNumber()
	b.Timeout = bn + 1 + uint64(r.Intn(50))
	if r.Intn(10) == 0 {
		b.Timeout = bn // timed out: block.number < timeout fails
	}
	var txs []string
	for i := 0; i < n; i++ {
		dest := common.BytesToAddress([]byte{byte(0x50 + r.Intn(3)), 1, 2, 3})
		if r.Intn(3) == 0 {
			dest = w.user.From
		}
		amt := big.NewInt(int64(1 + r.Intn(1000000)))
		fee := big.NewInt(int64(r.Intn(1000)))
		b.Transactions = append(b.Transactions, &types.SendToExternal{ExternalRecipient: dest.Hex(),
			Token: types.ExternalToken{Amount: sdk.NewIntFromBigInt(amt)}, Fee: types.ExternalToken{Amount: sdk.NewIntFromBigInt(fee)}})
		txs = append(txs, fmt.Sprintf("%s:%s:%s", amt, dest.Hex(), fee))
	}
	digest := b.GetCheckpoint([]byte(w.gid))
	claimedNonce := w.curNonce
	modes := w.randModes(r, len(w.cur))
	v, rr, ss, desc := w.sigSlots(w.cur, digest, modes)
	var amounts, fees []*big.Int
	var dests []common.Address
	for _, t := range b.Transactions {
		amounts = append(amounts, t.Token.Amount.BigInt())
		fees = append(fees, t.Fee.Amount.BigInt())
		dests = append(dests, common.HexToAddress(t.ExternalRecipient))
	}
	tx, err := w.hub.SubmitBatch(w.auth, addrs(w.cur), powers(w.cur), new(big.Int).SetUint64(claimedNonce), v, rr, ss, amounts, dests, fees,
		new(big.Int).SetUint64(b.BatchNonce), w.tokAddr, new(big.Int).SetUint64(b.Timeout))
	out := "revert"
	if err == nil {
		w.sim.Commit()
		if w.receiptOK(tx.Hash()) {
			out = "ok"
		}
	}
	t := "-"
	if len(txs) > 0 {
		t = strings.Join(txs, ";")
	}
	w.record(fmt.Sprintf("e_batch %d %d %s %s %d %d %s %s", bn, claimedNonce, members(w.cur), desc, b.BatchNonce, b.Timeout, w.tokAddr.Hex(), t), out)
	hp, clean := honestPower(w.cur, modes)
	shouldAccept := clean && hp > threshold && b.BatchNonce > w.lastBatch && bn < b.Timeout
	if shouldAccept && out != "ok" {
		w.report("confirmed-batch-rejected", fmt.Sprintf("batch %d confirmed by power %d > %d before its timeout", b.BatchNonce, hp, uint64(threshold)))
	}
	if out == "ok" && !(hp > threshold) {
		w.report("batch-accepted-below-threshold", fmt.Sprintf("batch %d accepted with power %d", b.BatchNonce, hp))
	}
	if out == "ok" && !(b.BatchNonce > w.lastBatch) {
		w.report("batch-executed-out-of-nonce-order", fmt.Sprintf("batch %d after %d", b.BatchNonce, w.lastBatch))
	}
	if out == "ok" && !(bn < b.Timeout) {
		w.report("batch-executed-after-timeout", fmt.Sprintf("batch %d timeout %d block %d", b.BatchNonce, b.Timeout, bn))
	}
	if out == "ok" {
		w.lastBatch = b.BatchNonce
	}
}

func (w *world) opDeposit(r *rand.Rand) {
	bal, _ := w.token.BalanceOf(nil, w.user.From)
	amt := big.NewInt(int64(1 + r.Intn(2000000)))
	if bal.Sign() > 0 && r.Intn(3) > 0 {
		amt = new(big.Int).Rand(r, new(big.Int).Add(bal, big.NewInt(1)))
		if amt.Sign() == 0 {
			amt = big.NewInt(1)
		}
	}
	appr := new(big.Int).Set(amt)
	if r.Intn(6) == 0 {
		appr.Sub(appr, big.NewInt(1))
	}
	_, err := w.token.Approve(w.user, w.hubAddr, appr)
	if err != nil {
		panic(err)
	}
	w.sim.Commit()
	w.record(fmt.Sprintf("e_approve %s %s %s", w.user.From.Hex(), w.tokAddr.Hex(), appr), "ok")
	fee := big.NewInt(int64(r.Intn(1000000)))
	var chain, dest [32]byte
	copy(chain[:], "minter")
	copy(dest[:], w.user.From.Bytes())
	hubBefore, _ := w.token.BalanceOf(nil, w.hubAddr)
	tx, err := w.hub.TransferToChain(w.user, w.tokAddr, chain, dest, amt, fee)
	out := "revert"
	if err == nil {
		w.sim.Commit()
		if w.receiptOK(tx.Hash()) {
			out = "ok"
		}
	}
	w.record(fmt.Sprintf("e_deposit %s %s %s %s", w.user.From.Hex(), w.tokAddr.Hex(), amt, fee), out)
	if out == "ok" {
		hubAfter, _ := w.token.BalanceOf(nil, w.hubAddr)
		if new(big.Int).Sub(hubAfter, hubBefore).Cmp(amt) != 0 {
			w.report("contract-locks-other-than-amount", fmt.Sprintf("locked %s for amount %s fee %s", new(big.Int).Sub(hubAfter, hubBefore), amt, fee))
		}
	}
}

func runHistory(r *rand.Rand, nops int, stats map[string]int) *world {
	w := newWorld(stats)
	w.record("e_reset", "ok")
	w.deploy(r)
	if w.hub == nil || len(w.cur) == 0 {
		return w
	}
	holders := []common.Address{w.hubAddr, w.user.From, common.BytesToAddress([]byte{0x50, 1, 2, 3})}
	for i := 0; i < nops; i++ {
		switch x := r.Intn(100); {
		case x < 35:
			w.opUpdate(r)
		case x < 75:
			w.opBatch(r)
		case x < 88:
			w.opDeposit(r)
		default:
			k := 1 + r.Intn(5)
			for j := 0; j < k; j++ {
				w.sim.Commit()
			}
		}
		w.dump(holders)
	}
	return w
}

func main() {
	fs := flag.NewFlagSet("gen", flag.ExitOnError)
	seed := fs.Int64("seed", 1, "")
	hist := fs.Int("histories", 5, "")
	nops := fs.Int("ops", 30, "")
	out := fs.String("out", "", "")
	fs.Parse(os.Args[2:])
	os.MkdirAll(*out, 0o755)
	stats := map[string]int{}
	var allOps, allOuts []string
	var viol []violation
	for h := 0; h < *hist; h++ {
		r := rand.New(rand.NewSource(*seed*1000003 + int64(h)))
		w := runHistory(r, *nops, stats)
		for _, v := range w.viol {
			v.History = h
			v.Ops = append([]string{}, w.ops[:v.OpIndex+1]...)
			viol = append(viol, v)
		}
		allOps = append(allOps, w.ops...)
		allOuts = append(allOuts, w.outs...)
	}
	os.WriteFile(filepath.Join(*out, "ops.txt"), []byte(strings.Join(allOps, "\n")+"\n"), 0o644)
	os.WriteFile(filepath.Join(*out, "impl.txt"), []byte(strings.Join(allOuts, "\n")+"\n"), 0o644)
	b, _ := json.MarshalIndent(map[string]interface{}{"stats": stats, "violations": viol, "histories": *hist, "ops": len(allOps)}, "", " ")
	os.WriteFile(filepath.Join(*out, "result.json"), b, 0o644)
	_ = sort.Strings
}
