// Code generated - DO NOT EDIT.
// This file is a generated binding and any manual changes will be lost.

package hub2

import (
	"errors"
	"math/big"
	"strings"

	ethereum "github.com/ethereum/go-ethereum"
	"github.com/ethereum/go-ethereum/accounts/abi"
	"github.com/ethereum/go-ethereum/accounts/abi/bind"
	"github.com/ethereum/go-ethereum/common"
	"github.com/ethereum/go-ethereum/core/types"
	"github.com/ethereum/go-ethereum/event"
)

// Reference imports to suppress errors if they are not otherwise used.
var (
	_ = errors.New
	_ = big.NewInt
	_ = strings.NewReader
	_ = ethereum.NotFound
	_ = bind.Bind
	_ = common.Big1
	_ = types.BloomLookup
	_ = event.NewSubscription
)

// Erc20MetaData contains all meta data concerning the Erc20 contract.
var Erc20MetaData = &bind.MetaData{
	ABI: "[{\"inputs\":[{\"internalType\":\"address\",\"name\":\"_gravityAddress\",\"type\":\"address\"},{\"internalType\":\"string\",\"name\":\"_name\",\"type\":\"string\"},{\"internalType\":\"string\",\"name\":\"_symbol\",\"type\":\"string\"},{\"internalType\":\"uint8\",\"name\":\"_decimals\",\"type\":\"uint8\"}],\"stateMutability\":\"nonpayable\",\"type\":\"constructor\"},{\"anonymous\":false,\"inputs\":[{\"indexed\":true,\"internalType\":\"address\",\"name\":\"owner\",\"type\":\"address\"},{\"indexed\":true,\"internalType\":\"address\",\"name\":\"spender\",\"type\":\"address\"},{\"indexed\":false,\"internalType\":\"uint256\",\"name\":\"value\",\"type\":\"uint256\"}],\"name\":\"Approval\",\"type\":\"event\"},{\"anonymous\":false,\"inputs\":[{\"indexed\":true,\"internalType\":\"address\",\"name\":\"from\",\"type\":\"address\"},{\"indexed\":true,\"internalType\":\"address\",\"name\":\"to\",\"type\":\"address\"},{\"indexed\":false,\"internalType\":\"uint256\",\"name\":\"value\",\"type\":\"uint256\"}],\"name\":\"Transfer\",\"type\":\"event\"},{\"inputs\":[{\"internalType\":\"address\",\"name\":\"owner\",\"type\":\"address\"},{\"internalType\":\"address\",\"name\":\"spender\",\"type\":\"address\"}],\"name\":\"allowance\",\"outputs\":[{\"internalType\":\"uint256\",\"name\":\"\",\"type\":\"uint256\"}],\"stateMutability\":\"view\",\"type\":\"function\"},{\"inputs\":[{\"internalType\":\"address\",\"name\":\"spender\",\"type\":\"address\"},{\"internalType\":\"uint256\",\"name\":\"amount\",\"type\":\"uint256\"}],\"name\":\"approve\",\"outputs\":[{\"internalType\":\"bool\",\"name\":\"\",\"type\":\"bool\"}],\"stateMutability\":\"nonpayable\",\"type\":\"function\"},{\"inputs\":[{\"internalType\":\"address\",\"name\":\"account\",\"type\":\"address\"}],\"name\":\"balanceOf\",\"outputs\":[{\"internalType\":\"uint256\",\"name\":\"\",\"type\":\"uint256\"}],\"stateMutability\":\"view\",\"type\":\"function\"},{\"inputs\":[],\"name\":\"decimals\",\"outputs\":[{\"internalType\":\"uint8\",\"name\":\"\",\"type\":\"uint8\"}],\"stateMutability\":\"view\",\"type\":\"function\"},{\"inputs\":[{\"internalType\":\"address\",\"name\":\"spender\",\"type\":\"address\"},{\"internalType\":\"uint256\",\"name\":\"subtractedValue\",\"type\":\"uint256\"}],\"name\":\"decreaseAllowance\",\"outputs\":[{\"internalType\":\"bool\",\"name\":\"\",\"type\":\"bool\"}],\"stateMutability\":\"nonpayable\",\"type\":\"function\"},{\"inputs\":[{\"internalType\":\"address\",\"name\":\"spender\",\"type\":\"address\"},{\"internalType\":\"uint256\",\"name\":\"addedValue\",\"type\":\"uint256\"}],\"name\":\"increaseAllowance\",\"outputs\":[{\"internalType\":\"bool\",\"name\":\"\",\"type\":\"bool\"}],\"stateMutability\":\"nonpayable\",\"type\":\"function\"},{\"inputs\":[],\"name\":\"name\",\"outputs\":[{\"internalType\":\"string\",\"name\":\"\",\"type\":\"string\"}],\"stateMutability\":\"view\",\"type\":\"function\"},{\"inputs\":[],\"name\":\"symbol\",\"outputs\":[{\"internalType\":\"string\",\"name\":\"\",\"type\":\"string\"}],\"stateMutability\":\"view\",\"type\":\"function\"},{\"inputs\":[],\"name\":\"totalSupply\",\"outputs\":[{\"internalType\":\"uint256\",\"name\":\"\",\"type\":\"uint256\"}],\"stateMutability\":\"view\",\"type\":\"function\"},{\"inputs\":[{\"internalType\":\"address\",\"name\":\"recipient\",\"type\":\"address\"},{\"internalType\":\"uint256\",\"name\":\"amount\",\"type\":\"uint256\"}],\"name\":\"transfer\",\"outputs\":[{\"internalType\":\"bool\",\"name\":\"\",\"type\":\"bool\"}],\"stateMutability\":\"nonpayable\",\"type\":\"function\"},{\"inputs\":[{\"internalType\":\"address\",\"name\":\"sender\",\"type\":\"address\"},{\"internalType\":\"address\",\"name\":\"recipient\",\"type\":\"address\"},{\"internalType\":\"uint256\",\"name\":\"amount\",\"type\":\"uint256\"}],\"name\":\"transferFrom\",\"outputs\":[{\"internalType\":\"bool\",\"name\":\"\",\"type\":\"bool\"}],\"stateMutability\":\"nonpayable\",\"type\":\"function\"}]",
	Bin: "0x60806040526000196006553480156200001757600080fd5b5060405162000e4338038062000e43833981810160405260808110156200003d57600080fd5b8151602083018051604051929492938301929190846401000000008211156200006557600080fd5b9083019060208201858111156200007b57600080fd5b82516401000000008111828201881017156200009657600080fd5b82525081516020918201929091019080838360005b83811015620000c5578181015183820152602001620000ab565b50505050905090810190601f168015620000f35780820380516001836020036101000a031916815260200191505b50604052602001805160405193929190846401000000008211156200011757600080fd5b9083019060208201858111156200012d57600080fd5b82516401000000008111828201881017156200014857600080fd5b82525081516020918201929091019080838360005b83811015620001775781810151838201526020016200015d565b50505050905090810190601f168015620001a55780820380516001836020036101000a031916815260200191505b5060405260209081015185519093508592508491620001ca91600391850190620003a5565b508051620001e0906004906020840190620003a5565b50506005805460ff1916601217905550620001fb8162000219565b6200020f846006546200022f60201b60201c565b5050505062000441565b6005805460ff191660ff92909216919091179055565b6001600160a01b0382166200028b576040805162461bcd60e51b815260206004820152601f60248201527f45524332303a206d696e7420746f20746865207a65726f206164647265737300604482015290519081900360640190fd5b62000299600083836200033e565b620002b5816002546200034360201b620005731790919060201c565b6002556001600160a01b03821660009081526020818152604090912054620002e89183906200057362000343821b17901c565b6001600160a01b0383166000818152602081815260408083209490945583518581529351929391927fddf252ad1be2c89b69c2b068fc378daa952ba7f163c4a11628f55a4df523b3ef9281900390910190a35050565b505050565b6000828201838110156200039e576040805162461bcd60e51b815260206004820152601b60248201527f536166654d6174683a206164646974696f6e206f766572666c6f770000000000604482015290519081900360640190fd5b9392505050565b828054600181600116156101000203166002900490600052602060002090601f016020900481019282601f10620003e857805160ff191683800117855562000418565b8280016001018555821562000418579182015b8281111562000418578251825591602001919060010190620003fb565b50620004269291506200042a565b5090565b5b808211156200042657600081556001016200042b565b6109f280620004516000396000f3fe608060405234801561001057600080fd5b50600436106100a95760003560e01c8063395093511161007157806339509351146101d957806370a082311461020557806395d89b411461022b578063a457c2d714610233578063a9059cbb1461025f578063dd62ed3e1461028b576100a9565b806306fdde03146100ae578063095ea7b31461012b57806318160ddd1461016b57806323b872dd14610185578063313ce567146101bb575b600080fd5b6100b66102b9565b6040805160208082528351818301528351919283929083019185019080838360005b838110156100f05781810151838201526020016100d8565b50505050905090810190601f16801561011d5780820380516001836020036101000a031916815260200191505b509250505060405180910390f35b6101576004803603604081101561014157600080fd5b506001600160a01b03813516906020013561034f565b604080519115158252519081900360200190f35b61017361036c565b60408051918252519081900360200190f35b6101576004803603606081101561019b57600080fd5b506001600160a01b03813581169160208101359091169060400135610372565b6101c36103f9565b6040805160ff9092168252519081900360200190f35b610157600480360360408110156101ef57600080fd5b506001600160a01b038135169060200135610402565b6101736004803603602081101561021b57600080fd5b50356001600160a01b0316610450565b6100b661046b565b6101576004803603604081101561024957600080fd5b506001600160a01b0381351690602001356104cc565b6101576004803603604081101561027557600080fd5b506001600160a01b038135169060200135610534565b610173600480360360408110156102a157600080fd5b506001600160a01b0381358116916020013516610548565b60038054604080516020601f60026000196101006001881615020190951694909404938401819004810282018101909252828152606093909290918301828280156103455780601f1061031a57610100808354040283529160200191610345565b820191906000526020600020905b81548152906001019060200180831161032857829003601f168201915b5050505050905090565b600061036361035c6105d4565b84846105d8565b50600192915050565b60025490565b600061037f8484846106c4565b6103ef8461038b6105d4565b6103ea85604051806060016040528060288152602001610927602891396001600160a01b038a166000908152600160205260408120906103c96105d4565b6001600160a01b03168152602081019190915260400160002054919061081f565b6105d8565b5060019392505050565b60055460ff1690565b600061036361040f6105d4565b846103ea85600160006104206105d4565b6001600160a01b03908116825260208083019390935260409182016000908120918c168152925290205490610573565b6001600160a01b031660009081526020819052604090205490565b60048054604080516020601f60026000196101006001881615020190951694909404938401819004810282018101909252828152606093909290918301828280156103455780601f1061031a57610100808354040283529160200191610345565b60006103636104d96105d4565b846103ea8560405180606001604052806025815260200161099860259139600160006105036105d4565b6001600160a01b03908116825260208083019390935260409182016000908120918d1681529252902054919061081f565b60006103636105416105d4565b84846106c4565b6001600160a01b03918216600090815260016020908152604080832093909416825291909152205490565b6000828201838110156105cd576040805162461bcd60e51b815260206004820152601b60248201527f536166654d6174683a206164646974696f6e206f766572666c6f770000000000604482015290519081900360640190fd5b9392505050565b3390565b6001600160a01b03831661061d5760405162461bcd60e51b81526004018080602001828103825260248152602001806109746024913960400191505060405180910390fd5b6001600160a01b0382166106625760405162461bcd60e51b81526004018080602001828103825260228152602001806108df6022913960400191505060405180910390fd5b6001600160a01b03808416600081815260016020908152604080832094871680845294825291829020859055815185815291517f8c5be1e5ebec7d5bd14f71427d1e84f3dd0314c0f7b2291e5b200ac8c7c3b9259281900390910190a3505050565b6001600160a01b0383166107095760405162461bcd60e51b815260040180806020018281038252602581526020018061094f6025913960400191505060405180910390fd5b6001600160a01b03821661074e5760405162461bcd60e51b81526004018080602001828103825260238152602001806108bc6023913960400191505060405180910390fd5b6107598383836108b6565b61079681604051806060016040528060268152602001610901602691396001600160a01b038616600090815260208190526040902054919061081f565b6001600160a01b0380851660009081526020819052604080822093909355908416815220546107c59082610573565b6001600160a01b038084166000818152602081815260409182902094909455805185815290519193928716927fddf252ad1be2c89b69c2b068fc378daa952ba7f163c4a11628f55a4df523b3ef92918290030190a3505050565b600081848411156108ae5760405162461bcd60e51b81526004018080602001828103825283818151815260200191508051906020019080838360005b8381101561087357818101518382015260200161085b565b50505050905090810190601f1680156108a05780820380516001836020036101000a031916815260200191505b509250505060405180910390fd5b505050900390565b50505056fe45524332303a207472616e7366657220746f20746865207a65726f206164647265737345524332303a20617070726f766520746f20746865207a65726f206164647265737345524332303a207472616e7366657220616d6f756e7420657863656564732062616c616e636545524332303a207472616e7366657220616d6f756e74206578636565647320616c6c6f77616e636545524332303a207472616e736665722066726f6d20746865207a65726f206164647265737345524332303a20617070726f76652066726f6d20746865207a65726f206164647265737345524332303a2064656372656173656420616c6c6f77616e63652062656c6f77207a65726fa2646970667358221220c26c11ab06feef7e444c0f9ec6e495aedce4b42e8a5469fbd0931eb9556a0a0c64736f6c634300060c0033",
}

// Erc20ABI is the input ABI used to generate the binding from.
// Deprecated: Use Erc20MetaData.ABI instead.
var Erc20ABI = Erc20MetaData.ABI

// Erc20Bin is the compiled bytecode used for deploying new contracts.
// Deprecated: Use Erc20MetaData.Bin instead.
var Erc20Bin = Erc20MetaData.Bin

// DeployErc20 deploys a new Ethereum contract, binding an instance of Erc20 to it.
func DeployErc20(auth *bind.TransactOpts, backend bind.ContractBackend, _gravityAddress common.Address, _name string, _symbol string, _decimals uint8) (common.Address, *types.Transaction, *Erc20, error) {
	parsed, err := Erc20MetaData.GetAbi()
	if err != nil {
		return common.Address{}, nil, nil, err
	}
	if parsed == nil {
		return common.Address{}, nil, nil, errors.New("GetABI returned nil")
	}

	address, tx, contract, err := bind.DeployContract(auth, *parsed, common.FromHex(Erc20Bin), backend, _gravityAddress, _name, _symbol, _decimals)
	if err != nil {
		return common.Address{}, nil, nil, err
	}
	return address, tx, &Erc20{Erc20Caller: Erc20Caller{contract: contract}, Erc20Transactor: Erc20Transactor{contract: contract}, Erc20Filterer: Erc20Filterer{contract: contract}}, nil
}

// Erc20 is an auto generated Go binding around an Ethereum contract.
type Erc20 struct {
	Erc20Caller     // Read-only binding to the contract
	Erc20Transactor // Write-only binding to the contract
	Erc20Filterer   // Log filterer for contract events
}

// Erc20Caller is an auto generated read-only Go binding around an Ethereum contract.
type Erc20Caller struct {
	contract *bind.BoundContract // Generic contract wrapper for the low level calls
}

// Erc20Transactor is an auto generated write-only Go binding around an Ethereum contract.
type Erc20Transactor struct {
	contract *bind.BoundContract // Generic contract wrapper for the low level calls
}

// Erc20Filterer is an auto generated log filtering Go binding around an Ethereum contract events.
type Erc20Filterer struct {
	contract *bind.BoundContract // Generic contract wrapper for the low level calls
}

// Erc20Session is an auto generated Go binding around an Ethereum contract,
// with pre-set call and transact options.
type Erc20Session struct {
	Contract     *Erc20            // Generic contract binding to set the session for
	CallOpts     bind.CallOpts     // Call options to use throughout this session
	TransactOpts bind.TransactOpts // Transaction auth options to use throughout this session
}

// Erc20CallerSession is an auto generated read-only Go binding around an Ethereum contract,
// with pre-set call options.
type Erc20CallerSession struct {
	Contract *Erc20Caller  // Generic contract caller binding to set the session for
	CallOpts bind.CallOpts // Call options to use throughout this session
}

// Erc20TransactorSession is an auto generated write-only Go binding around an Ethereum contract,
// with pre-set transact options.
type Erc20TransactorSession struct {
	Contract     *Erc20Transactor  // Generic contract transactor binding to set the session for
	TransactOpts bind.TransactOpts // Transaction auth options to use throughout this session
}

// Erc20Raw is an auto generated low-level Go binding around an Ethereum contract.
type Erc20Raw struct {
	Contract *Erc20 // Generic contract binding to access the raw methods on
}

// Erc20CallerRaw is an auto generated low-level read-only Go binding around an Ethereum contract.
type Erc20CallerRaw struct {
	Contract *Erc20Caller // Generic read-only contract binding to access the raw methods on
}

// Erc20TransactorRaw is an auto generated low-level write-only Go binding around an Ethereum contract.
type Erc20TransactorRaw struct {
	Contract *Erc20Transactor // Generic write-only contract binding to access the raw methods on
}

// NewErc20 creates a new instance of Erc20, bound to a specific deployed contract.
func NewErc20(address common.Address, backend bind.ContractBackend) (*Erc20, error) {
	contract, err := bindErc20(address, backend, backend, backend)
	if err != nil {
		return nil, err
	}
	return &Erc20{Erc20Caller: Erc20Caller{contract: contract}, Erc20Transactor: Erc20Transactor{contract: contract}, Erc20Filterer: Erc20Filterer{contract: contract}}, nil
}

// NewErc20Caller creates a new read-only instance of Erc20, bound to a specific deployed contract.
func NewErc20Caller(address common.Address, caller bind.ContractCaller) (*Erc20Caller, error) {
	contract, err := bindErc20(address, caller, nil, nil)
	if err != nil {
		return nil, err
	}
	return &Erc20Caller{contract: contract}, nil
}

// NewErc20Transactor creates a new write-only instance of Erc20, bound to a specific deployed contract.
func NewErc20Transactor(address common.Address, transactor bind.ContractTransactor) (*Erc20Transactor, error) {
	contract, err := bindErc20(address, nil, transactor, nil)
	if err != nil {
		return nil, err
	}
	return &Erc20Transactor{contract: contract}, nil
}

// NewErc20Filterer creates a new log filterer instance of Erc20, bound to a specific deployed contract.
func NewErc20Filterer(address common.Address, filterer bind.ContractFilterer) (*Erc20Filterer, error) {
	contract, err := bindErc20(address, nil, nil, filterer)
	if err != nil {
		return nil, err
	}
	return &Erc20Filterer{contract: contract}, nil
}

// bindErc20 binds a generic wrapper to an already deployed contract.
func bindErc20(address common.Address, caller bind.ContractCaller, transactor bind.ContractTransactor, filterer bind.ContractFilterer) (*bind.BoundContract, error) {
	parsed, err := abi.JSON(strings.NewReader(Erc20ABI))
	if err != nil {
		return nil, err
	}
	return bind.NewBoundContract(address, parsed, caller, transactor, filterer), nil
}

// Call invokes the (constant) contract method with params as input values and
// sets the output to result. The result type might be a single field for simple
// returns, a slice of interfaces for anonymous returns and a struct for named
// returns.
func (_Erc20 *Erc20Raw) Call(opts *bind.CallOpts, result *[]interface{}, method string, params ...interface{}) error {
	return _Erc20.Contract.Erc20Caller.contract.Call(opts, result, method, params...)
}

// Transfer initiates a plain transaction to move funds to the contract, calling
// its default method if one is available.
func (_Erc20 *Erc20Raw) Transfer(opts *bind.TransactOpts) (*types.Transaction, error) {
	return _Erc20.Contract.Erc20Transactor.contract.Transfer(opts)
}

// Transact invokes the (paid) contract method with params as input values.
func (_Erc20 *Erc20Raw) Transact(opts *bind.TransactOpts, method string, params ...interface{}) (*types.Transaction, error) {
	return _Erc20.Contract.Erc20Transactor.contract.Transact(opts, method, params...)
}

// Call invokes the (constant) contract method with params as input values and
// sets the output to result. The result type might be a single field for simple
// returns, a slice of interfaces for anonymous returns and a struct for named
// returns.
func (_Erc20 *Erc20CallerRaw) Call(opts *bind.CallOpts, result *[]interface{}, method string, params ...interface{}) error {
	return _Erc20.Contract.contract.Call(opts, result, method, params...)
}

// Transfer initiates a plain transaction to move funds to the contract, calling
// its default method if one is available.
func (_Erc20 *Erc20TransactorRaw) Transfer(opts *bind.TransactOpts) (*types.Transaction, error) {
	return _Erc20.Contract.contract.Transfer(opts)
}

// Transact invokes the (paid) contract method with params as input values.
func (_Erc20 *Erc20TransactorRaw) Transact(opts *bind.TransactOpts, method string, params ...interface{}) (*types.Transaction, error) {
	return _Erc20.Contract.contract.Transact(opts, method, params...)
}

// Allowance is a free data retrieval call binding the contract method 0xdd62ed3e.
//
// Solidity: function allowance(address owner, address spender) view returns(uint256)
func (_Erc20 *Erc20Caller) Allowance(opts *bind.CallOpts, owner common.Address, spender common.Address) (*big.Int, error) {
	var out []interface{}
	err := _Erc20.contract.Call(opts, &out, "allowance", owner, spender)

	if err != nil {
		return *new(*big.Int), err
	}

	out0 := *abi.ConvertType(out[0], new(*big.Int)).(**big.Int)

	return out0, err

}

// Allowance is a free data retrieval call binding the contract method 0xdd62ed3e.
//
// Solidity: function allowance(address owner, address spender) view returns(uint256)
func (_Erc20 *Erc20Session) Allowance(owner common.Address, spender common.Address) (*big.Int, error) {
	return _Erc20.Contract.Allowance(&_Erc20.CallOpts, owner, spender)
}

// Allowance is a free data retrieval call binding the contract method 0xdd62ed3e.
//
// Solidity: function allowance(address owner, address spender) view returns(uint256)
func (_Erc20 *Erc20CallerSession) Allowance(owner common.Address, spender common.Address) (*big.Int, error) {
	return _Erc20.Contract.Allowance(&_Erc20.CallOpts, owner, spender)
}

// BalanceOf is a free data retrieval call binding the contract method 0x70a08231.
//
// Solidity: function balanceOf(address account) view returns(uint256)
func (_Erc20 *Erc20Caller) BalanceOf(opts *bind.CallOpts, account common.Address) (*big.Int, error) {
	var out []interface{}
	err := _Erc20.contract.Call(opts, &out, "balanceOf", account)

	if err != nil {
		return *new(*big.Int), err
	}

	out0 := *abi.ConvertType(out[0], new(*big.Int)).(**big.Int)

	return out0, err

}

// BalanceOf is a free data retrieval call binding the contract method 0x70a08231.
//
// Solidity: function balanceOf(address account) view returns(uint256)
func (_Erc20 *Erc20Session) BalanceOf(account common.Address) (*big.Int, error) {
	return _Erc20.Contract.BalanceOf(&_Erc20.CallOpts, account)
}

// BalanceOf is a free data retrieval call binding the contract method 0x70a08231.
//
// Solidity: function balanceOf(address account) view returns(uint256)
func (_Erc20 *Erc20CallerSession) BalanceOf(account common.Address) (*big.Int, error) {
	return _Erc20.Contract.BalanceOf(&_Erc20.CallOpts, account)
}

// Decimals is a free data retrieval call binding the contract method 0x313ce567.
//
// Solidity: function decimals() view returns(uint8)
func (_Erc20 *Erc20Caller) Decimals(opts *bind.CallOpts) (uint8, error) {
	var out []interface{}
	err := _Erc20.contract.Call(opts, &out, "decimals")

	if err != nil {
		return *new(uint8), err
	}

	out0 := *abi.ConvertType(out[0], new(uint8)).(*uint8)

	return out0, err

}

// Decimals is a free data retrieval call binding the contract method 0x313ce567.
//
// Solidity: function decimals() view returns(uint8)
func (_Erc20 *Erc20Session) Decimals() (uint8, error) {
	return _Erc20.Contract.Decimals(&_Erc20.CallOpts)
}

// Decimals is a free data retrieval call binding the contract method 0x313ce567.
//
// Solidity: function decimals() view returns(uint8)
func (_Erc20 *Erc20CallerSession) Decimals() (uint8, error) {
	return _Erc20.Contract.Decimals(&_Erc20.CallOpts)
}

// Name is a free data retrieval call binding the contract method 0x06fdde03.
//
// Solidity: function name() view returns(string)
func (_Erc20 *Erc20Caller) Name(opts *bind.CallOpts) (string, error) {
	var out []interface{}
	err := _Erc20.contract.Call(opts, &out, "name")

	if err != nil {
		return *new(string), err
	}

	out0 := *abi.ConvertType(out[0], new(string)).(*string)

	return out0, err

}

// Name is a free data retrieval call binding the contract method 0x06fdde03.
//
// Solidity: function name() view returns(string)
func (_Erc20 *Erc20Session) Name() (string, error) {
	return _Erc20.Contract.Name(&_Erc20.CallOpts)
}

// Name is a free data retrieval call binding the contract method 0x06fdde03.
//
// Solidity: function name() view returns(string)
func (_Erc20 *Erc20CallerSession) Name() (string, error) {
	return _Erc20.Contract.Name(&_Erc20.CallOpts)
}

// Symbol is a free data retrieval call binding the contract method 0x95d89b41.
//
// Solidity: function symbol() view returns(string)
func (_Erc20 *Erc20Caller) Symbol(opts *bind.CallOpts) (string, error) {
	var out []interface{}
	err := _Erc20.contract.Call(opts, &out, "symbol")

	if err != nil {
		return *new(string), err
	}

	out0 := *abi.ConvertType(out[0], new(string)).(*string)

	return out0, err

}

// Symbol is a free data retrieval call binding the contract method 0x95d89b41.
//
// Solidity: function symbol() view returns(string)
func (_Erc20 *Erc20Session) Symbol() (string, error) {
	return _Erc20.Contract.Symbol(&_Erc20.CallOpts)
}

// Symbol is a free data retrieval call binding the contract method 0x95d89b41.
//
// Solidity: function symbol() view returns(string)
func (_Erc20 *Erc20CallerSession) Symbol() (string, error) {
	return _Erc20.Contract.Symbol(&_Erc20.CallOpts)
}

// TotalSupply is a free data retrieval call binding the contract method 0x18160ddd.
//
// Solidity: function totalSupply() view returns(uint256)
func (_Erc20 *Erc20Caller) TotalSupply(opts *bind.CallOpts) (*big.Int, error) {
	var out []interface{}
	err := _Erc20.contract.Call(opts, &out, "totalSupply")

	if err != nil {
		return *new(*big.Int), err
	}

	out0 := *abi.ConvertType(out[0], new(*big.Int)).(**big.Int)

	return out0, err

}

// TotalSupply is a free data retrieval call binding the contract method 0x18160ddd.
//
// Solidity: function totalSupply() view returns(uint256)
func (_Erc20 *Erc20Session) TotalSupply() (*big.Int, error) {
	return _Erc20.Contract.TotalSupply(&_Erc20.CallOpts)
}

// TotalSupply is a free data retrieval call binding the contract method 0x18160ddd.
//
// Solidity: function totalSupply() view returns(uint256)
func (_Erc20 *Erc20CallerSession) TotalSupply() (*big.Int, error) {
	return _Erc20.Contract.TotalSupply(&_Erc20.CallOpts)
}

// Approve is a paid mutator transaction binding the contract method 0x095ea7b3.
//
// Solidity: function approve(address spender, uint256 amount) returns(bool)
func (_Erc20 *Erc20Transactor) Approve(opts *bind.TransactOpts, spender common.Address, amount *big.Int) (*types.Transaction, error) {
	return _Erc20.contract.Transact(opts, "approve", spender, amount)
}

// Approve is a paid mutator transaction binding the contract method 0x095ea7b3.
//
// Solidity: function approve(address spender, uint256 amount) returns(bool)
func (_Erc20 *Erc20Session) Approve(spender common.Address, amount *big.Int) (*types.Transaction, error) {
	return _Erc20.Contract.Approve(&_Erc20.TransactOpts, spender, amount)
}

// Approve is a paid mutator transaction binding the contract method 0x095ea7b3.
//
// Solidity: function approve(address spender, uint256 amount) returns(bool)
func (_Erc20 *Erc20TransactorSession) Approve(spender common.Address, amount *big.Int) (*types.Transaction, error) {
	return _Erc20.Contract.Approve(&_Erc20.TransactOpts, spender, amount)
}

// DecreaseAllowance is a paid mutator transaction binding the contract method 0xa457c2d7.
//
// Solidity: function decreaseAllowance(address spender, uint256 subtractedValue) returns(bool)
func (_Erc20 *Erc20Transactor) DecreaseAllowance(opts *bind.TransactOpts, spender common.Address, subtractedValue *big.Int) (*types.Transaction, error) {
	return _Erc20.contract.Transact(opts, "decreaseAllowance", spender, subtractedValue)
}

// DecreaseAllowance is a paid mutator transaction binding the contract method 0xa457c2d7.
//
// Solidity: function decreaseAllowance(address spender, uint256 subtractedValue) returns(bool)
func (_Erc20 *Erc20Session) DecreaseAllowance(spender common.Address, subtractedValue *big.Int) (*types.Transaction, error) {
	return _Erc20.Contract.DecreaseAllowance(&_Erc20.TransactOpts, spender, subtractedValue)
}

// DecreaseAllowance is a paid mutator transaction binding the contract method 0xa457c2d7.
//
// Solidity: function decreaseAllowance(address spender, uint256 subtractedValue) returns(bool)
func (_Erc20 *Erc20TransactorSession) DecreaseAllowance(spender common.Address, subtractedValue *big.Int) (*types.Transaction, error) {
	return _Erc20.Contract.DecreaseAllowance(&_Erc20.TransactOpts, spender, subtractedValue)
}

// IncreaseAllowance is a paid mutator transaction binding the contract method 0x39509351.
//
// Solidity: function increaseAllowance(address spender, uint256 addedValue) returns(bool)
func (_Erc20 *Erc20Transactor) IncreaseAllowance(opts *bind.TransactOpts, spender common.Address, addedValue *big.Int) (*types.Transaction, error) {
	return _Erc20.contract.Transact(opts, "increaseAllowance", spender, addedValue)
}

// IncreaseAllowance is a paid mutator transaction binding the contract method 0x39509351.
//
// Solidity: function increaseAllowance(address spender, uint256 addedValue) returns(bool)
func (_Erc20 *Erc20Session) IncreaseAllowance(spender common.Address, addedValue *big.Int) (*types.Transaction, error) {
	return _Erc20.Contract.IncreaseAllowance(&_Erc20.TransactOpts, spender, addedValue)
}

// IncreaseAllowance is a paid mutator transaction binding the contract method 0x39509351.
//
// Solidity: function increaseAllowance(address spender, uint256 addedValue) returns(bool)
func (_Erc20 *Erc20TransactorSession) IncreaseAllowance(spender common.Address, addedValue *big.Int) (*types.Transaction, error) {
	return _Erc20.Contract.IncreaseAllowance(&_Erc20.TransactOpts, spender, addedValue)
}

// Transfer is a paid mutator transaction binding the contract method 0xa9059cbb.
//
// Solidity: function transfer(address recipient, uint256 amount) returns(bool)
func (_Erc20 *Erc20Transactor) Transfer(opts *bind.TransactOpts, recipient common.Address, amount *big.Int) (*types.Transaction, error) {
	return _Erc20.contract.Transact(opts, "transfer", recipient, amount)
}

// Transfer is a paid mutator transaction binding the contract method 0xa9059cbb.
//
// Solidity: function transfer(address recipient, uint256 amount) returns(bool)
func (_Erc20 *Erc20Session) Transfer(recipient common.Address, amount *big.Int) (*types.Transaction, error) {
	return _Erc20.Contract.Transfer(&_Erc20.TransactOpts, recipient, amount)
}

// Transfer is a paid mutator transaction binding the contract method 0xa9059cbb.
//
// Solidity: function transfer(address recipient, uint256 amount) returns(bool)
func (_Erc20 *Erc20TransactorSession) Transfer(recipient common.Address, amount *big.Int) (*types.Transaction, error) {
	return _Erc20.Contract.Transfer(&_Erc20.TransactOpts, recipient, amount)
}

// TransferFrom is a paid mutator transaction binding the contract method 0x23b872dd.
//
// Solidity: function transferFrom(address sender, address recipient, uint256 amount) returns(bool)
func (_Erc20 *Erc20Transactor) TransferFrom(opts *bind.TransactOpts, sender common.Address, recipient common.Address, amount *big.Int) (*types.Transaction, error) {
	return _Erc20.contract.Transact(opts, "transferFrom", sender, recipient, amount)
}

// TransferFrom is a paid mutator transaction binding the contract method 0x23b872dd.
//
// Solidity: function transferFrom(address sender, address recipient, uint256 amount) returns(bool)
func (_Erc20 *Erc20Session) TransferFrom(sender common.Address, recipient common.Address, amount *big.Int) (*types.Transaction, error) {
	return _Erc20.Contract.TransferFrom(&_Erc20.TransactOpts, sender, recipient, amount)
}

// TransferFrom is a paid mutator transaction binding the contract method 0x23b872dd.
//
// Solidity: function transferFrom(address sender, address recipient, uint256 amount) returns(bool)
func (_Erc20 *Erc20TransactorSession) TransferFrom(sender common.Address, recipient common.Address, amount *big.Int) (*types.Transaction, error) {
	return _Erc20.Contract.TransferFrom(&_Erc20.TransactOpts, sender, recipient, amount)
}

// Erc20ApprovalIterator is returned from FilterApproval and is used to iterate over the raw logs and unpacked data for Approval events raised by the Erc20 contract.
type Erc20ApprovalIterator struct {
	Event *Erc20Approval // Event containing the contract specifics and raw log

	contract *bind.BoundContract // Generic contract to use for unpacking event data
	event    string              // Event name to use for unpacking event data

	logs chan types.Log        // Log channel receiving the found contract events
	sub  ethereum.Subscription // Subscription for errors, completion and termination
	done bool                  // Whether the subscription completed delivering logs
	fail error                 // Occurred error to stop iteration
}

// Next advances the iterator to the subsequent event, returning whether there
// are any more events found. In case of a retrieval or parsing error, false is
// returned and Error() can be queried for the exact failure.
func (it *Erc20ApprovalIterator) Next() bool {
	// If the iterator failed, stop iterating
	if it.fail != nil {
		return false
	}
	// If the iterator completed, deliver directly whatever's available
	if it.done {
		select {
		case log := <-it.logs:
			it.Event = new(Erc20Approval)
			if err := it.contract.UnpackLog(it.Event, it.event, log); err != nil {
				it.fail = err
				return false
			}
			it.Event.Raw = log
			return true

		default:
			return false
		}
	}
	// Iterator still in progress, wait for either a data or an error event
	select {
	case log := <-it.logs:
		it.Event = new(Erc20Approval)
		if err := it.contract.UnpackLog(it.Event, it.event, log); err != nil {
			it.fail = err
			return false
		}
		it.Event.Raw = log
		return true

	case err := <-it.sub.Err():
		it.done = true
		it.fail = err
		return it.Next()
	}
}

// Error returns any retrieval or parsing error occurred during filtering.
func (it *Erc20ApprovalIterator) Error() error {
	return it.fail
}

// Close terminates the iteration process, releasing any pending underlying
// resources.
func (it *Erc20ApprovalIterator) Close() error {
	it.sub.Unsubscribe()
	return nil
}

// Erc20Approval represents a Approval event raised by the Erc20 contract.
type Erc20Approval struct {
	Owner   common.Address
	Spender common.Address
	Value   *big.Int
	Raw     types.Log // Blockchain specific contextual infos
}

// FilterApproval is a free log retrieval operation binding the contract event 0x8c5be1e5ebec7d5bd14f71427d1e84f3dd0314c0f7b2291e5b200ac8c7c3b925.
//
// Solidity: event Approval(address indexed owner, address indexed spender, uint256 value)
func (_Erc20 *Erc20Filterer) FilterApproval(opts *bind.FilterOpts, owner []common.Address, spender []common.Address) (*Erc20ApprovalIterator, error) {

	var ownerRule []interface{}
	for _, ownerItem := range owner {
		ownerRule = append(ownerRule, ownerItem)
	}
	var spenderRule []interface{}
	for _, spenderItem := range spender {
		spenderRule = append(spenderRule, spenderItem)
	}

	logs, sub, err := _Erc20.contract.FilterLogs(opts, "Approval", ownerRule, spenderRule)
	if err != nil {
		return nil, err
	}
	return &Erc20ApprovalIterator{contract: _Erc20.contract, event: "Approval", logs: logs, sub: sub}, nil
}

// WatchApproval is a free log subscription operation binding the contract event 0x8c5be1e5ebec7d5bd14f71427d1e84f3dd0314c0f7b2291e5b200ac8c7c3b925.
//
// Solidity: event Approval(address indexed owner, address indexed spender, uint256 value)
func (_Erc20 *Erc20Filterer) WatchApproval(opts *bind.WatchOpts, sink chan<- *Erc20Approval, owner []common.Address, spender []common.Address) (event.Subscription, error) {

	var ownerRule []interface{}
	for _, ownerItem := range owner {
		ownerRule = append(ownerRule, ownerItem)
	}
	var spenderRule []interface{}
	for _, spenderItem := range spender {
		spenderRule = append(spenderRule, spenderItem)
	}

	logs, sub, err := _Erc20.contract.WatchLogs(opts, "Approval", ownerRule, spenderRule)
	if err != nil {
		return nil, err
	}
	return event.NewSubscription(func(quit <-chan struct{}) error {
		defer sub.Unsubscribe()
		for {
			select {
			case log := <-logs:
				// New log arrived, parse the event and forward to the user
				event := new(Erc20Approval)
				if err := _Erc20.contract.UnpackLog(event, "Approval", log); err != nil {
					return err
				}
				event.Raw = log

				select {
				case sink <- event:
				case err := <-sub.Err():
					return err
				case <-quit:
					return nil
				}
			case err := <-sub.Err():
				return err
			case <-quit:
				return nil
			}
		}
	}), nil
}

// ParseApproval is a log parse operation binding the contract event 0x8c5be1e5ebec7d5bd14f71427d1e84f3dd0314c0f7b2291e5b200ac8c7c3b925.
//
// Solidity: event Approval(address indexed owner, address indexed spender, uint256 value)
func (_Erc20 *Erc20Filterer) ParseApproval(log types.Log) (*Erc20Approval, error) {
	event := new(Erc20Approval)
	if err := _Erc20.contract.UnpackLog(event, "Approval", log); err != nil {
		return nil, err
	}
	event.Raw = log
	return event, nil
}

// Erc20TransferIterator is returned from FilterTransfer and is used to iterate over the raw logs and unpacked data for Transfer events raised by the Erc20 contract.
type Erc20TransferIterator struct {
	Event *Erc20Transfer // Event containing the contract specifics and raw log

	contract *bind.BoundContract // Generic contract to use for unpacking event data
	event    string              // Event name to use for unpacking event data

	logs chan types.Log        // Log channel receiving the found contract events
	sub  ethereum.Subscription // Subscription for errors, completion and termination
	done bool                  // Whether the subscription completed delivering logs
	fail error                 // Occurred error to stop iteration
}

// Next advances the iterator to the subsequent event, returning whether there
// are any more events found. In case of a retrieval or parsing error, false is
// returned and Error() can be queried for the exact failure.
func (it *Erc20TransferIterator) Next() bool {
	// If the iterator failed, stop iterating
	if it.fail != nil {
		return false
	}
	// If the iterator completed, deliver directly whatever's available
	if it.done {
		select {
		case log := <-it.logs:
			it.Event = new(Erc20Transfer)
			if err := it.contract.UnpackLog(it.Event, it.event, log); err != nil {
				it.fail = err
				return false
			}
			it.Event.Raw = log
			return true

		default:
			return false
		}
	}
	// Iterator still in progress, wait for either a data or an error event
	select {
	case log := <-it.logs:
		it.Event = new(Erc20Transfer)
		if err := it.contract.UnpackLog(it.Event, it.event, log); err != nil {
			it.fail = err
			return false
		}
		it.Event.Raw = log
		return true

	case err := <-it.sub.Err():
		it.done = true
		it.fail = err
		return it.Next()
	}
}

// Error returns any retrieval or parsing error occurred during filtering.
func (it *Erc20TransferIterator) Error() error {
	return it.fail
}

// Close terminates the iteration process, releasing any pending underlying
// resources.
func (it *Erc20TransferIterator) Close() error {
	it.sub.Unsubscribe()
	return nil
}

// Erc20Transfer represents a Transfer event raised by the Erc20 contract.
type Erc20Transfer struct {
	From  common.Address
	To    common.Address
	Value *big.Int
	Raw   types.Log // Blockchain specific contextual infos
}

// FilterTransfer is a free log retrieval operation binding the contract event 0xddf252ad1be2c89b69c2b068fc378daa952ba7f163c4a11628f55a4df523b3ef.
//
// Solidity: event Transfer(address indexed from, address indexed to, uint256 value)
func (_Erc20 *Erc20Filterer) FilterTransfer(opts *bind.FilterOpts, from []common.Address, to []common.Address) (*Erc20TransferIterator, error) {

	var fromRule []interface{}
	for _, fromItem := range from {
		fromRule = append(fromRule, fromItem)
	}
	var toRule []interface{}
	for _, toItem := range to {
		toRule = append(toRule, toItem)
	}

	logs, sub, err := _Erc20.contract.FilterLogs(opts, "Transfer", fromRule, toRule)
	if err != nil {
		return nil, err
	}
	return &Erc20TransferIterator{contract: _Erc20.contract, event: "Transfer", logs: logs, sub: sub}, nil
}

// WatchTransfer is a free log subscription operation binding the contract event 0xddf252ad1be2c89b69c2b068fc378daa952ba7f163c4a11628f55a4df523b3ef.
//
// Solidity: event Transfer(address indexed from, address indexed to, uint256 value)
func (_Erc20 *Erc20Filterer) WatchTransfer(opts *bind.WatchOpts, sink chan<- *Erc20Transfer, from []common.Address, to []common.Address) (event.Subscription, error) {

	var fromRule []interface{}
	for _, fromItem := range from {
		fromRule = append(fromRule, fromItem)
	}
	var toRule []interface{}
	for _, toItem := range to {
		toRule = append(toRule, toItem)
	}

	logs, sub, err := _Erc20.contract.WatchLogs(opts, "Transfer", fromRule, toRule)
	if err != nil {
		return nil, err
	}
	return event.NewSubscription(func(quit <-chan struct{}) error {
		defer sub.Unsubscribe()
		for {
			select {
			case log := <-logs:
				// New log arrived, parse the event and forward to the user
				event := new(Erc20Transfer)
				if err := _Erc20.contract.UnpackLog(event, "Transfer", log); err != nil {
					return err
				}
				event.Raw = log

				select {
				case sink <- event:
				case err := <-sub.Err():
					return err
				case <-quit:
					return nil
				}
			case err := <-sub.Err():
				return err
			case <-quit:
				return nil
			}
		}
	}), nil
}

// ParseTransfer is a log parse operation binding the contract event 0xddf252ad1be2c89b69c2b068fc378daa952ba7f163c4a11628f55a4df523b3ef.
//
// Solidity: event Transfer(address indexed from, address indexed to, uint256 value)
func (_Erc20 *Erc20Filterer) ParseTransfer(log types.Log) (*Erc20Transfer, error) {
	event := new(Erc20Transfer)
	if err := _Erc20.contract.UnpackLog(event, "Transfer", log); err != nil {
		return nil, err
	}
	event.Raw = log
	return event, nil
}
