#!/bin/bash
# copies the repository's compiled contract bindings into the harness (package hub2) at build time
set -e
cd "$(dirname "$0")"
REPO=${VERIF_REPO:-/repo}
for f in Hub2.go CosmosERC20.go; do
  sed -e 's/^package .*/package hub2/' "$REPO/solidity/contracts/$f" > hub2/$f
done
