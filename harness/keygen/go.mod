module verif/keygen

go 1.17

require (
	github.com/cosmos/cosmos-sdk v0.45.4
	github.com/cosmos/ibc-go v1.0.1
	github.com/ethereum/go-ethereum v1.10.25
	github.com/go-telegram-bot-api/telegram-bot-api/v5 v5.5.1
	github.com/gogo/protobuf v1.3.3
	github.com/golang/protobuf v1.5.2
	github.com/gorilla/mux v1.8.0
	github.com/grpc-ecosystem/grpc-gateway v1.16.0
	github.com/pkg/errors v0.9.1
	github.com/rakyll/statik v0.1.7
	github.com/regen-network/cosmos-proto v0.3.1
	github.com/spf13/cast v1.4.1
	github.com/spf13/cobra v1.4.0
	github.com/spf13/viper v1.10.1
	github.com/stretchr/testify v1.7.2
	github.com/tendermint/tendermint v0.34.19
	github.com/tendermint/tm-db v0.6.6
	golang.org/x/net v0.0.0-20220607020251-c690dde0001d
	google.golang.org/genproto v0.0.0-20220317150908-0efb43f6373e
	google.golang.org/grpc v1.45.0
)

require (
	filippo.io/edwards25519 v1.0.0-beta.2 // indirect
	github.com/99designs/keyring v1.1.6 // indirect
	github.com/ChainSafe/go-schnorrkel v0.0.0-20200405005733-88cbf1b4c40d // indirect
	github.com/DataDog/zstd v1.4.5 // indirect
	github.com/StackExchange/wmi v0.0.0-20180116203802-5d049714c4a6 // indirect
	github.com/VictoriaMetrics/fastcache v1.6.0 // indirect
	github.com/Workiva/go-datastructures v1.0.53 // indirect
	github.com/armon/go-metrics v0.3.10 // indirect
	github.com/beorn7/perks v1.0.1 // indirect
	github.com/bgentry/speakeasy v0.1.0 // indirect
	github.com/btcsuite/btcd v0.22.0-beta // indirect
	github.com/btcsuite/btcd/btcec/v2 v2.2.0 // indirect
	github.com/cespare/xxhash v1.1.0 // indirect
	github.com/cespare/xxhash/v2 v2.1.2 // indirect
	github.com/coinbase/rosetta-sdk-go v0.7.0 // indirect
	github.com/confio/ics23/go v0.6.6 // indirect
	github.com/cosmos/btcutil v1.0.4 // indirect
	github.com/cosmos/go-bip39 v1.0.0 // indirect
	github.com/cosmos/iavl v0.17.3 // indirect
	github.com/cosmos/ledger-cosmos-go v0.11.1 // indirect
	github.com/cosmos/ledger-go v0.9.2 // indirect
	github.com/danieljoos/wincred v1.0.2 // indirect
	github.com/davecgh/go-spew v1.1.1 // indirect
	github.com/deckarep/golang-set v1.8.0 // indirect
	github.com/decred/dcrd/dcrec/secp256k1/v4 v4.0.1 // indirect
	github.com/desertbit/timer v0.0.0-20180107155436-c41aec40b27f // indirect
	github.com/dgraph-io/badger/v2 v2.2007.2 // indirect
	github.com/dgraph-io/ristretto v0.0.3 // indirect
	github.com/dgryski/go-farm v0.0.0-20200201041132-a6ae2369ad13 // indirect
	github.com/dustin/go-humanize v1.0.0 // indirect
	github.com/dvsekhvalnov/jose2go v0.0.0-20200901110807-248326c1351b // indirect
	github.com/edsrzf/mmap-go v1.0.0 // indirect
	github.com/felixge/httpsnoop v1.0.1 // indirect
	github.com/fsnotify/fsnotify v1.5.1 // indirect
	github.com/go-kit/kit v0.12.0 // indirect
	github.com/go-kit/log v0.2.0 // indirect
	github.com/go-logfmt/logfmt v0.5.1 // indirect
	github.com/go-ole/go-ole v1.2.1 // indirect
	github.com/go-stack/stack v1.8.1 // indirect
	github.com/godbus/dbus v0.0.0-20190726142602-4481cbc300e2 // indirect
	github.com/gogo/gateway v1.1.0 // indirect
	github.com/golang/snappy v0.0.4 // indirect
	github.com/google/btree v1.0.0 // indirect
	github.com/google/orderedcode v0.0.1 // indirect
	github.com/google/uuid v1.3.0 // indirect
	github.com/gorilla/handlers v1.5.1 // indirect
	github.com/gorilla/websocket v1.5.0 // indirect
	github.com/grpc-ecosystem/go-grpc-middleware v1.3.0 // indirect
	github.com/gsterjov/go-libsecret v0.0.0-20161001094733-a6f4afe4910c // indirect
	github.com/gtank/merlin v0.1.1 // indirect
	github.com/gtank/ristretto255 v0.1.2 // indirect
	github.com/hashicorp/go-immutable-radix v1.3.1 // indirect
	github.com/hashicorp/golang-lru v0.5.5-0.20210104140557-80c98217689d // indirect
	github.com/hashicorp/hcl v1.0.0 // indirect
	github.com/hdevalence/ed25519consensus v0.0.0-20210204194344-59a8610d2b87 // indirect
	github.com/holiman/bloomfilter/v2 v2.0.3 // indirect
	github.com/holiman/uint256 v1.2.0 // indirect
	github.com/improbable-eng/grpc-web v0.14.1 // indirect
	github.com/inconshreveable/mousetrap v1.0.0 // indirect
	github.com/jmhodges/levigo v1.0.0 // indirect
	github.com/keybase/go-keychain v0.0.0-20190712205309-48d3d31d256d // indirect
	github.com/klauspost/compress v1.13.6 // indirect
	github.com/lib/pq v1.10.4 // indirect
	github.com/libp2p/go-buffer-pool v0.0.2 // indirect
	github.com/magiconair/properties v1.8.5 // indirect
	github.com/mattn/go-isatty v0.0.14 // indirect
	github.com/mattn/go-runewidth v0.0.9 // indirect
	github.com/matttproud/golang_protobuf_extensions v1.0.1 // indirect
	github.com/mimoo/StrobeGo v0.0.0-20181016162300-f8f6d4d2b643 // indirect
	github.com/minio/highwayhash v1.0.2 // indirect
	github.com/mitchellh/mapstructure v1.4.3 // indirect
	github.com/mtibben/percent v0.2.1 // indirect
	github.com/olekukonko/tablewriter v0.0.5 // indirect
	github.com/pelletier/go-toml v1.9.4 // indirect
	github.com/petermattis/goid v0.0.0-20180202154549-b0b1615b78e5 // indirect
	github.com/pmezard/go-difflib v1.0.0 // indirect
	github.com/prometheus/client_golang v1.12.1 // indirect
	github.com/prometheus/client_model v0.2.0 // indirect
	github.com/prometheus/common v0.32.1 // indirect
	github.com/prometheus/procfs v0.7.3 // indirect
	github.com/prometheus/tsdb v0.7.1 // indirect
	github.com/rcrowley/go-metrics v0.0.0-20200313005456-10cdbea86bc0 // indirect
	github.com/rjeczalik/notify v0.9.1 // indirect
	github.com/rs/cors v1.8.2 // indirect
	github.com/rs/zerolog v1.23.0 // indirect
	github.com/sasha-s/go-deadlock v0.2.1-0.20190427202633-1595213edefa // indirect
	github.com/shirou/gopsutil v3.21.4-0.20210419000835-c7a38de76ee5+incompatible // indirect
	github.com/spf13/afero v1.6.0 // indirect
	github.com/spf13/jwalterweatherman v1.1.0 // indirect
	github.com/spf13/pflag v1.0.5 // indirect
	github.com/subosito/gotenv v1.2.0 // indirect
	github.com/syndtr/goleveldb v1.0.1-0.20210819022825-2ae1ddf74ef7 // indirect
	github.com/tecbot/gorocksdb v0.0.0-20191217155057-f0fad39f321c // indirect
	github.com/tendermint/btcd v0.1.1 // indirect
	github.com/tendermint/crypto v0.0.0-20191022145703-50d29ede1e15 // indirect
	github.com/tendermint/go-amino v0.16.0 // indirect
	github.com/tklauser/go-sysconf v0.3.5 // indirect
	github.com/tklauser/numcpus v0.2.2 // indirect
	github.com/zondax/hid v0.9.0 // indirect
	go.etcd.io/bbolt v1.3.6 // indirect
	golang.org/x/crypto v0.0.0-20211202192323-5770296d904e // indirect
	golang.org/x/sys v0.0.0-20220520151302-bc2c85ada10a // indirect
	golang.org/x/term v0.0.0-20210927222741-03fcf44c2211 // indirect
	golang.org/x/text v0.3.7 // indirect
	google.golang.org/protobuf v1.27.1 // indirect
	gopkg.in/ini.v1 v1.66.2 // indirect
	gopkg.in/natefinch/npipe.v2 v2.0.0-20160621034901-c1b8fa8bdcce // indirect
	gopkg.in/yaml.v2 v2.4.0 // indirect
	gopkg.in/yaml.v3 v3.0.1 // indirect
	nhooyr.io/websocket v1.8.6 // indirect
)

replace google.golang.org/grpc => google.golang.org/grpc v1.33.2

replace github.com/gogo/protobuf => github.com/regen-network/protobuf v1.3.3-alpha.regen.1

replace github.com/99designs/keyring => github.com/cosmos/keyring v1.1.7-0.20210622111912-ef00f8ac3d76

require github.com/MinterTeam/mhub2/module v0.0.0

replace github.com/MinterTeam/mhub2/module => /repo/module

require (
	github.com/FactomProject/basen v0.0.0-20150613233007-fe3947df716e // indirect
	github.com/FactomProject/btcutilecc v0.0.0-20130527213604-d3a63a5752ec // indirect
	github.com/MinterTeam/mhub2/minter-connector v0.0.0
	github.com/MinterTeam/minter-go-sdk/v2 v2.5.2
	github.com/PuerkitoBio/purell v1.1.1 // indirect
	github.com/PuerkitoBio/urlesc v0.0.0-20170810143723-de5bf2ad4578 // indirect
	github.com/asaskevich/govalidator v0.0.0-20210307081110-f21760c49a8d // indirect
	github.com/go-openapi/analysis v0.21.1 // indirect
	github.com/go-openapi/errors v0.20.1 // indirect
	github.com/go-openapi/jsonpointer v0.19.5 // indirect
	github.com/go-openapi/jsonreference v0.19.6 // indirect
	github.com/go-openapi/loads v0.21.0 // indirect
	github.com/go-openapi/runtime v0.21.0 // indirect
	github.com/go-openapi/spec v0.20.4 // indirect
	github.com/go-openapi/strfmt v0.21.1
	github.com/go-openapi/swag v0.19.15 // indirect
	github.com/go-openapi/validate v0.20.3 // indirect
	github.com/josharian/intern v1.0.0 // indirect
	github.com/mailru/easyjson v0.7.7 // indirect
	github.com/mitchellh/go-homedir v1.1.0 // indirect
	github.com/oklog/ulid v1.3.1 // indirect
	github.com/opentracing/opentracing-go v1.2.0 // indirect
	github.com/tyler-smith/go-bip32 v1.0.0 // indirect
	github.com/tyler-smith/go-bip39 v1.1.0 // indirect
	go.mongodb.org/mongo-driver v1.8.0 // indirect
)

replace github.com/MinterTeam/mhub2/minter-connector => /repo/minter-connector

require github.com/status-im/keycard-go v0.0.0-20190316090335-8537d3370df4
