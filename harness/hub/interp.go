package main

import (
	"runtime/debug"
	"os/exec"
	"encoding/json"
	"bytes"
	"context"
	"crypto/sha256"
	"encoding/binary"
	"encoding/hex"
	"fmt"
	"math/big"
	"os"
	"sort"
	"strconv"
	"strings"
	"time"

	"github.com/cosmos/cosmos-sdk/store/prefix"
	sdk "github.com/cosmos/cosmos-sdk/types"
	"github.com/cosmos/cosmos-sdk/types/bech32"
	authtypes "github.com/cosmos/cosmos-sdk/x/auth/types"
	"github.com/cosmos/cosmos-sdk/x/params"
	paramproposal "github.com/cosmos/cosmos-sdk/x/params/types/proposal"

	"github.com/ethereum/go-ethereum/crypto"

	mhub2 "github.com/MinterTeam/mhub2/module/x/mhub2"
	"github.com/MinterTeam/mhub2/module/x/mhub2/keeper"
	"github.com/MinterTeam/mhub2/module/x/mhub2/types"
	"github.com/MinterTeam/mhub2/module/x/oracle"
	oraclekeeper "github.com/MinterTeam/mhub2/module/x/oracle/keeper"
	oracletypes "github.com/MinterTeam/mhub2/module/x/oracle/types"
)

// ---------------------------------------------------------------- address helpers

func accFromHex(h string) sdk.AccAddress {
	b, err := hex.DecodeString(h)
	if err != nil {
		return nil
	}
	return sdk.AccAddress(b)
}

func accStr(h string) string { // hex -> bech32
	a := accFromHex(h)
	if a == nil {
		return h
	}
	return a.String()
}

func valStr(h string) string {
	b, err := hex.DecodeString(h)
	if err != nil {
		return h
	}
	return sdk.ValAddress(b).String()
}

// toHexAcc maps a bech32 account/validator string (or anything else) to canonical form.
func (e *Env) toHexAcc(s string) string {
	if s == "" {
		return ""
	}
	if a, err := sdk.AccAddressFromBech32(s); err == nil {
		if a.Equals(e.moduleAddr) {
			return "module"
		}
		return hex.EncodeToString(a)
	}
	if a, err := sdk.ValAddressFromBech32(s); err == nil {
		return hex.EncodeToString(a)
	}
	return s
}

func parseInt(s string) (sdk.Int, bool) {
	b, ok := new(big.Int).SetString(s, 10)
	if !ok {
		return sdk.Int{}, false
	}
	if b.BitLen() > 255 {
		return sdk.Int{}, false
	}
	return sdk.NewIntFromBigInt(b), true
}

// ---------------------------------------------------------------- events

func parseSigners(s string) []*types.ExternalSigner {
	out := []*types.ExternalSigner{}
	if s == "-" {
		return out
	}
	for _, it := range strings.Split(s, ",") {
		p := strings.Split(it, ":")
		pw, _ := strconv.ParseUint(p[1], 10, 64)
		out = append(out, &types.ExternalSigner{ExternalAddress: p[0], Power: pw})
	}
	return out
}

func parseEvent(w []string) (types.ExternalEvent, error) {
	u := func(s string) uint64 { v, _ := strconv.ParseUint(s, 10, 64); return v }
	switch {
	case len(w) == 8 && w[0] == "sth":
		a, ok := parseInt(w[3])
		if !ok {
			return nil, fmt.Errorf("bad int")
		}
		return &types.SendToHubEvent{EventNonce: u(w[1]), ExternalCoinId: w[2], Amount: a, Sender: w[4],
			CosmosReceiver: accStr(w[5]), ExternalHeight: u(w[6]), TxHash: w[7]}, nil
	case len(w) == 10 && w[0] == "ttc":
		a, ok := parseInt(w[3])
		f, ok2 := parseInt(w[4])
		if !ok || !ok2 {
			return nil, fmt.Errorf("bad int")
		}
		return &types.TransferToChainEvent{EventNonce: u(w[1]), ExternalCoinId: w[2], Amount: a, Fee: f, Sender: w[5],
			ReceiverChainId: w[6], ExternalReceiver: w[7], ExternalHeight: u(w[8]), TxHash: w[9]}, nil
	case len(w) == 8 && w[0] == "bex":
		fp, ok := parseInt(w[6])
		if !ok {
			return nil, fmt.Errorf("bad int")
		}
		return &types.BatchExecutedEvent{ExternalCoinId: w[1], EventNonce: u(w[2]), BatchNonce: u(w[3]), ExternalHeight: u(w[4]),
			TxHash: w[5], FeePaid: fp, FeePayer: w[7]}, nil
	case len(w) == 6 && w[0] == "sse":
		return &types.SignerSetTxExecutedEvent{EventNonce: u(w[1]), SignerSetTxNonce: u(w[2]), ExternalHeight: u(w[3]),
			TxHash: w[4], Members: parseSigners(w[5])}, nil
	}
	return nil, fmt.Errorf("bad event")
}

// ---------------------------------------------------------------- op execution

type opResult struct {
	out      string
	panicked bool
	panicMsg string
}

// runTx runs f in a cache context; writes on success.  A panic is an outcome.
func (e *Env) runTx(f func(ctx sdk.Context) (string, error)) (res string) {
	e.Init()
	cctx, write := e.ctx.CacheContext()
	defer func() {
		if r := recover(); r != nil {
			e.lastPanic = fmt.Sprint(r)
			e.lastPanicSite = panicSite(debug.Stack())
			res = "panic"
		}
	}()
	out, err := f(cctx)
	if err != nil {
		e.lastErr = err.Error()
		return "err"
	}
	write()
	// ABCI events of the operation, in emission order (part of the determinism digest)
	h := sha256.New()
	for _, ev := range cctx.EventManager().ABCIEvents() {
		h.Write([]byte(ev.Type))
		for _, a := range ev.Attributes {
			h.Write(a.Key)
			h.Write([]byte{0})
			h.Write(a.Value)
			h.Write([]byte{1})
		}
	}
	e.evDigest = h.Sum(e.evDigest[:0:0])
	return out
}

// StateDigest hashes every key/value pair of the bridge, oracle and bank stores plus the events
// of the last operation.
func (e *Env) StateDigest() string {
	h := sha256.New()
	for _, k := range []sdk.StoreKey{e.hubKey, e.oracleKey, e.bankKey} {
		it := e.ctx.KVStore(k).Iterator(nil, nil)
		for ; it.Valid(); it.Next() {
			h.Write(it.Key())
			h.Write([]byte{0})
			h.Write(it.Value())
			h.Write([]byte{1})
		}
		it.Close()
		h.Write([]byte{2})
	}
	h.Write(e.evDigest)
	return hex.EncodeToString(h.Sum(nil))
}

func (e *Env) Exec(line string) string {
	w := strings.Fields(line)
	if len(w) == 0 {
		return ""
	}
	u := func(s string) uint64 { v, _ := strconv.ParseUint(s, 10, 64); return v }
	if out, ok := e.mxEchoOut(line); ok {
		return out
	}
	if w[0] == "mxq" {
		return "bad-op" // a question about a connector call that did not just happen
	}
	if e.dead && w[0] != "reset" {
		// a block function of this instance never returned: the goroutine it runs in still holds the locks of the
		// stores, so nothing may touch them any more (the history ends here; the monitor has reported it)
		return "deadlock"
	}
	switch w[0] {
	case "reset":
		return "ok" // handled by the caller (fresh Env)
	case "world":
		if len(w) > 1 && strings.HasPrefix(w[1], "x:") && e.inited && !e.dead {
			e.evmExec(w[1])
			return "ok"
		}
		if len(w) > 1 && strings.HasPrefix(w[1], "mx:") && e.inited && !e.dead {
			e.mxExec(w[1])
			return "ok"
		}
		if len(w) > 1 && strings.HasPrefix(w[1], "dryrun:tokens:") && e.inited && !e.dead {
			// the real proposal handler on a doubly nested cache context that is never written back
			c1, _ := e.ctx.CacheContext()
			c2, _ := c1.CacheContext()
			comm, _ := new(big.Int).SetString(strings.TrimPrefix(w[1], "dryrun:tokens:"), 10)
			infos := e.k.GetTokenInfos(c2)
			var l []*types.TokenInfo
			for _, t := range infos.TokenInfos {
				n := *t
				n.Commission = sdk.NewDecFromBigIntWithPrec(comm, 18)
				l = append(l, &n)
			}
			func() {
				defer func() { recover() }()
				_ = mhub2.NewProposalsHandler(e.k)(c2, &types.TokenInfosChangeProposal{NewInfos: &types.TokenInfos{TokenInfos: l}})
			}()
		}
		if len(w) > 1 && strings.HasPrefix(w[1], "dryrun:delegate:") && e.inited && !e.dead {
			// a MsgDelegateKeys executed on a branch that is thrown away (CheckTx, a simulation, or a transaction whose later
			// message fails): dryrun:delegate:<chain>:<validator>:<orchestrator>:<external address>
			p := strings.Split(w[1], ":")
			if len(p) == 6 {
				c1, _ := e.ctx.CacheContext()
				c2, _ := c1.CacheContext()
				func() {
					defer func() { recover() }()
					valB, _ := hex.DecodeString(p[3])
					valAcc := sdk.AccAddress(valB)
					a := e.acc.GetAccount(c2, valAcc)
					if a == nil {
						a = e.acc.NewAccountWithAddress(c2, valAcc)
					}
					a.SetSequence(1)
					e.acc.SetAccount(c2, a)
					msg := &types.MsgDelegateKeys{ValidatorAddress: valStr(p[3]), OrchestratorAddress: accStr(p[4]), ExternalAddress: p[5],
						EthSignature: e.signDelegate(p[5], valStr(p[3]), 0), ChainId: p[2]}
					if msg.ValidateBasic() == nil {
						_, _ = e.msg.SetDelegateKeys(sdk.WrapSDKContext(c2), msg)
					}
				}()
			}
		}
		if len(w) > 1 && strings.HasPrefix(w[1], "restart:") && e.inited && !e.dead {
			// a process restart of one node: replica <k> alone builds new keeper objects over its stores.  A node
			// that restarted and a node that has been running since genesis must stay in step.
			if k, _ := strconv.Atoi(strings.TrimPrefix(w[1], "restart:")); k == e.replica {
				e.buildKeepers(false)
			}
		}
		return "ok" // otherwise: a note to the monitors about how the external chains behave in this history
	case "govchains":
		// a passed governance ParameterChangeProposal on mhub2/Chains, executed by the params module's own handler
		// (it writes the parameter subspace directly, as in the application)
		return e.runTx(func(ctx sdk.Context) (string, error) {
			val, _ := json.Marshal(strings.Split(w[1], ","))
			prop := paramproposal.NewParameterChangeProposal("chains", "chains",
				[]paramproposal.ParamChange{paramproposal.NewParamChange(types.DefaultParamspace, string(types.ParamChains), string(val))})
			return "ok", params.NewParamChangeProposalHandler(e.pk)(ctx, prop)
		})
	case "init":
		e.Init()
		return "ok"
	case "chains":
		e.params.Chains = strings.Split(w[1], ",")
		return "ok"
	case "token":
		comm, _ := new(big.Int).SetString(w[6], 10)
		e.tokens = append(e.tokens, &types.TokenInfo{Id: u(w[1]), Denom: w[2], ChainId: w[3], ExternalTokenId: w[4],
			ExternalDecimals: u(w[5]), Commission: sdk.NewDecFromBigIntWithPrec(comm, 18)})
		return "ok"
	case "param":
		switch w[1] {
		case "outgoing_timeout_ms":
			e.params.OutgoingTxTimeout = u(w[2])
		case "target_timeout":
			e.params.TargetEthTxTimeout = u(w[2])
		case "avg_block":
			e.params.AverageBlockTime = u(w[2])
		case "avg_eth":
			e.params.AverageEthereumBlockTime = u(w[2])
		case "avg_bsc":
			e.params.AverageBscBlockTime = u(w[2])
		case "window":
			e.params.SignedSignerSetTxsWindow = u(w[2])
		case "gravity_id":
			e.params.GravityId = w[2]
		default:
			return "bad-op"
		}
		return "ok"
	case "price":
		v, _ := new(big.Int).SetString(w[2], 10)
		e.oracle.prices[w[1]] = sdk.NewDecFromBigIntWithPrec(v, 18)
		return "ok"
	case "holder":
		v, ok := parseInt(w[2])
		if !ok {
			return "bad-op"
		}
		e.oracle.holders[strings.ToLower(w[1])] = v
		return "ok"
	case "staking":
		var vals []fakeVal
		for _, it := range w[1:] {
			p := strings.Split(it, ":")
			b, _ := hex.DecodeString(p[0])
			pw, _ := strconv.ParseInt(p[1], 10, 64)
			vals = append(vals, fakeVal{addr: sdk.ValAddress(b), power: pw, bonded: p[2] == "b"})
		}
		old := map[string]fakeVal{}
		for _, v := range e.staking.vals {
			old[string(v.addr)] = v
		}
		e.staking.Set(vals)
		if e.inited {
			// the staking module tells the bridge about validator-set changes through the keeper's
			// real staking hooks (module/x/mhub2/keeper/hooks.go), exactly where the sdk calls them
			r := e.runTx(func(ctx sdk.Context) (string, error) {
				hk := e.k.Hooks()
				now := map[string]bool{}
				for _, v := range e.staking.vals {
					now[string(v.addr)] = true
				}
				var goneKeys []string
				for k := range old {
					if !now[k] {
						goneKeys = append(goneKeys, k)
					}
				}
				sort.Strings(goneKeys)
				for _, k := range goneKeys {
					// a validator that left the staking module altogether (all delegations gone, unbonding complete)
					o := old[k]
					if o.bonded {
						hk.AfterValidatorBeginUnbonding(ctx, sdk.ConsAddress(o.addr), o.addr)
					}
					hk.AfterValidatorRemoved(ctx, sdk.ConsAddress(o.addr), o.addr)
				}
				for _, v := range e.staking.vals {
					o, known := old[string(v.addr)]
					cons := sdk.ConsAddress(v.addr)
					switch {
					case !known:
						hk.AfterValidatorCreated(ctx, v.addr)
						if v.bonded {
							hk.AfterValidatorBonded(ctx, cons, v.addr)
						}
					case v.bonded && !o.bonded:
						hk.AfterValidatorBonded(ctx, cons, v.addr)
					case !v.bonded && o.bonded:
						hk.AfterValidatorBeginUnbonding(ctx, cons, v.addr)
					case v.power != o.power:
						hk.BeforeValidatorModified(ctx, v.addr)
					}
				}
				return "ok", nil
			})
			if r != "ok" {
				return r
			}
		}
		return "ok"
	case "fund":
		amt, ok := parseInt(w[3])
		if !ok {
			return "bad-op"
		}
		return e.runTx(func(ctx sdk.Context) (string, error) {
			if !amt.IsPositive() {
				return "", fmt.Errorf("invalid coins")
			}
			coins := sdk.Coins{sdk.Coin{Denom: w[2], Amount: amt}}
			if err := e.bank.MintCoins(ctx, types.ModuleName, coins); err != nil {
				return "", err
			}
			return "ok", e.bank.SendCoinsFromModuleToAccount(ctx, types.ModuleName, accFromHex(w[1]), coins)
		})
	case "block":
		h, _ := strconv.ParseInt(w[1], 10, 64)
		t, _ := strconv.ParseInt(w[2], 10, 64)
		e.SetBlock(h, t)
		return "ok"
	case "begin":
		return e.watchdog(func() string {
			return e.runTx(func(ctx sdk.Context) (string, error) { mhub2.BeginBlocker(ctx, e.k); return "ok", nil })
		})
	case "end":
		return e.watchdog(func() string {
			return e.runTx(func(ctx sdk.Context) (string, error) { mhub2.EndBlocker(ctx, e.k); return "ok", nil })
		})
	case "send":
		amt, ok1 := parseInt(w[5])
		fee, ok2 := parseInt(w[6])
		if !ok1 || !ok2 {
			return "bad-op"
		}
		txBytes := []byte("tx:" + w[7])
		return e.runTx(func(ctx sdk.Context) (string, error) {
			ctx = ctx.WithTxBytes(txBytes)
			msg := &types.MsgSendToExternal{Sender: accStr(w[1]), ExternalRecipient: w[3], Amount: sdk.Coin{Denom: w[4], Amount: amt},
				BridgeFee: sdk.Coin{Denom: w[4], Amount: fee}, ChainId: w[2]}
			if err := msg.ValidateBasic(); err != nil {
				return "", err
			}
			r, err := e.msg.SendToExternal(sdk.WrapSDKContext(ctx), msg)
			if err != nil {
				return "", err
			}
			return fmt.Sprintf("ok id=%d", r.Id), nil
		})
	case "cancel":
		return e.runTx(func(ctx sdk.Context) (string, error) {
			msg := &types.MsgCancelSendToExternal{Id: u(w[3]), Sender: accStr(w[1]), ChainId: w[2]}
			if err := msg.ValidateBasic(); err != nil {
				return "", err
			}
			_, err := e.msg.CancelSendToExternal(sdk.WrapSDKContext(ctx), msg)
			return "ok", err
		})
	case "reqbatch":
		return e.runTx(func(ctx sdk.Context) (string, error) {
			before := e.rawU64(ctx, append([]byte{types.LastOutgoingBatchNonceKey}, []byte(w[1])...))
			msg := &types.MsgRequestBatchTx{Denom: w[2], Signer: accStr("0909090909090909090909090909090909090909"), ChainId: w[1]}
			if err := msg.ValidateBasic(); err != nil {
				return "", err
			}
			_, err := e.msg.RequestBatchTx(sdk.WrapSDKContext(ctx), msg)
			if err != nil {
				return "", err
			}
			after := e.rawU64(ctx, append([]byte{types.LastOutgoingBatchNonceKey}, []byte(w[1])...))
			if after == before {
				return "ok nonce=none", nil
			}
			return fmt.Sprintf("ok nonce=%d", after), nil
		})
	case "vote":
		ev, err := parseEvent(w[3:])
		if err != nil {
			return "bad-op"
		}
		return e.runTx(func(ctx sdk.Context) (string, error) {
			any, err := types.PackEvent(ev)
			if err != nil {
				return "", err
			}
			msg := &types.MsgSubmitExternalEvent{Event: any, Signer: accStr(w[2]), ChainId: w[1]}
			if err := msg.ValidateBasic(); err != nil {
				return "", err
			}
			_, err = e.msg.SubmitExternalEvent(sdk.WrapSDKContext(ctx), msg)
			return "ok", err
		})
	case "hash":
		ev, err := parseEvent(w[1:])
		if err != nil {
			return "bad-op"
		}
		return hex.EncodeToString(ev.Hash())
	case "confirm":
		return e.runTx(func(ctx sdk.Context) (string, error) {
			var conf types.ExternalTxConfirmation
			if w[3] == "set" {
				sig, _ := hex.DecodeString(w[6])
				conf = &types.SignerSetTxConfirmation{SignerSetNonce: u(w[4]), ExternalSigner: w[5], Signature: sig}
			} else {
				sig, _ := hex.DecodeString(w[7])
				conf = &types.BatchTxConfirmation{ExternalTokenId: w[4], BatchNonce: u(w[5]), ExternalSigner: w[6], Signature: sig}
			}
			any, err := types.PackConfirmation(conf)
			if err != nil {
				return "", err
			}
			msg := &types.MsgSubmitExternalTxConfirmation{Confirmation: any, Signer: accStr(w[2]), ChainId: w[1]}
			if err := msg.ValidateBasic(); err != nil {
				return "", err
			}
			_, err = e.msg.SubmitTxConfirmation(sdk.WrapSDKContext(ctx), msg)
			return "ok", err
		})
	case "delegate":
		// delegate chain val orch eth signedBy signedVal signedNonce accSeq
		return e.runTx(func(ctx sdk.Context) (string, error) {
			valB, _ := hex.DecodeString(w[2])
			valAcc := sdk.AccAddress(valB)
			a := e.acc.GetAccount(ctx, valAcc)
			if a == nil {
				a = e.acc.NewAccountWithAddress(ctx, valAcc)
			}
			if err := a.SetSequence(u(w[8])); err != nil {
				return "", err
			}
			e.acc.SetAccount(ctx, a)
			sig := e.signDelegate(w[5], valStr(w[6]), u(w[7]))
			msg := &types.MsgDelegateKeys{ValidatorAddress: valStr(w[2]), OrchestratorAddress: accStr(w[3]), ExternalAddress: w[4],
				EthSignature: sig, ChainId: w[1]}
			if err := msg.ValidateBasic(); err != nil {
				return "", err
			}
			_, err := e.msg.SetDelegateKeys(sdk.WrapSDKContext(ctx), msg)
			return "ok", err
		})
	case "delegatek":
		// delegatek chain val orch eth signedBy signedVal signedNonce accSeq: like `delegate`, but the signature is made by the
		// repository's keys generator (mhub-keys-generator make_delegate_sign <key> <account> <nonce>), run as it is
		return e.runTx(func(ctx sdk.Context) (string, error) {
			valB, _ := hex.DecodeString(w[2])
			valAcc := sdk.AccAddress(valB)
			a := e.acc.GetAccount(ctx, valAcc)
			if a == nil {
				a = e.acc.NewAccountWithAddress(ctx, valAcc)
			}
			if err := a.SetSequence(u(w[8])); err != nil {
				return "", err
			}
			e.acc.SetAccount(ctx, a)
			sig, err := keysgenSign(w[5], w[6], u(w[7]))
			if err != nil {
				return "", err
			}
			msg := &types.MsgDelegateKeys{ValidatorAddress: valStr(w[2]), OrchestratorAddress: accStr(w[3]), ExternalAddress: w[4],
				EthSignature: sig, ChainId: w[1]}
			if err := msg.ValidateBasic(); err != nil {
				return "", err
			}
			_, err = e.msg.SetDelegateKeys(sdk.WrapSDKContext(ctx), msg)
			return "ok", err
		})
	case "q_confs":
		return e.query(func(ctx context.Context) string {
			var pairs []string
			if w[2] == "set" {
				r, err := e.k.SignerSetTxConfirmations(ctx, &types.SignerSetTxConfirmationsRequest{SignerSetNonce: u(w[3]), ChainId: w[1]})
				if err != nil {
					return "err"
				}
				for _, s := range r.Signatures {
					pairs = append(pairs, s.ExternalSigner+"="+hex.EncodeToString(s.Signature))
				}
			} else {
				r, err := e.k.BatchTxConfirmations(ctx, &types.BatchTxConfirmationsRequest{BatchNonce: u(w[4]), ExternalTokenId: w[3], ChainId: w[1]})
				if err != nil {
					return "err"
				}
				for _, s := range r.Signatures {
					pairs = append(pairs, s.ExternalSigner+"="+hex.EncodeToString(s.Signature))
				}
			}
			return "confs " + strings.Join(pairs, ";")
		})
	case "q_unsigned_sets":
		return e.query(func(ctx context.Context) string {
			r, err := e.k.UnsignedSignerSetTxs(ctx, &types.UnsignedSignerSetTxsRequest{Address: accStr(w[2]), ChainId: w[1]})
			if err != nil {
				return "err"
			}
			var l []string
			for _, s := range r.SignerSets {
				l = append(l, fmt.Sprint(s.Nonce))
			}
			return "unsigned " + strings.Join(l, ",")
		})
	case "q_unsigned_batches":
		return e.query(func(ctx context.Context) string {
			r, err := e.k.UnsignedBatchTxs(ctx, &types.UnsignedBatchTxsRequest{Address: accStr(w[2]), ChainId: w[1]})
			if err != nil {
				return "err"
			}
			var l []string
			for _, b := range r.Batches {
				l = append(l, fmt.Sprintf("%s/%d", b.ExternalTokenId, b.BatchNonce))
			}
			return "unsigned " + strings.Join(l, ",")
		})
	case "q_lastnonce":
		return e.query(func(ctx context.Context) string {
			r, err := e.k.LastSubmittedExternalEvent(ctx, &types.LastSubmittedExternalEventRequest{Address: accStr(w[2]), ChainId: w[1]})
			if err != nil {
				return "err"
			}
			return fmt.Sprintf("lastnonce %d", r.EventNonce)
		})
	case "import_stamped":
		// a hand-written genesis: sequence counter S and N outstanding signer-set transactions on one chain, imported into a
		// fresh instance by the real InitGenesis; prints the sequence each one was stamped with and the counter afterwards
		return e.pure(func() string {
			seq, n := u(w[1]), int(u(w[2]))
			src := NewEnv(false)
			src.Init()
			gs := keeper.ExportGenesis(src.rootCtx, src.k)
			if len(gs.ExternalStates) == 0 {
				return "no-chain"
			}
			gs.ExternalStates[0].Sequence = seq
			for i := 1; i <= n; i++ {
				a, err := types.PackOutgoingTx(&types.SignerSetTx{Nonce: uint64(i), Height: uint64(i)})
				if err != nil {
					return "err"
				}
				gs.ExternalStates[0].OutgoingTxs = append(gs.ExternalStates[0].OutgoingTxs, a)
			}
			dst := NewEnv(false)
			keeper.InitGenesis(dst.rootCtx, dst.k, gs)
			chain := types.ChainID(gs.ExternalStates[0].ChainId)
			byNonce := map[uint64]uint64{}
			dst.k.IterateOutgoingTxsByType(dst.rootCtx, chain, types.SignerSetTxPrefixByte, func(_ []byte, otx types.OutgoingTx) bool {
				if ss, ok := otx.(*types.SignerSetTx); ok {
					byNonce[ss.Nonce] = ss.Sequence
				}
				return false
			})
			var l []string
			for i := 1; i <= n; i++ {
				l = append(l, strconv.FormatUint(byNonce[uint64(i)], 10))
			}
			out := keeper.ExportGenesis(dst.rootCtx, dst.k)
			return fmt.Sprintf("stamps %s counter %d", strings.Join(l, ","), out.ExternalStates[0].Sequence)
		})
	case "export_import":
		e.Init()
		e.Flush()
		return e.pure(func() string { e.exportImport(); return "ok" })
	case "ckpt_set":
		return e.pure(func() string {
			tx := types.SignerSetTx{Nonce: u(w[2]), Signers: parseSigners(w[3])}
			return hex.EncodeToString(tx.GetCheckpoint([]byte(w[1])))
		})
	case "ckpt_batch":
		return e.pure(func() string {
			b := types.BatchTx{BatchNonce: u(w[2]), Timeout: u(w[3]), ExternalTokenId: w[4]}
			if w[5] != "-" {
				for _, it := range strings.Split(w[5], ";") {
					p := strings.Split(it, ":")
					a, _ := new(big.Int).SetString(p[0], 10)
					f, _ := new(big.Int).SetString(p[2], 10)
					b.Transactions = append(b.Transactions, &types.SendToExternal{ExternalRecipient: p[1],
						Token: types.ExternalToken{Amount: sdk.NewIntFromBigInt(a)}, Fee: types.ExternalToken{Amount: sdk.NewIntFromBigInt(f)}})
				}
			}
			return hex.EncodeToString(b.GetCheckpoint([]byte(w[1])))
		})
	case "ckpt_call":
		// ckpt_call gid amounts tokens feeAmounts feeTokens address payloadhex timeout scopehex nonce
		return e.pure(func() string {
			toks := func(amts, ids string) []types.ExternalToken {
				var l []types.ExternalToken
				if amts == "-" {
					return l
				}
				as, is := strings.Split(amts, ","), strings.Split(ids, ",")
				for i := range as {
					a, _ := new(big.Int).SetString(as[i], 10)
					l = append(l, types.ExternalToken{ExternalTokenId: is[i], Amount: sdk.NewIntFromBigInt(a)})
				}
				return l
			}
			hx := func(s string) []byte {
				if s == "-" {
					return nil
				}
				b, _ := hex.DecodeString(s)
				return b
			}
			c := types.ContractCallTx{Tokens: toks(w[2], w[3]), Fees: toks(w[4], w[5]), Address: w[6], Payload: hx(w[7]),
				Timeout: u(w[8]), InvalidationScope: hx(w[9]), InvalidationNonce: u(w[10])}
			return hex.EncodeToString(c.GetCheckpoint([]byte(w[1])))
		})
	case "ethmsg":
		return e.pure(func() string {
			d, _ := hex.DecodeString(w[1])
			return hex.EncodeToString(crypto.Keccak256(append([]byte("\x19Ethereum Signed Message:\n32"), d...)))
		})
	case "oprice", "oholders":
		epoch := u(w[2])
		return e.runTx(func(ctx sdk.Context) (string, error) {
			srv := oraclekeeper.NewMsgServerImpl(e.ok)
			if w[0] == "oprice" {
				ps := &oracletypes.Prices{}
				if w[3] != "-" {
					for _, it := range strings.Split(w[3], ",") {
						kv := strings.SplitN(it, "=", 2)
						v, _ := new(big.Int).SetString(kv[1], 10)
						ps.List = append(ps.List, &oracletypes.Price{Name: kv[0], Value: sdk.NewDecFromBigIntWithPrec(v, 18)})
					}
				}
				msg := &oracletypes.MsgPriceClaim{Epoch: epoch, Prices: ps, Orchestrator: accStr(w[1])}
				if err := msg.ValidateBasic(); err != nil {
					return "", err
				}
				_, err := srv.PriceClaim(sdk.WrapSDKContext(ctx), msg)
				return "ok", err
			}
			hs := &oracletypes.Holders{}
			if w[3] == "nil" {
				hs = nil
			} else if w[3] != "-" {
				for _, it := range strings.Split(w[3], ",") {
					kv := strings.SplitN(it, "=", 2)
					v, _ := parseInt(kv[1])
					hs.List = append(hs.List, &oracletypes.Holder{Address: plainName(kv[0]), Value: v})
				}
			}
			msg := &oracletypes.MsgHoldersClaim{Epoch: epoch, Holders: hs, Orchestrator: accStr(w[1])}
			if err := msg.ValidateBasic(); err != nil {
				return "", err
			}
			_, err := srv.HoldersClaim(sdk.WrapSDKContext(ctx), msg)
			return "ok", err
		})
	case "oend":
		return e.watchdog(func() string {
			return e.runTx(func(ctx sdk.Context) (string, error) { oracle.EndBlocker(ctx, e.ok); return "ok", nil })
		})
	case "dump":
		e.Init()
		if len(w) == 2 && w[1] == "oracle" {
			return e.DumpOracle()
		}
		return e.Dump(w[1:])
	}
	return "bad-op"
}

func (e *Env) DumpOracle() string {
	ctx := e.ctx
	var ps, hs []string
	if p := e.ok.GetPrices(ctx); p != nil {
		for _, it := range p.List {
			ps = append(ps, it.Name+"="+it.Value.BigInt().String())
		}
	}
	if h := e.ok.GetHolders(ctx); h != nil {
		for _, it := range h.List {
			hs = append(hs, lineName(it.Address)+"="+it.Value.String())
		}
	}
	ep := e.ok.GetCurrentEpoch(ctx)
	votes := func(claim oracletypes.Claim) string {
		att := e.ok.GetAttestation(ctx, ep, claim)
		var l []string
		if att != nil {
			for _, v := range att.Votes {
				l = append(l, e.toHexAcc(v))
			}
		}
		return strings.Join(l, ",")
	}
	return fmt.Sprintf("oracle epoch=%d prices=%s holders=%s pvotes=%s hvotes=%s", ep, strings.Join(ps, ","), strings.Join(hs, ","),
		votes(&oracletypes.MsgPriceClaim{Epoch: ep}), votes(&oracletypes.MsgHoldersClaim{Epoch: ep}))
}

// watchdog runs block processing under a time limit: a call that does not return is a deadlock.
// After a deadlock the environment is unusable (the stuck goroutine holds store locks).
func (e *Env) watchdog(f func() string) string {
	if e.dead {
		return "deadlock"
	}
	ch := make(chan string, 1)
	go func() { ch <- f() }()
	select {
	case r := <-ch:
		return r
	case <-time.After(e.watchdogLimit()):
		e.dead = true
		return "deadlock"
	}
}

func (e *Env) watchdogLimit() time.Duration {
	if s := os.Getenv("VERIF_WATCHDOG_S"); s != "" {
		if n, err := strconv.Atoi(s); err == nil {
			return time.Duration(n) * time.Second
		}
	}
	return 20 * time.Second
}

func (e *Env) pure(f func() string) (res string) {
	defer func() {
		if r := recover(); r != nil {
			e.lastPanic = fmt.Sprint(r)
			res = "panic"
		}
	}()
	return f()
}

func (e *Env) query(f func(ctx context.Context) string) (res string) {
	e.Init()
	defer func() {
		if r := recover(); r != nil {
			e.lastPanic = fmt.Sprint(r)
			res = "panic"
		}
	}()
	cctx, _ := e.ctx.CacheContext()
	return f(sdk.WrapSDKContext(cctx))
}

// ---------------------------------------------------------------- raw store access

func (e *Env) rawU64(ctx sdk.Context, key []byte) uint64 {
	bz := ctx.KVStore(e.hubKey).Get(key)
	if len(bz) == 0 {
		return 0
	}
	return binary.BigEndian.Uint64(bz)
}

func (e *Env) iterPrefix(ctx sdk.Context, p []byte, cb func(k, v []byte)) {
	st := prefix.NewStore(ctx.KVStore(e.hubKey), p)
	it := st.Iterator(nil, nil)
	defer it.Close()
	for ; it.Valid(); it.Next() {
		cb(append([]byte{}, it.Key()...), append([]byte{}, it.Value()...))
	}
}

func showSigners(l []*types.ExternalSigner) string {
	var s []string
	for _, m := range l {
		s = append(s, fmt.Sprintf("%s:%d", m.ExternalAddress, m.Power))
	}
	return strings.Join(s, ",")
}

func (e *Env) showSte(s *types.SendToExternal) string {
	return strings.Join([]string{fmt.Sprint(s.Id), e.toHexAcc(s.Sender), s.ExternalRecipient, fmt.Sprint(s.Token.TokenId), s.Token.ExternalTokenId,
		s.Token.Amount.String(), s.Fee.Amount.String(), s.ValCommission.Amount.String(), s.TxHash, fmt.Sprint(s.CreatedAt),
		e.toHexAcc(s.RefundAddress), s.RefundChainId}, "|")
}

func (e *Env) Pool(ctx sdk.Context, chain string) []*types.SendToExternal {
	var out []*types.SendToExternal
	e.iterPrefix(ctx, append([]byte{types.SendToExternalKey}, []byte(chain)...), func(k, v []byte) {
		var s types.SendToExternal
		e.cdc.MustUnmarshal(v, &s)
		out = append(out, &s)
	})
	return out
}

func (e *Env) Batches(ctx sdk.Context, chain string) []*types.BatchTx {
	var out []*types.BatchTx
	e.k.IterateOutgoingTxsByType(ctx, types.ChainID(chain), types.BatchTxPrefixByte, func(_ []byte, otx types.OutgoingTx) bool {
		out = append(out, otx.(*types.BatchTx))
		return false
	})
	for i, j := 0, len(out)-1; i < j; i, j = i+1, j-1 {
		out[i], out[j] = out[j], out[i]
	}
	return out
}

func (e *Env) Sets(ctx sdk.Context, chain string) []*types.SignerSetTx {
	var out []*types.SignerSetTx
	e.k.IterateOutgoingTxsByType(ctx, types.ChainID(chain), types.SignerSetTxPrefixByte, func(_ []byte, otx types.OutgoingTx) bool {
		out = append(out, otx.(*types.SignerSetTx))
		return false
	})
	for i, j := 0, len(out)-1; i < j; i, j = i+1, j-1 {
		out[i], out[j] = out[j], out[i]
	}
	return out
}

type voteRec struct {
	nonce uint64
	hash  []byte
	rec   types.ExternalEventVoteRecord
	event types.ExternalEvent
}

func (e *Env) VoteRecords(ctx sdk.Context, chain string) []voteRec {
	var out []voteRec
	e.iterPrefix(ctx, append([]byte{types.ExternalEventVoteRecordKey}, []byte(chain)...), func(k, v []byte) {
		var r types.ExternalEventVoteRecord
		e.cdc.MustUnmarshal(v, &r)
		ev, err := types.UnpackEvent(r.Event)
		if err != nil {
			panic(err)
		}
		out = append(out, voteRec{nonce: binary.BigEndian.Uint64(k[:8]), hash: k[8:], rec: r, event: ev})
	})
	return out
}

func (e *Env) Dump(what []string) string {
	ctx := e.ctx
	switch {
	case len(what) == 1 && what[0] == "bank":
		var bs, ss []string
		e.bank.IterateAllBalances(ctx, func(addr sdk.AccAddress, c sdk.Coin) bool {
			if !c.Amount.IsZero() {
				bs = append(bs, fmt.Sprintf("%s/%s=%s", e.toHexAcc(addr.String()), c.Denom, c.Amount))
			}
			return false
		})
		e.bank.IterateTotalSupply(ctx, func(c sdk.Coin) bool {
			if !c.Amount.IsZero() {
				ss = append(ss, fmt.Sprintf("%s=%s", c.Denom, c.Amount))
			}
			return false
		})
		sort.Strings(bs)
		sort.Strings(ss)
		return "bal " + strings.Join(bs, ";") + " supply " + strings.Join(ss, ";")
	case len(what) == 2 && what[0] == "pool":
		var l []string
		for _, s := range e.Pool(ctx, what[1]) {
			l = append(l, e.showSte(s))
		}
		return "pool " + strings.Join(l, ";")
	case len(what) == 2 && what[0] == "batches":
		var l []string
		for _, b := range e.Batches(ctx, what[1]) {
			var ids []string
			for _, t := range b.Transactions {
				ids = append(ids, fmt.Sprint(t.Id))
			}
			l = append(l, strings.Join([]string{fmt.Sprint(b.BatchNonce), fmt.Sprint(b.Timeout), fmt.Sprint(b.Height), fmt.Sprint(b.Sequence),
				b.ExternalTokenId, "[" + strings.Join(ids, ",") + "]"}, "|"))
		}
		return "batches " + strings.Join(l, ";")
	case len(what) == 2 && what[0] == "sets":
		var l []string
		for _, s := range e.Sets(ctx, what[1]) {
			l = append(l, strings.Join([]string{fmt.Sprint(s.Nonce), fmt.Sprint(s.Height), fmt.Sprint(s.Sequence), showSigners(s.Signers)}, "|"))
		}
		return "sets " + strings.Join(l, ";")
	case len(what) == 2 && what[0] == "votes":
		var l, ln []string
		for _, r := range e.VoteRecords(ctx, what[1]) {
			var vs []string
			for _, v := range r.rec.Votes {
				vs = append(vs, e.toHexAcc(v))
			}
			l = append(l, strings.Join([]string{fmt.Sprint(r.nonce), hex.EncodeToString(r.hash), fmt.Sprint(r.rec.Accepted), strings.Join(vs, ",")}, "|"))
		}
		e.iterPrefix(ctx, append([]byte{types.LastEventNonceByValidatorKey}, []byte(what[1])...), func(k, v []byte) {
			ln = append(ln, fmt.Sprintf("%s=%d", hex.EncodeToString(k), binary.BigEndian.Uint64(v)))
		})
		sort.Strings(ln)
		return "votes " + strings.Join(l, ";") + " last " + strings.Join(ln, ";")
	case len(what) == 2 && what[0] == "keys":
		sec := func(p byte, kf, vf func([]byte) string) string {
			var l []string
			e.iterPrefix(ctx, append([]byte{p}, []byte(what[1])...), func(k, v []byte) { l = append(l, kf(k)+"="+vf(v)) })
			sort.Strings(l)
			return strings.Join(l, ";")
		}
		hx := func(b []byte) string { return hex.EncodeToString(b) }
		eth := func(b []byte) string { return ethHex(b) }
		return "valext " + sec(types.ValidatorExternalAddressKey, hx, eth) + " orchval " + sec(types.OrchestratorValidatorAddressKey, hx, hx) +
			" extorch " + sec(types.ExternalOrchestratorAddressKey, eth, hx)
	case len(what) == 2 && what[0] == "sigs":
		var l []string
		e.iterPrefix(ctx, append([]byte{types.ExternalSignatureKey}, []byte(what[1])...), func(k, v []byte) {
			n := len(k) - 20
			if n < 0 {
				n = 0
			}
			l = append(l, fmt.Sprintf("%s|%s|%s", hex.EncodeToString(k[:n]), hex.EncodeToString(k[n:]), hex.EncodeToString(v)))
		})
		return "sigs " + strings.Join(l, ";")
	case len(what) == 2 && what[0] == "counters":
		c := []byte(what[1])
		los := "none"
		if s := e.k.GetLastObservedSignerSetTx(ctx, types.ChainID(what[1])); s != nil {
			los = fmt.Sprintf("%d|%s", s.Nonce, showSigners(s.Signers))
		}
		hts := e.k.GetLastObservedExternalBlockHeight(ctx, types.ChainID(what[1]))
		return fmt.Sprintf("counters ste=%d batch=%d seq=%d set=%d obs=%d ch=%d eh=%d los=%s",
			e.rawU64(ctx, append([]byte{types.LastSendToExternalIDKey}, c...)),
			e.rawU64(ctx, append([]byte{types.LastOutgoingBatchNonceKey}, c...)),
			e.rawU64(ctx, append([]byte{types.OutgoingSequence}, c...)),
			e.k.GetLatestSignerSetTxNonce(ctx, types.ChainID(what[1])),
			e.k.GetLastObservedEventNonce(ctx, types.ChainID(what[1])),
			hts.CosmosHeight, hts.ExternalHeight, los)
	case len(what) == 1 && what[0] == "tokens":
		var l []string
		for _, t := range e.k.GetTokenInfos(ctx).TokenInfos {
			l = append(l, fmt.Sprintf("%d|%s|%s|%s|%d|%s", t.Id, t.Denom, t.ChainId, t.ExternalTokenId, t.ExternalDecimals, t.Commission.BigInt()))
		}
		return "tokens " + strings.Join(l, ";")
	case len(what) == 1 && what[0] == "status":
		var st, fr []string
		e.iterPrefix(ctx, []byte{types.TxStatusKey}, func(k, v []byte) {
			var s types.TxStatus
			e.cdc.MustUnmarshal(v, &s)
			st = append(st, fmt.Sprintf("%s=%d/%s", string(k), int(s.Status), s.OutTxHash))
		})
		e.iterPrefix(ctx, []byte{types.TxFeeRecordKey}, func(k, v []byte) {
			var r types.TxFeeRecord
			e.cdc.MustUnmarshal(v, &r)
			fr = append(fr, fmt.Sprintf("%s=%s/%s", string(k), r.ValCommission, r.ExternalFee))
		})
		sort.Strings(st)
		sort.Strings(fr)
		return "status " + strings.Join(st, ";") + " feerec " + strings.Join(fr, ";")
	}
	return "bad-dump"
}

func txHashOf(tag string) string {
	return fmt.Sprintf("%x", sha256.Sum256([]byte("tx:"+tag)))
}

var _ = bytes.Compare
var _ = authtypes.ModuleName

// exportImport replaces the environment by a fresh instance initialised from the exported
// genesis of the bridge and oracle modules (bank balances are carried over as the bank module's
// own genesis would).
func (e *Env) exportImport() {
	ctx := e.rootCtx
	gs := keeper.ExportGenesis(ctx, e.k)
	bz := e.cdc.MustMarshalJSON(&gs)
	ogs := oraclekeeper.ExportGenesis(ctx, e.ok)
	obz := e.cdc.MustMarshalJSON(&ogs)
	type balEntry struct {
		addr sdk.AccAddress
		coin sdk.Coin
	}
	var bals []balEntry
	e.bank.IterateAllBalances(ctx, func(addr sdk.AccAddress, c sdk.Coin) bool {
		bals = append(bals, balEntry{addr, c})
		return false
	})
	ne := NewEnv(e.useRealOracle)
	// the validator set is an input of the environment: copy it INTO the staking object every keeper of the new
	// instance (and the oracle's attestation handler, which holds its own keeper copy) already points to
	*ne.staking = *e.staking
	ne.oracle.prices, ne.oracle.holders = e.oracle.prices, e.oracle.holders
	ne.height, ne.unixTime = e.height, e.unixTime
	ne.rootCtx = ne.rootCtx.WithBlockHeader(ctx.BlockHeader())
	var gs2 types.GenesisState
	ne.cdc.MustUnmarshalJSON(bz, &gs2)
	keeper.InitGenesis(ne.rootCtx, ne.k, gs2)
	var ogs2 oracletypes.GenesisState
	ne.cdc.MustUnmarshalJSON(obz, &ogs2)
	oraclekeeper.InitGenesis(ne.rootCtx, ne.ok, ogs2)
	ne.params = *gs2.Params
	ne.tokens = gs2.TokenInfos.TokenInfos
	ne.inited = true
	for _, b := range bals {
		coins := sdk.Coins{b.coin}
		if !b.coin.Amount.IsPositive() {
			continue
		}
		if err := ne.bank.MintCoins(ne.rootCtx, types.ModuleName, coins); err != nil {
			panic(err)
		}
		if !b.addr.Equals(ne.moduleAddr) {
			if err := ne.bank.SendCoinsFromModuleToAccount(ne.rootCtx, types.ModuleName, b.addr, coins); err != nil {
				panic(err)
			}
		}
	}
	ne.ctx = ne.rootCtx
	*e = *ne
}

// keysgenAvailable: the keys generator binary built from the repository by bin/check.
func keysgenAvailable() bool {
	p := os.Getenv("VERIF_KEYSGEN")
	if p == "" {
		return false
	}
	_, err := os.Stat(p)
	return err == nil
}

// keysgenSign runs the repository's keys generator: the key of `signedBy` signs (validator account, nonce).  The tool
// takes the validator's account address with the application's account prefix ("hub").
func keysgenSign(signedBy, valHex string, nonce uint64) ([]byte, error) {
	k := ethKeyByAddr[signedBy]
	if k == nil {
		return []byte{1}, nil // not a key we hold: an invalid signature
	}
	valB, _ := hex.DecodeString(valHex)
	acc, err := bech32.ConvertAndEncode("hub", valB)
	if err != nil {
		return nil, err
	}
	out, err := exec.Command(os.Getenv("VERIF_KEYSGEN"), "make_delegate_sign", hex.EncodeToString(crypto.FromECDSA(k)), acc, strconv.FormatUint(nonce, 10)).Output()
	if err != nil {
		return nil, fmt.Errorf("keys generator: %v", err)
	}
	s := strings.TrimSpace(string(out))
	return hex.DecodeString(strings.TrimPrefix(s, "0x"))
}

// Holder addresses are free-form strings in the oracle module.  On a protocol line an address that does not consist of
// letters and digits only is written as `x` + hex of its bytes (such an address is never also written in plain form).
func plainName(s string) string {
	if strings.HasPrefix(s, "x") {
		if b, err := hex.DecodeString(s[1:]); err == nil && len(b) > 0 {
			return string(b)
		}
	}
	return s
}

func lineName(s string) string {
	for i := 0; i < len(s); i++ {
		c := s[i]
		if !(c >= '0' && c <= '9' || c >= 'a' && c <= 'z' || c >= 'A' && c <= 'Z') {
			return "x" + hex.EncodeToString([]byte(s))
		}
	}
	return s
}

// panicSite: the innermost function of the bridge or oracle module on the stack of a recovered panic.
func panicSite(stack []byte) string {
	for _, l := range strings.Split(string(stack), "\n") {
		if i := strings.Index(l, "github.com/MinterTeam/mhub2/module/x/"); i >= 0 && !strings.HasPrefix(strings.TrimSpace(l), "/") {
			f := l[i+len("github.com/MinterTeam/mhub2/module/x/"):]
			if j := strings.Index(f, "("); j > 0 && !strings.Contains(f[:j], "/") {
				f = f[:j]
			} else if j := strings.LastIndex(f, "("); j > 0 {
				f = f[:j]
			}
			f = strings.NewReplacer("(", "", ")", "", "*", "").Replace(f)
			if k := strings.LastIndex(f, "."); k >= 0 {
				f = f[k+1:]
			}
			return f
		}
	}
	return "?"
}
