//go:build mloop

package main

// mloop profile: the hub, its validators, one minter-connector per validator and a scripted Minter node with the
// bridge's multisig account in one history.

import (
	"encoding/hex"
	"fmt"
	"math/big"
	"strings"
)

// mxFeed executes the hub operations the last connector call produced (confirmations, claims).
func (g *Gen) mxFeed() {
	if g.env.mx == nil {
		return
	}
	ops := g.env.mx.pending
	g.env.mx.pending = nil
	for _, op := range ops {
		g.do(op)
	}
}

func (g *Gen) mxBlock() {
	g.do("end")
	g.dumpAll()
	g.height++
	g.time += int64(3 + g.rng.Intn(5))
	g.do(fmt.Sprintf("block %d %d", g.height, g.time))
	g.do("begin")
	g.dumpAll()
}

func (g *Gen) mxRun(what string, i int) {
	g.do(fmt.Sprintf("world mx:run:%s:%d", what, i))
	g.mxFeed()
}

func (g *Gen) runMxLoop(nops int) {
	r := g.rng
	g.mxProfile = true
	g.env = NewEnv(false)
	defer g.env.mxStop()
	g.do("reset")
	g.chains = []string{"ethereum", "minter", "bsc", "hub"}
	g.do("chains " + strings.Join(g.chains, ","))
	ethTok := ethHex([]byte{0x10, 1, 2, 3, 4, 5, 6, 7, 8, 9, 10, 11, 12, 13, 14, 15, 16, 17, 18, 19})
	ethTok2 := ethHex([]byte{0x11, 1, 2, 3, 4, 5, 6, 7, 8, 9, 10, 11, 12, 13, 14, 15, 16, 17, 18, 19})
	comm := []string{"0", "10000000000000000", "5000000000000000"}[r.Intn(3)]
	g.do("token 1 hub ethereum " + ethTok + " 18 " + comm)
	g.do("token 2 hub minter 0 18 " + comm)
	g.do("token 3 usdt ethereum " + ethTok2 + " 6 " + comm)
	g.do("token 4 usdt minter 12 18 " + comm)
	g.tokens = []tokSpec{{1, "hub", "ethereum", ethTok, 18}, {2, "hub", "minter", "0", 18}, {3, "usdt", "ethereum", ethTok2, 6}, {4, "usdt", "minter", "12", 18}}
	g.denoms = []string{"hub", "usdt"}
	g.do(fmt.Sprintf("param outgoing_timeout_ms %d", 200000+r.Intn(400000)))
	for _, p := range []string{"eth", "bnb", "hub", "usdt"} {
		g.do("price " + p + " 1000000000000000000")
	}
	nv := 2 + r.Intn(4)
	for i := 0; i < nv; i++ {
		p := int64(1 + r.Intn(100))
		if r.Intn(4) == 0 {
			p = 50
		}
		g.vals = append(g.vals, valSpec{addr: hex20(byte(0xa0 + i)), power: p, bonded: true, orch: map[string]string{}, eth: map[string]string{}})
	}
	g.do(g.stakingLine())
	g.do("init")
	for i := 0; i < 3; i++ {
		g.accounts = append(g.accounts, hex20(byte(0x31+i)))
		g.do(fmt.Sprintf("fund %s hub 1000000000000000000000000", g.accounts[i]))
		g.do(fmt.Sprintf("fund %s usdt 1000000000000000000000000", g.accounts[i]))
	}
	for i := 0; i < 3; i++ {
		g.recips = append(g.recips, ethHex([]byte{byte(0x70 + i), 9, 9, 9, 9, 9, 9, 9, 9, 9, 9, 9, 9, 9, 9, 9, 9, 9, 9, byte(i)}))
	}
	keyless := -1
	if r.Intn(3) == 0 {
		keyless = r.Intn(nv)
	}
	var members []string
	for i := range g.vals {
		if i == keyless {
			continue
		}
		v := &g.vals[i]
		eth, orch := ethAddrs[i], hex20(byte(0xc0+i))
		if g.do(fmt.Sprintf("delegate minter %s %s %s %s %s %d %d", v.addr, orch, eth, eth, v.addr, 0, 1)) == "ok" {
			v.orch["minter"], v.eth["minter"] = orch, eth
			members = append(members, fmt.Sprintf("%s/%s/%d", v.addr, orch, i))
		}
	}
	g.height, g.time = 1, 1600000000
	g.do(fmt.Sprintf("block %d %d", g.height, g.time))
	g.do("begin")
	g.do("world mx:start:" + strings.Join(members, ","))
	if g.env.mx == nil || g.env.mx.failed != "" {
		return
	}
	nc := len(members)
	g.mxBlock()
	users := []string{"Mx5555555555555555555555555555555555555555", "Mx6666666666666666666666666666666666666666"}
	for i := 0; i < nops && nc > 0; i++ {
		switch x := r.Intn(100); {
		case x < 20:
			amt := new(big.Int).Mul(big.NewInt(int64(1+r.Intn(5000))), big.NewInt(1000000000000000))
			fee := new(big.Int).Mul(big.NewInt(int64(r.Intn(50))), big.NewInt(100000000000000))
			g.do(fmt.Sprintf("send %s minter %s %s %s %s %s", g.pick(g.accounts), g.pick(g.recips), g.pick(g.denoms), amt, fee, g.nextTag()))
		case x < 26:
			g.do("reqbatch minter " + g.pick(g.denoms))
		case x < 44:
			g.mxRun("batches", r.Intn(nc))
		case x < 58:
			g.mxRun("valsets", r.Intn(nc))
		case x < 74:
			g.mxRun("events", r.Intn(nc))
		case x < 80:
			// a deposit on Minter with a bridge command
			coin := []string{"0", "12"}[r.Intn(2)]
			amt := new(big.Int).Mul(big.NewInt(int64(1+r.Intn(5000))), big.NewInt(1000000000000000))
			fee := new(big.Int).Div(amt, big.NewInt(int64(3+r.Intn(200))))
			var payload string
			switch r.Intn(4) {
			case 0:
				payload = fmt.Sprintf(`{"type":"send_to_hub","recipient":"%s","fee":"0"}`, accStr(g.pick(g.accounts)))
			case 1:
				payload = fmt.Sprintf(`{"type":"send_to_ethereum","recipient":"%s","fee":"%s"}`, g.pick(g.recips), fee)
			case 2:
				payload = fmt.Sprintf(`{"type":"send_to_ethereum","recipient":"%s","fee":"%s"}`, strings.ToLower(g.pick(g.recips)), amt) // fee too high
			default:
				payload = `{"type":"send_to_mars"`
			}
			g.do(fmt.Sprintf("world mx:deposit:%s:%s:%s:%s", users[r.Intn(2)], coin, amt, hex.EncodeToString([]byte(payload))))
		case x < 88:
			vi := r.Intn(len(g.vals))
			switch r.Intn(3) {
			case 0:
				g.vals[vi].power = int64(1 + r.Intn(100))
			case 1:
				g.vals[vi].power += g.vals[vi].power*int64(r.Intn(12))/100 + 1
			case 2:
				if nBonded(g.vals) > 2 || !g.vals[vi].bonded {
					g.vals[vi].bonded = !g.vals[vi].bonded
				}
			}
			g.do(g.stakingLine())
		case x < 90 && r.Intn(2) == 0:
			// the validator set changes by more than the threshold in two (or three) consecutive blocks before any connector
			// polls again: several signer sets wait for signatures at once, and the multisig takes them strictly in order
			for k := 2 + r.Intn(2); k > 0; k-- {
				vi := r.Intn(len(g.vals))
				g.vals[vi].power = g.vals[vi].power*2 + int64(10+r.Intn(50))
				g.do(g.stakingLine())
				g.mxBlock()
			}
			g.stats["mloop:several-signer-sets-pending-at-once"]++
		case x < 90:
			g.do(fmt.Sprintf("world mx:mine:%d", 1+r.Intn(30)))
		default:
			g.mxBlock()
		}
	}
	// settle: every connector signs, relays and reports until nothing moves
	for k := 0; k < 6; k++ {
		for i := 0; i < nc; i++ {
			g.mxRun("valsets", i)
			g.mxRun("batches", i)
		}
		for i := 0; i < nc; i++ {
			g.mxRun("events", i)
		}
		g.mxBlock()
	}
	g.do("world mx:presettle")
	for i := 0; i < nc; i++ {
		g.mxRun("valsets", i)
		g.mxRun("batches", i)
	}
	for i := 0; i < nc; i++ {
		g.mxRun("events", i)
	}
	g.mxBlock()
	g.do("world mx:settle")
}
