package main

import (
	"bytes"
	"encoding/hex"
	"fmt"

	"github.com/ethereum/go-ethereum/accounts/abi"
	gethcommon "github.com/ethereum/go-ethereum/common"
	"github.com/ethereum/go-ethereum/crypto"
	"math/big"
	"os"
	"sort"
	"strconv"
	"strings"

	sdk "github.com/cosmos/cosmos-sdk/types"

	"github.com/MinterTeam/mhub2/module/x/mhub2/types"
)

// Monitor evaluates a property on the real state after every operation.  It recomputes what
// the property demands from the operation lines themselves (independent big.Int arithmetic),
// never from the implementation's formulas.
type Violation struct {
	Property string   `json:"property"`
	Class    string   `json:"class"` // witness class, matched against known_findings.json
	Detail   string   `json:"detail"`
	History  int      `json:"history"`
	OpIndex  int      `json:"op_index"`
	Ops      []string `json:"ops"`
}

type steView struct {
	id                          uint64
	sender, recipient, extToken string
	amount, fee, comm           *big.Int
	chain, txHash               string
	createdAt                   uint64
	refundAddr, refundChain     string
}

type batchView struct {
	nonce, timeout, height, seq uint64
	extToken                    string
	txs                         []steView
}

type snapshot struct {
	bal     map[string]*big.Int // acc/denom
	supply  map[string]*big.Int
	pool    map[string][]steView
	batches map[string][]batchView
	sets    map[string][]*types.SignerSetTx
	lastSte map[string]uint64
	lastBn  map[string]uint64
	outSeq  map[string]uint64
	lastObs map[string]uint64
	obsExt  map[string]uint64
	status  map[string]int
	feeRec  map[string][2]*big.Int
	records map[string][]voteRec
	height  int64
	time    int64
}

type debit struct {
	total *big.Int
	dec   uint64
	denom string
}

type Monitor struct {
	prop      string
	history   int
	viol      []Violation
	seen      map[string]bool
	before    *snapshot
	tokens    []tokSpec
	comm      map[uint64]*big.Int // token id -> commission rate (scaled)
	holders   map[string]*big.Int
	timeoutMs uint64
	// ghost state
	ghostObsH            map[string]uint64 // chain -> external height of the last applied event (C13)
	mxg                  *mxGhost                   // C08, Minter side (mloop profile)
	mxFunded             map[string]*big.Int        // C01 in the mloop profile: coins handed out by `fund`
	ghostConfs           map[string]map[string]bool // C08: tx key -> lower(external address) of every confirmation the message server accepted
	loopMode             bool              // "world loop": executions happen on the ghost external chain, the hub only hears of them
	loopTainted          bool              // an execution claim the ghost contracts could not have emitted: history is not truthful
	ext                  *extWorld
	pendingExec          map[string]pendExec // chain/eventNonce -> paid out externally, event not yet applied by the hub
	debits               map[string]debit  // chain/id -> hub units taken from the sender
	terminal             map[string]string // chain/id -> "executed" | "refunded"
	everLive             map[string]bool
	custody              map[string]*big.Int // chain/extToken -> external units locked
	statusOf             map[string]int
	lastBankBad          bool
	lastHash, lastHashOp string
	gDumps, gBefore      map[string]string
	gAfter               bool
	confs                map[string]string
	regBy                map[string]string
	obefore              *oracleSnap
	pclaims              []oclaim
	hclaims              []oclaim
}

func NewMonitor(prop string, history int) *Monitor {
	return &Monitor{prop: prop, history: history, seen: map[string]bool{}, comm: map[uint64]*big.Int{}, holders: map[string]*big.Int{},
		debits: map[string]debit{}, terminal: map[string]string{}, everLive: map[string]bool{}, custody: map[string]*big.Int{},
		statusOf: map[string]int{}, timeoutMs: 86399999}
}

func (m *Monitor) report(g *Gen, class, detail string) {
	if m.seen[class] {
		return // one witness per class per history
	}
	m.seen[class] = true
	m.viol = append(m.viol, Violation{Property: m.prop, Class: class, Detail: detail, History: m.history, OpIndex: len(g.ops) - 1})
}

func toView(e *Env, s *types.SendToExternal) steView {
	return steView{id: s.Id, sender: e.toHexAcc(s.Sender), recipient: s.ExternalRecipient, extToken: s.Token.ExternalTokenId,
		amount: s.Token.Amount.BigInt(), fee: s.Fee.Amount.BigInt(), comm: s.ValCommission.Amount.BigInt(), chain: s.ChainId, txHash: s.TxHash,
		createdAt: s.CreatedAt, refundAddr: e.toHexAcc(s.RefundAddress), refundChain: s.RefundChainId}
}

func (m *Monitor) snap(g *Gen) *snapshot {
	e := g.env
	ctx := e.ctx
	s := &snapshot{bal: map[string]*big.Int{}, supply: map[string]*big.Int{}, pool: map[string][]steView{}, batches: map[string][]batchView{},
		sets: map[string][]*types.SignerSetTx{}, lastSte: map[string]uint64{}, lastBn: map[string]uint64{}, outSeq: map[string]uint64{},
		lastObs: map[string]uint64{}, obsExt: map[string]uint64{}, status: map[string]int{}, feeRec: map[string][2]*big.Int{},
		records: map[string][]voteRec{}, height: e.height, time: e.unixTime}
	e.bank.IterateAllBalances(ctx, func(addr sdk.AccAddress, c sdk.Coin) bool {
		s.bal[e.toHexAcc(addr.String())+"/"+c.Denom] = c.Amount.BigInt()
		return false
	})
	e.bank.IterateTotalSupply(ctx, func(c sdk.Coin) bool { s.supply[c.Denom] = c.Amount.BigInt(); return false })
	for _, c := range g.chains {
		for _, x := range e.Pool(ctx, c) {
			s.pool[c] = append(s.pool[c], toView(e, x))
		}
		for _, b := range e.Batches(ctx, c) {
			bv := batchView{nonce: b.BatchNonce, timeout: b.Timeout, height: b.Height, seq: b.Sequence, extToken: b.ExternalTokenId}
			for _, t := range b.Transactions {
				bv.txs = append(bv.txs, toView(e, t))
			}
			s.batches[c] = append(s.batches[c], bv)
		}
		s.sets[c] = e.Sets(ctx, c)
		cb := []byte(c)
		s.lastSte[c] = e.rawU64(ctx, append([]byte{types.LastSendToExternalIDKey}, cb...))
		s.lastBn[c] = e.rawU64(ctx, append([]byte{types.LastOutgoingBatchNonceKey}, cb...))
		s.outSeq[c] = e.rawU64(ctx, append([]byte{types.OutgoingSequence}, cb...))
		s.lastObs[c] = e.k.GetLastObservedEventNonce(ctx, types.ChainID(c))
		s.obsExt[c] = e.k.GetLastObservedExternalBlockHeight(ctx, types.ChainID(c)).ExternalHeight
		s.records[c] = e.VoteRecords(ctx, c)
	}
	e.iterPrefix(ctx, []byte{types.TxStatusKey}, func(k, v []byte) {
		var st types.TxStatus
		e.cdc.MustUnmarshal(v, &st)
		s.status[string(k)] = int(st.Status)
	})
	e.iterPrefix(ctx, []byte{types.TxFeeRecordKey}, func(k, v []byte) {
		var r types.TxFeeRecord
		e.cdc.MustUnmarshal(v, &r)
		s.feeRec[string(k)] = [2]*big.Int{r.ValCommission.BigInt(), r.ExternalFee.BigInt()}
	})
	return s
}

func bi(s string) *big.Int { v, _ := new(big.Int).SetString(s, 10); return v }
func pow10(n uint64) *big.Int {
	return new(big.Int).Exp(big.NewInt(10), new(big.Int).SetUint64(n), nil)
}

// floor(a * 10^to / 10^from) — the conversion the property allows (truncation, never rounding up)
func conv(from, to uint64, a *big.Int) *big.Int {
	if from == to {
		return new(big.Int).Set(a)
	}
	r := new(big.Int).Mul(a, pow10(to))
	return r.Div(r, pow10(from))
}

func (m *Monitor) tok(chain, ext string) *tokSpec {
	for i := range m.tokens {
		if m.tokens[i].chain == chain && m.tokens[i].ext == ext {
			return &m.tokens[i]
		}
	}
	return nil
}
func (m *Monitor) tokByDenom(chain, denom string) *tokSpec {
	for i := range m.tokens {
		if m.tokens[i].chain == chain && m.tokens[i].denom == denom {
			return &m.tokens[i]
		}
	}
	return nil
}

func getBal(s *snapshot, acc, denom string) *big.Int {
	if v, ok := s.bal[acc+"/"+denom]; ok {
		return v
	}
	return big.NewInt(0)
}

func sameBank(a, b *snapshot) bool {
	if len(a.bal) != len(b.bal) || len(a.supply) != len(b.supply) {
		// zero entries may differ; compare semantically
	}
	keys := map[string]bool{}
	for k := range a.bal {
		keys[k] = true
	}
	for k := range b.bal {
		keys[k] = true
	}
	for k := range keys {
		x, y := a.bal[k], b.bal[k]
		if x == nil {
			x = big.NewInt(0)
		}
		if y == nil {
			y = big.NewInt(0)
		}
		if x.Cmp(y) != 0 {
			return false
		}
	}
	return true
}

func poolIDs(p []steView) map[uint64]steView {
	r := map[uint64]steView{}
	for _, s := range p {
		r[s.id] = s
	}
	return r
}

func (m *Monitor) holderRate(rate *big.Int, addrs []string) *big.Int {
	mx := big.NewInt(0)
	for _, a := range addrs {
		a = strings.ToLower(strings.TrimPrefix(a, "0x"))
		if v, ok := m.holders[a]; ok && v.Cmp(mx) > 0 {
			mx = v
		}
	}
	one := pow10(18)
	pct := int64(0)
	for _, t := range []struct {
		n   int64
		pct int64
	}{{32, 60}, {16, 50}, {8, 40}, {4, 30}, {2, 20}, {1, 10}} {
		if mx.Cmp(new(big.Int).Mul(big.NewInt(t.n), one)) >= 0 {
			pct = t.pct
			break
		}
	}
	if pct == 0 {
		return new(big.Int).Set(rate)
	}
	d := new(big.Int).Mul(rate, big.NewInt(pct))
	d.Quo(d, big.NewInt(100))
	return new(big.Int).Sub(rate, d)
}

func (m *Monitor) Before(g *Gen, line string) {
	if m.prop == "" {
		return
	}
	w := strings.Fields(line)
	if len(w) == 0 {
		return
	}
	switch w[0] {
	case "token":
		id, _ := strconv.ParseUint(w[1], 10, 64)
		dec, _ := strconv.ParseUint(w[5], 10, 64)
		m.tokens = append(m.tokens, tokSpec{id: id, denom: w[2], chain: w[3], ext: w[4], dec: dec})
		m.comm[id] = bi(w[6])
	case "holder":
		m.holders[strings.ToLower(w[1])] = bi(w[2])
	case "param":
		if w[1] == "outgoing_timeout_ms" {
			m.timeoutMs, _ = strconv.ParseUint(w[2], 10, 64)
		}
	}
	if m.prop == "C18" {
		if w[0] == "oprice" || w[0] == "oholders" || w[0] == "oend" {
			m.oracleBefore(g, w)
		}
		return
	}
	if m.prop == "C05" || m.prop == "C14" || m.prop == "C15" || m.prop == "C07" {
		return
	}
	if !g.env.inited {
		return
	}
	switch w[0] {
	case "world", "send", "cancel", "reqbatch", "begin", "end", "vote", "fund", "confirm", "delegate", "delegatek", "q_confs", "q_unsigned_sets", "q_unsigned_batches", "staking", "import_stamped":
		m.before = m.snap(g)
	default:
		m.before = nil
	}
}

func (m *Monitor) After(g *Gen, line, out string) {
	if m.prop == "C05" {
		w := strings.Fields(line)
		if len(w) > 0 && (w[0] == "begin" || w[0] == "end" || w[0] == "oend") && out != "ok" {
			cls := out + ":" + w[0]
			detail := g.env.lastPanic
			if out == "panic" {
				cls = "panic:" + w[0] + ":" + panicKind(g.env.lastPanic)
				if g.env.lastPanicSite != "" && g.env.lastPanicSite != "?" {
					cls += "@" + g.env.lastPanicSite
				}
			}
			m.report(g, cls, fmt.Sprintf("%s did not complete: %s %.200s", w[0], out, detail))
		}
		return
	}
	if m.prop == "C15" {
		m.checkC15(g, strings.Fields(line), out)
		return
	}
	if m.prop == "C14" {
		w := strings.Fields(line)
		if len(w) > 3 && w[0] == "vote" && out == "ok" {
			m.checkC14Vote(g, w)
		}
		if len(w) > 0 && w[0] == "hash" {
			if m.lastHash != "" && g.pair[0] != "" && m.lastHashOp != line {
				if g.pair[1] == "members-order" {
					// same members in another order: identical identifiers are fine as long as hashing leaves both events
					// with the same body (the vote record stores the event after it was hashed)
					if m.lastHash != out {
						g.stats["C14:member-order-changes-the-identifier"]++
					} else if a, b := bodyAfterHash(m.lastHashOp), bodyAfterHash(line); a != b {
						m.report(g, "collision(sse,members-order)", fmt.Sprintf("events %q and %q share the claim identifier %s but are stored and applied as %s and %s", m.lastHashOp, line, out, a, b))
					}
				} else if m.lastHash == out && !(admissibleEvent(m.lastHashOp) && admissibleEvent(line)) {
					g.stats["C14:colliding-pair-with-an-inadmissible-event"]++ // the property is about admissible events
				} else if m.lastHash == out {
					m.report(g, "collision("+g.pair[0]+","+g.pair[1]+")", fmt.Sprintf("events %q and %q have the same claim identifier %s", m.lastHashOp, line, out))
				}
				m.lastHash, m.lastHashOp = "", ""
				g.pair = [2]string{}
			} else {
				m.lastHash, m.lastHashOp = out, line
			}
		}
		return
	}
	if m.prop == "C07" {
		m.checkC07(g, strings.Fields(line), out)
		return
	}
	if m.prop == "C18" {
		m.oracleAfter(g, strings.Fields(line), out)
		return
	}
	if m.prop == "" || m.before == nil {
		return
	}
	w := strings.Fields(line)
	b := m.before
	a := m.snap(g)
	m.ghost(g, w, out, b, a)
	switch m.prop {
	case "C11":
		m.checkC11(g, w, out, b, a)
	case "C12":
		m.checkC12(g, w, out, b, a)
	case "C04":
		m.checkC04(g, w, out, b, a)
	case "C10":
		m.checkC10(g, w, out, b, a)
	case "C13":
		m.checkC13(g, w, out, b, a)
	case "C19":
		m.checkC19(g, w, out, b, a)
	case "C01":
		m.checkC01(g, w, out, b, a)
	case "C08":
		m.checkC08(g, w, out, b, a)
	case "C03", "C02":
		m.checkVotes(g, w, out, b, a)
	case "C09":
		m.checkC09(g, w, out, b, a)
	case "C16":
		m.checkC16(g, w, out, b, a)
	case "C17":
		m.checkC17(g, w, out, b, a)
	}
	m.before = nil
}

// ---------------------------------------------------------------- C09 signer sets

func (m *Monitor) keysOf(g *Gen, chain string) (valExt map[string]string, orchVal map[string]string, extOrch map[string]string) {
	valExt, orchVal, extOrch = map[string]string{}, map[string]string{}, map[string]string{}
	e := g.env
	e.iterPrefix(e.ctx, append([]byte{types.ValidatorExternalAddressKey}, []byte(chain)...), func(k, v []byte) { valExt[hex.EncodeToString(k)] = ethHex(v) })
	e.iterPrefix(e.ctx, append([]byte{types.OrchestratorValidatorAddressKey}, []byte(chain)...), func(k, v []byte) { orchVal[hex.EncodeToString(k)] = hex.EncodeToString(v) })
	e.iterPrefix(e.ctx, append([]byte{types.ExternalOrchestratorAddressKey}, []byte(chain)...), func(k, v []byte) { extOrch[ethHex(k)] = hex.EncodeToString(v) })
	return
}

const maxU32 = 4294967295

func (m *Monitor) checkC09(g *Gen, w []string, out string, b, a *snapshot) {
	for _, c := range g.chains {
		if c == "hub" {
			continue
		}
		old := map[uint64]bool{}
		maxOld := uint64(0)
		for _, s := range b.sets[c] {
			old[s.Nonce] = true
			if s.Nonce > maxOld {
				maxOld = s.Nonce
			}
		}
		valExt, _, _ := m.keysOf(g, c)
		// expected current set from the staking view
		type mem struct {
			addr  string
			power uint64
		}
		var cur []mem
		total := uint64(0)
		for _, v := range g.env.staking.vals {
			hx := fmt.Sprintf("%x", []byte(v.addr))
			if v.bonded {
				if e, ok := valExt[hx]; ok && e != "0x0000000000000000000000000000000000000000" {
					cur = append(cur, mem{e, uint64(v.power)})
					total += uint64(v.power)
				}
			}
		}
		want := map[string]uint64{}
		for _, x := range cur {
			if total > 0 {
				p := new(big.Int).Mul(new(big.Int).SetUint64(x.power), big.NewInt(maxU32))
				p.Quo(p, new(big.Int).SetUint64(total))
				want[x.addr] = p.Uint64()
			}
		}
		for _, s := range a.sets[c] {
			if old[s.Nonce] {
				continue
			}
			if w[0] != "begin" {
				m.report(g, "signer-set-created-outside-begin-block", fmt.Sprintf("chain %s nonce %d during %v", c, s.Nonce, w))
			}
			if s.Nonce <= maxOld || s.Nonce != a.lastSetNonce(g, c) {
				m.report(g, "signer-set-nonce-not-increasing", fmt.Sprintf("chain %s nonce %d after %d", c, s.Nonce, maxOld))
			}
			got := map[string]uint64{}
			sum := uint64(0)
			for i, sg := range s.Signers {
				if _, dup := got[sg.ExternalAddress]; dup {
					m.report(g, "signer-set-duplicate-member", fmt.Sprintf("chain %s nonce %d %s", c, s.Nonce, sg.ExternalAddress))
				}
				got[sg.ExternalAddress] = sg.Power
				sum += sg.Power
				if i > 0 {
					p := s.Signers[i-1]
					if p.Power < sg.Power || (p.Power == sg.Power && !(p.ExternalAddress < sg.ExternalAddress)) {
						m.report(g, "signer-set-not-sorted", fmt.Sprintf("chain %s nonce %d position %d", c, s.Nonce, i))
					}
				}
			}
			if sum > maxU32 {
				m.report(g, "signer-set-total-above-2^32-1", fmt.Sprintf("chain %s nonce %d total %d", c, s.Nonce, sum))
			}
			if len(got) != len(want) {
				m.report(g, "signer-set-members-not-bonded-registered", fmt.Sprintf("chain %s nonce %d has %d members, %d bonded validators registered a key", c, s.Nonce, len(got), len(want)))
			}
			for a2, p := range want {
				gp, ok := got[a2]
				if !ok {
					m.report(g, "signer-set-members-not-bonded-registered", fmt.Sprintf("chain %s nonce %d misses %s", c, s.Nonce, a2))
				} else if gp != p {
					m.report(g, "signer-set-power-not-normalised", fmt.Sprintf("chain %s nonce %d %s has %d want %d", c, s.Nonce, a2, gp, p))
				}
			}
		}
		if w[0] == "begin" && out == "ok" {
			// latest published set vs current validator set: at most 5 % of normalised power apart
			var latest *types.SignerSetTx
			for _, s := range a.sets[c] {
				if latest == nil || s.Nonce > latest.Nonce {
					latest = s
				}
			}
			if latest == nil {
				m.report(g, "no-signer-set-after-begin-block", c)
				continue
			}
			lp := map[string]uint64{}
			for _, sg := range latest.Signers {
				lp[sg.ExternalAddress] = sg.Power
			}
			delta := uint64(0)
			for a2, p := range want {
				q := lp[a2]
				if p > q {
					delta += p - q
				} else {
					delta += q - p
				}
			}
			for a2, q := range lp {
				if _, ok := want[a2]; !ok {
					delta += q
				}
			}
			if 20*delta > maxU32 {
				m.report(g, "latest-set-more-than-5-percent-stale", fmt.Sprintf("chain %s latest nonce %d differs by %d of %d", c, latest.Nonce, delta, uint64(maxU32)))
			}
		}
	}
}

func (s *snapshot) lastSetNonce(g *Gen, chain string) uint64 {
	return g.env.k.GetLatestSignerSetTxNonce(g.env.ctx, types.ChainID(chain))
}

// ---------------------------------------------------------------- C16 confirmations

func (m *Monitor) checkC16(g *Gen, w []string, out string, b, a *snapshot) {
	switch w[0] {
	case "confirm":
		chain, signer := w[1], w[2]
		var key, ext, sig string
		exists := false
		if w[3] == "set" {
			key, ext, sig = "set/"+w[4], w[5], w[6]
			for _, s := range b.sets[chain] {
				if fmt.Sprint(s.Nonce) == w[4] {
					exists = true
				}
			}
		} else {
			key, ext, sig = "batch/"+w[4]+"/"+w[5], w[6], w[7]
			for _, x := range b.batches[chain] {
				if x.extToken == w[4] && fmt.Sprint(x.nonce) == w[5] {
					exists = true
				}
			}
		}
		valExt, orchVal, _ := m.keysOf(g, chain)
		val := signer
		if v, ok := orchVal[signer]; ok {
			val = v
		}
		bonded := false
		for _, v := range g.env.staking.vals {
			if fmt.Sprintf("%x", []byte(v.addr)) == val && v.bonded {
				bonded = true
			}
		}
		reg, hasReg := valExt[val]
		if !hasReg {
			reg = "0x0000000000000000000000000000000000000000"
		}
		ck := chain + "/" + key + "/" + val
		_, dup := m.confs[ck]
		knownChain := false
		for _, c := range g.chains {
			if c == chain {
				knownChain = true
			}
		}
		should := knownChain && bonded && exists && hasReg && reg == ext && !dup
		if out == "ok" {
			switch {
			case !exists:
				m.report(g, "confirmation-for-unknown-outgoing-tx", fmt.Sprintf("%v", w))
			case !bonded:
				m.report(g, "confirmation-from-unbonded-or-foreign-signer", fmt.Sprintf("%v", w))
			case reg != ext:
				m.report(g, "confirmation-with-foreign-signer-address", fmt.Sprintf("%v registered %s", w, reg))
			case dup:
				m.report(g, "second-confirmation-by-one-validator", fmt.Sprintf("%v", w))
			case !hasReg:
				m.report(g, "confirmation-by-validator-without-registered-key", fmt.Sprintf("%v (matches the zero address)", w))
			}
			if m.confs == nil {
				m.confs = map[string]string{}
			}
			m.confs[ck] = sig
		} else if should && out == "err" {
			m.report(g, "valid-confirmation-refused", fmt.Sprintf("%v", w))
		}
	case "q_confs":
		chain := w[1]
		key := "set/" + w[3]
		if w[2] == "batch" {
			key = "batch/" + w[3] + "/" + w[4]
		}
		valExt, _, _ := m.keysOf(g, chain)
		want := map[string]bool{}
		for k, sig := range m.confs {
			pre := chain + "/" + key + "/"
			if strings.HasPrefix(k, pre) {
				val := strings.TrimPrefix(k, pre)
				e := valExt[val]
				if e == "" {
					e = "0x0000000000000000000000000000000000000000"
				}
				want[e+"="+sig] = true
			}
		}
		got := map[string]bool{}
		body := strings.TrimPrefix(out, "confs ")
		if body != "" && body != "confs" {
			for _, it := range strings.Split(body, ";") {
				got[it] = true
			}
		}
		if len(got) != len(want) {
			m.report(g, "confirmations-query-wrong", fmt.Sprintf("%v returned %v expected %v", w, out, want))
		}
		for k := range want {
			if !got[k] {
				m.report(g, "confirmations-query-wrong", fmt.Sprintf("%v returned %v expected %v", w, out, want))
			}
		}
	case "q_unsigned_sets", "q_unsigned_batches":
		if !strings.HasPrefix(out, "unsigned") {
			return
		}
		chain, signer := w[1], w[2]
		_, orchVal, _ := m.keysOf(g, chain)
		val := signer
		if v, ok := orchVal[signer]; ok {
			val = v
		}
		want := map[string]bool{}
		if w[0] == "q_unsigned_sets" {
			for _, s := range a.sets[chain] {
				if _, ok := m.confs[fmt.Sprintf("%s/set/%d/%s", chain, s.Nonce, val)]; !ok {
					want[fmt.Sprint(s.Nonce)] = true
				}
			}
		} else {
			for _, x := range a.batches[chain] {
				if _, ok := m.confs[fmt.Sprintf("%s/batch/%s/%d/%s", chain, x.extToken, x.nonce, val)]; !ok {
					want[fmt.Sprintf("%s/%d", x.extToken, x.nonce)] = true
				}
			}
		}
		got := map[string]bool{}
		body := strings.TrimSpace(strings.TrimPrefix(out, "unsigned"))
		if body != "" {
			for _, it := range strings.Split(body, ",") {
				got[it] = true
			}
		}
		same := len(got) == len(want)
		for k := range want {
			if !got[k] {
				same = false
			}
		}
		if !same {
			m.report(g, "unsigned-query-wrong", fmt.Sprintf("%v returned %q expected %v", w, out, want))
		}
	}
}

// ---------------------------------------------------------------- C17 delegate keys

func (m *Monitor) checkC17(g *Gen, w []string, out string, b, a *snapshot) {
	switch w[0] {
	case "delegate", "delegatek":
		// delegate chain val orch eth signedBy signedVal signedNonce accSeq
		chain, val, orch, eth := w[1], w[2], w[3], w[4]
		if gethcommon.IsHexAddress(eth) {
			eth = gethcommon.HexToAddress(eth).Hex() // the message may spell the address differently; the registry stores the address
		}
		seq, _ := strconv.ParseUint(w[8], 10, 64)
		nonce, _ := strconv.ParseUint(w[7], 10, 64)
		wantNonce := uint64(0)
		if seq > 0 {
			wantNonce = seq - 1
		}
		sameAddr := w[5] == eth || (gethcommon.IsHexAddress(w[5]) && gethcommon.IsHexAddress(eth) && gethcommon.HexToAddress(w[5]) == gethcommon.HexToAddress(eth))
		sigOK := sameAddr && w[6] == val && nonce == wantNonce
		known := false
		for _, v := range g.env.staking.vals {
			if fmt.Sprintf("%x", []byte(v.addr)) == val {
				known = true
			}
		}
		if out == "ok" {
			if !sigOK {
				m.report(g, "binding-without-key-signature-over-validator-and-sequence", fmt.Sprintf("%v", w))
			}
			if !known {
				m.report(g, "binding-for-unknown-validator", fmt.Sprintf("%v", w))
			}
		}
		valExt, orchVal, extOrch := m.keysOf(g, chain)
		// one-to-one: an external address belongs to at most one validator
		seen := map[string]string{}
		for v, e := range valExt {
			if o, dup := seen[e]; dup {
				m.report(g, "external-address-bound-to-two-validators", fmt.Sprintf("chain %s %s: %s and %s", chain, e, o, v))
			}
			seen[e] = v
		}
		// an orchestrator account is bound (through the current bindings) to at most one validator
		byOrch := map[string]string{}
		for v, e := range valExt {
			if o, ok := extOrch[e]; ok {
				if p, dup := byOrch[o]; dup && p != v {
					m.report(g, "orchestrator-bound-to-two-validators", fmt.Sprintf("chain %s orchestrator %s: %s and %s", chain, o, p, v))
				}
				byOrch[o] = v
				if orchVal[o] != v {
					m.report(g, "registry-maps-inconsistent", fmt.Sprintf("chain %s validator %s ext %s orch %s resolves to %s", chain, v, e, o, orchVal[o]))
				}
			} else {
				m.report(g, "registry-maps-inconsistent", fmt.Sprintf("chain %s validator %s ext %s has no orchestrator", chain, v, e))
			}
		}
		if out == "err" && sigOK && known && gethcommon.IsHexAddress(eth) {
			// refused although the validator's own account sent it with the key's signature over (validator, sequence):
			// only an address or orchestrator that is already bound may stand in the way (the state is unchanged)
			inUse := false
			for _, e := range valExt {
				if strings.EqualFold(e, eth) {
					inUse = true
				}
			}
			for _, o := range extOrch {
				if o == orch {
					inUse = true
				}
			}
			known2 := false
			for _, c := range g.chains {
				if c == chain {
					known2 = true
				}
			}
			if !inUse && known2 && ethKeyByAddr[eth] != nil {
				m.report(g, "self-authorised-registration-refused", fmt.Sprintf("%v", w))
			}
		}
		if out == "ok" {
			if valExt[val] != eth || extOrch[eth] != orch || orchVal[orch] != val {
				m.report(g, "binding-not-stored", fmt.Sprintf("%v", w))
			}
			if m.regBy == nil {
				m.regBy = map[string]string{}
			}
			m.regBy[chain+"/"+orch] = val
		}
	case "confirm":
		// attribution of confirmations: the orchestrator's message counts for the validator that registered it
		// (same bookkeeping as C16: refused although that validator's key matches, or stored for somebody else)
		m.checkC16(g, w, out, b, a)
	case "vote":
		if out != "ok" {
			return
		}
		// attribution: the vote is recorded for the validator that registered the signing orchestrator
		chain, signer := w[1], w[2]
		want := signer
		if v, ok := m.regBy[chain+"/"+signer]; ok {
			want = v
		}
		nonce, _ := strconv.ParseUint(w[4], 10, 64)
		found := false
		for _, r := range a.records[chain] {
			if r.nonce != nonce {
				continue
			}
			bv := 0
			for _, r0 := range b.records[chain] {
				if r0.nonce == r.nonce && string(r0.hash) == string(r.hash) {
					bv = len(r0.rec.Votes)
				}
			}
			if len(r.rec.Votes) > bv {
				if g.env.toHexAcc(r.rec.Votes[len(r.rec.Votes)-1]) == want {
					found = true
				}
			}
		}
		if !found {
			m.report(g, "vote-attributed-to-wrong-validator", fmt.Sprintf("%v expected validator %s", w, want))
		}
	}
}

// ---------------------------------------------------------------- C18 (oracle)

type oracleSnap struct {
	epoch   uint64
	prices  string
	holders string
}

func (m *Monitor) osnap(g *Gen) oracleSnap {
	d := g.env.DumpOracle()
	f := strings.Fields(d)
	o := oracleSnap{}
	for _, x := range f {
		switch {
		case strings.HasPrefix(x, "epoch="):
			o.epoch, _ = strconv.ParseUint(x[6:], 10, 64)
		case strings.HasPrefix(x, "prices="):
			o.prices = x[7:]
		case strings.HasPrefix(x, "holders="):
			o.holders = x[8:]
		}
	}
	return o
}

type oclaim struct {
	val   string
	items [][2]string
}

func (m *Monitor) oracleBefore(g *Gen, w []string) {
	if !g.env.inited {
		return
	}
	o := m.osnap(g)
	m.obefore = &o
}

func (m *Monitor) oracleAfter(g *Gen, w []string, out string) {
	if m.obefore == nil {
		return
	}
	b := *m.obefore
	a := m.osnap(g)
	m.obefore = nil
	switch w[0] {
	case "oprice", "oholders":
		if a.prices != b.prices || a.holders != b.holders || a.epoch != b.epoch {
			m.report(g, "state-changed-outside-epoch-boundary", fmt.Sprintf("%v: prices/holders/epoch changed by a claim", w[:3]))
		}
		if out == "ok" {
			ep, _ := strconv.ParseUint(w[2], 10, 64)
			if ep == b.epoch {
				var items [][2]string
				if w[3] != "-" {
					for _, it := range strings.Split(w[3], ",") {
						kv := strings.SplitN(it, "=", 2)
						items = append(items, [2]string{kv[0], kv[1]})
					}
				}
				tgt := m.pclaims
				if w[0] == "oholders" {
					tgt = m.hclaims
				}
				// latest report replaces the earlier one of the same validator
				repl := false
				for i := range tgt {
					if tgt[i].val == w[1] {
						tgt[i].items = items
						repl = true
					}
				}
				if !repl {
					tgt = append(tgt, oclaim{w[1], items})
				}
				if w[0] == "oholders" {
					m.hclaims = tgt
				} else {
					m.pclaims = tgt
				}
			}
		}
	case "oend":
		if out != "ok" {
			return
		}
		if a.epoch == b.epoch {
			if a.prices != b.prices || a.holders != b.holders {
				m.report(g, "state-changed-outside-epoch-boundary", "prices/holders changed by an end-block that did not close an epoch")
			}
			return
		}
		// staking view at the boundary
		total := int64(0)
		power := map[string]int64{}
		for _, v := range g.env.staking.vals {
			if v.bonded {
				total += v.power
				power[fmt.Sprintf("%x", []byte(v.addr))] = v.power
			}
		}
		quorum := func(cl []oclaim) bool {
			s := int64(0)
			for _, c := range cl {
				s += power[c.val]
			}
			return len(cl) > 0 && s*100 >= 66*total
		}
		weight := func(v string) int64 {
			if total == 0 {
				return 0
			}
			return power[v] * 65535 / total
		}
		// prices
		if a.prices != b.prices {
			if !quorum(m.pclaims) {
				m.report(g, "prices-changed-without-66-percent", fmt.Sprintf("epoch %d: reporters %d", b.epoch, len(m.pclaims)))
			} else {
				// every price the bridge depends on (gas/base coins and token denoms) was reported by the quorum itself,
				// not just by some of the validators that make it up
				req := []string{"eth", "ethereum/gas", "bnb", "bsc/gas"}
				for _, t := range m.tokens {
					req = append(req, t.denom)
				}
				for _, name := range req {
					s := int64(0)
					for _, c := range m.pclaims {
						for _, it := range c.items {
							if it[0] == name {
								s += power[c.val]
								break
							}
						}
					}
					if s*100 < 66*total && strings.Contains(a.prices, name+"=") {
						m.report(g, "required-price-adopted-from-a-minority", fmt.Sprintf("epoch %d: %q was reported by validators holding %d of %d", b.epoch, name, s, total))
					}
				}
				want := m.medianPrices(m.pclaims, weight)
				if want != a.prices {
					cls := "price-not-weighted-median"
					for _, c := range m.pclaims {
						seen := map[string]bool{}
						for _, it := range c.items {
							if seen[it[0]] {
								cls = "duplicate-price-name-multiplies-weight"
							}
							seen[it[0]] = true
						}
					}
					m.report(g, cls, fmt.Sprintf("epoch %d stored %s expected %s", b.epoch, a.prices, want))
				}
			}
		} else if quorum(m.pclaims) {
			want := m.medianPrices(m.pclaims, weight)
			if want != a.prices && want != "" {
				m.report(g, "prices-not-updated-despite-quorum", fmt.Sprintf("epoch %d stored %s expected %s", b.epoch, a.prices, want))
			}
		}
		// holders
		if a.holders != b.holders {
			// more than two thirds of stake reported the identical list
			best := int64(0)
			for _, c := range m.hclaims {
				if canonItems(c.items) == canonList(a.holders) {
					best += power[c.val]
				}
			}
			if !(3*best > 2*total) || !quorum(m.hclaims) {
				m.report(g, "holders-adopted-without-two-thirds", fmt.Sprintf("epoch %d adopted %s backed by %d of %d", b.epoch, a.holders, best, total))
			}
		}
		m.pclaims, m.hclaims = nil, nil
	}
}

func canonItems(items [][2]string) string {
	var l []string
	for _, it := range items {
		l = append(l, it[0]+":"+it[1])
	}
	sort.Strings(l)
	return strings.Join(l, ",")
}

func canonList(s string) string {
	if s == "" {
		return ""
	}
	var l []string
	for _, it := range strings.Split(s, ",") {
		kv := strings.SplitN(it, "=", 2)
		l = append(l, kv[0]+":"+kv[1])
	}
	sort.Strings(l)
	return strings.Join(l, ",")
}

// medianPrices: every validator's latest report counts once per price name (the last value it
// gave for that name), weighted by floor(power*65535/total); the median of the expanded sorted list,
// mean of the two middle values (truncated) when the list length is even.
func (m *Monitor) medianPrices(cl []oclaim, weight func(string) int64) string {
	type wv struct {
		v *big.Int
		w int64
	}
	by := map[string][]wv{}
	for _, c := range cl {
		w := weight(c.val)
		if w == 0 {
			continue
		}
		last := map[string]string{}
		var order []string
		for _, it := range c.items {
			if _, ok := last[it[0]]; !ok {
				order = append(order, it[0])
			}
			last[it[0]] = it[1]
		}
		for _, n := range order {
			by[n] = append(by[n], wv{bi(last[n]), w})
		}
	}
	var names []string
	for n := range by {
		names = append(names, n)
	}
	sort.Strings(names)
	var out []string
	for _, n := range names {
		l := by[n]
		sort.Slice(l, func(i, j int) bool { return l[i].v.Cmp(l[j].v) < 0 })
		W := int64(0)
		for _, x := range l {
			W += x.w
		}
		nth := func(k int64) *big.Int {
			for _, x := range l {
				if k < x.w {
					return x.v
				}
				k -= x.w
			}
			return big.NewInt(0)
		}
		var med *big.Int
		if W%2 == 0 {
			med = new(big.Int).Add(nth(W/2), nth(W/2-1))
			med.Quo(med, big.NewInt(2))
		} else {
			med = nth(W / 2)
		}
		out = append(out, n+"="+med.String())
	}
	return strings.Join(out, ",")
}

// appliedEvents returns the events applied by an `end` op: the accepted records whose nonce lies
// in (lastObserved before, lastObserved after].
func appliedEvents(b, a *snapshot, chain string) []voteRec {
	var out []voteRec
	for _, r := range a.records[chain] {
		if r.rec.Accepted && r.nonce > b.lastObs[chain] && r.nonce <= a.lastObs[chain] {
			out = append(out, r)
		}
	}
	sort.Slice(out, func(i, j int) bool { return out[i].nonce < out[j].nonce })
	return out
}

func (m *Monitor) expired(s steView, b *snapshot) bool {
	return s.createdAt*1000+m.timeoutMs < uint64(b.time)*1000
}

// ghost bookkeeping shared by several properties
func (m *Monitor) ghost(g *Gen, w []string, out string, b, a *snapshot) {
	if w[0] == "send" && strings.HasPrefix(out, "ok id=") {
		id, _ := strconv.ParseUint(strings.TrimPrefix(out, "ok id="), 10, 64)
		t := m.tokByDenom(w[2], w[4])
		tot := new(big.Int).Add(bi(w[5]), bi(w[6]))
		d := debit{total: tot, denom: w[4]}
		if t != nil {
			d.dec = t.dec
		}
		m.debits[fmt.Sprintf("%s/%d", w[2], id)] = d
	}
}

// ---------------------------------------------------------------- C11

func (m *Monitor) checkC11(g *Gen, w []string, out string, b, a *snapshot) {
	switch w[0] {
	case "send":
		sender, chain, rcp, denom := w[1], w[2], w[3], w[4]
		amount, fee := bi(w[5]), bi(w[6])
		if !strings.HasPrefix(out, "ok") {
			if !sameBank(b, a) || len(a.pool[chain]) != len(b.pool[chain]) {
				m.report(g, "failed-request-changed-state", fmt.Sprintf("op %v -> %s changed balances or pool", w, out))
			}
			return
		}
		id, _ := strconv.ParseUint(strings.TrimPrefix(out, "ok id="), 10, 64)
		tot := new(big.Int).Add(amount, fee)
		delta := new(big.Int).Sub(getBal(b, sender, denom), getBal(a, sender, denom))
		if delta.Cmp(tot) != 0 {
			m.report(g, "debit-not-amount-plus-fee", fmt.Sprintf("sender debited %s, amount+fee=%s", delta, tot))
		}
		sd := new(big.Int).Sub(b.supply[denom], orZero(a.supply[denom]))
		if sd.Cmp(tot) != 0 {
			m.report(g, "supply-not-reduced-by-debit", fmt.Sprintf("supply reduced by %s, amount+fee=%s", sd, tot))
		}
		t := m.tokByDenom(chain, denom)
		ste, ok := poolIDs(a.pool[chain])[id]
		if t == nil || !ok {
			m.report(g, "created-entry-missing", fmt.Sprintf("id %d not in pool of %s", id, chain))
			return
		}
		rate := m.comm[t.id]
		hr := m.holderRate(rate, []string{rcp})
		comm := new(big.Int).Mul(hr, tot)
		comm.Quo(comm, pow10(18))
		maxComm := new(big.Int).Mul(rate, tot)
		maxComm.Quo(maxComm, pow10(18))
		if ste.comm.Cmp(conv(18, t.dec, comm)) != 0 {
			m.report(g, "commission-not-rate-times-total", fmt.Sprintf("commission recorded %s expected %s (ext units, d=%d)", ste.comm, conv(18, t.dec, comm), t.dec))
		}
		if comm.Cmp(maxComm) > 0 {
			m.report(g, "commission-above-configured-rate", fmt.Sprintf("commission %s > %s", comm, maxComm))
		}
		if ste.amount.Cmp(conv(18, t.dec, new(big.Int).Sub(amount, comm))) != 0 {
			m.report(g, "scheduled-not-amount-minus-commission", fmt.Sprintf("scheduled %s expected %s", ste.amount, conv(18, t.dec, new(big.Int).Sub(amount, comm))))
		}
		if ste.fee.Cmp(conv(18, t.dec, fee)) != 0 {
			m.report(g, "fee-recorded-wrong", fmt.Sprintf("fee %s expected %s", ste.fee, conv(18, t.dec, fee)))
		}
		if ste.recipient != rcp || ste.sender != sender {
			m.report(g, "entry-parties-wrong", fmt.Sprintf("entry %v", ste))
		}
	case "end":
		if out != "ok" {
			return
		}
		for _, c := range g.chains {
			for _, s := range b.pool[c] {
				if m.expired(s, b) {
					return // refunds also move balances in this block; checked by C12
				}
			}
		}
		want := map[string]*big.Int{}
		for _, c := range g.chains {
			for _, r := range appliedEvents(b, a, c) {
				switch ev := r.event.(type) {
				case *types.SendToHubEvent:
					if t := m.tok(c, ev.ExternalCoinId); t != nil {
						add(want, g.env.toHexAcc(ev.CosmosReceiver)+"/"+t.denom, conv(t.dec, 18, ev.Amount.BigInt()))
					}
				case *types.TransferToChainEvent:
					if t := m.tok(c, ev.ExternalCoinId); t != nil && ev.ReceiverChainId == "hub" {
						add(want, strings.ToLower(strings.TrimPrefix(ev.ExternalReceiver, "0x"))+"/"+t.denom, conv(t.dec, 18, ev.Amount.BigInt()))
					}
				case *types.BatchExecutedEvent:
					return // re-mints fee / commission through the temporary account; checked by C19
				}
			}
		}
		keys := map[string]bool{}
		for k := range a.bal {
			keys[k] = true
		}
		for k := range b.bal {
			keys[k] = true
		}
		for k := range keys {
			if strings.HasPrefix(k, "module/") || strings.HasPrefix(k, tempHex+"/") {
				continue
			}
			d := new(big.Int).Sub(orZero(a.bal[k]), orZero(b.bal[k]))
			wv := orZero(want[k])
			if d.Cmp(wv) != 0 {
				m.report(g, "deposit-credit-not-locked-amount", fmt.Sprintf("account %s credited %s, locked (converted) %s", k, d, wv))
			}
		}
	}
}

const tempHex = "0101010101010101010101010101010101010101"

func orZero(x *big.Int) *big.Int {
	if x == nil {
		return big.NewInt(0)
	}
	return x
}
func add(m map[string]*big.Int, k string, v *big.Int) {
	if m[k] == nil {
		m[k] = big.NewInt(0)
	}
	m[k].Add(m[k], v)
}

// ---------------------------------------------------------------- C12

func (m *Monitor) checkC12(g *Gen, w []string, out string, b, a *snapshot) {
	switch w[0] {
	case "cancel":
		sender, chain := w[1], w[2]
		id, _ := strconv.ParseUint(w[3], 10, 64)
		ste, inPool := poolIDs(b.pool[chain])[id]
		if out != "ok" {
			if !sameBank(b, a) || len(a.pool[chain]) != len(b.pool[chain]) {
				m.report(g, "failed-cancel-changed-state", fmt.Sprintf("%v -> %s", w, out))
			}
			if inPool && ste.sender == sender && ste.refundChain == "hub" {
				m.report(g, "own-unbatched-cancel-refused", fmt.Sprintf("%v -> %s", w, out))
			}
			return
		}
		if !inPool {
			m.report(g, "cancel-of-id-not-in-pool-succeeded", fmt.Sprintf("%v", w))
			return
		}
		if ste.sender != sender {
			m.report(g, "cancel-by-other-account-succeeded", fmt.Sprintf("%v, owner %s", w, ste.sender))
		}
		if _, still := poolIDs(a.pool[chain])[id]; still {
			m.report(g, "cancelled-transfer-not-removed", fmt.Sprintf("%v", w))
		}
		m.checkRefund(g, chain, ste, b, a, true)
	case "end":
		if out != "ok" {
			return
		}
		totalExp := 0
		for _, c := range g.chains {
			for _, s := range b.pool[c] {
				if m.expired(s, b) {
					totalExp++
				}
			}
		}
		for _, c := range g.chains {
			ap := poolIDs(a.pool[c])
			nexp := 0
			var last steView
			for _, s := range b.pool[c] {
				if m.expired(s, b) {
					nexp++
					last = s
					if _, still := ap[s.id]; still {
						// a refund to another chain that cannot be created keeps the entry: guarded below
						if s.refundChain == "hub" {
							m.report(g, "expired-transfer-not-refunded", fmt.Sprintf("chain %s id %d", c, s.id))
						} else if s.refundChain != "" {
							// a transfer that came from another chain is refunded by a new transfer to the originating
							// address; that can only fail when the asset has no counterpart on the originating chain
							if t := m.tok(c, s.extToken); t != nil && m.tokByDenom(s.refundChain, t.denom) != nil {
								cls := "expired-transfer-not-refunded"
								if new(big.Int).Add(new(big.Int).Add(s.amount, s.fee), s.comm).Sign() == 0 {
									// everything was lost to truncation when the entry was created (see the dust finding): the
									// refund transfer of zero coins cannot be created, so the entry is kept and retried every block
									cls = "zero-value-transfer-never-expires(decimals<18)"
								}
								m.report(g, cls, fmt.Sprintf("chain %s id %d (origin %s/%s)", c, s.id, s.refundChain, s.refundAddr))
							}
						}
					}
				} else if _, still := ap[s.id]; !still {
					m.report(g, "unexpired-transfer-removed-by-end-block", fmt.Sprintf("chain %s id %d createdAt %d time %d", c, s.id, s.createdAt, b.time))
				}
			}
			if nexp == 1 && totalExp == 1 && len(appliedAny(b, a, g.chains)) == 0 {
				if _, still := ap[last.id]; !still {
					m.checkRefund(g, c, last, b, a, false)
				}
			}
		}
	}
}

func appliedAny(b, a *snapshot, chains []string) []voteRec {
	var l []voteRec
	for _, c := range chains {
		l = append(l, appliedEvents(b, a, c)...)
	}
	return l
}

// checkRefund: exactly the full amount taken goes back, once, to the right party.
func (m *Monitor) checkRefund(g *Gen, chain string, ste steView, b, a *snapshot, isMsg bool) {
	t := m.tok(chain, ste.extToken)
	if t == nil {
		return
	}
	key := fmt.Sprintf("%s/%d", chain, ste.id)
	// what was taken, in hub units: known exactly for hub-originated transfers
	taken, have := m.debits[key]
	recorded := new(big.Int).Add(new(big.Int).Add(ste.amount, ste.fee), ste.comm)
	if ste.refundChain == "hub" {
		got := new(big.Int).Sub(getBal(a, ste.refundAddr, t.denom), getBal(b, ste.refundAddr, t.denom))
		if have {
			if got.Cmp(taken.total) > 0 {
				m.report(g, "refund-exceeds-amount-taken", fmt.Sprintf("id %d refunded %s taken %s", ste.id, got, taken.total))
			} else if got.Cmp(taken.total) < 0 {
				cls := "refund-below-amount-taken"
				if t.dec < 18 {
					cls = "dust-not-refunded(decimals<18)"
				}
				m.report(g, cls, fmt.Sprintf("id %d (d=%d) refunded %s taken %s", ste.id, t.dec, got, taken.total))
			}
		}
		if got.Cmp(conv(t.dec, 18, recorded)) != 0 {
			m.report(g, "refund-not-recorded-total", fmt.Sprintf("id %d refunded %s recorded %s", ste.id, got, conv(t.dec, 18, recorded)))
		}
	} else if ste.refundChain != "" {
		// a new zero-fee transfer to the originating address on the originating chain
		rt := m.tokByDenom(ste.refundChain, t.denom)
		if rt == nil {
			return
		}
		var found *steView
		for i, s := range a.pool[ste.refundChain] {
			if s.id > b.lastSte[ste.refundChain] && s.recipient == ste.refundAddr && s.txHash == "#" {
				found = &a.pool[ste.refundChain][i]
			}
		}
		if found == nil {
			m.report(g, "refund-transfer-to-origin-missing", fmt.Sprintf("id %d origin %s/%s", ste.id, ste.refundChain, ste.refundAddr))
			return
		}
		want := conv(18, rt.dec, conv(t.dec, 18, recorded))
		if found.amount.Cmp(want) != 0 || found.fee.Sign() != 0 || found.comm.Sign() != 0 {
			m.report(g, "refund-transfer-amount-wrong", fmt.Sprintf("id %d -> %v want %s", ste.id, found, want))
		}
	}
	if a.status[ste.txHash] != 4 {
		m.report(g, "refunded-status-not-set", fmt.Sprintf("tx %s status %d", ste.txHash, a.status[ste.txHash]))
	}
}

// ---------------------------------------------------------------- C04

func liveIDs(s *snapshot, chain string) (map[uint64]string, []string) {
	ids := map[uint64]string{}
	var dups []string
	put := func(id uint64, where string) {
		if p, ok := ids[id]; ok {
			dups = append(dups, fmt.Sprintf("id %d in %s and %s", id, p, where))
		}
		ids[id] = where
	}
	for _, x := range s.pool[chain] {
		put(x.id, "pool")
	}
	for _, b := range s.batches[chain] {
		for _, x := range b.txs {
			put(x.id, fmt.Sprintf("batch %s/%d", b.extToken, b.nonce))
		}
	}
	return ids, dups
}

func (m *Monitor) checkC04(g *Gen, w []string, out string, b, a *snapshot) {
	for _, c := range g.chains {
		before, _ := liveIDs(b, c)
		after, dups := liveIDs(a, c)
		for _, d := range dups {
			m.report(g, "transfer-in-two-places", fmt.Sprintf("chain %s: %s (after %v)", c, d, w))
		}
		for id := range after {
			if id > a.lastSte[c] || id == 0 {
				m.report(g, "id-above-counter", fmt.Sprintf("chain %s id %d counter %d", c, id, a.lastSte[c]))
			}
			if _, was := before[id]; !was {
				if id <= b.lastSte[c] {
					m.report(g, "terminal-transfer-reappeared", fmt.Sprintf("chain %s id %d after %v", c, id, w))
				}
				m.everLive[fmt.Sprintf("%s/%d", c, id)] = true
			}
		}
		// every id issued in this op is live
		for id := b.lastSte[c] + 1; id <= a.lastSte[c]; id++ {
			if _, ok := after[id]; !ok {
				// created and consumed within the same op is impossible
				m.report(g, "issued-id-not-live", fmt.Sprintf("chain %s id %d after %v", c, id, w))
			}
		}
		// removals need a justification
		executed := map[string]bool{}
		if w[0] == "end" {
			for _, r := range appliedEvents(b, a, c) {
				if ev, ok := r.event.(*types.BatchExecutedEvent); ok {
					executed[fmt.Sprintf("%s/%d", ev.ExternalCoinId, ev.BatchNonce)] = true
				}
			}
		}
		for id, where := range before {
			if _, still := after[id]; still {
				continue
			}
			key := fmt.Sprintf("%s/%d", c, id)
			switch {
			case w[0] == "cancel" && out == "ok" && w[2] == c && w[3] == fmt.Sprint(id) && where == "pool":
				m.terminal[key] = "refunded"
			case w[0] == "end" && where == "pool":
				var s steView
				for _, x := range b.pool[c] {
					if x.id == id {
						s = x
					}
				}
				if !m.expired(s, b) {
					m.report(g, "transfer-disappeared", fmt.Sprintf("chain %s id %d left the pool in end-block without expiry", c, id))
				}
				// … and it leaves as refunded: the status of its transaction says so (written before the entry is deleted)
				if s.txHash != "" && a.status[s.txHash] != 4 {
					m.report(g, "transfer-disappeared-without-refund", fmt.Sprintf("chain %s id %d (tx %s) left the pool at expiry, status %d is not REFUNDED", c, id, s.txHash, a.status[s.txHash]))
				}
				m.terminal[key] = "refunded"
			case w[0] == "end" && strings.HasPrefix(where, "batch ") && executed[strings.TrimPrefix(where, "batch ")]:
				m.terminal[key] = "executed"
			case w[0] == "end" && strings.HasPrefix(where, "batch ") && c != "minter" && m.olderOfExecuted(b, c, where, executed) && m.expiredID(b, c, id):
				// withdrawn because a later batch executed, back in the pool, and expired in the same end-block
				m.terminal[key] = "refunded"
			default:
				m.report(g, "transfer-disappeared", fmt.Sprintf("chain %s id %d (%s) vanished during %v", c, id, where, w))
			}
		}
	}
	// a refund is final: once a transfer has been paid back it is no longer in the pool or in a batch
	if w[0] == "cancel" && out == "ok" {
		id, _ := strconv.ParseUint(w[3], 10, 64)
		if after, _ := liveIDs(a, w[2]); after[id] != "" {
			m.report(g, "refunded-transfer-still-live", fmt.Sprintf("chain %s id %d was cancelled (refund paid) and is still in the %s", w[2], id, after[id]))
		}
	}
	hashUse := map[string]int{}
	for _, c := range g.chains {
		for _, s := range a.pool[c] {
			hashUse[s.txHash]++
		}
		for _, bt := range a.batches[c] {
			for _, s := range bt.txs {
				hashUse[s.txHash]++
			}
		}
	}
	// several transfers can share one transaction hash (two messages of one hub transaction, possibly to different
	// chains): the status is per hash, so refunding one sibling marks the hash while the other is rightly still live
	hashUseBefore := map[string]int{}
	for _, c := range g.chains {
		for _, s := range b.pool[c] {
			hashUseBefore[s.txHash]++
		}
		for _, bt := range b.batches[c] {
			for _, s := range bt.txs {
				hashUseBefore[s.txHash]++
			}
		}
	}
	for _, c := range g.chains {
		for _, s := range a.pool[c] {
			// (the refund of a chain-to-chain transfer is itself a new transfer under the same hash: only
			// transfers that existed before this operation are meant)
			if s.txHash != "" && !strings.HasPrefix(s.txHash, "#") && hashUse[s.txHash] == 1 && hashUseBefore[s.txHash] == 1 && a.status[s.txHash] == 4 && b.status[s.txHash] != 4 && s.id <= b.lastSte[c] {
				m.report(g, "refunded-transfer-still-live", fmt.Sprintf("chain %s id %d: its transaction %s became REFUNDED during %v and the transfer is still in the pool", c, s.id, s.txHash, w))
			}
		}
	}
	// status lifecycle for transfers with a unique hash
	for tx, st := range b.status {
		if st == 4 && a.status[tx] != 4 {
			m.report(g, "refunded-status-not-final", fmt.Sprintf("tx %s %d -> %d", tx, st, a.status[tx]))
		}
	}
}

func (m *Monitor) olderOfExecuted(b *snapshot, chain, where string, executed map[string]bool) bool {
	tn := strings.TrimPrefix(where, "batch ")
	i := strings.LastIndex(tn, "/")
	tokn := tn[:i]
	n, _ := strconv.ParseUint(tn[i+1:], 10, 64)
	for k := range executed {
		j := strings.LastIndex(k, "/")
		en, _ := strconv.ParseUint(k[j+1:], 10, 64)
		if k[:j] == tokn && en > n {
			// the executed batch must have existed
			for _, x := range b.batches[chain] {
				if x.extToken == tokn && x.nonce == en {
					return true
				}
			}
		}
	}
	return false
}

func (m *Monitor) expiredID(b *snapshot, chain string, id uint64) bool {
	for _, x := range b.batches[chain] {
		for _, t := range x.txs {
			if t.id == id {
				return m.expired(t, b)
			}
		}
	}
	return false
}

// ---------------------------------------------------------------- C10

func (m *Monitor) checkC10(g *Gen, w []string, out string, b, a *snapshot) {
	if len(w) == 3 && w[0] == "import_stamped" && strings.HasPrefix(out, "stamps ") {
		// sequence numbers after importing a genesis with outstanding transactions: pairwise distinct, all above the imported
		// counter, and the counter not below any of them (the next outgoing transaction must get a fresh number)
		f := strings.Fields(strings.Replace(out, "stamps  counter", "stamps - counter", 1))
		if len(f) == 4 {
			imported, _ := strconv.ParseUint(w[1], 10, 64)
			counter, _ := strconv.ParseUint(f[3], 10, 64)
			seen := map[uint64]bool{}
			if f[1] != "-" {
				for _, x := range strings.Split(f[1], ",") {
					v, _ := strconv.ParseUint(x, 10, 64)
					if seen[v] {
						m.report(g, "import:duplicate-sequence", fmt.Sprintf("two imported outgoing transactions carry sequence %d (%s)", v, out))
					}
					seen[v] = true
					if v <= imported {
						m.report(g, "import:sequence-not-above-counter", fmt.Sprintf("an imported outgoing transaction is stamped %d, not above the imported counter %d (%s)", v, imported, out))
					}
					if v > counter {
						m.report(g, "import:counter-below-stamped-sequence", fmt.Sprintf("the sequence counter after the import is %d although an imported transaction carries %d: the next outgoing transaction re-uses a number (%s)", counter, v, out))
					}
				}
			}
		}
		return
	}
	for _, c := range g.chains {
		old := map[string]bool{}
		for _, x := range b.batches[c] {
			old[fmt.Sprintf("%s/%d", x.extToken, x.nonce)] = true
		}
		var created []batchView
		for _, x := range a.batches[c] {
			if !old[fmt.Sprintf("%s/%d", x.extToken, x.nonce)] {
				created = append(created, x)
			}
		}
		sort.Slice(created, func(i, j int) bool { return created[i].nonce < created[j].nonce })
		if a.lastBn[c] != b.lastBn[c]+uint64(len(created)) {
			m.report(g, "batch-nonce-gap", fmt.Sprintf("chain %s nonce counter %d -> %d with %d batches stored", c, b.lastBn[c], a.lastBn[c], len(created)))
		}
		pool := append([]steView{}, b.pool[c]...)
		// cancelled batches return their transfers to the pool first (begin-block order)
		for _, x := range b.batches[c] {
			found := false
			for _, y := range a.batches[c] {
				if x.extToken == y.extToken && x.nonce == y.nonce {
					found = true
				}
			}
			if !found {
				pool = append(pool, x.txs...)
			}
		}
		for i, nb := range created {
			if nb.nonce != b.lastBn[c]+uint64(i)+1 {
				m.report(g, "batch-nonce-gap", fmt.Sprintf("chain %s created nonce %d expected %d", c, nb.nonce, b.lastBn[c]+uint64(i)+1))
			}
			if len(nb.txs) == 0 {
				m.report(g, "empty-batch", fmt.Sprintf("chain %s token %s nonce %d", c, nb.extToken, nb.nonce))
			}
			if len(nb.txs) > 100 {
				m.report(g, "batch-too-large", fmt.Sprintf("chain %s nonce %d size %d", c, nb.nonce, len(nb.txs)))
			}
			sel := map[uint64]bool{}
			minFee := (*big.Int)(nil)
			for _, t := range nb.txs {
				sel[t.id] = true
				if t.chain != c || t.extToken != nb.extToken {
					m.report(g, "batch-mixes-tokens", fmt.Sprintf("chain %s batch %s/%d holds transfer %d of %s/%s", c, nb.extToken, nb.nonce, t.id, t.chain, t.extToken))
				}
				if minFee == nil || t.fee.Cmp(minFee) < 0 {
					minFee = t.fee
				}
			}
			var rest []steView
			for _, p := range pool {
				if sel[p.id] {
					continue
				}
				rest = append(rest, p)
				if p.extToken == nb.extToken && minFee != nil {
					if p.fee.Cmp(minFee) > 0 {
						m.report(g, "batch-not-highest-fees", fmt.Sprintf("chain %s batch %s/%d min fee %s but transfer %d with fee %s left behind", c, nb.extToken, nb.nonce, minFee, p.id, p.fee))
					}
					if len(nb.txs) < 100 {
						// not a violation: the property bounds the size from above and fixes the choice (highest fees first),
						// it does not ask for a full batch
						g.stats["C10:batch-below-100-left-transfers-behind"]++
					}
				}
			}
			pool = rest
		}
		// outgoing sequence numbers: every stored outgoing tx takes the next one
		var seqs []uint64
		for _, nb := range created {
			seqs = append(seqs, nb.seq)
		}
		oldSets := map[uint64]bool{}
		for _, s := range b.sets[c] {
			oldSets[s.Nonce] = true
		}
		for _, s := range a.sets[c] {
			if !oldSets[s.Nonce] {
				seqs = append(seqs, s.Sequence)
			}
		}
		// an outgoing tx that is still stored keeps the sequence number it was created with (the number is part of
		// what validators signed), whatever happened in between: blocks, exports and imports, restarts
		for _, x := range b.batches[c] {
			for _, y := range a.batches[c] {
				if x.extToken == y.extToken && x.nonce == y.nonce && x.seq != y.seq {
					m.report(g, "sequence-restamped", fmt.Sprintf("chain %s batch %s/%d sequence %d -> %d (op %s)", c, x.extToken, x.nonce, x.seq, y.seq, w[0]))
				}
			}
		}
		for _, x := range b.sets[c] {
			for _, y := range a.sets[c] {
				if x.Nonce == y.Nonce && x.Sequence != y.Sequence {
					m.report(g, "sequence-restamped", fmt.Sprintf("chain %s signer set %d sequence %d -> %d (op %s)", c, x.Nonce, x.Sequence, y.Sequence, w[0]))
				}
			}
		}
		sort.Slice(seqs, func(i, j int) bool { return seqs[i] < seqs[j] })
		if a.outSeq[c] != b.outSeq[c]+uint64(len(seqs)) {
			m.report(g, "sequence-gap", fmt.Sprintf("chain %s sequence %d -> %d with %d outgoing txs stored", c, b.outSeq[c], a.outSeq[c], len(seqs)))
		}
		for i, s := range seqs {
			if s != b.outSeq[c]+uint64(i)+1 {
				m.report(g, "sequence-gap", fmt.Sprintf("chain %s sequences %v after %d", c, seqs, b.outSeq[c]))
			}
		}
	}
}

// ---------------------------------------------------------------- C13

func (m *Monitor) checkC13(g *Gen, w []string, out string, b, a *snapshot) {
	// the observed external height is, by definition, the height carried by the last applied event;
	// it is tracked here independently of what the keeper stored
	if m.ghostObsH == nil || w[0] == "init" || w[0] == "export_import" {
		m.ghostObsH = map[string]uint64{}
		src := b
		if w[0] == "init" || w[0] == "export_import" {
			src = a
		}
		for _, c := range g.chains {
			m.ghostObsH[c] = src.obsExt[c]
		}
	}
	obsBefore := map[string]uint64{}
	for _, c := range g.chains {
		obsBefore[c] = m.ghostObsH[c]
		if w[0] == "end" {
			for _, r := range appliedEvents(b, a, c) {
				if ev, ok := r.event.(types.ExternalEvent); ok {
					m.ghostObsH[c] = ev.GetExternalHeight()
				}
			}
		}
		if a.obsExt[c] != m.ghostObsH[c] {
			m.report(g, "observed-height-moved-without-applied-event", fmt.Sprintf("chain %s: stored observed height %d, height of the last applied event %d (op %v)", c, a.obsExt[c], m.ghostObsH[c], w))
			m.ghostObsH[c] = a.obsExt[c] // report once per divergence
		}
	}
	for _, c := range g.chains {
		still := map[string]bool{}
		for _, x := range a.batches[c] {
			still[fmt.Sprintf("%s/%d", x.extToken, x.nonce)] = true
		}
		executed := map[string]uint64{} // token -> highest executed nonce in this op
		exact := map[string]bool{}
		if w[0] == "end" {
			// events are applied in nonce order: once a newer batch of a token has been applied (ethereum/bsc), the older
			// ones are back in the pool and a later execution event for one of them finds no batch
			newest := map[string]uint64{}
			for _, r := range appliedEvents(b, a, c) {
				if ev, ok := r.event.(*types.BatchExecutedEvent); ok {
					stored := false
					for _, x := range b.batches[c] {
						if x.extToken == ev.ExternalCoinId && x.nonce == ev.BatchNonce {
							stored = true
						}
					}
					if !stored {
						// a claim about a batch the hub does not store (the ledger profile takes its claims out of thin air) changes
						// nothing, in particular it withdraws no older batch
						g.stats["C13:execution-event-for-a-batch-the-hub-does-not-store"]++
						continue
					}
					if c != "minter" && ev.BatchNonce < newest[ev.ExternalCoinId] {
						g.stats["C13:execution-event-for-a-batch-withdrawn-earlier-in-the-block"]++
						continue
					}
					exact[fmt.Sprintf("%s/%d", ev.ExternalCoinId, ev.BatchNonce)] = true
					if ev.BatchNonce > newest[ev.ExternalCoinId] {
						newest[ev.ExternalCoinId] = ev.BatchNonce
					}
				}
			}
		}
		// an execution event only counts if that batch existed when it was applied
		for _, x := range b.batches[c] {
			k := fmt.Sprintf("%s/%d", x.extToken, x.nonce)
			if exact[k] && still[k] {
				m.report(g, "execution-event-failed:"+m.execFailureCause(g, c, x), fmt.Sprintf("chain %s batch %s observed executed but still pending", c, k))
				delete(exact, k)
				continue
			}
			if exact[k] && x.nonce > executed[x.extToken] {
				executed[x.extToken] = x.nonce
			}
		}
		ap := poolIDs(a.pool[c])
		for _, x := range b.batches[c] {
			k := fmt.Sprintf("%s/%d", x.extToken, x.nonce)
			if still[k] {
				// must it have been withdrawn? (older batch of an executed token on eth/bsc)
				if c != "minter" && executed[x.extToken] > x.nonce {
					m.report(g, "older-batch-not-withdrawn-after-execution", fmt.Sprintf("chain %s batch %s", c, k))
				}
				continue
			}
			returned := true
			liveAfter, _ := liveIDs(a, c)
			for _, t := range x.txs {
				if _, ok := liveAfter[t.id]; !ok && !(w[0] == "end" && m.expired(t, b)) {
					returned = false
				}
			}
			_ = ap
			switch {
			case w[0] == "begin":
				if c == "minter" {
					m.report(g, "minter-batch-withdrawn", fmt.Sprintf("batch %s", k))
				}
				if !(x.timeout < obsBefore[c]) {
					m.report(g, "batch-withdrawn-before-timeout", fmt.Sprintf("chain %s batch %s timeout %d observed height %d", c, k, x.timeout, obsBefore[c]))
				}
				if !returned {
					m.report(g, "withdrawn-batch-transfers-lost", fmt.Sprintf("chain %s batch %s", c, k))
				}
			case w[0] == "end" && exact[k]:
				for _, t := range x.txs {
					if _, ok := liveAfter[t.id]; ok {
						if cause := m.execFailureCause(g, c, x); cause != "other" && executed[x.extToken] > x.nonce {
							// the known finding in two steps within one end-block: the execution event of this batch failed as a
							// whole (it stayed pending), then a newer batch of the token was applied and withdrew it
							m.report(g, "execution-event-failed:"+cause, fmt.Sprintf("chain %s batch %s observed executed, its handler failed, a newer batch of the token then returned transfer %d to the pool", c, k, t.id))
							continue
						}
						m.report(g, "executed-batch-returned-to-pool", fmt.Sprintf("chain %s batch %s transfer %d", c, k, t.id))
					}
				}
			case w[0] == "end" && c != "minter" && executed[x.extToken] > x.nonce:
				if !returned {
					m.report(g, "withdrawn-batch-transfers-lost", fmt.Sprintf("chain %s batch %s", c, k))
				}
			default:
				if c == "minter" {
					m.report(g, "minter-batch-withdrawn", fmt.Sprintf("batch %s during %v", k, w))
				} else {
					m.report(g, "batch-withdrawn-without-cause", fmt.Sprintf("chain %s batch %s during %v", c, k, w))
				}
			}
		}
	}
}

// execFailureCause names the configuration gap that makes batchTxExecuted fail as a whole.
func (m *Monitor) execFailureCause(g *Gen, chain string, x batchView) string {
	t := m.tok(chain, x.extToken)
	if t == nil {
		return "unknown-token"
	}
	if m.tokByDenom("minter", t.denom) == nil {
		return "no-minter-counterpart"
	}
	base := map[string]string{"ethereum": "eth", "bsc": "bnb"}[chain]
	if base != "" {
		if _, ok := g.env.oracle.prices[base]; !ok {
			return "missing-price"
		}
		if _, ok := g.env.oracle.prices[t.denom]; !ok {
			return "missing-price"
		}
	}
	if t.dec > 18 {
		return "decimals-above-18"
	}
	return "other"
}

// ---------------------------------------------------------------- C19

func (m *Monitor) checkC19(g *Gen, w []string, out string, b, a *snapshot) {
	if w[0] != "end" || out != "ok" {
		return
	}
	var bex []struct {
		chain string
		ev    *types.BatchExecutedEvent
	}
	for _, c := range g.chains {
		for _, r := range appliedEvents(b, a, c) {
			if ev, ok := r.event.(*types.BatchExecutedEvent); ok {
				bex = append(bex, struct {
					chain string
					ev    *types.BatchExecutedEvent
				}{c, ev})
			}
		}
	}
	if len(bex) != 1 {
		return // attribution of the new minter transfers needs a single execution per block
	}
	c, ev := bex[0].chain, bex[0].ev
	var batch *batchView
	for i, x := range b.batches[c] {
		if x.extToken == ev.ExternalCoinId && x.nonce == ev.BatchNonce {
			batch = &b.batches[c][i]
		}
	}
	if batch == nil {
		return
	}
	t := m.tok(c, batch.extToken)
	if t == nil {
		return
	}
	if _, gone := map[bool]bool{}[false]; gone {
	}
	stillThere := false
	for _, x := range a.batches[c] {
		if x.extToken == batch.extToken && x.nonce == batch.nonce {
			stillThere = true
		}
	}
	if stillThere {
		return // the handler failed as a whole: nothing was distributed
	}
	totalFee, totalComm := big.NewInt(0), big.NewInt(0)
	for _, x := range batch.txs {
		totalFee.Add(totalFee, x.fee)
		totalComm.Add(totalComm, x.comm)
	}
	totalFeeHub, totalCommHub := conv(t.dec, 18, totalFee), conv(t.dec, 18, totalComm)
	mt := m.tokByDenom("minter", t.denom)
	var feeOut, commOut []steView
	for _, s := range a.pool["minter"] {
		if s.id > b.lastSte["minter"] {
			switch s.txHash {
			case "#fee":
				feeOut = append(feeOut, s)
			case "#commission":
				commOut = append(commOut, s)
			}
		}
	}
	if mt == nil {
		return
	}
	sumComm := big.NewInt(0)
	for _, s := range commOut {
		sumComm.Add(sumComm, conv(mt.dec, 18, s.amount))
	}
	if sumComm.Cmp(totalCommHub) > 0 {
		m.report(g, "commission-payouts-exceed-collected", fmt.Sprintf("paid %s collected %s", sumComm, totalCommHub))
	}
	// proportionality: every validator with a Minter key gets its share of the commission by bonded voting power
	// (staking power, not whatever the signer-set normalisation made of it), up to the truncations of the two divisions
	{
		valExt, _, _ := m.keysOf(g, "minter")
		pw := map[string]*big.Int{} // lower(external address) -> staking power
		totalP := new(big.Int)
		for _, v := range g.env.staking.vals {
			ext, ok := valExt[fmt.Sprintf("%x", []byte(v.addr))]
			if !v.bonded || !ok || v.power <= 0 {
				continue
			}
			pw[strings.ToLower(ext)] = big.NewInt(v.power)
			totalP.Add(totalP, big.NewInt(v.power))
		}
		totalCommMinter := conv(18, mt.dec, totalCommHub)
		if totalP.Sign() > 0 && totalCommMinter.Sign() > 0 {
			tol := new(big.Int).Div(totalCommMinter, big.NewInt(1000000))
			tol.Add(tol, big.NewInt(2))
			for _, s := range commOut {
				p := pw[strings.ToLower(s.recipient)]
				if p == nil {
					m.report(g, "commission-paid-to-a-non-validator", fmt.Sprintf("recipient %s amount %s", s.recipient, s.amount))
					continue
				}
				want := new(big.Int).Div(new(big.Int).Mul(totalCommMinter, p), totalP)
				if d := new(big.Int).Abs(new(big.Int).Sub(s.amount, want)); d.Cmp(tol) > 0 {
					m.report(g, "commission-share-not-proportional-to-power", fmt.Sprintf("validator key %s holds %s of %s bonded power with a Minter key: its share of the commission %s is %s, paid %s",
						s.recipient, p, totalP, totalCommMinter, want, s.amount))
				}
			}
		}
	}
	sumFee := big.NewInt(0)
	reimb := big.NewInt(0)
	for i, s := range feeOut {
		v := conv(mt.dec, 18, s.amount)
		sumFee.Add(sumFee, v)
		if i == 0 && s.recipient == ev.FeePayer {
			reimb = v
		}
	}
	if reimb.Cmp(totalFeeHub) > 0 {
		m.report(g, "reimbursement-exceeds-fees-collected", fmt.Sprintf("reimbursed %s collected %s", reimb, totalFeeHub))
	}
	if sumFee.Cmp(totalFeeHub) > 0 {
		m.report(g, "fee-distribution-exceeds-fees-collected", fmt.Sprintf("distributed %s collected %s", sumFee, totalFeeHub))
	}
	// refunds: each at most what that user paid
	for i, s := range feeOut {
		if i == 0 && s.recipient == ev.FeePayer {
			continue
		}
		// the largest fee paid by a transfer refunding to this address
		mx := big.NewInt(0)
		for _, x := range batch.txs {
			if x.refundAddr == s.recipient && x.refundChain == "minter" {
				f := conv(t.dec, 18, x.fee)
				if f.Cmp(mx) > 0 {
					mx = f
				}
			}
		}
		if conv(mt.dec, 18, s.amount).Cmp(mx) > 0 {
			m.report(g, "fee-refund-exceeds-fee-paid", fmt.Sprintf("refund %s to %s, largest fee paid %s", s.amount, s.recipient, mx))
		}
	}
	for _, x := range batch.txs {
		if strings.HasPrefix(x.txHash, "#") {
			continue // module-initiated transfers share a hash
		}
		r, ok := a.feeRec[x.txHash]
		if !ok {
			m.report(g, "fee-record-missing", fmt.Sprintf("tx %s", x.txHash))
			continue
		}
		if r[1].Sign() < 0 || r[1].Cmp(x.fee) > 0 {
			m.report(g, "fee-record-out-of-range", fmt.Sprintf("tx %s fee kept %s, fee paid %s (external units, d=%d)", x.txHash, r[1], x.fee, t.dec))
		}
	}
}

// ---------------------------------------------------------------- the ghost external chains

// extWorld is what the contracts (Hub2.sol: state_lastBatchNonces[token], block.number < _batchTimeout) and the
// Minter multisig (each transaction once) remember about batches: it decides which executions can happen.
type ghostBatch struct {
	chain, token   string
	nonce, timeout uint64
	amounts        []*big.Int
	executed       bool
}

type pendExec struct {
	chain, token string
	paid         *big.Int
}

type extWorld struct {
	batches map[string]*ghostBatch
	order   []string
	last    map[string]uint64
}

func newExtWorld() *extWorld { return &extWorld{batches: map[string]*ghostBatch{}, last: map[string]uint64{}} }

func (e *extWorld) observe(chain string, bs []batchView) {
	for _, x := range bs {
		k := fmt.Sprintf("%s/%s/%d", chain, x.extToken, x.nonce)
		if _, ok := e.batches[k]; ok {
			continue
		}
		gb := &ghostBatch{chain: chain, token: x.extToken, nonce: x.nonce, timeout: x.timeout}
		for _, t := range x.txs {
			gb.amounts = append(gb.amounts, new(big.Int).Set(t.amount))
		}
		e.batches[k] = gb
		e.order = append(e.order, k)
	}
}

// executable: would the external chain execute this batch at external height h?
func (e *extWorld) executable(chain, token string, nonce, h uint64) *ghostBatch {
	gb := e.batches[fmt.Sprintf("%s/%s/%d", chain, token, nonce)]
	if gb == nil || gb.executed {
		return nil
	}
	if chain != "minter" && !(nonce > e.last[chain+"/"+token] && h < gb.timeout) {
		return nil
	}
	return gb
}

func (e *extWorld) execute(gb *ghostBatch) *big.Int {
	gb.executed = true
	if gb.nonce > e.last[gb.chain+"/"+gb.token] {
		e.last[gb.chain+"/"+gb.token] = gb.nonce
	}
	s := big.NewInt(0)
	for _, a := range gb.amounts {
		s.Add(s, a)
	}
	return s
}

// ---------------------------------------------------------------- C01

// custody bookkeeping: the harness is the external world; an emitted deposit locks `amount`,
// an execution event for an existing batch pays out the batch's amounts.
func (m *Monitor) checkC01(g *Gen, w []string, out string, b, a *snapshot) {
	if g.env.mx != nil || g.mxProfile {
		m.checkC01Mx(g, w, out, b, a)
		return
	}
	if w[0] == "world" && len(w) > 1 && w[1] == "loop" {
		m.loopMode = true
	}
	if m.ext == nil {
		m.ext = newExtWorld()
		m.pendingExec = map[string]pendExec{}
	}
	for _, c := range g.chains {
		m.ext.observe(c, a.batches[c])
	}
	if m.loopMode && w[0] == "vote" && len(w) >= 8 && w[3] == "bex" {
		// vote <chain> <signer> bex <coin> <eventNonce> <batchNonce> <height> ...: first sight = the execution itself
		c, coin := w[1], w[4]
		evN, bn, h := w[5], uint64(0), uint64(0)
		bn, _ = strconv.ParseUint(w[6], 10, 64)
		h, _ = strconv.ParseUint(w[7], 10, 64)
		ek := "seen/" + c + "/" + evN
		if m.terminal[ek] == "" {
			if gb := m.ext.executable(c, coin, bn, h); gb != nil {
				paid := m.ext.execute(gb)
				add(m.custody, c+"/"+coin, new(big.Int).Neg(paid))
				m.pendingExec[c+"/"+evN] = pendExec{chain: c, token: coin, paid: paid}
				m.terminal[ek] = "executed"
				g.stats["C01:loop-executions"]++
			} else {
				m.terminal[ek] = "impossible"
				m.loopTainted = true
				g.stats["C01:loop-tainted"]++
			}
		}
	}
	if m.loopMode && w[0] == "end" && out == "ok" {
		for _, c := range g.chains {
			for _, r := range appliedEvents(b, a, c) {
				switch ev := r.event.(type) {
				case *types.SendToHubEvent:
					add(m.custody, c+"/"+ev.ExternalCoinId, ev.Amount.BigInt())
				case *types.TransferToChainEvent:
					add(m.custody, c+"/"+ev.ExternalCoinId, ev.Amount.BigInt())
				case *types.BatchExecutedEvent:
					delete(m.pendingExec, fmt.Sprintf("%s/%d", c, r.nonce))
					for _, y := range a.batches[c] {
						if y.extToken == ev.ExternalCoinId && y.nonce == ev.BatchNonce {
							if ft := m.tok(c, y.extToken); ft != nil {
								m.terminal["failed-exec/"+ft.denom] = m.execFailureCause(g, c, y)
							}
						}
					}
				}
			}
		}
	}
	if m.loopMode && m.loopTainted {
		return
	}
	if !m.loopMode && w[0] == "end" && out == "ok" {
		for _, c := range g.chains {
			newest := map[string]uint64{}
			for _, r := range appliedEvents(b, a, c) {
				switch ev := r.event.(type) {
				case *types.SendToHubEvent:
					add(m.custody, c+"/"+ev.ExternalCoinId, ev.Amount.BigInt())
				case *types.TransferToChainEvent:
					add(m.custody, c+"/"+ev.ExternalCoinId, ev.Amount.BigInt())
				case *types.BatchExecutedEvent:
					// the external chain executes a batch at most once (contract: lastBatchNonce, multisig: nonce)
					ek := fmt.Sprintf("exec/%s/%s/%d", c, ev.ExternalCoinId, ev.BatchNonce)
					if m.terminal[ek] != "" {
						continue
					}
					// … and, on ethereum/bsc, never after a newer batch of the token: a claim that says so (the ledger profile
					// takes its execution claims out of thin air) reports something the contract cannot have done
					if c != "minter" && ev.BatchNonce < newest[ev.ExternalCoinId] {
						g.stats["C01:execution-claim-for-a-batch-older-than-one-executed-in-this-block"]++
						continue
					}
					if ev.BatchNonce > newest[ev.ExternalCoinId] {
						newest[ev.ExternalCoinId] = ev.BatchNonce
					}
					m.terminal[ek] = "executed"
					for _, x := range b.batches[c] {
						if x.extToken == ev.ExternalCoinId && x.nonce == ev.BatchNonce {
							for _, y := range a.batches[c] {
								if y.extToken == x.extToken && y.nonce == x.nonce {
									if ft := m.tok(c, x.extToken); ft != nil {
										m.terminal["failed-exec/"+ft.denom] = m.execFailureCause(g, c, x)
									}
								}
							}
							for _, t := range x.txs {
								add(m.custody, c+"/"+x.extToken, new(big.Int).Neg(t.amount))
							}
						}
					}
				}
			}
		}
	}
	if w[0] == "fund" {
		// test funding stands for an earlier, fully backed deposit on the first chain of the denom
		for _, t := range m.tokens {
			if t.denom == w[2] {
				add(m.custody, t.chain+"/"+t.ext, conv(18, t.dec, bi(w[3])))
				break
			}
		}
	}
	// invariant, per denom, in units of 10^-D with D = 24
	const D = 24
	denoms := map[string]bool{}
	for _, t := range m.tokens {
		denoms[t.denom] = true
	}
	for d := range denoms {
		cust := big.NewInt(0)
		infl := big.NewInt(0)
		for _, t := range m.tokens {
			if t.denom != d {
				continue
			}
			if v, ok := m.custody[t.chain+"/"+t.ext]; ok {
				cust.Add(cust, conv(t.dec, D, v))
			}
			for _, pe := range m.pendingExec {
				if pe.chain == t.chain && pe.token == t.ext {
					cust.Add(cust, conv(t.dec, D, pe.paid))
				}
			}
			for _, s := range a.pool[t.chain] {
				if s.extToken == t.ext {
					infl.Add(infl, conv(t.dec, D, new(big.Int).Add(new(big.Int).Add(s.amount, s.fee), s.comm)))
				}
			}
			for _, bt := range a.batches[t.chain] {
				for _, s := range bt.txs {
					if s.extToken == t.ext {
						infl.Add(infl, conv(t.dec, D, new(big.Int).Add(new(big.Int).Add(s.amount, s.fee), s.comm)))
					}
				}
			}
		}
		sup := conv(18, D, orZero(a.supply[d]))
		lhs := new(big.Int).Add(sup, infl)
		if os.Getenv("C01DEBUG") == d && w[0] != "vote" {
			fmt.Fprintf(os.Stderr, "C01 %-8s %v sup=%s infl=%s cust=%s slack=%s\n", w[0], out, sup, infl, cust, new(big.Int).Sub(cust, lhs))
		}
		if lhs.Cmp(cust) > 0 {
			cls := "vouchers-exceed-custody"
			if fc := m.terminal["failed-exec/"+d]; fc != "" {
				cls = "execution-event-failed:" + fc
			}
			m.report(g, cls, fmt.Sprintf("denom %s after %v: supply %s + in flight %s > custody + paid-out-but-unobserved %s (units 10^-24)", d, w, sup, infl, cust))
		}
	}
}

// ---------------------------------------------------------------- C02 / C03 (votes)

func (m *Monitor) checkVotes(g *Gen, w []string, out string, b, a *snapshot) {
	if w[0] != "end" {
		// nothing but end-block may apply an event
		for _, c := range g.chains {
			if a.lastObs[c] != b.lastObs[c] {
				m.report(g, "event-applied-outside-end-block", fmt.Sprintf("chain %s during %v", c, w))
			}
		}
		return
	}
	for _, c := range g.chains {
		applied := appliedEvents(b, a, c)
		// consecutive nonces
		if uint64(len(applied)) != a.lastObs[c]-b.lastObs[c] {
			m.report(g, "applied-count-mismatch", fmt.Sprintf("chain %s nonce %d -> %d with %d accepted records", c, b.lastObs[c], a.lastObs[c], len(applied)))
		}
		for i, r := range applied {
			if r.nonce != b.lastObs[c]+uint64(i)+1 {
				m.report(g, "nonce-order-violated", fmt.Sprintf("chain %s applied nonces not consecutive: %d at position %d after %d", c, r.nonce, i, b.lastObs[c]))
			}
		}
		// at most one accepted record per nonce
		acc := map[uint64]int{}
		for _, r := range a.records[c] {
			if r.rec.Accepted {
				acc[r.nonce]++
			}
		}
		for n, k := range acc {
			if k > 1 {
				m.report(g, "two-claims-applied-for-one-nonce", fmt.Sprintf("chain %s nonce %d", c, n))
			}
			if n > a.lastObs[c] {
				m.report(g, "accepted-above-last-observed", fmt.Sprintf("chain %s nonce %d last %d", c, n, a.lastObs[c]))
			}
		}
		// previously accepted records stay accepted exactly once (no re-application)
		for _, r := range b.records[c] {
			if r.rec.Accepted && r.nonce > b.lastObs[c] {
				m.report(g, "accepted-above-last-observed", fmt.Sprintf("chain %s nonce %d", c, r.nonce))
			}
		}
		// quorum of each applied record, with the staking view at tally time
		total := int64(0)
		power := map[string]int64{}
		for _, v := range g.env.staking.vals {
			if v.bonded {
				total += v.power
				power[fmt.Sprintf("%x", []byte(v.addr))] = v.power
			}
		}
		for _, r := range applied {
			seen := map[string]bool{}
			sum := int64(0)
			for _, v := range r.rec.Votes {
				hx := g.env.toHexAcc(v)
				if seen[hx] {
					m.report(g, "validator-counted-twice", fmt.Sprintf("chain %s nonce %d validator %s", c, r.nonce, hx))
				}
				seen[hx] = true
				sum += power[hx]
			}
			if sum*100 < 66*total {
				m.report(g, fmt.Sprintf("applied-below-66-percent"), fmt.Sprintf("chain %s nonce %d votes %d of %d", c, r.nonce, sum, total))
			}
		}
	}
	// one vote per validator per nonce across conflicting records
	for _, c := range g.chains {
		by := map[string]string{}
		for _, r := range a.records[c] {
			for _, v := range r.rec.Votes {
				k := fmt.Sprintf("%d/%s", r.nonce, v)
				if _, dup := by[k]; dup {
					m.report(g, "validator-voted-twice-at-nonce", fmt.Sprintf("chain %s %s", c, k))
				}
				by[k] = "x"
			}
		}
	}
}

// ---------------------------------------------------------------- C07: signatures over checkpoints

// For a checkpoint digest produced by the real code: a signature made with NewEthereumSignature
// verifies for the signer's address and for no other address or digest.
func (m *Monitor) checkC07(g *Gen, w []string, out string) {
	if len(w) == 0 || (w[0] != "ckpt_set" && w[0] != "ckpt_batch" && w[0] != "ckpt_call") || out == "panic" {
		return
	}
	if ref, ok := solidityDigest(w); ok && ref != out {
		m.report(g, "digest-differs-from-contract-encoding("+w[0]+")", fmt.Sprintf("hub %s, keccak256(abi.encode(...)) as Hub2.sol computes it %s, for %.300s", out, ref, strings.Join(w, " ")))
	}
	digest, err := hexDecode(out)
	if err != nil || len(digest) != 32 {
		m.report(g, "checkpoint-not-32-bytes", out)
		return
	}
	k := ethKeys[int(digest[0])%len(ethKeys)]
	addr := gethcommon.HexToAddress(ethAddrs[indexOfKey(k)])
	sig, err := types.NewEthereumSignature(digest, k)
	if err != nil {
		m.report(g, "signing-failed", err.Error())
		return
	}
	if err := types.ValidateEthereumSignature(digest, sig, addr); err != nil {
		m.report(g, "own-signature-rejected", err.Error())
	}
	other := gethcommon.HexToAddress(ethAddrs[(indexOfKey(k)+1)%len(ethAddrs)])
	if err := types.ValidateEthereumSignature(digest, sig, other); err == nil {
		m.report(g, "signature-accepted-for-other-address", out)
	}
	d2 := append([]byte{}, digest...)
	d2[31] ^= 1
	if err := types.ValidateEthereumSignature(d2, sig, addr); err == nil {
		m.report(g, "signature-accepted-for-other-digest", out)
	}
	// the 27/28 form of v is accepted as well
	s2 := append([]byte{}, sig...)
	s2[64] += 27
	if err := types.ValidateEthereumSignature(digest, s2, addr); err != nil {
		m.report(g, "v-27-28-form-rejected", err.Error())
	}
	// the other recovery id: ecrecover(v^1, r, s) yields one other address A'.  The contract accepts (v, r, s) for A only and
	// (v^1, r, s) for A' only, so the hub must not accept the genuine signature for A', nor the flipped one for A.
	{
		flipped := append([]byte{}, sig...)
		flipped[64] ^= 1
		if err := types.ValidateEthereumSignature(digest, flipped, addr); err == nil {
			m.report(g, "signature-with-the-other-recovery-id-accepted", fmt.Sprintf("(r, s, v^1) accepted for %s; ecrecover yields another address", addr.Hex()))
		}
		msg := crypto.Keccak256(append([]byte("\x19Ethereum Signed Message:\n32"), digest...))
		raw := append([]byte{}, flipped...)
		if raw[64] >= 27 {
			raw[64] -= 27
		}
		if pub, err := crypto.SigToPub(msg, raw); err == nil {
			aPrime := crypto.PubkeyToAddress(*pub)
			if aPrime != addr {
				if err := types.ValidateEthereumSignature(digest, sig, aPrime); err == nil {
					m.report(g, "signature-accepted-for-the-address-of-the-other-recovery-id", fmt.Sprintf("the signature of %s over %x verifies for %s as well", addr.Hex(), digest, aPrime.Hex()))
				}
			}
		}
	}
	// the contract's ecrecover knows v = 27 and 28 only: no other recovery byte may be accepted by the hub
	for _, v := range []byte{2, 3, 26, 29, 30, 31, 32, 35, 36, 37, 38, 127, 128, 255} {
		s3 := append([]byte{}, sig...)
		s3[64] = v
		if err := types.ValidateEthereumSignature(digest, s3, addr); err == nil {
			m.report(g, "signature-with-foreign-recovery-byte-accepted", fmt.Sprintf("v=%d accepted for %s; Hub2.verifySig (ecrecover) rejects it", v, addr.Hex()))
		}
	}
}

// solidityDigest recomputes a checkpoint the way Hub2.sol does (makeCheckpoint / submitBatch / submitLogicCall):
// keccak256(abi.encode(...)) over the Solidity types, independently of the hub's GetCheckpoint.
func solidityDigest(w []string) (string, bool) {
	ty := func(s string) abi.Type { t, _ := abi.NewType(s, "", nil); return t }
	b32 := func(b []byte) [32]byte { var x [32]byte; copy(x[:], b); return x }
	bigs := func(s string) []*big.Int {
		l := []*big.Int{}
		if s == "-" {
			return l
		}
		for _, x := range strings.Split(s, ",") {
			v, _ := new(big.Int).SetString(x, 10)
			l = append(l, v)
		}
		return l
	}
	addrs := func(s string) []gethcommon.Address {
		l := []gethcommon.Address{}
		if s == "-" {
			return l
		}
		for _, x := range strings.Split(s, ",") {
			l = append(l, gethcommon.HexToAddress(x))
		}
		return l
	}
	u := func(s string) *big.Int { v, _ := new(big.Int).SetString(s, 10); return v }
	if len(w[1]) > 32 {
		return "", false
	}
	var types_ []string
	var vals []interface{}
	switch w[0] {
	case "ckpt_set":
		var as []gethcommon.Address
		var ps []*big.Int
		as, ps = []gethcommon.Address{}, []*big.Int{}
		if w[3] != "-" {
			for _, mbr := range strings.Split(w[3], ",") {
				p := strings.Split(mbr, ":")
				as = append(as, gethcommon.HexToAddress(p[0]))
				ps = append(ps, u(p[1]))
			}
		}
		types_ = []string{"bytes32", "bytes32", "uint256", "address[]", "uint256[]"}
		vals = []interface{}{b32([]byte(w[1])), b32([]byte("checkpoint")), u(w[2]), as, ps}
	case "ckpt_batch":
		am, ds, fs := []*big.Int{}, []gethcommon.Address{}, []*big.Int{}
		if w[5] != "-" {
			for _, it := range strings.Split(w[5], ";") {
				p := strings.Split(it, ":")
				am = append(am, u(p[0]))
				ds = append(ds, gethcommon.HexToAddress(p[1]))
				fs = append(fs, u(p[2]))
			}
		}
		types_ = []string{"bytes32", "bytes32", "uint256[]", "address[]", "uint256[]", "uint256", "address", "uint256"}
		vals = []interface{}{b32([]byte(w[1])), b32([]byte("transactionBatch")), am, ds, fs, u(w[2]), gethcommon.HexToAddress(w[4]), u(w[3])}
	case "ckpt_call":
		hx := func(s string) []byte {
			if s == "-" {
				return []byte{}
			}
			b, _ := hexDecode(s)
			return b
		}
		scope := hx(w[9])
		if len(scope) > 32 {
			scope = scope[:32]
		}
		types_ = []string{"bytes32", "bytes32", "uint256[]", "address[]", "uint256[]", "address[]", "address", "bytes", "uint256", "bytes32", "uint256"}
		vals = []interface{}{b32([]byte(w[1])), b32([]byte("logicCall")), bigs(w[2]), addrs(w[3]), bigs(w[4]), addrs(w[5]),
			gethcommon.HexToAddress(w[6]), hx(w[7]), u(w[8]), b32(scope), u(w[10])}
	default:
		return "", false
	}
	var args abi.Arguments
	for _, t := range types_ {
		args = append(args, abi.Argument{Type: ty(t)})
	}
	enc, err := args.Pack(vals...)
	if err != nil {
		return "", false
	}
	return fmt.Sprintf("%x", crypto.Keccak256(enc)), true
}

func hexDecode(s string) ([]byte, error) { return hex.DecodeString(s) }

func indexOfKey(k interface{}) int {
	for i := range ethKeys {
		if interface{}(ethKeys[i]) == k {
			return i
		}
	}
	return 0
}

// ---------------------------------------------------------------- C15 genesis round trip

// The dumps taken right before and right after `export_import` must agree section by section:
// every section that differs is a lost (or altered) part of the bridge state.
func (m *Monitor) checkC15(g *Gen, w []string, out string) {
	if len(w) == 0 {
		return
	}
	if w[0] == "export_import" {
		if out != "ok" {
			m.report(g, "export-import-failed", g.env.lastPanic)
		}
		m.gBefore, m.gDumps, m.gAfter = m.gDumps, map[string]string{}, true
		return
	}
	if w[0] != "dump" {
		if m.gAfter {
			m.gAfter = false
			m.gBefore = nil
		}
		return
	}
	if m.gDumps == nil {
		m.gDumps = map[string]string{}
	}
	key := strings.Join(w[1:], " ")
	m.gDumps[key] = out
	if m.gAfter && m.gBefore != nil {
		if prev, ok := m.gBefore[key]; ok && prev != out {
			for _, cls := range diffGenesisSection(w[1:], prev, out) {
				// "lost": the section comes back empty (never written by ExportGenesis: the known findings); "altered": it
				// comes back, but not as it was
				kind := "lost:"
				if f := strings.Fields(out); len(f) > 1 && (cls == "unbatched-pool" || cls == "batches" || cls == "signer-set-txs" || cls == "confirmations") {
					kind = "altered:"
				}
				m.report(g, kind+cls, fmt.Sprintf("section %q before export: %.300s | after import: %.300s", key, prev, out))
			}
		}
	}
}

// diffGenesisSection names what changed inside a dump section.
func diffGenesisSection(what []string, before, after string) []string {
	sec := what[0]
	switch sec {
	case "tokens":
		return []string{"token-list"}
	case "pool":
		return []string{"unbatched-pool"}
	case "batches":
		return []string{"batches"}
	case "sets":
		return []string{"signer-set-txs"}
	case "sigs":
		return []string{"confirmations"}
	case "status":
		var l []string
		bs, as := strings.SplitN(before, " feerec ", 2), strings.SplitN(after, " feerec ", 2)
		if bs[0] != as[0] {
			l = append(l, "tx-status")
		}
		if len(bs) > 1 && len(as) > 1 && bs[1] != as[1] {
			l = append(l, "tx-fee-records")
		}
		return l
	case "votes":
		var l []string
		bs, as := strings.SplitN(before, " last ", 2), strings.SplitN(after, " last ", 2)
		if bs[0] != as[0] {
			l = append(l, "vote-records")
		}
		if len(bs) > 1 && len(as) > 1 && bs[1] != as[1] {
			l = append(l, "last-nonce-by-validator")
		}
		return l
	case "keys":
		var l []string
		f := func(s string) map[string]string {
			r := map[string]string{}
			cur := ""
			for _, tok := range strings.Fields(s) {
				if tok == "valext" || tok == "orchval" || tok == "extorch" {
					cur = tok
					continue
				}
				r[cur] = tok
			}
			return r
		}
		b, a := f(before), f(after)
		if b["valext"] != a["valext"] {
			l = append(l, "validator-external-address")
		}
		// stale orchestrator entries of re-registered validators are not exported; current ones must survive
		for _, k := range []string{"orchval", "extorch"} {
			as := map[string]bool{}
			for _, it := range strings.Split(a[k], ";") {
				as[it] = true
			}
			bsItems := strings.Split(b[k], ";")
			lostCurrent := false
			for _, it := range strings.Split(a[k], ";") {
				found := false
				for _, x := range bsItems {
					if x == it {
						found = true
					}
				}
				if !found && it != "" {
					lostCurrent = true
				}
			}
			if lostCurrent {
				l = append(l, "delegate-keys-altered("+k+")")
			} else if len(as) < len(bsItems) && b[k] != a[k] {
				l = append(l, "stale-delegate-key-entries("+k+")")
			}
		}
		return l
	case "counters":
		var l []string
		f := func(s string) map[string]string {
			r := map[string]string{}
			for _, tok := range strings.Fields(s) {
				if i := strings.Index(tok, "="); i > 0 {
					r[tok[:i]] = tok[i+1:]
				}
			}
			return r
		}
		b, a := f(before), f(after)
		names := map[string]string{"ste": "last-send-to-external-id", "batch": "last-batch-nonce", "seq": "outgoing-sequence", "set": "latest-signer-set-nonce",
			"obs": "last-observed-event-nonce", "ch": "observed-height-cosmos-part", "eh": "observed-external-height", "los": "last-observed-signer-set"}
		for k, n := range names {
			if b[k] != a[k] {
				l = append(l, n)
			}
		}
		sort.Strings(l)
		return l
	case "bank":
		return []string{"bank"}
	case "oracle":
		// `oracle epoch=.. prices=.. holders=.. pvotes=.. hvotes=..`
		f := func(s string) map[string]string {
			r := map[string]string{}
			for _, tok := range strings.Fields(s) {
				if i := strings.Index(tok, "="); i > 0 {
					r[tok[:i]] = tok[i+1:]
				}
			}
			return r
		}
		b, a := f(before), f(after)
		var l []string
		for _, k := range [][2]string{{"epoch", "oracle-epoch"}, {"prices", "oracle-prices"}, {"holders", "oracle-holders"}} {
			if b[k[0]] != a[k[0]] {
				l = append(l, k[1])
			}
		}
		if b["pvotes"] != a["pvotes"] || b["hvotes"] != a["hvotes"] {
			l = append(l, "oracle-votes-in-progress")
		}
		return l
	}
	return []string{sec}
}

func panicKind(msg string) string {
	for _, k := range []string{"negative coin amount", "Int overflow", "division by zero", "invalid coins", "token not found", "key not found",
		"nil pointer", "CANNOT CANCEL MINTER BATCH", "attempting to", "slice bounds", "index out of range"} {
		if strings.Contains(msg, k) {
			return strings.ReplaceAll(k, " ", "-")
		}
	}
	if len(msg) > 40 {
		msg = msg[:40]
	}
	return strings.ReplaceAll(msg, " ", "-")
}

// admissibleEvent: does the event of a `hash ...` line pass the stateless validation every claim goes through?
func admissibleEvent(line string) bool {
	w := strings.Fields(line)
	if len(w) < 2 {
		return false
	}
	ev, err := parseEvent(w[1:])
	if err != nil {
		return false
	}
	for _, c := range []types.ChainID{"ethereum", "minter"} {
		if ev.Validate(c) == nil {
			return true
		}
	}
	return false
}

// ---------------------------------------------------------------- C08 (hub side, closed loop with the compiled contract)

func (m *Monitor) checkC08(g *Gen, w []string, out string, b, a *snapshot) {
	if g.env.mx != nil {
		m.checkC08Mx(g, w, out)
		return
	}
	ev := g.env.evm
	if ev != nil && w[0] == "confirm" && out == "ok" && len(w) >= 7 && w[1] == ev.chain {
		// ghost: the confirmations the message server accepted, per outgoing transaction
		if m.ghostConfs == nil {
			m.ghostConfs = map[string]map[string]bool{}
		}
		key, ext := setKey(u64(w[4])), w[5]
		if w[3] != "set" {
			key, ext = batchKey(w[4], u64(w[5])), w[6]
		}
		if m.ghostConfs[key] == nil {
			m.ghostConfs[key] = map[string]bool{}
		}
		m.ghostConfs[key][strings.ToLower(ext)] = true
		return
	}
	if ev == nil || w[0] != "world" || len(w) < 2 {
		return
	}
	if ev.failed != "" {
		m.report(g, "contract-deployment-failed", ev.failed)
		return
	}
	if strings.HasPrefix(w[1], "x:relayset:") || strings.HasPrefix(w[1], "x:relaybatch:") {
		r := ev.last
		if !r.known {
			return
		}
		enough := r.validPower > evmThreshold
		expect := r.nonceOK && r.timeoutOK && !r.badIncluded && enough
		what := fmt.Sprintf("%s: valid power %d of %d (threshold %d), hub-confirmed %d, nonce ok %v, before timeout %v, all confirmations included %v, stored by hub %v; %s",
			r.key, r.validPower, r.totalPower, uint64(evmThreshold), r.hubConfirmedPower, r.nonceOK, r.timeoutOK, r.all, r.storedByHub, r.desc)
		if r.badIncluded {
			// a confirmation the hub recorded and handed to the relayer does not verify under the contract's scheme
			m.report(g, "unverifiable-confirmation-recorded", what)
		}
		switch {
		case r.accepted && !enough:
			m.report(g, "contract-accepted-with-too-little-power", what)
		case r.accepted && !expect:
			m.report(g, "contract-accepted-out-of-order-or-late", what)
		case expect && !r.accepted:
			m.report(g, "contract-refused-what-more-than-the-threshold-confirmed", what)
		}
		// the threshold only means "two thirds" if every emitted signer set is normalised to 2^32
		if r.all && r.nonceOK && r.timeoutOK && !r.badIncluded && !r.accepted &&
			3*r.hubConfirmedPower > 2*r.totalPower+3*uint64(len(ev.cur)) && r.hubConfirmedPower == r.validPower {
			m.report(g, "contract-refuses-two-thirds-of-its-own-signer-set", what)
		}
		if r.kind == "batch" && r.accepted && !r.storedByHub {
			m.report(g, "contract-executed-a-batch-the-hub-had-withdrawn", what)
		}
		// what the relayer can submit is what the hub's queries hand out: as long as the hub stores the
		// transaction it must serve every confirmation it recorded for it (the contract's signer set is the
		// one it last accepted, not the hub's current bonded set)
		if r.storedByHub {
			served := ev.confs[r.key]
			var missing []string
			for ext := range m.ghostConfs[r.key] {
				if _, ok := served[ext]; !ok {
					missing = append(missing, ext)
				}
			}
			if len(missing) > 0 {
				sort.Strings(missing)
				lost := uint64(0)
				for _, mem := range ev.cur {
					for _, x := range missing {
						if strings.ToLower(mem.addr.Hex()) == x {
							lost += mem.power
						}
					}
				}
				m.report(g, "recorded-confirmation-not-served-to-the-relayer", fmt.Sprintf("%s: the hub recorded confirmations of %v but its query returns %d confirmations without them (power %d of the contract's current set withheld); %s", r.key, missing, len(served), lost, what))
			}
		}
	}
	if w[1] == "x:settle" {
		// everything was confirmed, relayed and voted back: the two sides must be in step
		en, _ := ev.hub.StateLastEventNonce(nil)
		vn, _ := ev.hub.StateLastValsetNonce(nil)
		lo := a.lastObs[ev.chain]
		if lo != ev.polled || en == nil || en.Uint64() != ev.polled {
			g.stats["C08:settle-skipped(events-not-all-applied)"]++
			return
		}
		g.stats["C08:settle-checked"]++
		if s := g.env.k.GetLastObservedSignerSetTx(g.env.ctx, types.ChainID(ev.chain)); s == nil || s.Nonce != vn.Uint64() {
			m.report(g, "signer-set-nonces-out-of-step", fmt.Sprintf("contract valset nonce %s, hub last observed signer set %v", vn, s))
		}
		for k := range ev.execd {
			for _, x := range a.batches[ev.chain] {
				if batchKey(x.extToken, x.nonce) == k {
					m.report(g, "executed-batch-still-pending-on-the-hub", k)
				}
			}
		}
		// every transfer paid out by the contract left the hub for good; nothing the contract never paid is gone
		paid := big.NewInt(0)
		for k := range ev.execd {
			for _, t := range ev.batches[k].Transactions {
				paid.Add(paid, t.Token.Amount.BigInt())
				paid.Add(paid, t.Fee.Amount.BigInt())
			}
		}
		max := new(big.Int).Sub(new(big.Int).Lsh(big.NewInt(1), 256), big.NewInt(1))
		outflow := big.NewInt(0) // paid out minus deposited back, over both tokens
		for _, t := range ev.toks {
			bal, _ := t.BalanceOf(nil, ev.hubAddr)
			outflow.Add(outflow, new(big.Int).Sub(max, bal))
		}
		if outflow.Cmp(paid) > 0 {
			m.report(g, "contract-paid-more-than-the-executed-batches", fmt.Sprintf("net outflow %s, executed batches total %s", outflow, paid))
		}
	}
}

func u64(s string) uint64 { v, _ := strconv.ParseUint(s, 10, 64); return v }

// checkC14Vote: an accepted vote is counted under the identifier of the very claim that was submitted — in the record
// stored under (event nonce, claim id) — and in no record of another claim of that nonce; every record is stored under
// the identifier of the event it holds.
func (m *Monitor) checkC14Vote(g *Gen, w []string) {
	ev, err := parseEvent(w[3:])
	if err != nil {
		return
	}
	chain, val := w[1], w[2]
	_, orchVal, _ := m.keysOf(g, chain)
	if v, ok := orchVal[val]; ok {
		val = v
	}
	id := ev.Hash()
	found := false
	for _, r := range g.env.VoteRecords(g.env.ctx, chain) {
		if !bytes.Equal(r.event.Hash(), r.hash) {
			m.report(g, "record-stored-under-the-identifier-of-another-event", fmt.Sprintf("chain %s nonce %d key %x holds an event with identifier %x", chain, r.nonce, r.hash, r.event.Hash()))
		}
		if r.nonce != ev.GetEventNonce() {
			continue
		}
		for _, v := range r.rec.Votes {
			if g.env.toHexAcc(v) != val {
				continue
			}
			if bytes.Equal(r.hash, id) {
				found = true
			} else {
				m.report(g, "vote-tallied-with-a-different-event", fmt.Sprintf("chain %s nonce %d: validator %s submitted the claim %x (%v) and is counted in the record of claim %x", chain, r.nonce, val, id, w[3:], r.hash))
			}
		}
	}
	if !found {
		m.report(g, "vote-not-counted-under-its-own-claim-identifier", fmt.Sprintf("chain %s nonce %d: validator %s submitted the claim %x (%v); no record under that identifier lists it", chain, ev.GetEventNonce(), val, id, w[3:]))
	}
}

// bodyAfterHash: the signer-set members of a `hash sse ...` line as the event carries them after Hash() ran
// (recordEventVote hashes the event first and then packs it into the vote record).
func bodyAfterHash(line string) string {
	w := strings.Fields(line)
	if len(w) < 2 {
		return ""
	}
	ev, err := parseEvent(w[1:])
	if err != nil {
		return ""
	}
	ev.Hash()
	if s, ok := ev.(*types.SignerSetTxExecutedEvent); ok {
		var l []string
		for _, mem := range s.Members {
			l = append(l, fmt.Sprintf("%s:%d", mem.ExternalAddress, mem.Power))
		}
		return strings.Join(l, ",")
	}
	return ""
}
