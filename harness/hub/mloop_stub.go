//go:build !mloop

package main

import (
	"fmt"
	"os"
)

// The Minter closed loop (mloop.go) needs the connector's package main compiled in; the ordinary harness binary
// is built without it.
type mxSide struct {
	failed  string
	pending []string
}

func (e *Env) mxExec(cmd string) {}
func (e *Env) mxStop()           {}

func (g *Gen) runMxLoop(nops int) {
	fmt.Println("the mloop profile needs the binary built with -tags mloop")
	os.Exit(2)
}

type mxGhost struct{}

func (m *Monitor) checkC08Mx(g *Gen, w []string, out string) {}

func (e *Env) mxEchoOut(line string) (string, bool) { return "", false }

func (m *Monitor) checkC01Mx(g *Gen, w []string, out string, b, a *snapshot) {}
