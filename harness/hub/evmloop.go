package main

// The closed loop hub <-> compiled Hub2 contract (property C08, hub side).
//
// `world x:<cmd>:...` operations drive the repository's compiled Hub2 / CosmosERC20 bytecode on
// go-ethereum's simulated backend from inside the hub harness: a relayer submits the signer sets and
// batches the hub has emitted, with the confirmations the hub's own queries return; users deposit on
// the contract; the contract's events are polled and voted back into the hub by the generator.  To the
// Lean hub model every `world ...` line is a no-op ("ok"), so the hub side stays under the
// correspondence check while the contract side is the real thing.

import (
	"context"
	"crypto/ecdsa"
	"crypto/sha256"
	"fmt"
	"math/big"
	"sort"
	"strconv"
	"strings"

	sdk "github.com/cosmos/cosmos-sdk/types"
	"github.com/ethereum/go-ethereum/accounts/abi/bind"
	"github.com/ethereum/go-ethereum/accounts/abi/bind/backends"
	"github.com/ethereum/go-ethereum/common"
	"github.com/ethereum/go-ethereum/core"
	gethtypes "github.com/ethereum/go-ethereum/core/types"
	"github.com/ethereum/go-ethereum/crypto"

	"github.com/MinterTeam/mhub2/module/x/mhub2/types"

	"verif/hubharness/hub2"
)

const evmThreshold = 2863311530 // 2/3 of 2^32, as deployed by the repository's scripts

type evmMember struct {
	addr  common.Address
	power uint64
}

// evmRelay describes the last relayer submission, for the monitor.
type evmRelay struct {
	kind              string // "set" | "batch" | "deposit" | ""
	key               string
	known             bool   // the relayer holds the transaction (the hub stores it, or did when last observed)
	storedByHub       bool   // the hub stores it right now
	accepted          bool   // the contract executed the submission
	validPower        uint64 // power the contract counts: valid included slots in order, up to the break
	totalPower        uint64 // sum of the powers of the contract's current set
	hubConfirmedPower uint64 // power of the current-set members for whom the hub returns a confirmation
	badIncluded       bool   // an included hub confirmation does not verify under the contract's scheme
	all               bool   // every confirmation the hub returned was included
	nonceOK           bool
	timeoutOK         bool
	desc              string
}

type evmSide struct {
	chain   string
	sim     *backends.SimulatedBackend
	relayer *bind.TransactOpts
	users   []*bind.TransactOpts
	hub     *hub2.Hub2
	hubAddr common.Address
	tok     *hub2.Erc20 // first token
	tokAddr common.Address
	toks    map[common.Address]*hub2.Erc20
	gid     string

	cur      []evmMember // the signer set the contract knows, in its order
	curNonce uint64

	batches map[string]*types.BatchTx      // every batch the relayer has ever seen, by token/nonce
	sets    map[uint64]*types.SignerSetTx  // every signer set the relayer has ever seen
	confs   map[string]map[string][]byte   // tx key -> lower(external address) -> signature, as returned by the hub queries
	execd   map[string]bool                // batches the contract executed
	polled  uint64                         // highest contract event nonce handed to the generator
	last    evmRelay
	failed  string
}

func loopKey(tag string) *ecdsa.PrivateKey {
	h := sha256.Sum256([]byte(tag))
	k, err := crypto.ToECDSA(h[:])
	if err != nil {
		panic(err)
	}
	return k
}

// loopAddrs: the addresses of the closed-loop world are fixed by the keys and the deployer's nonces.
func loopAddrs() (relayer common.Address, users []common.Address, hubAddr, tokAddr common.Address) {
	r, u, h, t, _ := loopAddrs2()
	return r, u, h, t
}

func loopAddrs2() (relayer common.Address, users []common.Address, hubAddr, tokAddr, tok2Addr common.Address) {
	relayer = crypto.PubkeyToAddress(loopKey("loop-relayer").PublicKey)
	for i := 0; i < 3; i++ {
		users = append(users, crypto.PubkeyToAddress(loopKey(fmt.Sprintf("loop-user-%d", i)).PublicKey))
	}
	return relayer, users, crypto.CreateAddress(relayer, 0), crypto.CreateAddress(relayer, 1), crypto.CreateAddress(relayer, 2)
}

func (ev *evmSide) mined(tx *gethtypes.Transaction, err error) bool {
	if err != nil || tx == nil {
		return false // refused before inclusion
	}
	ev.sim.Commit()
	r, err := ev.sim.TransactionReceipt(context.Background(), tx.Hash())
	return err == nil && r.Status == 1 // a reverted transaction is mined with status 0
}

func (ev *evmSide) blockNumber() uint64 { return ev.sim.Blockchain().CurrentBlock().NumberU64() + 1 }

func (ev *evmSide) curAddrs() []common.Address {
	l := make([]common.Address, len(ev.cur))
	for i, m := range ev.cur {
		l[i] = m.addr
	}
	return l
}
func (ev *evmSide) curPowers() []*big.Int {
	l := make([]*big.Int, len(ev.cur))
	for i, m := range ev.cur {
		l[i] = new(big.Int).SetUint64(m.power)
	}
	return l
}

func batchKey(token string, nonce uint64) string { return fmt.Sprintf("batch/%s/%d", token, nonce) }
func setKey(nonce uint64) string                 { return fmt.Sprintf("set/%d", nonce) }

// evmExec runs one `world x:...` command.
func (e *Env) evmExec(cmd string) {
	p := strings.Split(cmd, ":")
	u := func(s string) uint64 { v, _ := strconv.ParseUint(s, 10, 64); return v }
	if len(p) < 2 {
		return
	}
	if p[1] == "deploy" {
		e.evmDeploy(p[2])
		return
	}
	if e.evm == nil || e.evm.failed != "" {
		return
	}
	e.evm.last = evmRelay{}
	e.evmObserve()
	switch p[1] {
	case "observe":
	case "relayset":
		e.evmRelaySet(u(p[2]), u(p[3]))
	case "relaybatch":
		e.evmRelayBatch(p[2], u(p[3]), u(p[4]))
	case "deposit":
		amt, _ := new(big.Int).SetString(p[3], 10)
		fee, _ := new(big.Int).SetString(p[6], 10)
		tokA := e.evm.tokAddr
		if len(p) > 7 {
			tokA = common.HexToAddress(p[7])
		}
		e.evmDeposit(int(u(p[2])), tokA, amt, p[4], common.HexToAddress(p[5]), fee)
	case "mine":
		for i := uint64(0); i < u(p[2]); i++ {
			e.evm.sim.Commit()
		}
	}
}

func (e *Env) evmDeploy(chain string) {
	ev := &evmSide{chain: chain, batches: map[string]*types.BatchTx{}, sets: map[uint64]*types.SignerSetTx{},
		confs: map[string]map[string][]byte{}, execd: map[string]bool{}}
	e.evm = ev
	bal, _ := new(big.Int).SetString("1000000000000000000000000", 10)
	ev.relayer, _ = bind.NewKeyedTransactorWithChainID(loopKey("loop-relayer"), big.NewInt(1337))
	ev.relayer.GasLimit = 25000000
	alloc := core.GenesisAlloc{ev.relayer.From: {Balance: bal}}
	for i := 0; i < 3; i++ {
		t, _ := bind.NewKeyedTransactorWithChainID(loopKey(fmt.Sprintf("loop-user-%d", i)), big.NewInt(1337))
		t.GasLimit = 25000000
		ev.users = append(ev.users, t)
		alloc[t.From] = core.GenesisAccount{Balance: bal}
	}
	ev.sim = backends.NewSimulatedBackend(alloc, 30000000)
	set := types.NewSignerSetTx(0, 0, e.k.CurrentSignerSet(e.ctx, types.ChainID(chain)))
	for _, s := range set.Signers {
		ev.cur = append(ev.cur, evmMember{common.HexToAddress(s.ExternalAddress), s.Power})
	}
	ev.gid = e.k.GetParams(e.ctx).GravityId
	var gid32 [32]byte
	copy(gid32[:], ev.gid)
	addr, dtx, h, err := hub2.DeployHub2(ev.relayer, ev.sim, gid32, big.NewInt(evmThreshold), ev.curAddrs(), ev.curPowers(), common.Address{}, ev.relayer.From)
	if !ev.mined(dtx, err) {
		sum := uint64(0)
		for _, m := range ev.cur {
			sum += m.power
		}
		ev.failed = fmt.Sprintf("the contract's constructor refuses the hub's current signer set (%d members, powers sum %d, threshold %d): %v", len(ev.cur), sum, uint64(evmThreshold), err)
		return
	}
	ev.hub, ev.hubAddr = h, addr
	taddr, ttx, tok, err := hub2.DeployErc20(ev.relayer, ev.sim, addr, "T", "T", 18)
	if !ev.mined(ttx, err) {
		ev.failed = fmt.Sprint("deploy token: ", err)
		return
	}
	ev.tok, ev.tokAddr = tok, taddr
	ev.toks = map[common.Address]*hub2.Erc20{taddr: tok}
	t2addr, t2tx, tok2, err := hub2.DeployErc20(ev.relayer, ev.sim, addr, "U", "U", 6)
	if !ev.mined(t2tx, err) {
		ev.failed = fmt.Sprint("deploy token 2: ", err)
		return
	}
	ev.toks[t2addr] = tok2
}

// evmObserve: the relayer reads the hub's outgoing transactions and confirmations through the hub's queries.
func (e *Env) evmObserve() {
	ev := e.evm
	qctx := sdk.WrapSDKContext(e.ctx)
	for _, s := range e.Sets(e.ctx, ev.chain) {
		ev.sets[s.Nonce] = s
		if r, err := e.k.SignerSetTxConfirmations(qctx, &types.SignerSetTxConfirmationsRequest{SignerSetNonce: s.Nonce, ChainId: ev.chain}); err == nil {
			m := map[string][]byte{}
			for _, c := range r.Signatures {
				m[strings.ToLower(c.ExternalSigner)] = c.Signature
			}
			ev.confs[setKey(s.Nonce)] = m
		}
	}
	for _, b := range e.Batches(e.ctx, ev.chain) {
		k := batchKey(b.ExternalTokenId, b.BatchNonce)
		ev.batches[k] = b
		if r, err := e.k.BatchTxConfirmations(qctx, &types.BatchTxConfirmationsRequest{BatchNonce: b.BatchNonce, ExternalTokenId: b.ExternalTokenId, ChainId: ev.chain}); err == nil {
			m := map[string][]byte{}
			for _, c := range r.Signatures {
				m[strings.ToLower(c.ExternalSigner)] = c.Signature
			}
			ev.confs[k] = m
		}
	}
}

// slots builds the (v, r, s) arrays the way a relayer does and predicts what the contract's
// checkValidatorSignatures will count.
func (ev *evmSide) slots(key string, digest []byte, mask uint64, r *evmRelay) ([]uint8, [][32]byte, [][32]byte) {
	n := len(ev.cur)
	vs, rs, ss := make([]uint8, n), make([][32]byte, n), make([][32]byte, n)
	confs := ev.confs[key]
	r.all = true
	done := false
	for i, m := range ev.cur {
		r.totalPower += m.power
		sig, has := confs[strings.ToLower(m.addr.Hex())]
		if !has {
			continue
		}
		r.hubConfirmedPower += m.power
		if mask>>uint(i)&1 == 0 {
			r.all = false
			continue
		}
		valid := len(sig) == 65 && types.ValidateEthereumSignature(digest, sig, m.addr) == nil
		padded := make([]byte, 65)
		copy(padded, sig)
		copy(rs[i][:], padded[:32])
		copy(ss[i][:], padded[32:64])
		v := padded[64]
		if v < 27 {
			v += 27
		}
		vs[i] = v
		if done {
			continue
		}
		if !valid {
			r.badIncluded = true
			done = true
			continue
		}
		r.validPower += m.power
		if r.validPower > evmThreshold {
			done = true
		}
	}
	return vs, rs, ss
}

func (e *Env) evmRelaySet(nonce, mask uint64) {
	ev := e.evm
	r := evmRelay{kind: "set", key: setKey(nonce), timeoutOK: true}
	defer func() { ev.last = r }()
	tx := ev.sets[nonce]
	if tx == nil {
		return
	}
	r.known = true
	for _, s := range e.Sets(e.ctx, ev.chain) {
		if s.Nonce == nonce {
			r.storedByHub = true
		}
	}
	digest := tx.GetCheckpoint([]byte(ev.gid))
	vs, rs, ss := ev.slots(r.key, digest, mask, &r)
	var na []common.Address
	var np []*big.Int
	var nm []evmMember
	for _, s := range tx.Signers {
		na = append(na, common.HexToAddress(s.ExternalAddress))
		np = append(np, new(big.Int).SetUint64(s.Power))
		nm = append(nm, evmMember{common.HexToAddress(s.ExternalAddress), s.Power})
	}
	r.nonceOK = nonce > ev.curNonce
	utx, err := ev.hub.UpdateValset(ev.relayer, na, np, new(big.Int).SetUint64(nonce), ev.curAddrs(), ev.curPowers(), new(big.Int).SetUint64(ev.curNonce), vs, rs, ss)
	r.accepted = ev.mined(utx, err)
	if err != nil {
		r.desc = err.Error()
	}
	if r.accepted {
		ev.cur, ev.curNonce = nm, nonce
	}
}

func (e *Env) evmRelayBatch(token string, nonce, mask uint64) {
	ev := e.evm
	r := evmRelay{kind: "batch", key: batchKey(token, nonce)}
	defer func() { ev.last = r }()
	b := ev.batches[r.key]
	if b == nil {
		return
	}
	r.known = true
	for _, x := range e.Batches(e.ctx, ev.chain) {
		if x.ExternalTokenId == token && x.BatchNonce == nonce {
			r.storedByHub = true
		}
	}
	digest := b.GetCheckpoint([]byte(ev.gid))
	vs, rs, ss := ev.slots(r.key, digest, mask, &r)
	var am, fs []*big.Int
	var ds []common.Address
	for _, t := range b.Transactions {
		am = append(am, t.Token.Amount.BigInt())
		fs = append(fs, t.Fee.Amount.BigInt())
		ds = append(ds, common.HexToAddress(t.ExternalRecipient))
	}
	tokAddr := common.HexToAddress(token)
	last, _ := ev.hub.LastBatchNonce(nil, tokAddr)
	r.nonceOK = last.Uint64() < nonce
	r.timeoutOK = ev.blockNumber() < b.Timeout
	btx, err := ev.hub.SubmitBatch(ev.relayer, ev.curAddrs(), ev.curPowers(), new(big.Int).SetUint64(ev.curNonce), vs, rs, ss, am, ds, fs,
		new(big.Int).SetUint64(nonce), tokAddr, new(big.Int).SetUint64(b.Timeout))
	r.accepted = ev.mined(btx, err)
	if err != nil {
		r.desc = err.Error()
	}
	if r.accepted {
		ev.execd[r.key] = true
	}
}

func (e *Env) evmDeposit(ui int, tokA common.Address, amount *big.Int, destChain string, dest common.Address, fee *big.Int) {
	ev := e.evm
	r := evmRelay{kind: "deposit"}
	defer func() { ev.last = r }()
	if ui >= len(ev.users) {
		return
	}
	usr := ev.users[ui]
	tok := ev.toks[tokA]
	if tok == nil {
		return
	}
	if atx, err := tok.Approve(usr, ev.hubAddr, amount); !ev.mined(atx, err) {
		return
	}
	var c32, d32 [32]byte
	copy(c32[:], destChain)
	copy(d32[12:], dest.Bytes())
	dtx, err := ev.hub.TransferToChain(usr, tokA, c32, d32, amount, fee)
	r.accepted = ev.mined(dtx, err)
}

// evmPoll returns the contract's new events as hub claims (`sse ...`, `bex ...`, `ttc ...`), in event-nonce order.
func (e *Env) evmPoll() []string {
	ev := e.evm
	if ev == nil || ev.failed != "" {
		return nil
	}
	type item struct {
		n uint64
		s string
	}
	var items []item
	opts := &bind.FilterOpts{Start: 0, Context: context.Background()}
	if it, err := ev.hub.FilterValsetUpdatedEvent(opts, nil); err == nil {
		for it.Next() {
			x := it.Event
			var ms []string
			for i := range x.Validators {
				ms = append(ms, fmt.Sprintf("%s:%d", x.Validators[i].Hex(), x.Powers[i].Uint64()))
			}
			mem := "-"
			if len(ms) > 0 {
				mem = strings.Join(ms, ",")
			}
			items = append(items, item{x.EventNonce.Uint64(), fmt.Sprintf("sse %d %d %d %s %s", x.EventNonce.Uint64(), x.NewValsetNonce.Uint64(), x.Raw.BlockNumber, x.Raw.TxHash.Hex(), mem)})
		}
	}
	if it, err := ev.hub.FilterTransactionBatchExecutedEvent(opts, nil, nil); err == nil {
		for it.Next() {
			x := it.Event
			items = append(items, item{x.EventNonce.Uint64(), fmt.Sprintf("bex %s %d %d %d %s 0 %s", x.Token.Hex(), x.EventNonce.Uint64(), x.BatchNonce.Uint64(), x.Raw.BlockNumber, x.Raw.TxHash.Hex(), ev.relayer.From.Hex())})
		}
	}
	if it, err := ev.hub.FilterTransferToChainEvent(opts, nil, nil, nil); err == nil {
		for it.Next() {
			x := it.Event
			chain := strings.TrimRight(string(x.DestinationChain[:]), "\x00")
			items = append(items, item{x.EventNonce.Uint64(), fmt.Sprintf("ttc %d %s %s %s %s %s %s %d %s", x.EventNonce.Uint64(), x.TokenContract.Hex(), x.Amount, x.Fee,
				x.Sender.Hex(), chain, common.BytesToAddress(x.Destination[12:]).Hex(), x.Raw.BlockNumber, x.Raw.TxHash.Hex())})
		}
	}
	sort.Slice(items, func(i, j int) bool { return items[i].n < items[j].n })
	var out []string
	for _, it := range items {
		if it.n > ev.polled {
			out = append(out, it.s)
			ev.polled = it.n
		}
	}
	return out
}

// signCheckpoint: a validator's orchestrator signs the checkpoint of an outgoing transaction with the key of `ext`.
func (e *Env) signCheckpoint(otx types.OutgoingTx, ext string) []byte {
	k := ethKeyByAddr[ext]
	if k == nil {
		return []byte{1, 2}
	}
	sig, err := types.NewEthereumSignature(otx.GetCheckpoint([]byte(e.k.GetParams(e.ctx).GravityId)), k)
	if err != nil {
		panic(err)
	}
	return sig
}
