//go:build mloop

package main

// The closed loop hub <-> minter-connector <-> Minter multisig (property C08, Minter side).
//
// `world mx:<cmd>:...` operations run the repository's own connector code (cmd/mhub-minter-connector/main.go,
// compiled into this binary: relayBatches, relayValsets, relayMinterEvents) for every validator:
//   * its gRPC queries are served, over an in-memory connection, by the real keeper of this harness;
//   * what it hands to its tx committer (confirmations, claims) is captured and fed back into the hub by the
//     generator as ordinary `confirm` / `vote` operations, so the hub side stays under the model correspondence;
//   * the Minter node is scripted: it keeps the multisig account (members, weights, threshold, nonce), decodes every
//     transaction the connector sends with the Minter SDK, applies Minter's multisig rule and, when it accepts,
//     puts the transaction into a new block for relayMinterEvents to find.

import (
	"context"
	"encoding/json"
	"encoding/hex"
	"fmt"
	"math/big"
	"net"
	"os"
	"path/filepath"
	"reflect"
	"sort"
	"strconv"
	"strings"
	"sync"
	"time"
	"unsafe"

	"github.com/MinterTeam/minter-go-sdk/v2/api/http_client"
	"github.com/MinterTeam/minter-go-sdk/v2/api/http_client/client/api_service"
	"github.com/MinterTeam/minter-go-sdk/v2/api/http_client/models"
	"github.com/MinterTeam/minter-go-sdk/v2/transaction"
	"github.com/MinterTeam/minter-go-sdk/v2/wallet"
	sdk "github.com/cosmos/cosmos-sdk/types"
	"github.com/cosmos/cosmos-sdk/types/query"
	"github.com/ethereum/go-ethereum/crypto"
	"github.com/go-openapi/strfmt"
	"github.com/tendermint/tendermint/libs/log"
	"google.golang.org/grpc"
	"google.golang.org/grpc/test/bufconn"

	"github.com/MinterTeam/mhub2/minter-connector/config"
	mctx "github.com/MinterTeam/mhub2/minter-connector/context"
	"github.com/MinterTeam/mhub2/minter-connector/tx_committer"
	"github.com/MinterTeam/mhub2/module/x/mhub2/types"
)

var _ = connectorMain

// ---------------------------------------------------------------- scripted Minter node

type mxSubmission struct {
	kind       string // "batch" | "valset" | "?"
	nonce      uint64 // multisig transaction nonce (= hub sequence)
	payload    string
	signers    []string // distinct recovered signer addresses (Mx...)
	weight     uint64   // summed weight of the signers that are members
	threshold  uint64
	nextNonce  uint64
	accepted   bool
	reason     string
	items      []string // multisend items coin:to:value
	newMembers []string // edit multisig: addr:weight
	members    map[string]uint64 // the multisig's members and weights when the transaction arrived
	order      []string          // ... in the multisig's order
}

type mxNode struct {
	api_service.ClientService
	mu        sync.Mutex
	multisig  string
	blocks    []*models.BlockResponse
	addrs     []string // members (Mx...)
	weights   []uint64
	threshold uint64
	nonce     uint64 // number of transactions the multisig has sent
	txCount   int
	subs      []mxSubmission
	valset    uint64 // nonce carried by the last accepted edit-multisig payload
	truth     map[string]mxTruth // by transaction hash
	custody   map[string]*big.Int // coin id -> coins held by the multisig account (deposits in, accepted multisends out)
}

func (f *mxNode) height() uint64 {
	if len(f.blocks) == 0 {
		return 0
	}
	return f.blocks[len(f.blocks)-1].Height
}

func (f *mxNode) Status(p *api_service.StatusParams, _ ...api_service.ClientOption) (*api_service.StatusOK, error) {
	return &api_service.StatusOK{Payload: &models.StatusResponse{LatestBlockHeight: f.height()}}, nil
}

func (f *mxNode) Blocks(p *api_service.BlocksParams, _ ...api_service.ClientOption) (*api_service.BlocksOK, error) {
	var out []*models.BlockResponse
	for _, b := range f.blocks {
		if b.Height >= p.FromHeight && b.Height <= p.ToHeight {
			out = append(out, b)
		}
	}
	return &api_service.BlocksOK{Payload: &models.BlocksResponse{Blocks: out}}, nil
}

func (f *mxNode) Address(p *api_service.AddressParams, _ ...api_service.ClientOption) (*api_service.AddressOK, error) {
	r := &models.AddressResponse{TransactionCount: f.nonce}
	if p.Address == f.multisig {
		ms := &models.Multisig{Threshold: f.threshold}
		for i, a := range f.addrs {
			ms.Addresses = append(ms.Addresses, a)
			ms.Weights = append(ms.Weights, f.weights[i])
		}
		r.Multisig = ms
	}
	return &api_service.AddressOK{Payload: r}, nil
}

func (f *mxNode) newBlock(txs ...*models.TransactionResponse) {
	f.blocks = append(f.blocks, &models.BlockResponse{Height: f.height() + 1, Transactions: txs})
}

// mxTruth: what really happened on Minter in one transaction (the ground truth a claim must report).
type mxTruth struct {
	height  uint64
	kind    string // "deposit" | "batch" | "valset"
	from    string
	coin    string
	value   string
	cmdType string
	recip   string
	fee     string
	nonce   uint64   // batch: hub batch nonce is not on Minter; valset: payload
	members []string // valset: 0x-address:weight
}

// SendTransaction: Minter's rule for a multisig transaction — the nonce is the account's next one, every signature
// belongs to a distinct member, the members' weights reach the threshold.
func (f *mxNode) SendTransaction(p *api_service.SendTransactionParams, _ ...api_service.ClientOption) (*api_service.SendTransactionOK, error) {
	sub := mxSubmission{kind: "?", threshold: f.threshold, nextNonce: f.nonce + 1, members: map[string]uint64{}}
	for i, a := range f.addrs {
		sub.members[a] = f.weights[i]
		sub.order = append(sub.order, a)
	}
	fail := func(code uint64, why string) (*api_service.SendTransactionOK, error) {
		sub.reason = why
		f.subs = append(f.subs, sub)
		return &api_service.SendTransactionOK{Payload: &models.SendTransactionResponse{Code: code, Log: why}}, nil
	}
	tx, err := transaction.Decode(p.Tx)
	if err != nil {
		return fail(106, "decode: "+err.Error())
	}
	t := tx.GetTransaction()
	sub.nonce = t.Nonce
	sub.payload = string(t.Payload)
	sender, err := tx.SenderAddress()
	if err != nil || sender != f.multisig {
		return fail(107, fmt.Sprintf("sender %q is not the multisig (%v)", sender, err))
	}
	signers, err := tx.Signers()
	if err != nil {
		return fail(108, "signers: "+err.Error())
	}
	seen := map[string]bool{}
	dup, foreign := "", ""
	for _, s := range signers {
		s = "Mx" + strings.ToLower(s[2:])
		sub.signers = append(sub.signers, s)
		if seen[s] {
			dup = s
			continue
		}
		seen[s] = true
		member := false
		for i, a := range f.addrs {
			if a == s {
				sub.weight += f.weights[i]
				member = true
			}
		}
		if !member {
			foreign = s
		}
	}
	switch d := tx.Data().(type) {
	case *transaction.MultisendData:
		sub.kind = "batch"
		for _, it := range d.List {
			to := it.To
			sub.items = append(sub.items, fmt.Sprintf("%d:%s:%s", uint64(it.Coin), to.String(), it.Value))
		}
	case *transaction.EditMultisigData:
		sub.kind = "valset"
		for i := range d.Addresses {
			a := d.Addresses[i]
			sub.newMembers = append(sub.newMembers, fmt.Sprintf("%s:%d", a.String(), d.Weights[i]))
		}
	}
	if dup != "" {
		return fail(109, "duplicated signature of "+dup)
	}
	if foreign != "" {
		return fail(110, "signature of a non-member "+foreign)
	}
	if t.Nonce != f.nonce+1 {
		return fail(101, fmt.Sprintf("wrong nonce %d, expected %d", t.Nonce, f.nonce+1))
	}
	if sub.weight < f.threshold {
		return fail(111, fmt.Sprintf("not enough multisig votes: %d of %d", sub.weight, f.threshold))
	}
	// accepted: it is executed and appears in the next block
	f.txCount++
	hash := fmt.Sprintf("Mt%060x", f.txCount)
	resp := &models.TransactionResponse{Hash: hash, From: f.multisig, Nonce: t.Nonce, Payload: strfmt.Base64(t.Payload)}
	switch d := tx.Data().(type) {
	case *transaction.MultisendData:
		if len(d.List) == 0 || len(d.List) > 100 {
			return fail(112, "multisend needs 1..100 items")
		}
		resp.Type = uint64(transaction.TypeMultisend)
		var list []interface{}
		for _, it := range d.List {
			to := it.To
			list = append(list, map[string]interface{}{"coin": map[string]interface{}{"id": strconv.FormatUint(uint64(it.Coin), 10), "symbol": "C"}, "to": to.String(), "value": it.Value.String()})
		}
		any := models.ProtobufAny{"@type": "type.googleapis.com/api_pb.MultiSendData", "list": list}
		resp.Data = &any
	case *transaction.EditMultisigData:
		resp.Type = uint64(transaction.TypeEditMultisig)
		var ws, as []interface{}
		sum := uint64(0)
		var na []string
		var nw []uint64
		for i := range d.Addresses {
			a := d.Addresses[i]
			as = append(as, a.String())
			ws = append(ws, strconv.FormatUint(uint64(d.Weights[i]), 10))
			na = append(na, a.String())
			nw = append(nw, uint64(d.Weights[i]))
			sum += uint64(d.Weights[i])
		}
		if len(na) == 0 || len(na) > 32 {
			return fail(113, "a multisig has 1..32 members")
		}
		if sum < uint64(d.Threshold) {
			return fail(114, fmt.Sprintf("total weight %d below threshold %d", sum, d.Threshold))
		}
		any := models.ProtobufAny{"@type": "type.googleapis.com/api_pb.EditMultisigData", "threshold": strconv.FormatUint(uint64(d.Threshold), 10), "weights": ws, "addresses": as}
		resp.Data = &any
		f.addrs, f.weights, f.threshold = na, nw, uint64(d.Threshold)
		if n, err := strconv.ParseUint(string(t.Payload), 10, 64); err == nil {
			f.valset = n
		}
	default:
		return fail(115, "unsupported transaction type")
	}
	f.nonce++
	sub.accepted = true
	f.subs = append(f.subs, sub)
	f.newBlock(resp)
	if f.truth == nil {
		f.truth = map[string]mxTruth{}
	}
	tr := mxTruth{height: f.height(), kind: sub.kind, from: f.multisig}
	switch d := tx.Data().(type) {
	case *transaction.MultisendData:
		tr.coin = strconv.FormatUint(uint64(d.List[0].Coin), 10)
		for _, it := range d.List {
			f.addCustody(strconv.FormatUint(uint64(it.Coin), 10), new(big.Int).Neg(it.Value))
		}
	case *transaction.EditMultisigData:
		tr.nonce = f.valset
		for i := range d.Addresses {
			a := d.Addresses[i]
			tr.members = append(tr.members, fmt.Sprintf("0x%s:%d", strings.ToLower(a.String()[2:]), d.Weights[i]))
		}
	}
	f.truth[hash] = tr
	return &api_service.SendTransactionOK{Payload: &models.SendTransactionResponse{Code: 0, Hash: hash}}, nil
}

// ---------------------------------------------------------------- connectors

type mxConn struct {
	idx    int
	val    string // validator (hex of the operator address)
	orc    string // orchestrator account (hex)
	key    string // private key, hex
	addr   string // 0x... external address registered on the hub
	ctx    mctx.Context
	srv    *tx_committer.Server
	status string
}

type mxSide struct {
	node     *mxNode
	conns    []*mxConn
	lis      *bufconn.Listener
	gsrv     *grpc.Server
	cc       *grpc.ClientConn
	dir      string
	failed   string
	lastSubs []mxSubmission // submissions made by the last connector call
	pending  []string       // hub operations produced by the last connector call (confirmations, claims) and mxq questions
	echo     []mxEcho       // their recorded results, in order
	inRun    bool           // a connector call is in progress: operations are executed, not echoed
	lastCall string
}

// drainTxCommitter plays the tx committer's background loop: every queued message is delivered (onMsg) before
// CommitTx is released, as the real committer releases it only when the transaction is in a block.
func drainTxCommitter(s *tx_committer.Server, stop <-chan struct{}, onMsg func(sdk.Msg)) {
	v := reflect.ValueOf(s).Elem()
	jobsF, lockF := v.FieldByName("jobs"), v.FieldByName("lock")
	lock := (*sync.Mutex)(unsafe.Pointer(lockF.UnsafeAddr()))
	jobs := reflect.NewAt(jobsF.Type(), unsafe.Pointer(jobsF.UnsafeAddr())).Elem()
	for {
		lock.Lock()
		for i := 0; i < jobs.Len(); i++ {
			j := jobs.Index(i)
			msg := reflect.NewAt(j.Field(0).Type(), unsafe.Pointer(j.Field(0).UnsafeAddr())).Elem().Interface().(sdk.Msg)
			cb := reflect.NewAt(j.Field(1).Type(), unsafe.Pointer(j.Field(1).UnsafeAddr())).Elem().Interface().(func())
			onMsg(msg)
			cb()
		}
		jobs.Set(reflect.Zero(jobsF.Type()))
		lock.Unlock()
		select {
		case <-stop:
			return
		default:
			time.Sleep(200 * time.Microsecond)
		}
	}
}

// mxStart: the multisig exists with the hub's current signer set for the Minter chain (as when the bridge was set
// up); one connector per validator that registered a Minter key.
func (e *Env) mxStart(members []mxConn) {
	mx := &mxSide{node: &mxNode{multisig: cfg.Minter.MultisigAddr, threshold: 667}}
	e.mx = mx
	mx.dir, _ = os.MkdirTemp("", "mxloop")
	set := e.k.CurrentSignerSet(e.ctx, "minter")
	total := uint64(0)
	for _, s := range set {
		total += s.Power
	}
	for _, s := range set {
		mx.node.addrs = append(mx.node.addrs, "Mx"+strings.ToLower(s.ExternalAddress[2:]))
		mx.node.weights = append(mx.node.weights, s.Power*1000/total)
	}
	mx.node.newBlock()
	// the hub's query server behind an in-memory gRPC connection; every call sees the current block context
	mx.lis = bufconn.Listen(1 << 20)
	mx.gsrv = grpc.NewServer(grpc.UnaryInterceptor(
		func(_ context.Context, req interface{}, _ *grpc.UnaryServerInfo, h grpc.UnaryHandler) (interface{}, error) {
			cctx, _ := e.ctx.CacheContext()
			return h(sdk.WrapSDKContext(cctx), req)
		}))
	types.RegisterQueryServer(mx.gsrv, e.k)
	go mx.gsrv.Serve(mx.lis)
	cc, err := grpc.DialContext(context.Background(), "bufnet", grpc.WithInsecure(),
		grpc.WithContextDialer(func(context.Context, string) (net.Conn, error) { return mx.lis.Dial() }))
	if err != nil {
		mx.failed = "grpc: " + err.Error()
		return
	}
	mx.cc = cc
	for i := range members {
		c := members[i]
		pub, err := wallet.PublicKeyByPrivateKey(c.key)
		if err != nil {
			mx.failed = "wallet: " + err.Error()
			return
		}
		addr, _ := wallet.AddressByPublicKey(pub)
		client, err := http_client.New("http://127.0.0.1:1")
		if err != nil {
			mx.failed = err.Error()
			return
		}
		client.ClientService = mx.node
		c.srv = &tx_committer.Server{}
		orc, _ := hex.DecodeString(c.orc)
		c.status = filepath.Join(mx.dir, fmt.Sprintf("status-%d.json", c.idx))
		c.ctx = mctx.Context{MinterMultisigAddr: cfg.Minter.MultisigAddr, CosmosConn: cc, MinterClient: client, OrcAddress: sdk.AccAddress(orc),
			TxCommitter: c.srv, MinterWallet: &wallet.Wallet{PrivateKey: c.key, PublicKey: pub, Address: "0x" + addr[2:]}, Logger: log.NewNopLogger()}
		c.ctx.LoadStatus(c.status, config.MinterConfig{StartBlock: 0, StartEventNonce: 1, StartBatchNonce: 1, StartValsetNonce: 0})
		cc2 := c
		mx.conns = append(mx.conns, &cc2)
	}
}

func (e *Env) mxStop() {
	if e.mx == nil {
		return
	}
	if e.mx.cc != nil {
		e.mx.cc.Close()
	}
	if e.mx.gsrv != nil {
		e.mx.gsrv.Stop()
	}
	os.RemoveAll(e.mx.dir)
}

// mxKey: the Minter key of validator i is the secp256k1 key it registered on the hub (same curve and address rule).
func mxKeyHex(i int) string { return hex.EncodeToString(crypto.FromECDSA(ethKeys[i])) }

// msgOps renders a message of the connector as hub operations of the line protocol.
func msgOps(m sdk.Msg) []string {
	var ops []string
	switch x := m.(type) {
	case *types.MsgSubmitExternalTxConfirmation:
		conf, err := types.UnpackConfirmation(x.Confirmation)
		if err != nil {
			return nil
		}
		signer, _ := sdk.AccAddressFromBech32(x.Signer)
		switch cf := conf.(type) {
		case *types.BatchTxConfirmation:
			ops = append(ops, fmt.Sprintf("confirm %s %x batch %s %d %s %x", x.ChainId, []byte(signer), cf.ExternalTokenId, cf.BatchNonce, cf.ExternalSigner, cf.Signature))
		case *types.SignerSetTxConfirmation:
			ops = append(ops, fmt.Sprintf("confirm %s %x set %d %s %x", x.ChainId, []byte(signer), cf.SignerSetNonce, cf.ExternalSigner, cf.Signature))
		}
	case *types.MsgSubmitExternalEvent:
		ev, err := types.UnpackEvent(x.Event)
		if err != nil {
			return nil
		}
		signer, _ := sdk.AccAddressFromBech32(x.Signer)
		pre := fmt.Sprintf("vote %s %x ", x.ChainId, []byte(signer))
		switch v := ev.(type) {
		case *types.SendToHubEvent:
			recv, _ := sdk.AccAddressFromBech32(v.CosmosReceiver)
			ops = append(ops, pre+fmt.Sprintf("sth %d %s %s %s %x %d %s", v.EventNonce, v.ExternalCoinId, v.Amount, v.Sender, []byte(recv), v.ExternalHeight, v.TxHash))
		case *types.TransferToChainEvent:
			ops = append(ops, pre+fmt.Sprintf("ttc %d %s %s %s %s %s %s %d %s", v.EventNonce, v.ExternalCoinId, v.Amount, v.Fee, v.Sender, v.ReceiverChainId, v.ExternalReceiver, v.ExternalHeight, v.TxHash))
		case *types.BatchExecutedEvent:
			fp := v.FeePaid
			if fp.IsNil() {
				fp = sdk.ZeroInt()
			}
			payer := v.FeePayer
			if payer == "" {
				payer = "-"
			}
			ops = append(ops, pre+fmt.Sprintf("bex %s %d %d %d %s %s %s", v.ExternalCoinId, v.EventNonce, v.BatchNonce, v.ExternalHeight, v.TxHash, fp, payer))
		case *types.SignerSetTxExecutedEvent:
			var ms []string
			for _, mem := range v.Members {
				ms = append(ms, fmt.Sprintf("%s:%d", mem.ExternalAddress, mem.Power))
			}
			mem := "-"
			if len(ms) > 0 {
				mem = strings.Join(ms, ",")
			}
			ops = append(ops, pre+fmt.Sprintf("sse %d %d %d %s %s", v.EventNonce, v.SignerSetTxNonce, v.ExternalHeight, v.TxHash, mem))
		}
	}
	return ops
}

// echo: an operation the connector call has already carried out on the hub (its tx committer returns only when the
// message is in a block) or a `mxq` question whose answer is what the connector really did.  The line is part of the
// history all the same — the model executes it — but here it only gives back the recorded result.
type mxEcho struct{ line, out string }

func (e *Env) mxEchoOut(line string) (string, bool) {
	if e.mx == nil || e.mx.inRun || len(e.mx.echo) == 0 || e.mx.echo[0].line != line {
		return "", false
	}
	out := e.mx.echo[0].out
	e.mx.echo = e.mx.echo[1:]
	return out, true
}

func lowerList(l []string) string {
	if len(l) == 0 {
		return "-"
	}
	return strings.ToLower(strings.Join(l, ","))
}

// mxRun runs one of the connector's three loops for connector i.  Messages handed to the tx committer are executed on
// the hub at once; afterwards the decisions of the call are turned into `mxq` questions for the model.
func (e *Env) mxRun(what string, i int) []string {
	mx := e.mx
	if mx == nil || mx.failed != "" || i >= len(mx.conns) {
		return nil
	}
	c := mx.conns[i]
	mx.echo = nil
	mx.inRun = true
	var lines []string
	stop, drained := make(chan struct{}), make(chan struct{})
	go func() {
		drainTxCommitter(c.srv, stop, func(m sdk.Msg) {
			for _, op := range msgOps(m) {
				out := e.Exec(op)
				mx.echo = append(mx.echo, mxEcho{op, out})
				lines = append(lines, op)
			}
		})
		close(drained)
	}()
	n0 := len(mx.node.subs)
	func() {
		defer func() {
			if r := recover(); r != nil {
				mx.failed = fmt.Sprintf("connector %s panicked: %v", what, r)
			}
		}()
		switch what {
		case "batches":
			relayBatches(c.ctx)
		case "valsets":
			relayValsets(c.ctx)
		case "events":
			c.ctx = relayMinterEvents(c.ctx)
		}
	}()
	close(stop)
	<-drained
	mx.inRun = false
	mx.lastSubs = append([]mxSubmission{}, mx.node.subs[n0:]...)
	mx.lastCall = fmt.Sprintf("%s:%d", what, i)
	ask := func(q, answer string) {
		mx.echo = append(mx.echo, mxEcho{q, answer})
		lines = append(lines, q)
	}
	var sub *mxSubmission
	if len(mx.lastSubs) > 0 {
		sub = &mx.lastSubs[0]
	}
	qctx := sdk.WrapSDKContext(e.ctx)
	members := func(s *mxSubmission) (addrs []string, weights []string) {
		for _, a := range s.order {
			addrs = append(addrs, strings.ToLower(a[2:]))
			weights = append(weights, fmt.Sprint(s.members[a]))
		}
		return
	}
	signers := func(s *mxSubmission) []string {
		var l []string
		for _, a := range s.signers {
			l = append(l, strings.ToLower(a[2:]))
		}
		return l
	}
	switch what {
	case "batches":
		r, err := e.k.BatchTxs(qctx, &types.BatchTxsRequest{ChainId: "minter", Pagination: &query.PageRequest{Limit: 1000}})
		if err != nil {
			break
		}
		var txs []string
		seqNonce := map[uint64]*types.BatchTx{}
		for _, b := range r.Batches {
			sg, _ := e.k.BatchTxConfirmations(qctx, &types.BatchTxConfirmationsRequest{BatchNonce: b.BatchNonce, ExternalTokenId: b.ExternalTokenId, ChainId: "minter"})
			n := 0
			if sg != nil {
				n = len(sg.Signatures)
			}
			txs = append(txs, fmt.Sprintf("%d:%d:%d", b.Sequence, b.BatchNonce, n))
			seqNonce[b.Sequence] = b
		}
		ans := "pick none"
		if sub != nil && seqNonce[sub.nonce] != nil {
			ans = fmt.Sprintf("pick %d/%d", sub.nonce, seqNonce[sub.nonce].BatchNonce)
		}
		in := "-"
		if len(txs) > 0 {
			in = strings.Join(txs, ",")
		}
		// the call starts with the validator's own "unsigned" query and gives up when the hub refuses it (unknown or
		// unbonded validator)
		qok := 1
		if _, err := e.k.UnsignedBatchTxs(qctx, &types.UnsignedBatchTxsRequest{Address: c.ctx.OrcAddress.String(), ChainId: "minter"}); err != nil {
			qok = 0
		}
		ask(fmt.Sprintf("mxq pickb %d %d %s", qok, c.ctx.LastBatchNonce(), in), ans)
		if sub != nil && seqNonce[sub.nonce] != nil {
			b := seqNonce[sub.nonce]
			sg, _ := e.k.BatchTxConfirmations(qctx, &types.BatchTxConfirmationsRequest{BatchNonce: b.BatchNonce, ExternalTokenId: b.ExternalTokenId, ChainId: "minter"})
			var confs []string
			for _, x := range sg.Signatures {
				confs = append(confs, strings.ToLower(x.ExternalSigner[2:]))
			}
			ma, _ := members(sub)
			ask(fmt.Sprintf("mxq sigsb %s %s", lowerList(ma), lowerList(confs)), "sigs "+lowerList(signers(sub)))
		}
	case "valsets":
		r, err := e.k.SignerSetTxs(qctx, &types.SignerSetTxsRequest{ChainId: "minter"})
		if err != nil {
			break
		}
		var txs []string
		bySeq := map[uint64]*types.SignerSetTx{}
		for _, v := range r.SignerSets {
			sg, _ := e.k.SignerSetTxConfirmations(qctx, &types.SignerSetTxConfirmationsRequest{SignerSetNonce: v.Nonce, ChainId: "minter"})
			n := 0
			if sg != nil {
				n = len(sg.Signatures)
			}
			txs = append(txs, fmt.Sprintf("%d:%d:%d", v.Sequence, v.Nonce, n))
			bySeq[v.Sequence] = v
		}
		ans := "pick none"
		if sub != nil && bySeq[sub.nonce] != nil {
			ans = fmt.Sprintf("pick %d/%d", sub.nonce, bySeq[sub.nonce].Nonce)
		}
		in := "-"
		if len(txs) > 0 {
			in = strings.Join(txs, ",")
		}
		qok := 1
		if _, err := e.k.UnsignedSignerSetTxs(qctx, &types.UnsignedSignerSetTxsRequest{Address: c.ctx.OrcAddress.String(), ChainId: "minter"}); err != nil {
			qok = 0
		}
		ask(fmt.Sprintf("mxq pickv %d %d %s", qok, c.ctx.LastValsetNonce(), in), ans)
		if sub != nil && bySeq[sub.nonce] != nil {
			v := bySeq[sub.nonce]
			var ps, ws []string
			for _, sg := range v.Signers {
				ps = append(ps, fmt.Sprint(sg.Power))
			}
			for _, nm := range sub.newMembers {
				ws = append(ws, nm[strings.LastIndex(nm, ":")+1:])
			}
			ask("mxq weights "+lowerList(ps), "weights "+lowerList(ws))
			sg, _ := e.k.SignerSetTxConfirmations(qctx, &types.SignerSetTxConfirmationsRequest{SignerSetNonce: v.Nonce, ChainId: "minter"})
			var confs []string
			for _, x := range sg.Signatures {
				confs = append(confs, strings.ToLower(x.ExternalSigner[2:]))
			}
			ma, _ := members(sub)
			ask(fmt.Sprintf("mxq sigsv 1 %s %s", lowerList(ma), lowerList(confs)), "sigs "+lowerList(signers(sub)))
		}
	}
	if sub != nil && (what == "batches" || what == "valsets") {
		// the node's decision against the multisig rule of the model (only when every signature is of a distinct member:
		// the rule of the model takes a bitmap over the members)
		ok := true
		seen := map[string]bool{}
		for _, a := range sub.signers {
			if _, m := sub.members[a]; !m || seen[a] {
				ok = false
			}
			seen[a] = true
		}
		if ok {
			_, mw := members(sub)
			bits := ""
			for _, a := range sub.order {
				if seen[a] {
					bits += "1"
				} else {
					bits += "0"
				}
			}
			ask(fmt.Sprintf("mxq accept %d %d %s %s", sub.nextNonce, sub.nonce, lowerList(mw), bits), fmt.Sprintf("accept %v", sub.accepted))
		}
	}
	return lines
}

// mxDeposit: a user sends a coin to the multisig with a bridge command in the payload.
func (e *Env) mxDeposit(from string, coin uint64, value string, payload string) {
	mx := e.mx
	mx.node.txCount++
	any := models.ProtobufAny{"@type": "type.googleapis.com/api_pb.SendData", "coin": map[string]interface{}{"id": strconv.FormatUint(coin, 10), "symbol": "C"}, "to": mx.node.multisig, "value": value}
	hash := fmt.Sprintf("Mt%060x", mx.node.txCount)
	mx.node.newBlock(&models.TransactionResponse{Hash: hash, From: from, Type: uint64(transaction.TypeSend), Data: &any, Payload: strfmt.Base64(payload)})
	if mx.node.truth == nil {
		mx.node.truth = map[string]mxTruth{}
	}
	tr := mxTruth{height: mx.node.height(), kind: "deposit", from: from, coin: strconv.FormatUint(coin, 10), value: value}
	if v, ok := new(big.Int).SetString(value, 10); ok {
		mx.node.addCustody(tr.coin, v) // the coins are in the multisig account whatever the payload says
	}
	var cmd struct {
		Type      string `json:"type"`
		Recipient string `json:"recipient"`
		Fee       string `json:"fee"`
	}
	if json.Unmarshal([]byte(payload), &cmd) == nil {
		tr.cmdType, tr.recip, tr.fee = cmd.Type, cmd.Recipient, cmd.Fee
	}
	mx.node.truth[hash] = tr
}

func (e *Env) mxExec(cmd string) {
	p := strings.Split(cmd, ":")
	if len(p) < 2 {
		return
	}
	if p[1] == "start" {
		// mx:start:<validator hex>/<orchestrator hex>/<key index>,...
		var ms []mxConn
		if len(p) > 2 && p[2] != "" {
			for i, it := range strings.Split(p[2], ",") {
				f := strings.Split(it, "/")
				ki, _ := strconv.Atoi(f[2])
				ms = append(ms, mxConn{idx: i, val: f[0], orc: f[1], key: mxKeyHex(ki), addr: ethAddrs[ki]})
			}
		}
		e.mxStart(ms)
		return
	}
	if e.mx == nil || e.mx.failed != "" {
		return
	}
	e.mx.pending = nil
	switch p[1] {
	case "run":
		i, _ := strconv.Atoi(p[3])
		e.mx.pending = e.mxRun(p[2], i)
	case "mine":
		n, _ := strconv.Atoi(p[2])
		for ; n > 0; n-- {
			e.mx.node.newBlock()
		}
	case "deposit":
		// mx:deposit:<from Mx..>:<coin>:<value>:<hex payload>
		coin, _ := strconv.ParseUint(p[3], 10, 64)
		pl, _ := hex.DecodeString(p[5])
		e.mxDeposit(p[2], coin, p[4], string(pl))
	}
}

var _ = sort.Strings

// ---------------------------------------------------------------- monitor (C08, Minter side)

type mxGhost struct {
	confs   map[string]map[string]bool // "set/<nonce>" | "batch/<token>/<nonce>" -> lower(0x external address) of every recorded confirmation
	batches map[uint64]*types.BatchTx  // every Minter batch the hub ever stored, by outgoing sequence
	sets    map[uint64]*types.SignerSetTx
	execd   map[string]bool // tx keys the multisig executed
	preNext uint64          // see mx:presettle
	preKey  string
}

func (m *Monitor) mxGhost() *mxGhost {
	if m.mxg == nil {
		m.mxg = &mxGhost{confs: map[string]map[string]bool{}, batches: map[uint64]*types.BatchTx{}, sets: map[uint64]*types.SignerSetTx{}, execd: map[string]bool{}}
	}
	return m.mxg
}

// mxObserve remembers the hub's outgoing Minter transactions (they are deleted once observed executed).
func (m *Monitor) mxObserve(g *Gen) {
	gh := m.mxGhost()
	for _, b := range g.env.Batches(g.env.ctx, "minter") {
		gh.batches[b.Sequence] = b
	}
	for _, s := range g.env.Sets(g.env.ctx, "minter") {
		gh.sets[s.Sequence] = s
	}
}

func (m *Monitor) checkC08Mx(g *Gen, w []string, out string) {
	mx := g.env.mx
	if mx == nil {
		return
	}
	gh := m.mxGhost()
	if w[0] == "confirm" && out == "ok" && len(w) >= 7 && w[1] == "minter" {
		key, ext := setKey(u64(w[4])), w[5]
		if w[3] != "set" {
			key, ext = batchKey(w[4], u64(w[5])), w[6]
		}
		if gh.confs[key] == nil {
			gh.confs[key] = map[string]bool{}
		}
		gh.confs[key][strings.ToLower(ext)] = true
		return
	}
	m.mxObserve(g)
	if w[0] != "world" || len(w) < 2 {
		return
	}
	if mx.failed != "" {
		m.report(g, "minter-loop-failed", mx.failed)
		return
	}
	if strings.HasPrefix(w[1], "mx:run:events:") {
		// every claim a connector hands in reports a transaction that really happened on Minter, as it happened
		for _, line := range mx.pending {
			f := strings.Fields(line)
			if len(f) < 5 || f[0] != "vote" {
				continue
			}
			bad := func(why string) {
				m.report(g, "claim-differs-from-the-minter-transaction", fmt.Sprintf("%s: %s", why, line))
			}
			switch f[3] {
			case "sth": // sth nonce coin amount sender receiver height tx
				tr, ok := mx.node.truth[f[10]]
				if !ok || tr.kind != "deposit" {
					bad("no such deposit on Minter")
					continue
				}
				recv, _ := sdk.AccAddressFromBech32(tr.recip)
				if f[5] != tr.coin || f[6] != tr.value || strings.ToLower(f[7]) != "0x"+strings.ToLower(tr.from[2:]) || f[8] != fmt.Sprintf("%x", []byte(recv)) || f[9] != fmt.Sprint(tr.height) || tr.cmdType != "send_to_hub" {
					bad(fmt.Sprintf("Minter: %+v", tr))
				}
			case "ttc": // ttc nonce coin amount fee sender chain receiver height tx
				tr, ok := mx.node.truth[f[12]]
				if !ok || tr.kind != "deposit" {
					bad("no such deposit on Minter")
					continue
				}
				chain := map[string]string{"send_to_ethereum": "ethereum", "send_to_bsc": "bsc"}[tr.cmdType]
				fee, _ := new(big.Int).SetString(tr.fee, 0)
				if f[5] != tr.coin || f[6] != tr.value || fee == nil || f[7] != fee.String() || strings.ToLower(f[8]) != "0x"+strings.ToLower(tr.from[2:]) || f[9] != chain ||
					!strings.EqualFold(f[10], tr.recip) || f[11] != fmt.Sprint(tr.height) {
					bad(fmt.Sprintf("Minter: %+v", tr))
				}
			case "bex": // bex coin nonce batchNonce height tx feePaid payer
				tr, ok := mx.node.truth[f[8]]
				if !ok || tr.kind != "batch" || f[4] != tr.coin || f[7] != fmt.Sprint(tr.height) {
					bad(fmt.Sprintf("Minter: %+v", tr))
				}
			case "sse": // sse nonce setNonce height tx members
				tr, ok := mx.node.truth[f[7]]
				if !ok || tr.kind != "valset" || f[5] != fmt.Sprint(tr.nonce) || f[6] != fmt.Sprint(tr.height) || strings.ToLower(f[8]) != strings.ToLower(strings.Join(tr.members, ",")) {
					bad(fmt.Sprintf("Minter: %+v", tr))
				}
			}
		}
	}
	if strings.HasPrefix(w[1], "mx:run:batches:") || strings.HasPrefix(w[1], "mx:run:valsets:") {
		for _, s := range mx.lastSubs {
			cls := "refused:" + strings.SplitN(s.reason, ":", 2)[0]
			if s.accepted {
				cls = "accepted"
			}
			g.stats["mx:submit-"+s.kind+":"+strings.ReplaceAll(strings.Fields(cls)[0], " ", "-")]++
			key := ""
			switch s.kind {
			case "batch":
				b := gh.batches[s.nonce]
				if b == nil {
					m.report(g, "connector-submitted-a-batch-the-hub-never-emitted", fmt.Sprintf("multisig nonce %d items %v", s.nonce, s.items))
					continue
				}
				key = batchKey(b.ExternalTokenId, b.BatchNonce)
				var want []string
				for _, t := range b.Transactions {
					want = append(want, fmt.Sprintf("%s:Mx%s:%s", t.Token.ExternalTokenId, strings.ToLower(t.ExternalRecipient[2:]), t.Token.Amount))
				}
				if strings.ToLower(strings.Join(want, ",")) != strings.ToLower(strings.Join(s.items, ",")) {
					m.report(g, "minter-payout-differs-from-hub-batch", fmt.Sprintf("sequence %d: hub batch %s pays %v, the multisend pays %v", s.nonce, key, want, s.items))
				}
			case "valset":
				v := gh.sets[s.nonce]
				if v == nil {
					m.report(g, "connector-submitted-a-signer-set-the-hub-never-emitted", fmt.Sprintf("multisig nonce %d members %v", s.nonce, s.newMembers))
					continue
				}
				key = setKey(v.Nonce)
				total := uint64(0)
				for _, sg := range v.Signers {
					total += sg.Power
				}
				var want []string
				for _, sg := range v.Signers {
					want = append(want, fmt.Sprintf("Mx%s:%d", strings.ToLower(sg.ExternalAddress[2:]), sg.Power*1000/total))
				}
				if strings.ToLower(strings.Join(want, ",")) != strings.ToLower(strings.Join(s.newMembers, ",")) || s.payload != fmt.Sprint(v.Nonce) {
					m.report(g, "multisig-update-differs-from-hub-signer-set", fmt.Sprintf("sequence %d: hub set %d is %v, the edit-multisig installs %v with payload %q", s.nonce, v.Nonce, want, s.newMembers, s.payload))
				}
			default:
				continue
			}
			// the weight of the multisig members for whom the hub recorded a confirmation of this transaction
			confirmed := uint64(0)
			for a, wgt := range s.members {
				if gh.confs[key]["0x"+strings.ToLower(a[2:])] {
					confirmed += wgt
				}
			}
			what := fmt.Sprintf("%s sequence %d (multisig next nonce %d): signatures of %v carry weight %d, members with a recorded hub confirmation carry %d, threshold %d; %s",
				key, s.nonce, s.nextNonce, s.signers, s.weight, confirmed, s.threshold, s.reason)
			switch {
			case s.accepted && (s.weight < s.threshold || s.nonce != s.nextNonce):
				m.report(g, "multisig-accepted-below-threshold-or-out-of-order", what)
			case !s.accepted && s.nonce == s.nextNonce && confirmed >= s.threshold:
				m.report(g, "multisig-refused-what-enough-weight-confirmed", what)
			}
			if s.accepted {
				gh.execd[key] = true
			}
		}
	}
	if w[1] == "mx:presettle" {
		// remember the transaction whose sequence is the multisig's next nonce, if members holding the threshold have a
		// recorded confirmation for it and nothing the multisig did is still unknown to the hub: one more full turn of
		// every connector must get it executed
		gh.preNext, gh.preKey = 0, ""
		events := uint64(0)
		for _, c := range mx.conns {
			if n := c.ctx.LastEventNonce() - 1; n > events {
				events = n
			}
		}
		if g.env.k.GetLastObservedEventNonce(g.env.ctx, "minter") != events {
			return
		}
		next := mx.node.nonce + 1
		key := ""
		for _, b := range g.env.Batches(g.env.ctx, "minter") {
			if b.Sequence == next {
				key = batchKey(b.ExternalTokenId, b.BatchNonce)
			}
		}
		for _, v := range g.env.Sets(g.env.ctx, "minter") {
			if v.Sequence == next {
				key = setKey(v.Nonce)
			}
		}
		if key == "" {
			return
		}
		// every validator that runs a connector and is bonded has been asked several times what it has not signed yet: the hub
		// must have offered it this transaction, so its confirmation is on record
		for _, c := range mx.conns {
			bonded := false
			for _, v := range g.env.staking.vals {
				if fmt.Sprintf("%x", []byte(v.addr)) == c.val && v.bonded {
					bonded = true
				}
			}
			if bonded && !gh.confs[key]["0x"+strings.ToLower(c.addr[2:])] {
				m.report(g, "pending-transaction-never-offered-for-signing(minter)", fmt.Sprintf("%s (sequence %d = the multisig's next nonce) has no confirmation of bonded validator %s after several full turns of its connector", key, next, c.val))
			}
		}
		confirmed := uint64(0)
		for i, a := range mx.node.addrs {
			if gh.confs[key]["0x"+strings.ToLower(a[2:])] {
				confirmed += mx.node.weights[i]
			}
		}
		if confirmed >= mx.node.threshold {
			gh.preNext, gh.preKey = next, key
			g.stats["C08:mx-presettle-next-transaction-fully-confirmed"]++
		} else {
			g.stats["C08:mx-presettle-next-transaction-lacks-confirmations"]++
		}
		return
	}
	if w[1] == "mx:settle" {
		// every connector has signed, relayed and reported repeatedly: the two sides must be in step
		events := uint64(0)
		for _, c := range mx.conns {
			if n := c.ctx.LastEventNonce() - 1; n > events {
				events = n
			}
		}
		lo := g.env.k.GetLastObservedEventNonce(g.env.ctx, "minter")
		if lo != events {
			g.stats["C08:mx-settle-skipped(events-not-all-applied)"]++
			return
		}
		g.stats["C08:mx-settle-checked"]++
		if mx.node.valset > 0 {
			if s := g.env.k.GetLastObservedSignerSetTx(g.env.ctx, "minter"); s == nil || s.Nonce != mx.node.valset {
				m.report(g, "signer-set-nonces-out-of-step(minter)", fmt.Sprintf("multisig installed set %d, hub last observed signer set %v", mx.node.valset, s))
			}
		}
		for k := range gh.execd {
			if strings.HasPrefix(k, "batch/") {
				for _, b := range g.env.Batches(g.env.ctx, "minter") {
					if batchKey(b.ExternalTokenId, b.BatchNonce) == k {
						m.report(g, "executed-batch-still-pending-on-the-hub(minter)", k)
					}
				}
			}
		}
		pending := len(g.env.Batches(g.env.ctx, "minter"))
		if pending > 0 {
			g.stats["C08:mx-settle-with-batches-still-pending"]++
		}
		if gh.preNext != 0 && mx.node.nonce < gh.preNext {
			m.report(g, "confirmed-transaction-never-reached-the-multisig", fmt.Sprintf("%s had sequence %d = the multisig's next nonce, recorded confirmations of members with weight >= %d and every Minter event applied on the hub; after another full turn of every connector it is still not executed (multisig nonce %d)", gh.preKey, gh.preNext, mx.node.threshold, mx.node.nonce))
		}
	}
}

func (f *mxNode) addCustody(coin string, d *big.Int) {
	if f.custody == nil {
		f.custody = map[string]*big.Int{}
	}
	if f.custody[coin] == nil {
		f.custody[coin] = new(big.Int)
	}
	f.custody[coin].Add(f.custody[coin], d)
}

// ---------------------------------------------------------------- monitor (C01, Minter side of the closed loop)

// checkC01Mx: for every denomination, hub supply plus everything in flight (pool and batch entries of every chain,
// amount + fee + commission, in hub units) never exceeds what backs it: the coins the accounts were funded with at
// set-up, the coins held by the Minter multisig, and what the multisig has already paid out for batches the hub still
// stores (the hub hears of an execution only through the connectors' claims).
func (m *Monitor) checkC01Mx(g *Gen, w []string, out string, b, a *snapshot) {
	if m.mxFunded == nil {
		m.mxFunded = map[string]*big.Int{}
	}
	if w[0] == "fund" && out == "ok" && len(w) >= 4 {
		add(m.mxFunded, w[2], bi(w[3]))
	}
	mx := g.env.mx
	if mx == nil || mx.failed != "" {
		return
	}
	m.mxObserve(g)
	gh := m.mxGhost()
	for _, s := range mx.lastSubs {
		if s.accepted && s.kind == "batch" {
			if bt := gh.batches[s.nonce]; bt != nil {
				gh.execd[batchKey(bt.ExternalTokenId, bt.BatchNonce)] = true
			}
		}
	}
	for _, d := range g.denoms {
		value := new(big.Int)
		if v := a.supply[d]; v != nil {
			value.Add(value, v)
		}
		paidUnobserved := new(big.Int)
		for _, c := range g.chains {
			entry := func(s steView) {
				t := m.tok(c, s.extToken)
				if t == nil || t.denom != d {
					return
				}
				value.Add(value, conv(t.dec, 18, new(big.Int).Add(new(big.Int).Add(s.amount, s.fee), s.comm)))
			}
			for _, s := range a.pool[c] {
				entry(s)
			}
			for _, bt := range a.batches[c] {
				for _, s := range bt.txs {
					entry(s)
					if c == "minter" && gh.execd[batchKey(bt.extToken, bt.nonce)] {
						if t := m.tok(c, s.extToken); t != nil && t.denom == d {
							paidUnobserved.Add(paidUnobserved, s.amount)
						}
					}
				}
			}
		}
		funds := new(big.Int)
		if v := m.mxFunded[d]; v != nil {
			funds.Add(funds, v)
		}
		if t := m.tokByDenom("minter", d); t != nil {
			if v := mx.node.custody[t.ext]; v != nil {
				funds.Add(funds, v)
			}
		}
		funds.Add(funds, paidUnobserved)
		if value.Cmp(funds) > 0 {
			m.report(g, "vouchers-exceed-custody(minter-loop)", fmt.Sprintf("denom %s after %v: supply + in flight = %s exceeds funded %s + held by the multisig + paid out but not yet observed (%s) = %s",
				d, w, value, m.mxFunded[d], paidUnobserved, funds))
		}
	}
}
