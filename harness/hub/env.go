package main

import (
	"fmt"
	"os"
	"sort"
	"strings"
	"time"

	"github.com/cosmos/cosmos-sdk/codec"
	codectypes "github.com/cosmos/cosmos-sdk/codec/types"
	"github.com/cosmos/cosmos-sdk/crypto/keys/ed25519"
	"github.com/cosmos/cosmos-sdk/std"
	"github.com/cosmos/cosmos-sdk/store"
	sdk "github.com/cosmos/cosmos-sdk/types"
	authkeeper "github.com/cosmos/cosmos-sdk/x/auth/keeper"
	authtypes "github.com/cosmos/cosmos-sdk/x/auth/types"
	bankkeeper "github.com/cosmos/cosmos-sdk/x/bank/keeper"
	banktypes "github.com/cosmos/cosmos-sdk/x/bank/types"
	paramskeeper "github.com/cosmos/cosmos-sdk/x/params/keeper"
	paramstypes "github.com/cosmos/cosmos-sdk/x/params/types"
	slashingtypes "github.com/cosmos/cosmos-sdk/x/slashing/types"
	stakingtypes "github.com/cosmos/cosmos-sdk/x/staking/types"
	"github.com/tendermint/tendermint/libs/log"
	tmproto "github.com/tendermint/tendermint/proto/tendermint/types"
	dbm "github.com/tendermint/tm-db"

	"github.com/MinterTeam/mhub2/module/x/mhub2/keeper"
	"github.com/MinterTeam/mhub2/module/x/mhub2/types"
	oraclekeeper "github.com/MinterTeam/mhub2/module/x/oracle/keeper"
	oracletypes "github.com/MinterTeam/mhub2/module/x/oracle/types"
)

// ---------------------------------------------------------------- fake staking

type fakeVal struct {
	addr   sdk.ValAddress
	power  int64
	bonded bool
	pk     *codectypes.Any
}

// FakeStaking is a scripted staking keeper: the per-block environment of the model.
// Unlike the repository's test mock it returns 0 for unknown validators, as the real
// staking keeper does.
type FakeStaking struct {
	vals []fakeVal
	pks  map[string]*codectypes.Any
}

func NewFakeStaking() *FakeStaking { return &FakeStaking{pks: map[string]*codectypes.Any{}} }

func (s *FakeStaking) Set(vals []fakeVal) {
	for i := range vals {
		k := string(vals[i].addr)
		if s.pks[k] == nil {
			pk, err := codectypes.NewAnyWithValue(ed25519.GenPrivKeyFromSecret(vals[i].addr).PubKey())
			if err != nil {
				panic(err)
			}
			s.pks[k] = pk
		}
		vals[i].pk = s.pks[k]
	}
	s.vals = vals
}

func (s *FakeStaking) toVal(v fakeVal) stakingtypes.Validator {
	st := stakingtypes.Unbonded
	if v.bonded {
		st = stakingtypes.Bonded
	}
	// a validator holds its stake whether it is in the bonded set or not (power = tokens / power reduction)
	return stakingtypes.Validator{ConsensusPubkey: v.pk, OperatorAddress: v.addr.String(), Status: st,
		Tokens: sdk.NewInt(v.power).Mul(sdk.DefaultPowerReduction), DelegatorShares: sdk.NewDec(v.power)}
}

func (s *FakeStaking) GetBondedValidatorsByPower(ctx sdk.Context) []stakingtypes.Validator {
	var bonded []fakeVal
	for _, v := range s.vals {
		if v.bonded {
			bonded = append(bonded, v)
		}
	}
	sort.SliceStable(bonded, func(i, j int) bool {
		if bonded[i].power != bonded[j].power {
			return bonded[i].power > bonded[j].power
		}
		return strings.Compare(string(bonded[i].addr), string(bonded[j].addr)) < 0
	})
	out := make([]stakingtypes.Validator, len(bonded))
	for i, v := range bonded {
		out[i] = s.toVal(v)
	}
	return out
}

func (s *FakeStaking) GetLastValidatorPower(ctx sdk.Context, operator sdk.ValAddress) int64 {
	for _, v := range s.vals {
		if v.addr.Equals(operator) {
			if v.bonded {
				return v.power
			}
			return 0
		}
	}
	return 0
}

func (s *FakeStaking) GetLastTotalPower(ctx sdk.Context) sdk.Int {
	t := int64(0)
	for _, v := range s.vals {
		if v.bonded {
			t += v.power
		}
	}
	return sdk.NewInt(t)
}

func (s *FakeStaking) iterate(cb func(int64, stakingtypes.ValidatorI) bool, bondedOnly bool) {
	i := int64(0)
	for _, v := range s.vals {
		if bondedOnly && !v.bonded {
			continue
		}
		if cb(i, s.toVal(v)) {
			return
		}
		i++
	}
}

func (s *FakeStaking) IterateValidators(ctx sdk.Context, cb func(int64, stakingtypes.ValidatorI) bool) {
	s.iterate(cb, false)
}
func (s *FakeStaking) IterateBondedValidatorsByPower(ctx sdk.Context, cb func(int64, stakingtypes.ValidatorI) bool) {
	s.iterate(cb, true)
}
func (s *FakeStaking) IterateLastValidators(ctx sdk.Context, cb func(int64, stakingtypes.ValidatorI) bool) {
	s.iterate(cb, true)
}
func (s *FakeStaking) Validator(ctx sdk.Context, addr sdk.ValAddress) stakingtypes.ValidatorI {
	for _, v := range s.vals {
		if v.addr.Equals(addr) {
			return s.toVal(v)
		}
	}
	return nil
}
func (s *FakeStaking) ValidatorByConsAddr(sdk.Context, sdk.ConsAddress) stakingtypes.ValidatorI {
	return nil
}
func (s *FakeStaking) GetParams(ctx sdk.Context) stakingtypes.Params {
	return stakingtypes.DefaultParams()
}
func (s *FakeStaking) GetValidator(ctx sdk.Context, addr sdk.ValAddress) (stakingtypes.Validator, bool) {
	for _, v := range s.vals {
		if v.addr.Equals(addr) {
			return s.toVal(v), true
		}
	}
	return stakingtypes.Validator{}, false
}
func (s *FakeStaking) ValidatorQueueIterator(ctx sdk.Context, endTime time.Time, endHeight int64) sdk.Iterator {
	panic("unexpected call: ValidatorQueueIterator")
}
func (s *FakeStaking) Slash(sdk.Context, sdk.ConsAddress, int64, int64, sdk.Dec) {}
func (s *FakeStaking) Jail(sdk.Context, sdk.ConsAddress)                         {}

type noSlashing struct{}

func (noSlashing) GetValidatorSigningInfo(ctx sdk.Context, address sdk.ConsAddress) (slashingtypes.ValidatorSigningInfo, bool) {
	return slashingtypes.ValidatorSigningInfo{}, false
}

// ---------------------------------------------------------------- fake oracle (scripted prices / holders)

type FakeOracle struct {
	prices  map[string]sdk.Dec
	holders map[string]sdk.Int
}

func (o *FakeOracle) MustGetTokenPrice(ctx sdk.Context, denom string) sdk.Dec {
	p, err := o.GetTokenPrice(ctx, denom)
	if err != nil {
		panic(err)
	}
	return p
}
func (o *FakeOracle) GetTokenPrice(ctx sdk.Context, denom string) (sdk.Dec, error) {
	if p, ok := o.prices[denom]; ok {
		return p, nil
	}
	return sdk.Dec{}, fmt.Errorf("key not found")
}
func (o *FakeOracle) GetHolderValue(ctx sdk.Context, address string) sdk.Int {
	if v, ok := o.holders[strings.ToLower(address)]; ok {
		return v
	}
	return sdk.NewInt(0)
}

// ---------------------------------------------------------------- environment

type Env struct {
	db        dbm.DB
	ms        sdk.CommitMultiStore
	rootCtx   sdk.Context
	ctx       sdk.Context // current block context (cache-wrapped once a block is open)
	blockOpen bool
	writeBlk  func()

	hubKey     *sdk.KVStoreKey
	bankKey    *sdk.KVStoreKey
	oracleKey  *sdk.KVStoreKey
	keyAcc     *sdk.KVStoreKey
	keyParams  *sdk.KVStoreKey
	tkeyParams *sdk.TransientStoreKey
	pk         paramskeeper.Keeper
	replica    int // 0: the run that is compared with the model; 1, 2: the determinism replicas

	cdc           codec.Codec
	acc           authkeeper.AccountKeeper
	bank          bankkeeper.BaseKeeper
	staking       *FakeStaking
	oracle        *FakeOracle
	k             keeper.Keeper
	msg           types.MsgServer
	ok            oraclekeeper.Keeper // real oracle keeper (used by oracle profiles)
	useRealOracle bool

	// pending genesis configuration
	params     types.Params
	tokens     []*types.TokenInfo
	inited     bool
	height     int64
	unixTime   int64
	moduleAddr sdk.AccAddress
	lastPanic  string
	lastPanicSite string // innermost module function on the stack of the last recovered panic
	dead       bool
	evDigest   []byte
	lastErr    string
	evm        *evmSide // the compiled contract side of the closed loop (evmloop profile)
	mx         *mxSide  // connectors + scripted Minter node (mloop profile, binary built with -tags mloop)
}

func makeCodec() codec.Codec {
	ir := codectypes.NewInterfaceRegistry()
	std.RegisterInterfaces(ir)
	authtypes.RegisterInterfaces(ir)
	banktypes.RegisterInterfaces(ir)
	types.RegisterInterfaces(ir)
	oracletypes.RegisterInterfaces(ir)
	return codec.NewProtoCodec(ir)
}

func NewEnv(realOracle bool) *Env {
	e := &Env{useRealOracle: realOracle}
	e.hubKey = sdk.NewKVStoreKey(types.StoreKey)
	keyAcc := sdk.NewKVStoreKey(authtypes.StoreKey)
	e.bankKey = sdk.NewKVStoreKey(banktypes.StoreKey)
	keyParams := sdk.NewKVStoreKey(paramstypes.StoreKey)
	tkeyParams := sdk.NewTransientStoreKey(paramstypes.TStoreKey)
	e.oracleKey = sdk.NewKVStoreKey(oracletypes.StoreKey)

	e.db = dbm.NewMemDB()
	ms := store.NewCommitMultiStore(e.db)
	ms.MountStoreWithDB(e.hubKey, sdk.StoreTypeIAVL, e.db)
	ms.MountStoreWithDB(keyAcc, sdk.StoreTypeIAVL, e.db)
	ms.MountStoreWithDB(e.bankKey, sdk.StoreTypeIAVL, e.db)
	ms.MountStoreWithDB(keyParams, sdk.StoreTypeIAVL, e.db)
	ms.MountStoreWithDB(tkeyParams, sdk.StoreTypeTransient, e.db)
	ms.MountStoreWithDB(e.oracleKey, sdk.StoreTypeIAVL, e.db)
	if err := ms.LoadLatestVersion(); err != nil {
		panic(err)
	}
	e.ms = ms
	e.height = 1
	e.unixTime = 1600000000
	e.rootCtx = sdk.NewContext(ms, tmproto.Header{Height: e.height, Time: time.Unix(e.unixTime, 0).UTC()}, false, log.NewNopLogger())
	e.ctx = e.rootCtx

	e.keyAcc, e.keyParams, e.tkeyParams = keyAcc, keyParams, tkeyParams
	e.cdc = makeCodec()
	e.staking = NewFakeStaking()
	e.oracle = &FakeOracle{prices: map[string]sdk.Dec{}, holders: map[string]sdk.Int{}}
	e.buildKeepers(true)

	dp := types.DefaultParams()
	e.params = *dp
	e.params.Chains = []string{"ethereum", "minter", "bsc", "hub"}
	return e
}

func (e *Env) Init() {
	if e.inited {
		return
	}
	gs := types.GenesisState{Params: &e.params, TokenInfos: &types.TokenInfos{TokenInfos: e.tokens}}
	keeper.InitGenesis(e.rootCtx, e.k, gs)
	{
		op := oracletypes.DefaultParams()
		oraclekeeper.InitGenesis(e.rootCtx, e.ok, oracletypes.GenesisState{Params: op})
	}
	e.inited = true
}

// SetBlock closes the open block (writing its cache into the root store) and opens a new
// cache-wrapped block context, like baseapp's deliverState.
func (e *Env) SetBlock(height, unix int64) {
	e.Init()
	if e.blockOpen {
		e.writeBlk()
	}
	e.height, e.unixTime = height, unix
	e.rootCtx = e.rootCtx.WithBlockHeader(tmproto.Header{Height: height, Time: time.Unix(unix, 0).UTC()})
	cms := e.ms.CacheMultiStore()
	var lg log.Logger = log.NewNopLogger()
	if os.Getenv("VERIF_LOG") != "" {
		lg = log.NewTMLogger(os.Stderr)
	}
	e.ctx = sdk.NewContext(cms, tmproto.Header{Height: height, Time: time.Unix(unix, 0).UTC()}, false, lg)
	e.writeBlk = cms.Write
	e.blockOpen = true
}

func (e *Env) Flush() {
	if e.blockOpen {
		e.writeBlk()
		e.blockOpen = false
		e.ctx = e.rootCtx
	}
}

// buildKeepers constructs every keeper object over the existing stores.  Called once by NewEnv and again by a
// "process restart" (world restart): whatever a keeper holds in memory is gone afterwards, the stores are not.
func (e *Env) buildKeepers(first bool) {
	amino := codec.NewLegacyAmino()
	pk := paramskeeper.NewKeeper(e.cdc, amino, e.keyParams, e.tkeyParams)
	pk.Subspace(authtypes.ModuleName)
	pk.Subspace(banktypes.ModuleName)
	pk.Subspace(types.DefaultParamspace)
	pk.Subspace(oracletypes.ModuleName)
	e.pk = pk
	sub := func(n string) paramstypes.Subspace { s, _ := pk.GetSubspace(n); return s }

	maccPerms := map[string][]string{
		types.ModuleName: {authtypes.Minter, authtypes.Burner},
	}
	e.acc = authkeeper.NewAccountKeeper(e.cdc, e.keyAcc, sub(authtypes.ModuleName), authtypes.ProtoBaseAccount, maccPerms)
	blocked := map[string]bool{authtypes.NewModuleAddress(types.ModuleName).String(): true}
	e.bank = bankkeeper.NewBaseKeeper(e.cdc, e.bankKey, e.acc, sub(banktypes.ModuleName), blocked)
	if first {
		e.acc.SetParams(e.rootCtx, authtypes.DefaultParams())
		e.bank.SetParams(e.rootCtx, banktypes.Params{DefaultSendEnabled: true})
	}
	e.moduleAddr = authtypes.NewModuleAddress(types.ModuleName)

	var oracleForHub types.OracleKeeper = e.oracle
	e.ok = oraclekeeper.NewKeeper(e.cdc, e.oracleKey, sub(oracletypes.ModuleName).WithKeyTable(oracletypes.ParamKeyTable()), e.staking)
	if e.useRealOracle {
		oracleForHub = e.ok
	}
	k := keeper.NewKeeper(e.cdc, e.hubKey, sub(types.DefaultParamspace), e.acc, e.bank, noSlashing{}, oracleForHub, sdk.DefaultPowerReduction)
	k = k.SetStakingKeeper(e.staking)
	e.k = k
	e.ok = e.ok.SetMhub2Keeper(e.k)
	e.msg = keeper.NewMsgServerImpl(e.k)
}
