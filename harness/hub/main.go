package main

import (
	"fmt"

	"github.com/MinterTeam/mhub2/module/x/mhub2/types"
	sdk "github.com/cosmos/cosmos-sdk/types"
)

func main() {
	fmt.Println(types.EventVoteRecordPowerThreshold(sdk.NewInt(3)))
}
