package main

import (
	"bufio"
	"flag"
	"fmt"
	"os"
	"strings"
)

// hubharness run  < ops      : execute op lines against the real code, one output line per op
// hubharness gen ...         : generate histories (see gen.go)
func main() {
	if len(os.Args) < 2 {
		fmt.Println("usage: hubharness run|gen ...")
		os.Exit(2)
	}
	switch os.Args[1] {
	case "run":
		fs := flag.NewFlagSet("run", flag.ExitOnError)
		realOracle := fs.Bool("real-oracle", false, "wire the real oracle keeper")
		fs.Parse(os.Args[2:])
		runOps(os.Stdin, os.Stdout, *realOracle)
	case "gen":
		genMain(os.Args[2:])
	case "replay":
		replayMain(os.Args[2:])
	default:
		fmt.Println("unknown command")
		os.Exit(2)
	}
}

func runOps(in *os.File, out *os.File, realOracle bool) {
	sc := bufio.NewScanner(in)
	sc.Buffer(make([]byte, 1<<20), 1<<26)
	w := bufio.NewWriter(out)
	defer w.Flush()
	env := NewEnv(realOracle)
	for sc.Scan() {
		line := strings.TrimSpace(sc.Text())
		if line == "reset" {
			env = NewEnv(realOracle)
		}
		fmt.Fprintln(w, env.Exec(line))
		w.Flush()
	}
}
