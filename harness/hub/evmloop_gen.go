package main

// evmloop profile: the hub, its validators, a relayer and the compiled Hub2 contract in one history.

import (
	"encoding/hex"
	"fmt"
	"math/big"
	"strings"

	sdk "github.com/cosmos/cosmos-sdk/types"

	"github.com/MinterTeam/mhub2/module/x/mhub2/types"
)

func (g *Gen) evmFeedback() {
	for _, ev := range g.env.evmPoll() {
		g.voteAll("ethereum", ev)
	}
}

func (g *Gen) evmBlock() {
	g.do("end")
	g.dumpAll()
	g.height++
	g.time += int64(3 + g.rng.Intn(5))
	g.do(fmt.Sprintf("block %d %d", g.height, g.time))
	g.do("begin")
	g.do("world x:observe")
	g.dumpAll()
}

// evmConfirmRound: every validator with a key asks the hub what it has not signed yet (the orchestrator's own
// queries) and confirms it.
func (g *Gen) evmConfirmRound(skipOneIn, junkOneIn int) {
	qctx := sdk.WrapSDKContext(g.env.ctx)
	for _, v := range g.vals {
		ext := v.eth["ethereum"]
		if ext == "" || !v.bonded {
			continue
		}
		signer := v.addr
		if o, ok := v.orch["ethereum"]; ok && g.rng.Intn(2) == 0 {
			signer = o
		}
		sig := func(otx types.OutgoingTx) string {
			if junkOneIn > 0 && g.rng.Intn(junkOneIn) == 0 {
				g.stats["evm:junk-confirmation-submitted"]++
				return fmt.Sprintf("%02x%02x", g.rng.Intn(256), g.rng.Intn(256))
			}
			return hex.EncodeToString(g.env.signCheckpoint(otx, ext))
		}
		if r, err := g.env.k.UnsignedSignerSetTxs(qctx, &types.UnsignedSignerSetTxsRequest{Address: accStr(v.addr), ChainId: "ethereum"}); err == nil {
			for _, s := range r.SignerSets {
				if skipOneIn > 0 && g.rng.Intn(skipOneIn) == 0 {
					continue
				}
				g.do(fmt.Sprintf("confirm ethereum %s set %d %s %s", signer, s.Nonce, ext, sig(s)))
			}
		}
		if r, err := g.env.k.UnsignedBatchTxs(qctx, &types.UnsignedBatchTxsRequest{Address: accStr(v.addr), ChainId: "ethereum"}); err == nil {
			for _, b := range r.Batches {
				if skipOneIn > 0 && g.rng.Intn(skipOneIn) == 0 {
					continue
				}
				g.do(fmt.Sprintf("confirm ethereum %s batch %s %d %s %s", signer, b.ExternalTokenId, b.BatchNonce, ext, sig(b)))
			}
		}
	}
}

func (g *Gen) evmMask() uint64 {
	if g.rng.Intn(10) < 7 {
		return ^uint64(0) >> 1 // everything the hub returned
	}
	return uint64(g.rng.Intn(256))
}

func (g *Gen) evmRelay() {
	ev := g.env.evm
	if ev == nil || ev.failed != "" {
		return
	}
	if g.rng.Intn(2) == 0 {
		g.evmConfirmRound(8, 40) // orchestrators usually sign before relayers look
	}
	g.do("world x:observe")
	pendingSet := false
	for n := range ev.sets {
		if n > ev.curNonce {
			pendingSet = true
		}
	}
	if (pendingSet && g.rng.Intn(2) == 0) || (!pendingSet && g.rng.Intn(8) == 0) {
		// a signer set: mostly the newest, sometimes the next or a stale one
		var cands []uint64
		newest := uint64(0)
		for n := uint64(1); n <= uint64(len(ev.sets))+64; n++ { // ascending, deterministic
			if ev.sets[n] == nil {
				continue
			}
			if n > ev.curNonce {
				cands = append(cands, n)
			}
			if n > newest {
				newest = n
			}
		}
		n := newest
		if len(cands) > 0 && g.rng.Intn(3) == 0 {
			n = cands[g.rng.Intn(len(cands))]
		}
		if g.rng.Intn(12) == 0 && ev.curNonce > 0 {
			n = ev.curNonce // stale
		}
		if n == 0 {
			return
		}
		g.do(fmt.Sprintf("world x:relayset:%d:%d", n, g.evmMask()))
	} else {
		var keys []string
		for _, k := range sortedKeys(ev.batches) {
			if !ev.execd[k] || g.rng.Intn(10) == 0 {
				keys = append(keys, k)
			}
		}
		if len(keys) == 0 {
			return
		}
		b := ev.batches[keys[g.rng.Intn(len(keys))]]
		g.do(fmt.Sprintf("world x:relaybatch:%s:%d:%d", b.ExternalTokenId, b.BatchNonce, g.evmMask()))
	}
	r := ev.last
	out := "refused"
	if r.accepted {
		out = "accepted"
	}
	if r.known {
		why := ""
		if !r.accepted {
			switch {
			case !r.nonceOK:
				why = ":stale-nonce"
			case !r.timeoutOK:
				why = ":timed-out"
			case r.badIncluded:
				why = ":bad-signature-included"
			case r.validPower <= evmThreshold:
				why = ":not-enough-power"
			default:
				why = ":other"
			}
		}
		g.stats["evm:relay-"+r.kind+":"+out+why]++
	}
}

func sortedKeys(m map[string]*types.BatchTx) []string {
	var l []string
	for k := range m {
		l = append(l, k)
	}
	sortStrings(l)
	return l
}

func sortStrings(l []string) {
	for i := 1; i < len(l); i++ {
		for j := i; j > 0 && l[j] < l[j-1]; j-- {
			l[j], l[j-1] = l[j-1], l[j]
		}
	}
}

func (g *Gen) runEvmLoop(nops int) {
	r := g.rng
	g.env = NewEnv(false)
	g.do("reset")
	g.chains = []string{"ethereum", "minter", "bsc", "hub"}
	g.do("chains " + strings.Join(g.chains, ","))
	_, users, _, tokAddr, tok2Addr := loopAddrs2()
	comm := []string{"0", "10000000000000000", "5000000000000000"}[r.Intn(3)]
	g.do("token 1 hub ethereum " + tokAddr.Hex() + " 18 " + comm)
	g.do("token 2 hub minter 0 18 " + comm)
	g.do("token 3 usdt ethereum " + tok2Addr.Hex() + " 6 " + comm)
	g.do("token 4 usdt minter 1 18 " + comm)
	g.tokens = []tokSpec{{1, "hub", "ethereum", tokAddr.Hex(), 18}, {2, "hub", "minter", "0", 18}, {3, "usdt", "ethereum", tok2Addr.Hex(), 6}, {4, "usdt", "minter", "1", 18}}
	g.denoms = []string{"hub", "usdt"}
	g.do(fmt.Sprintf("param outgoing_timeout_ms %d", 200000+r.Intn(400000)))
	g.do(fmt.Sprintf("param target_timeout %d", 1500000+r.Intn(4500000)))
	for _, p := range []string{"eth", "bnb", "hub", "usdt"} {
		g.do("price " + p + " 1000000000000000000")
	}
	nv := 2 + r.Intn(4)
	for i := 0; i < nv; i++ {
		p := int64(1 + r.Intn(100))
		if r.Intn(4) == 0 {
			p = 50
		}
		g.vals = append(g.vals, valSpec{addr: hex20(byte(0xa0 + i)), power: p, bonded: true, orch: map[string]string{}, eth: map[string]string{}})
	}
	g.do(g.stakingLine())
	g.do("init")
	for i := 0; i < 3; i++ {
		g.accounts = append(g.accounts, hex20(byte(0x31+i)))
		g.do(fmt.Sprintf("fund %s hub 1000000000000000000000000", g.accounts[i]))
		g.do(fmt.Sprintf("fund %s usdt 1000000000000000000000000", g.accounts[i]))
	}
	for _, u := range users {
		g.recips = append(g.recips, u.Hex())
	}
	keyless := -1
	if r.Intn(3) == 0 {
		keyless = r.Intn(nv) // one bonded validator registers its key late (or never)
	}
	register := func(i int) {
		v := &g.vals[i]
		eth, orch := ethAddrs[i], hex20(byte(0xc0+i))
		if g.do(fmt.Sprintf("delegate ethereum %s %s %s %s %s %d %d", v.addr, orch, eth, eth, v.addr, 0, 1)) == "ok" {
			v.orch["ethereum"], v.eth["ethereum"] = orch, eth
		}
	}
	for i := range g.vals {
		if i != keyless {
			register(i)
		}
	}
	g.height, g.time = 1, 1600000000
	g.do(fmt.Sprintf("block %d %d", g.height, g.time))
	g.do("world x:deploy:ethereum")
	if g.env.evm == nil || g.env.evm.failed != "" {
		return // the monitor has reported the failed deployment
	}
	g.do("begin")
	g.evmFeedback()
	g.evmBlock()
	for i := 0; i < nops; i++ {
		switch x := r.Intn(100); {
		case x < 22:
			amt := new(big.Int).Mul(big.NewInt(int64(1+r.Intn(5000))), big.NewInt(1000000000000000))
			fee := new(big.Int).Mul(big.NewInt(int64(r.Intn(50))), big.NewInt(100000000000000))
			g.do(fmt.Sprintf("send %s ethereum %s %s %s %s %s", g.pick(g.accounts), g.pick(g.recips), g.pick(g.denoms), amt, fee, g.nextTag()))
		case x < 28:
			g.do("reqbatch ethereum " + g.pick(g.denoms))
		case x < 46:
			g.evmConfirmRound(8, 40)
		case x < 62:
			g.evmRelay()
			if r.Intn(5) > 0 {
				g.evmFeedback()
			}
		case x < 68:
			ui := r.Intn(len(users))
			tokA := tokAddr
			if r.Intn(2) == 0 {
				tokA = tok2Addr
			}
			bal, _ := g.env.evm.toks[tokA].BalanceOf(nil, users[ui])
			if bal == nil || bal.Sign() == 0 {
				continue
			}
			amt := new(big.Int).Div(bal, big.NewInt(int64(1+r.Intn(4))))
			if amt.Sign() == 0 {
				continue
			}
			fee := new(big.Int).Div(amt, big.NewInt(int64(3+r.Intn(200))))
			chain, dest := "hub", "0x"+g.pick(g.accounts)
			if r.Intn(3) == 0 {
				chain, dest = "minter", "0x"+hex20(byte(0x80+r.Intn(3)))
			}
			g.do(fmt.Sprintf("world x:deposit:%d:%s:%s:%s:%s:%s", ui, amt, chain, dest, fee, tokA.Hex()))
			if r.Intn(5) > 0 {
				g.evmFeedback()
			}
		case x < 76:
			vi := r.Intn(len(g.vals))
			switch r.Intn(3) {
			case 0:
				g.vals[vi].power = int64(1 + r.Intn(100))
			case 1:
				g.vals[vi].power += g.vals[vi].power*int64(r.Intn(12))/100 + 1
			case 2:
				if nBonded(g.vals) > 2 || !g.vals[vi].bonded {
					g.vals[vi].bonded = !g.vals[vi].bonded
				}
			}
			g.do(g.stakingLine())
		case x < 78:
			if keyless >= 0 && g.vals[keyless].eth["ethereum"] == "" {
				register(keyless)
			}
		case x < 81:
			g.do(fmt.Sprintf("world x:mine:%d", 1+r.Intn(30)))
		default:
			g.evmBlock()
		}
	}
	// settle: everybody confirms, the relayer submits what is outstanding, events come back
	for k := 0; k < 3; k++ {
		g.evmConfirmRound(0, 0)
		g.evmRelay()
		g.evmFeedback()
		g.evmBlock()
	}
	g.do("world x:settle")
}

func nBonded(vs []valSpec) int {
	n := 0
	for _, v := range vs {
		if v.bonded {
			n++
		}
	}
	return n
}
