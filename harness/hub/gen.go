package main

import (
	"bufio"
	"encoding/hex"
	"encoding/json"
	"flag"
	"fmt"
	"github.com/MinterTeam/mhub2/module/x/mhub2/types"
	"math/big"
	"math/rand"
	"os"
	"path/filepath"
	"sort"
	"strings"
)

// Gen produces operation histories, executing each op on the real code as it goes so that
// later ops can refer to real state (ids, nonces).  Every random choice comes from rng.
type Gen struct {
	rng     *rand.Rand
	env     *Env
	profile string
	ops     []string
	outs    []string
	stats   map[string]int
	mon     *Monitor

	chains      []string
	denoms      []string
	tokens      []tokSpec
	accounts    []string
	vals        []valSpec
	recips      []string
	tag         int
	height      int64
	time        int64
	nextEvt     map[string]uint64
	extH        map[string]uint64
	pair        [2]string // (event type, mutated field) of the hash pair being emitted
	genesisMode bool
	outTimeoutMs int64
	holderPair  bool // oracle profile: this history pits a holders list against look-alike lists
	mxProfile   bool // mloop profile (funding happens before the Minter side is started)
	lastSendTag string
	orchFromVals bool
	closedLoop  bool // loop profile: execution claims are only those the ghost contracts / multisig would emit
	ext         *extWorld
	splitVotes  bool // ledger-type profiles: let a claim's votes straddle a block boundary now and then
	digests     []string
	digestAt    []int
}

type tokSpec struct {
	id    uint64
	denom string
	chain string
	ext   string
	dec   uint64
}

type valSpec struct {
	addr   string
	power  int64
	bonded bool
	gone   bool              // removed from the staking module altogether (not on the staking line)
	orch   map[string]string // chain -> orchestrator hex
	eth    map[string]string // chain -> external address
}

func hex20(b byte) string { return strings.Repeat(fmt.Sprintf("%02x", b), 20) }

func (g *Gen) do(line string) string {
	if w := strings.Fields(line); len(w) == 2 && w[0] == "chains" {
		g.chains = strings.Split(w[1], ",")
	}
	defer func() {
		if g.mon != nil && g.mon.prop == "C06" && g.env != nil && g.env.inited && !g.env.dead {
			w := strings.Fields(line)
			if len(w) > 0 && w[0] != "dump" && !strings.HasPrefix(w[0], "q_") {
				g.digests = append(g.digests, g.env.StateDigest())
				g.digestAt = append(g.digestAt, len(g.ops)-1)
			}
		}
	}()
	if g.mon != nil {
		g.mon.Before(g, line)
	}
	out := g.env.Exec(line)
	g.ops = append(g.ops, line)
	g.outs = append(g.outs, out)
	if g.env.dead {
		if g.mon != nil && g.mon.prop == "C05" {
			g.mon.After(g, line, out) // the C05 monitor reports the deadlock; it does not read the state
		}
		panic(historyOver{})
	}
	w := strings.Fields(line)
	key := w[0]
	if key == "vote" && len(w) > 3 {
		key = "vote-" + w[3]
	}
	cls := "ok"
	if out == "err" || out == "panic" {
		cls = out
	}
	g.stats["op:"+key+":"+cls]++
	if out == "panic" {
		msg := g.env.lastPanic
		if len(msg) > 60 {
			msg = msg[:60]
		}
		g.stats["panic:"+key+":"+msg]++
	}
	if g.mon != nil {
		g.mon.After(g, line, out)
	}
	return out
}

func (g *Gen) pick(l []string) string { return l[g.rng.Intn(len(l))] }

func (g *Gen) bigAmount() *big.Int {
	// structured amounts: small, powers of ten ± 1, dust-carrying, large
	switch g.rng.Intn(8) {
	case 0:
		return big.NewInt(int64(g.rng.Intn(3)))
	case 1:
		k := g.rng.Intn(22)
		v := new(big.Int).Exp(big.NewInt(10), big.NewInt(int64(k)), nil)
		return v.Add(v, big.NewInt(int64(g.rng.Intn(3)-1)))
	case 2:
		v := new(big.Int).Exp(big.NewInt(10), big.NewInt(18), nil)
		v.Mul(v, big.NewInt(int64(1+g.rng.Intn(50))))
		return v.Add(v, big.NewInt(int64(g.rng.Intn(1000000))*1000000))
	case 3:
		return new(big.Int).Lsh(big.NewInt(1), uint(60+g.rng.Intn(40)))
	default:
		v := new(big.Int).Exp(big.NewInt(10), big.NewInt(int64(12+g.rng.Intn(8))), nil)
		return v.Mul(v, big.NewInt(int64(1+g.rng.Intn(999))))
	}
}

// amountFor scales a structured amount so that its hub-unit equivalent stays below 10^30: the
// model uses unbounded integers, while sdk.Int panics above 256 bits (products of two hub-unit
// values appear in the fee distribution).  Overflow behaviour is exercised by the stress profile.
func (g *Gen) amountFor(dec uint64) *big.Int {
	a := g.bigAmount()
	limit := new(big.Int).Exp(big.NewInt(10), big.NewInt(30), nil)
	if dec < 18 {
		limit.Quo(limit, new(big.Int).Exp(big.NewInt(10), big.NewInt(int64(18-dec)), nil))
	} else {
		limit.Mul(limit, new(big.Int).Exp(big.NewInt(10), big.NewInt(int64(dec-18)), nil))
	}
	for a.Cmp(limit) > 0 {
		a.Quo(a, big.NewInt(1000003))
	}
	return a
}

func (g *Gen) stakingLine() string {
	var parts []string
	for _, v := range g.vals {
		if v.gone {
			continue
		}
		b := "u"
		if v.bonded {
			b = "b"
		}
		parts = append(parts, fmt.Sprintf("%s:%d:%s", v.addr, v.power, b))
	}
	return "staking " + strings.Join(parts, " ")
}

func (g *Gen) setup() {
	g.env = NewEnv(false)
	g.do("reset")
	r := g.rng
	g.chains = []string{"ethereum", "minter", "bsc", "hub"}
	g.do("chains " + strings.Join(g.chains, ","))
	g.denoms = []string{"hub", "usdt", "btc"}
	decsEth := []uint64{18, 6, 8, 18, 0, 20}
	minterIds := []string{"0", "1", "12", "2", "123"}
	r.Shuffle(len(minterIds), func(i, j int) { minterIds[i], minterIds[j] = minterIds[j], minterIds[i] })
	comms := []string{"0", "10000000000000000", "5000000000000000", "300000000000000000", "1", "999999999999999999"}
	id := uint64(1)
	incomplete := r.Intn(6) == 0 // some histories run with configuration gaps (no Minter counterpart, missing price)
	if g.genesisMode && r.Intn(3) == 0 {
		// a migrated asset: governance listed the new contract first, under a higher id; the old entry stays
		// (lookups by denomination take the first entry, lookups by contract or id still find the old one)
		t := tokSpec{id: 40, denom: "hub", chain: "ethereum", dec: 18,
			ext: ethHex([]byte{0x1f, 1, 2, 3, 4, 5, 6, 7, 8, 9, 10, 11, 12, 13, 14, 15, 16, 17, 18, 19})}
		g.tokens = append(g.tokens, t)
		g.do(fmt.Sprintf("token %d %s %s %s %d %s", t.id, t.denom, t.chain, t.ext, t.dec, comms[r.Intn(len(comms))]))
		g.stats["genesis:migrated-token-listed-first"]++
	}
	for di, d := range g.denoms {
		for _, c := range []string{"ethereum", "minter", "bsc"} {
			if di > 0 && ((incomplete && r.Intn(3) == 0) || (c != "minter" && r.Intn(6) == 0)) {
				continue
			}
			t := tokSpec{id: id, denom: d, chain: c}
			switch c {
			case "ethereum":
				t.ext = ethHex([]byte{byte(0x10 + di), 1, 2, 3, 4, 5, 6, 7, 8, 9, 10, 11, 12, 13, 14, 15, 16, 17, 18, 19})
				t.dec = decsEth[r.Intn(len(decsEth))]
			case "bsc":
				t.ext = ethHex([]byte{byte(0x20 + di), 1, 2, 3, 4, 5, 6, 7, 8, 9, 10, 11, 12, 13, 14, 15, 16, 17, 18, 19})
				t.dec = []uint64{18, 9, 18}[r.Intn(3)]
			case "minter":
				t.ext = minterIds[di]
				t.dec = 18
			}
			g.tokens = append(g.tokens, t)
			g.do(fmt.Sprintf("token %d %s %s %s %d %s", t.id, t.denom, t.chain, t.ext, t.dec, comms[r.Intn(len(comms))]))
			id++
		}
	}
	g.outTimeoutMs = int64(50000 + r.Intn(100000))
	g.do(fmt.Sprintf("param outgoing_timeout_ms %d", g.outTimeoutMs))
	g.do(fmt.Sprintf("param target_timeout %d", 60000+r.Intn(200000)))
	if r.Intn(3) == 0 {
		g.do(fmt.Sprintf("param window %d", 1+r.Intn(6)))
	}
	for _, p := range []string{"eth", "bnb", "hub", "usdt", "btc"} {
		if incomplete && r.Intn(4) == 0 {
			continue // missing price
		}
		v := new(big.Int).Exp(big.NewInt(10), big.NewInt(int64(14+r.Intn(8))), nil)
		v.Mul(v, big.NewInt(int64(1+r.Intn(5000))))
		g.do("price " + p + " " + v.String())
	}
	// validators
	nv := 1 + r.Intn(5)
	bigPowers := r.Intn(4) == 0 // consensus power = stake / 10^6 of an 18-decimals coin: far above 2^32 on a real chain
	for i := 0; i < nv; i++ {
		p := int64(1 + r.Intn(100))
		if r.Intn(4) == 0 {
			p = 1
		}
		if bigPowers {
			p = int64(1+r.Intn(9)) * 1000000000000000
		}
		g.vals = append(g.vals, valSpec{addr: hex20(byte(0xa0 + i)), power: p, bonded: true, orch: map[string]string{}, eth: map[string]string{}})
	}
	g.do(g.stakingLine())
	g.do("init")
	for i := 0; i < 4; i++ {
		g.accounts = append(g.accounts, hex20(byte(0x31+i)))
	}
	for i := 0; i < 5; i++ {
		g.recips = append(g.recips, ethHex([]byte{byte(0x70 + i), 9, 9, 9, 9, 9, 9, 9, 9, 9, 9, 9, 9, 9, 9, 9, 9, 9, 9, byte(i)}))
	}
	for _, rc := range g.recips {
		if r.Intn(3) == 0 {
			vals := []string{"999999999999999999", "1000000000000000000", "2000000000000000000", "3999999999999999999", "8000000000000000000", "16000000000000000000", "32000000000000000000", "40000000000000000000", "63999999999999999999", "64000000000000000000", "100000000000000000000", "512000000000000000000", "5000000000000000000000"}
			g.do("holder " + strings.ToLower(rc[2:]) + " " + vals[r.Intn(len(vals))])
		}
	}
	if r.Intn(3) == 0 {
		// the burn address and its neighbours hold HUB too (what a lenient address parser makes of a non-hex string)
		for _, a := range []string{"0000000000000000000000000000000000000000", "000000000000000000000000000000000000000c", "00000000000000000000000000000000000000c0"} {
			g.do("holder " + a + " 64000000000000000000")
		}
	}
	for _, a := range g.accounts {
		for _, d := range g.denoms {
			if r.Intn(5) > 0 {
				v := new(big.Int).Exp(big.NewInt(10), big.NewInt(int64(20+r.Intn(6))), nil)
				g.do(fmt.Sprintf("fund %s %s %s", a, d, v.String()))
			}
		}
	}
	// some validators register minter / ethereum keys
	for i := range g.vals {
		for _, c := range []string{"minter", "ethereum", "bsc"} {
			if r.Intn(3) > 0 {
				g.delegate(i, c, true)
			}
		}
	}
	g.height = 1
	g.time = 1600000000
	g.nextEvt = map[string]uint64{}
	g.extH = map[string]uint64{}
	for _, c := range g.chains {
		g.nextEvt[c] = 1
		g.extH[c] = uint64(100 + r.Intn(1000))
	}
}

var ethKeyUse = 0

func (g *Gen) delegate(vi int, chain string, valid bool) {
	v := &g.vals[vi]
	eth := ethAddrs[g.rng.Intn(len(ethAddrs))]
	orch := hex20(byte(0xc0 + g.rng.Intn(12)))
	if g.orchFromVals && g.rng.Intn(8) == 0 {
		orch = g.vals[g.rng.Intn(len(g.vals))].addr // an orchestrator account that is itself some validator's operator account
	}
	seq := uint64(1 + g.rng.Intn(5))
	signedBy, signedVal, nonce := eth, v.addr, seq-1
	if !valid {
		switch g.rng.Intn(3) {
		case 0:
			signedBy = ethAddrs[g.rng.Intn(len(ethAddrs))]
		case 1:
			signedVal = g.vals[g.rng.Intn(len(g.vals))].addr
		case 2:
			nonce = seq
		}
	}
	op := "delegate"
	if keysgenAvailable() && g.rng.Intn(4) == 0 {
		op = "delegatek" // the signature comes from the repository's keys generator
		g.stats["keys:signature-from-the-keys-generator"]++
	}
	spelled := eth
	if g.rng.Intn(4) == 0 {
		spelled = respell(g.rng, eth) // the message may spell the address in any way the address parser accepts
		g.stats["keys:external-address-in-another-spelling"]++
	}
	out := g.do(fmt.Sprintf("%s %s %s %s %s %s %s %d %d", op, chain, v.addr, orch, spelled, signedBy, signedVal, nonce, seq))
	if out == "ok" {
		v.orch[chain] = orch
		v.eth[chain] = eth
	}
}

func (g *Gen) nextTag() string { g.tag++; return fmt.Sprintf("t%d", g.tag) }

func (g *Gen) tokensOn(chain string) []tokSpec {
	var l []tokSpec
	for _, t := range g.tokens {
		if t.chain == chain {
			l = append(l, t)
		}
	}
	return l
}

func (g *Gen) dumpAll() {
	g.do("dump bank")
	for _, c := range g.chains {
		g.do("dump pool " + c)
		g.do("dump batches " + c)
		g.do("dump counters " + c)
	}
	g.do("dump status")
}

// voteAll submits the event from every bonded validator (through its orchestrator when one is
// registered for the chain), so that it reaches quorum at the next end-block.
func (g *Gen) voteAll(chain string, ev string) {
	// sometimes the votes straddle a block boundary: the first voter alone is below the threshold when the block ends
	split := g.splitVotes && g.rng.Intn(6) == 0
	voters := 0
	for _, v := range g.vals {
		if !v.bonded {
			continue
		}
		if split && voters == 1 {
			split = false
			g.block()
		}
		voters++
		signer := v.addr
		if o, ok := v.orch[chain]; ok && g.rng.Intn(2) == 0 {
			signer = o
		}
		g.do(fmt.Sprintf("vote %s %s %s", chain, signer, ev))
	}
}

func (g *Gen) eventHeight(chain string) uint64 {
	if g.rng.Intn(6) == 0 {
		g.extH[chain] += uint64(g.rng.Intn(40000)) // may pass batch timeouts
	} else {
		g.extH[chain] += uint64(g.rng.Intn(20))
	}
	return g.extH[chain]
}

func (g *Gen) opSend() {
	chain := g.pick([]string{"ethereum", "minter", "bsc", "ethereum"})
	toks := g.tokensOn(chain)
	denom := "nosuch"
	if len(toks) > 0 && g.rng.Intn(15) > 0 {
		denom = toks[g.rng.Intn(len(toks))].denom
	}
	amt := g.bigAmount()
	fee := g.bigAmount()
	if g.rng.Intn(3) == 0 {
		fee = big.NewInt(int64(g.rng.Intn(5)))
	}
	if g.rng.Intn(4) == 0 { // equal fees across transfers
		fee = big.NewInt(1000000000000000)
	}
	tag := g.nextTag()
	if g.lastSendTag != "" && g.rng.Intn(4) == 0 {
		tag = g.lastSendTag // a second MsgSendToExternal of the same transaction: both transfers carry one tx hash
	}
	g.lastSendTag = tag
	g.do(fmt.Sprintf("send %s %s %s %s %s %s %s", g.pick(g.accounts), chain, g.pick(g.recips), denom, amt, fee, tag))
}

func (g *Gen) opCancel() {
	chain := g.pick([]string{"ethereum", "minter", "bsc"})
	pool := g.env.Pool(g.env.ctx, chain)
	if g.rng.Intn(2) == 0 {
		// two transfers of one transaction (they share the hash the status is kept under): cancel both, one after the other
		seen := map[string]*types.SendToExternal{}
		for _, c := range []string{"ethereum", "minter", "bsc"} {
			for _, s := range g.env.Pool(g.env.ctx, c) {
				if o, ok := seen[s.TxHash]; ok && !strings.HasPrefix(s.TxHash, "#") && o.Sender == s.Sender {
					g.stats["ledger:both-transfers-of-one-transaction-cancelled"]++
					g.do(fmt.Sprintf("cancel %s %s %d", g.env.toHexAcc(o.Sender), o.ChainId, o.Id))
					g.do(fmt.Sprintf("cancel %s %s %d", g.env.toHexAcc(s.Sender), s.ChainId, s.Id))
					return
				}
				seen[s.TxHash] = s
			}
		}
	}
	sender := g.pick(g.accounts)
	id := uint64(1 + g.rng.Intn(8))
	if len(pool) > 0 && g.rng.Intn(4) > 0 {
		s := pool[g.rng.Intn(len(pool))]
		id = s.Id
		if g.rng.Intn(5) > 0 {
			sender = g.env.toHexAcc(s.Sender)
		}
	} else if g.rng.Intn(2) == 0 {
		// an id that sits in a batch
		for _, b := range g.env.Batches(g.env.ctx, chain) {
			if len(b.Transactions) > 0 {
				id = b.Transactions[0].Id
				sender = g.env.toHexAcc(b.Transactions[0].Sender)
			}
		}
	}
	if g.rng.Intn(5) == 0 {
		// a chain id that is not a chain of the bridge but resembles one (prefix, other case), from the transfer's own sender
		if len(pool) > 0 {
			s := pool[g.rng.Intn(len(pool))]
			id, sender = s.Id, g.env.toHexAcc(s.Sender)
		}
		chain = []string{chain[:len(chain)-1], chain[:3], chain[:len(chain)-1], strings.ToUpper(chain), chain + "2"}[g.rng.Intn(5)]
	}
	g.do(fmt.Sprintf("cancel %s %s %d", sender, chain, id))
}

func (g *Gen) opReqBatch() {
	chain := g.pick([]string{"ethereum", "minter", "bsc"})
	g.do(fmt.Sprintf("reqbatch %s %s", chain, g.pick(g.denoms)))
}

func (g *Gen) opDeposit() {
	chain := g.pick([]string{"ethereum", "minter", "bsc"})
	toks := g.tokensOn(chain)
	if len(toks) == 0 {
		return
	}
	t := toks[g.rng.Intn(len(toks))]
	coin := t.ext
	if g.rng.Intn(20) == 0 {
		coin = "99"
		if chain != "minter" {
			coin = ethHex([]byte{0x99, 1, 2, 3, 4, 5, 6, 7, 8, 9, 10, 11, 12, 13, 14, 15, 16, 17, 18, 19})
		}
	}
	amt := g.amountFor(t.dec)
	n := g.nextEvt[chain]
	g.nextEvt[chain]++
	h := g.eventHeight(chain)
	sender := g.pick(g.recips)
	tx := "0x" + g.nextTag()
	if g.rng.Intn(2) == 0 {
		g.voteAll(chain, fmt.Sprintf("sth %d %s %s %s %s %d %s", n, coin, amt, sender, g.pick(g.accounts), h, tx))
		return
	}
	rchain := g.pick([]string{"hub", "ethereum", "minter", "bsc", "hub", "nochain"})
	fee := new(big.Int).Div(amt, big.NewInt(int64(2+g.rng.Intn(200))))
	if g.rng.Intn(5) == 0 {
		fee = g.amountFor(t.dec)
	}
	recv := g.pick(g.recips)
	if rchain == "hub" {
		recv = "0x" + g.pick(g.accounts)
	}
	g.voteAll(chain, fmt.Sprintf("ttc %d %s %s %s %s %s %s %d %s", n, coin, amt, fee, sender, rchain, recv, h, tx))
}

// observeExt lets the ghost external chains learn the batches the hub has emitted so far.
func (g *Gen) observeExt() {
	if !g.closedLoop {
		return
	}
	if g.ext == nil {
		g.ext = newExtWorld()
	}
	for _, c := range []string{"ethereum", "minter", "bsc"} {
		var vs []batchView
		for _, b := range g.env.Batches(g.env.ctx, c) {
			v := batchView{nonce: b.BatchNonce, timeout: b.Timeout, extToken: b.ExternalTokenId}
			for _, t := range b.Transactions {
				v.txs = append(v.txs, steView{amount: t.Token.Amount.BigInt()})
			}
			vs = append(vs, v)
		}
		g.ext.observe(c, vs)
	}
}

// opExternalExecution: a relayer submits some batch the external chain still accepts (also one the hub may
// meanwhile have withdrawn); the execution event is then voted by everybody.
func (g *Gen) opExternalExecution() {
	g.observeExt()
	chain := g.pick([]string{"ethereum", "minter", "bsc"})
	h := g.eventHeight(chain)
	pending := map[string]bool{}
	for _, b := range g.env.Batches(g.env.ctx, chain) {
		pending[fmt.Sprintf("%s/%s/%d", chain, b.ExternalTokenId, b.BatchNonce)] = true
	}
	var cands, withdrawn []*ghostBatch
	for _, k := range g.ext.order {
		gb := g.ext.batches[k]
		if gb.chain == chain && g.ext.executable(chain, gb.token, gb.nonce, h) != nil {
			cands = append(cands, gb)
			if !pending[k] {
				withdrawn = append(withdrawn, gb)
			}
		}
	}
	if len(cands) == 0 {
		return
	}
	gb := cands[g.rng.Intn(len(cands))]
	if len(withdrawn) > 0 && g.rng.Intn(2) == 0 {
		gb = withdrawn[g.rng.Intn(len(withdrawn))]
		g.stats["loop:executed-a-batch-the-hub-withdrew"]++
	}
	g.ext.execute(gb)
	n := g.nextEvt[chain]
	g.nextEvt[chain]++
	feePaid := g.amountFor(18)
	if g.rng.Intn(2) == 0 {
		feePaid = big.NewInt(int64(g.rng.Intn(1000000)))
	}
	g.voteAll(chain, fmt.Sprintf("bex %s %d %d %d 0x%s %s %s", gb.token, n, gb.nonce, h, g.nextTag(), feePaid, g.pick(g.recips)))
}

// opMinterBurst: several Minter users bridge the same coin to one external chain with very different fees
// (their fee refunds go back to Minter), the transfers are batched, and the batch executes with cheap gas.
func (g *Gen) opMinterBurst() {
	mtoks := g.tokensOn("minter")
	if len(mtoks) == 0 {
		return
	}
	t := mtoks[g.rng.Intn(len(mtoks))]
	var dst *tokSpec
	for i := range g.tokens {
		if g.tokens[i].denom == t.denom && g.tokens[i].chain != "minter" {
			dst = &g.tokens[i]
		}
	}
	if dst == nil {
		return
	}
	n := 2 + g.rng.Intn(4)
	// determinism runs: several senders that are owed exactly the same refund (any order taken from a map shows in the ids)
	same := g.mon != nil && g.mon.prop == "C06" && g.rng.Intn(2) == 0
	sameFee := int64([]int{10, 100, 460}[g.rng.Intn(3)])
	for i := 0; i < n; i++ {
		amt := new(big.Int).Mul(big.NewInt(int64(1000+g.rng.Intn(9000))), big.NewInt(1000000000000000))
		fee := new(big.Int).Mul(big.NewInt(int64([]int{10, 10, 10, 80, 90, 100, 110, 120, 460}[g.rng.Intn(9)])), big.NewInt(100000000000000))
		sender := g.pick(g.recips)
		if same {
			fee = new(big.Int).Mul(big.NewInt(sameFee), big.NewInt(100000000000000))
			sender = g.recips[i%len(g.recips)]
			g.stats["det:minter-senders-owed-equal-refunds"]++
		}
		ev := g.nextEvt["minter"]
		g.nextEvt["minter"]++
		g.voteAll("minter", fmt.Sprintf("ttc %d %s %s %s %s %s %s %d 0x%s", ev, t.ext, amt, fee, sender, dst.chain, g.pick(g.recips), g.eventHeight("minter"), g.nextTag()))
	}
	if g.rng.Intn(2) == 0 {
		// the batch mixes origins: transfers sent on the hub itself (their fee cannot be refunded to Minter) with
		// much higher fees travel with the Minter-origin ones
		for k := 1 + g.rng.Intn(3); k > 0; k-- {
			amt := new(big.Int).Mul(big.NewInt(int64(1000+g.rng.Intn(9000))), big.NewInt(1000000000000000))
			fee := new(big.Int).Mul(big.NewInt(int64([]int{100, 1000, 5000}[g.rng.Intn(3)])), big.NewInt(100000000000000))
			g.do(fmt.Sprintf("send %s %s %s %s %s %s %s", g.pick(g.accounts), dst.chain, g.pick(g.recips), dst.denom, amt, fee, g.nextTag()))
		}
		g.stats["ledger:batch-mixes-hub-and-minter-origin"]++
	}
	g.block()
	g.do(fmt.Sprintf("reqbatch %s %s", dst.chain, dst.denom))
	g.block()
	for _, b := range g.env.Batches(g.env.ctx, dst.chain) {
		if b.ExternalTokenId == dst.ext && len(b.Transactions) >= 2 {
			ev := g.nextEvt[dst.chain]
			g.nextEvt[dst.chain]++
			feePaid := big.NewInt(int64(1 + g.rng.Intn(100000)))
			if g.rng.Intn(3) == 0 {
				feePaid = new(big.Int).Mul(big.NewInt(int64(1+g.rng.Intn(30))), big.NewInt(100000000000000))
			}
			g.voteAll(dst.chain, fmt.Sprintf("bex %s %d %d %d 0x%s %s %s", b.ExternalTokenId, ev, b.BatchNonce, g.eventHeight(dst.chain), g.nextTag(), feePaid, g.pick(g.recips)))
			g.block()
			break
		}
	}
}

func (g *Gen) opBatchExecuted() {
	if g.closedLoop {
		g.opExternalExecution()
		return
	}
	chain := g.pick([]string{"ethereum", "minter", "bsc"})
	bs := g.env.Batches(g.env.ctx, chain)
	coin, bn := "0", uint64(1+g.rng.Intn(3))
	toks := g.tokensOn(chain)
	if len(toks) > 0 {
		coin = toks[g.rng.Intn(len(toks))].ext
	}
	if len(bs) > 0 && g.rng.Intn(8) > 0 {
		b := bs[g.rng.Intn(len(bs))]
		coin, bn = b.ExternalTokenId, b.BatchNonce
	}
	n := g.nextEvt[chain]
	g.nextEvt[chain]++
	feePaid := g.amountFor(18)
	if g.rng.Intn(2) == 0 {
		feePaid = big.NewInt(int64(g.rng.Intn(1000000)))
	}
	g.voteAll(chain, fmt.Sprintf("bex %s %d %d %d 0x%s %s %s", coin, n, bn, g.eventHeight(chain), g.nextTag(), feePaid, g.pick(g.recips)))
}

func (g *Gen) dumpEverything() {
	g.do("dump bank")
	g.do("dump status")
	g.do("dump tokens")
	for _, c := range g.chains {
		for _, sec := range []string{"pool", "batches", "sets", "votes", "keys", "sigs", "counters"} {
			g.do("dump " + sec + " " + c)
		}
	}
}

func (g *Gen) maybeExportImport() {
	if g.genesisMode && g.rng.Intn(6) == 0 {
		g.dumpEverything()
		g.do("export_import")
		g.dumpEverything()
	}
}

func (g *Gen) block() {
	g.do("end")
	g.dumpAll()
	g.maybeExportImport()
	g.height += int64(1 + g.rng.Intn(2))
	if g.rng.Intn(8) == 0 {
		g.time += int64(40 + g.rng.Intn(200)) // may pass the outgoing timeout
	} else {
		g.time += int64(1 + g.rng.Intn(8))
	}
	g.do(fmt.Sprintf("block %d %d", g.height, g.time))
	g.do("begin")
	g.dumpAll()
}

func (g *Gen) runLedger(nops int) {
	g.setup()
	g.splitVotes = true
	if g.closedLoop {
		g.do("world loop")
	}
	g.do(fmt.Sprintf("block %d %d", g.height, g.time))
	g.do("begin")
	if g.mon != nil && g.mon.prop == "C13" && g.rng.Intn(3) == 0 {
		// timeouts are not monotone in the batch nonce: a batch built after a long quiet stretch gets a timeout from a
		// projected external height; the next event corrects the height downwards, so a later batch times out earlier
		chain := g.pick([]string{"ethereum", "bsc"})
		if toks := g.tokensOn(chain); len(toks) > 0 {
			t := toks[0]
			acc := g.accounts[0]
			g.do(fmt.Sprintf("fund %s %s 1000000000000000000000", acc, t.denom))
			deposit := func(h uint64) {
				n := g.nextEvt[chain]
				g.nextEvt[chain]++
				g.extH[chain] = h
				g.voteAll(chain, fmt.Sprintf("sth %d %s %d %s %s %d 0x%s", n, t.ext, 1000000, g.pick(g.recips), acc, h, g.nextTag()))
				g.block()
			}
			deposit(g.extH[chain] + 1)
			for k := 0; k < 120; k++ {
				g.block()
			}
			g.do(fmt.Sprintf("send %s %s %s %s %d %d %s", acc, chain, g.pick(g.recips), t.denom, 2000000000000000000, 3000000000000000, g.nextTag()))
			g.do(fmt.Sprintf("reqbatch %s %s", chain, t.denom))
			deposit(g.extH[chain] + 1)
			g.do(fmt.Sprintf("send %s %s %s %s %d %d %s", acc, chain, g.pick(g.recips), t.denom, 2000000000000000000, 1000000000000000, g.nextTag()))
			g.do(fmt.Sprintf("reqbatch %s %s", chain, t.denom))
			var lo, hi uint64
			for _, b := range g.env.Batches(g.env.ctx, chain) {
				if b.ExternalTokenId == t.ext {
					if lo == 0 || b.Timeout < lo {
						lo = b.Timeout
					}
					if b.Timeout > hi {
						hi = b.Timeout
					}
				}
			}
			if lo > 0 && hi > lo+1 {
				g.stats["ledger:later-batch-times-out-first"]++
				deposit(lo + 1)
				g.block()
			}
		}
	}
	if g.mon != nil && g.mon.prop == "C12" && g.rng.Intn(3) == 0 && g.outTimeoutMs > 0 {
		// one account's first transfers to two chains get the same id (ids are per chain); the earlier one expires while the
		// later one is still fresh
		acc := g.accounts[0]
		var cs []string
		for _, c := range []string{"ethereum", "minter", "bsc"} {
			if len(g.tokensOn(c)) > 0 {
				cs = append(cs, c)
			}
		}
		if len(cs) >= 2 {
			first, second := cs[0], cs[len(cs)-1]
			if g.rng.Intn(4) == 0 {
				first, second = second, first
			}
			t1, t2 := g.tokensOn(first)[0], g.tokensOn(second)[0]
			g.do(fmt.Sprintf("fund %s %s 1000000000000000000000", acc, t1.denom))
			g.do(fmt.Sprintf("fund %s %s 1000000000000000000000", acc, t2.denom))
			g.do(fmt.Sprintf("send %s %s %s %s %d %d %s", acc, first, g.pick(g.recips), t1.denom, 2000000000000000000, 1000000000000000, g.nextTag()))
			oddNext := func() { // automatic batching happens at even heights: stay on odd ones so that both stay in the pool
				g.height++
				if g.height%2 == 0 {
					g.height++
				}
			}
			g.do("end")
			oddNext()
			g.time += g.outTimeoutMs/1000 - 3
			g.do(fmt.Sprintf("block %d %d", g.height, g.time))
			g.do("begin")
			g.do(fmt.Sprintf("send %s %s %s %s %d %d %s", acc, second, g.pick(g.recips), t2.denom, 2000000000000000000, 1000000000000000, g.nextTag()))
			g.do("end")
			oddNext()
			g.time += 8
			g.do(fmt.Sprintf("block %d %d", g.height, g.time))
			g.do("begin")
			g.stats["ledger:same-id-on-two-chains-one-expired"]++
			g.block()
		}
	}
	if g.mon != nil && g.mon.prop == "C10" && g.rng.Intn(4) == 0 {
		// a busy chain: two assets of one chain each have about a batch-full (100) of transfers waiting when the
		// next automatic batching round comes
		chain := g.pick([]string{"ethereum", "bsc", "minter"})
		if toks := g.tokensOn(chain); len(toks) >= 2 {
			for ti, t := range toks[:2] {
				n := []int{100, 100, 99, 101, 130}[g.rng.Intn(5)]
				if ti == 1 {
					n = 101 + g.rng.Intn(30)
				}
				g.do(fmt.Sprintf("fund %s %s 1000000000000000000000000", g.accounts[0], t.denom))
				for j := 0; j < n; j++ {
					g.do(fmt.Sprintf("send %s %s %s %s %d %d %s", g.accounts[0], chain, g.pick(g.recips), t.denom, 1000000000000+g.rng.Intn(1000000), g.rng.Intn(5)*1000000000, g.nextTag()))
				}
			}
			g.stats["ledger:two-assets-with-a-full-batch-each"]++
			g.block()
			g.block()
		}
	}
	for i := 0; i < nops; i++ {
		switch x := g.rng.Intn(100); {
		case x < 30:
			g.opSend()
		case x < 40:
			g.opCancel()
		case x < 47:
			g.opReqBatch()
		case x < 62:
			g.opDeposit()
		case x < 72:
			g.opBatchExecuted()
		case x < 77 && !g.closedLoop && g.rng.Intn(3) == 0:
			g.opMinterBurst()
		case x < 75 && g.rng.Intn(2) == 0:
			// a governance proposal is dry-run on a branch that is thrown away (gov SubmitProposal / CheckTx)
			g.do(fmt.Sprintf("world dryrun:tokens:%d", []int64{0, 50000000000000000, 900000000000000000}[g.rng.Intn(3)]))
		case x < 81 && x >= 79 && g.mon != nil && g.mon.prop == "C06":
			// two assets of one chain with identical pending fees when the next batching round comes: any order taken from a
			// map shows in the batch nonces
			chain := g.pick([]string{"ethereum", "bsc", "minter"})
			if toks := g.tokensOn(chain); len(toks) >= 2 {
				i := g.rng.Intn(len(toks))
				j := (i + 1 + g.rng.Intn(len(toks)-1)) % len(toks)
				fee := []string{"1000000000000000", "0", "5000000000000000000"}[g.rng.Intn(3)]
				for _, t := range []tokSpec{toks[i], toks[j]} {
					g.do(fmt.Sprintf("fund %s %s 1000000000000000000000", g.accounts[0], t.denom))
					g.do(fmt.Sprintf("send %s %s %s %s %d %s %s", g.accounts[0], chain, g.pick(g.recips), t.denom, 1000000000000000000, fee, g.nextTag()))
				}
				g.stats["det:two-assets-with-equal-pending-fees"]++
				g.block()
				g.block()
			}
		case x < 79 && g.mon != nil && g.mon.prop == "C06" && g.rng.Intn(2) == 0:
			// governance changes the chain list through the params module; afterwards one node restarts (new keeper
			// objects over the same stores) while the others keep running: they must stay in step
			cur := g.env.k.GetParams(g.env.ctx).Chains
			next := "ethereum,minter,bsc,hub"
			if len(cur) == 4 {
				next = []string{"ethereum,minter,hub", "ethereum,minter,bsc,hub,tron", "minter,bsc,hub"}[g.rng.Intn(3)]
			}
			g.do("govchains " + next)
			g.stats["det:governance-chain-list-change"]++
			if g.rng.Intn(4) > 0 {
				g.do(fmt.Sprintf("world restart:%d", 1+g.rng.Intn(2)))
				g.stats["det:node-restart"]++
			}
		case g.closedLoop && x >= 78 && x < 80:
			// a Byzantine minority: the weakest validator alone claims, at the next event nonce, an event that never happened,
			// at an external height far in the future; it can never reach the quorum
			chain := g.pick([]string{"ethereum", "bsc"})
			toks := g.tokensOn(chain)
			if len(toks) == 0 || len(g.vals) < 3 {
				break
			}
			weakest, total := -1, int64(0)
			for i, v := range g.vals {
				if !v.bonded {
					continue
				}
				total += v.power
				if weakest < 0 || v.power < g.vals[weakest].power {
					weakest = i
				}
			}
			if weakest < 0 || (total-g.vals[weakest].power)*100 < 67*total {
				break
			}
			n := g.nextEvt[chain]
			g.do(fmt.Sprintf("vote %s %s sth %d %s 1 %s %s %d 0xbogus%d", chain, g.vals[weakest].addr, n, toks[0].ext, g.pick(g.recips), g.pick(g.accounts), g.extH[chain]+1000000+uint64(g.rng.Intn(1000000)), n))
			g.stats["loop:byzantine-claim-with-a-far-future-height"]++
			g.block()
		case x < 74 || (g.closedLoop && x < 78):
			// a quiet stretch: blocks pass, nothing is reported from outside
			k := 3 + g.rng.Intn(14)
			if g.closedLoop {
				k = 8 + g.rng.Intn(45) // long enough for any extrapolated clock to run past a batch timeout
			}
			for ; k > 0; k-- {
				g.block()
			}
			if g.closedLoop {
				g.opExternalExecution() // the external chain was not asleep: a relayer executes what it still accepts
			}
		default:
			g.block()
		}
		if g.rng.Intn(3) == 0 {
			g.do("dump bank")
		}
	}
	g.block()
}

// ---------------------------------------------------------------- driver

type genResult struct {
	Ops    []string       `json:"-"`
	Stats  map[string]int `json:"stats"`
	Viol   []Violation    `json:"violations"`
	Hist   int            `json:"histories"`
	NumOps int            `json:"ops"`
}

func genMain(args []string) {
	fs := flag.NewFlagSet("gen", flag.ExitOnError)
	profile := fs.String("profile", "ledger", "ledger|votes|keys|...")
	seed := fs.Int64("seed", 1, "seed")
	hist := fs.Int("histories", 5, "number of histories")
	nops := fs.Int("ops", 120, "ops per history")
	out := fs.String("out", "", "output directory")
	prop := fs.String("prop", "", "property whose monitor runs")
	fs.Parse(args)
	if *out == "" {
		fmt.Println("need --out")
		os.Exit(2)
	}
	os.MkdirAll(*out, 0o755)
	opsF, _ := os.Create(filepath.Join(*out, "ops.txt"))
	implF, _ := os.Create(filepath.Join(*out, "impl.txt"))
	ow, iw := bufio.NewWriter(opsF), bufio.NewWriter(implF)
	res := genResult{Stats: map[string]int{}}
	for h := 0; h < *hist; h++ {
		g := &Gen{rng: rand.New(rand.NewSource(*seed*1000003 + int64(h))), profile: *profile, stats: res.Stats}
		g.mon = NewMonitor(*prop, h)
		runProfile(g, *profile, *nops)
		if *prop == "C06" {
			checkDeterminism(g, res.Stats)
		}
		for i := range g.ops {
			fmt.Fprintln(ow, g.ops[i])
			fmt.Fprintln(iw, g.outs[i])
		}
		res.NumOps += len(g.ops)
		res.Hist++
		for _, v := range g.mon.viol {
			// keep the history prefix that reproduces the violation
			v.Ops = append([]string{}, g.ops[:v.OpIndex+1]...)
			res.Viol = append(res.Viol, v)
		}
	}
	ow.Flush()
	iw.Flush()
	opsF.Close()
	implF.Close()
	b, _ := json.MarshalIndent(res, "", " ")
	os.WriteFile(filepath.Join(*out, "result.json"), b, 0o644)
}

// historyOver ends a generated history early: the instance is dead (a block function never returned and still holds
// the store locks), so neither the generator nor a monitor may read its state any more.
type historyOver struct{}

func runProfile(g *Gen, profile string, nops int) {
	defer func() {
		if r := recover(); r != nil {
			if _, ok := r.(historyOver); !ok {
				panic(r)
			}
			g.stats["history-ended-by-deadlock"]++
		}
	}()
	switch profile {
	case "ledger":
		g.runLedger(nops)
	case "loop":
		g.closedLoop = true
		g.runLedger(nops)
	case "evmloop":
		g.runEvmLoop(nops)
	case "votes":
		g.runVotes(nops)
	case "oracle":
		g.runOracle(nops)
	case "keys":
		g.runKeys(nops)
	case "genesis":
		g.genesisMode = true
		switch g.rng.Intn(5) {
		case 0, 1:
			g.runLedger(nops)
		case 2, 3:
			g.runKeys(nops)
		default:
			g.runOracle(nops) // real oracle keeper: prices, holders, epochs and votes in progress across the round trip
		}
		// a hand-written genesis carrying outgoing transactions (a section ExportGenesis never writes): the real InitGenesis
		// against `importStamps`.  Drawn after the history so that the histories themselves keep their random stream.
		for i := 0; i < 3; i++ {
			seq := []uint64{0, 1, uint64(g.rng.Intn(5)), uint64(g.rng.Intn(1000)), 1 << 40}[g.rng.Intn(5)]
			g.do(fmt.Sprintf("import_stamped %d %d", seq, g.rng.Intn(7)))
		}
	case "stress":
		g.runStress(nops)
	case "mloop":
		g.runMxLoop(nops)
	case "abi":
		g.runAbi(nops)
	case "hash":
		g.runHash(nops)
	default:
		fmt.Println("unknown profile", profile)
		os.Exit(2)
	}
}

var _ = sort.Strings
var _ = hex.EncodeToString

// replayMain executes an op file with the monitor of a property switched on.
func replayMain(args []string) {
	fs := flag.NewFlagSet("replay", flag.ExitOnError)
	prop := fs.String("prop", "", "property whose monitor runs")
	in := fs.String("ops", "", "op file")
	out := fs.String("out", "", "output directory")
	fs.Parse(args)
	data, err := os.ReadFile(*in)
	if err != nil {
		fmt.Println(err)
		os.Exit(2)
	}
	os.MkdirAll(*out, 0o755)
	res := genResult{Stats: map[string]int{}}
	var g *Gen
	hist := -1
	var allOps, allOuts []string
	flush := func() {
		if g == nil {
			return
		}
		for _, v := range g.mon.viol {
			v.Ops = append([]string{}, g.ops[:v.OpIndex+1]...)
			res.Viol = append(res.Viol, v)
		}
		allOps = append(allOps, g.ops...)
		allOuts = append(allOuts, g.outs...)
		res.NumOps += len(g.ops)
		res.Hist++
	}
	for _, line := range strings.Split(string(data), "\n") {
		line = strings.TrimSpace(line)
		if line == "" || strings.HasPrefix(line, "#") {
			continue
		}
		if line == "reset" || g == nil {
			flush()
			hist++
			g = &Gen{stats: res.Stats, mon: NewMonitor(*prop, hist), env: NewEnv(false)}
			g.chains = []string{"ethereum", "minter", "bsc", "hub"}
		}
		g.do(line)
	}
	flush()
	os.WriteFile(filepath.Join(*out, "ops.txt"), []byte(strings.Join(allOps, "\n")+"\n"), 0o644)
	os.WriteFile(filepath.Join(*out, "impl.txt"), []byte(strings.Join(allOuts, "\n")+"\n"), 0o644)
	b, _ := json.MarshalIndent(res, "", " ")
	os.WriteFile(filepath.Join(*out, "result.json"), b, 0o644)
}

// ---------------------------------------------------------------- votes profile (C02, C03)

func (g *Gen) runVotes(nops int) {
	r := g.rng
	g.env = NewEnv(false)
	g.do("reset")
	g.chains = []string{"ethereum", "minter", "bsc", "hub"}
	g.do("chains " + strings.Join(g.chains, ","))
	ethTok := ethHex([]byte{0x10, 1, 2, 3, 4, 5, 6, 7, 8, 9, 10, 11, 12, 13, 14, 15, 16, 17, 18, 19})
	g.do("token 1 hub ethereum " + ethTok + " 18 10000000000000000")
	g.do("token 2 hub minter 0 18 10000000000000000")
	g.tokens = []tokSpec{{1, "hub", "ethereum", ethTok, 18}, {2, "hub", "minter", "0", 18}}
	g.denoms = []string{"hub"}
	for _, p := range []string{"eth", "bnb", "hub"} {
		g.do("price " + p + " 1000000000000000000")
	}
	nv := 2 + r.Intn(6)
	small := r.Intn(2) == 0
	for i := 0; i < nv; i++ {
		p := int64(1 + r.Intn(100))
		if small {
			p = int64(1 + r.Intn(3))
		}
		g.vals = append(g.vals, valSpec{addr: hex20(byte(0xa0 + i)), power: p, bonded: r.Intn(8) > 0, orch: map[string]string{}, eth: map[string]string{}})
	}
	if r.Intn(5) == 0 { // one dominant validator
		g.vals[0].power = 1000
	}
	g.do(g.stakingLine())
	g.do("init")
	for i := 0; i < 3; i++ {
		g.accounts = append(g.accounts, hex20(byte(0x31+i)))
	}
	for i := 0; i < 3; i++ {
		g.recips = append(g.recips, ethHex([]byte{byte(0x70 + i), 9, 9, 9, 9, 9, 9, 9, 9, 9, 9, 9, 9, 9, 9, 9, 9, 9, 9, byte(i)}))
	}
	for i := range g.vals {
		for _, c := range []string{"ethereum", "minter"} {
			if r.Intn(2) == 0 {
				g.delegate(i, c, true)
			}
		}
	}
	g.height, g.time = 1, 1600000000
	g.do(fmt.Sprintf("block %d %d", g.height, g.time))
	g.do("begin")
	// candidate events per chain/nonce
	cand := map[string][]string{}
	event := func(chain string, n uint64, variant int) string {
		k := fmt.Sprintf("%s/%d", chain, n)
		for len(cand[k]) <= variant {
			coin := ethTok
			if chain == "minter" {
				coin = "0"
			}
			amt := 1000 + r.Intn(100000)
			cand[k] = append(cand[k], fmt.Sprintf("sth %d %s %d %s %s %d 0xv%dn%d", n, coin, amt, g.pick(g.recips), g.pick(g.accounts), 100+n, len(cand[k]), n))
		}
		return cand[k][variant]
	}
	voted := map[string]uint64{} // chain/val -> last nonce voted
	votesDumps := func() {
		for _, c := range []string{"ethereum", "minter"} {
			g.do("dump votes " + c)
			g.do("dump counters " + c)
		}
		g.do("dump bank")
	}
	gapTry := func() {
		// validators that have not voted yet may start anywhere: let all of them claim an event beyond the next one
		chain := g.pick([]string{"ethereum", "minter"})
		n := g.env.k.GetLastObservedEventNonce(g.env.ctx, types.ChainID(chain)) + uint64(2+r.Intn(2))
		for _, v := range g.vals {
			key := chain + "/" + v.addr
			if _, ok := voted[key]; ok || !v.bonded {
				continue
			}
			if g.do(fmt.Sprintf("vote %s %s %s", chain, v.addr, event(chain, n, 0))) == "ok" {
				voted[key] = n
			}
		}
	}
	if r.Intn(3) == 0 {
		gapTry()
	}
	for i := 0; i < nops; i++ {
		switch x := r.Intn(100); {
		case x < 70:
			chain := g.pick([]string{"ethereum", "minter", "ethereum"})
			vi := r.Intn(len(g.vals))
			v := g.vals[vi]
			signer := v.addr
			if o, ok := v.orch[chain]; ok && r.Intn(2) == 0 {
				signer = o
			}
			if r.Intn(15) == 0 {
				signer = hex20(byte(0xe0 + r.Intn(3))) // unknown account
			}
			key := chain + "/" + v.addr
			var n uint64
			if last, ok := voted[key]; ok {
				n = last + 1
			} else {
				n = g.env.k.GetLastObservedEventNonce(g.env.ctx, types.ChainID(chain)) + 1
				if r.Intn(6) == 0 && n > 1 {
					n--
				}
			}
			switch r.Intn(12) {
			case 0:
				n += uint64(1 + r.Intn(2)) // ahead
			case 1:
				if n > 1 {
					n-- // behind / repeat
				}
			case 2:
				n = 0
			case 3:
				if n > 2 {
					n = uint64(1 + r.Intn(int(n)-1)) // well behind the validator's own last vote
				}
			}
			variant := 0
			if r.Intn(5) == 0 {
				variant = 1
			}
			out := g.do(fmt.Sprintf("vote %s %s %s", chain, signer, event(chain, n, variant)))
			if out == "ok" && signer != hex20(0xe0) {
				// attribute to the validator the signer resolves to
				voted[key] = n
			}
		case x < 78:
			// staking change
			vi := r.Intn(len(g.vals))
			switch r.Intn(3) {
			case 0:
				g.vals[vi].power = int64(1 + r.Intn(100))
			case 1:
				g.vals[vi].bonded = !g.vals[vi].bonded
			case 2:
				g.vals[vi].power = int64(r.Intn(3))
			}
			for i := range g.vals {
				if g.vals[i].bonded && g.vals[i].power == 0 {
					g.vals[i].power = 1 // a validator of the bonded set has power >= 1 (tokens >= the power reduction)
				}
			}
			g.do(g.stakingLine())
		case x < 82:
			g.do(fmt.Sprintf("q_lastnonce %s %s", g.pick([]string{"ethereum", "minter"}), g.vals[r.Intn(len(g.vals))].addr))
		case x < 91 && x >= 89 && g.mon != nil && g.mon.prop == "C06":
			// a registration of an orchestrator that never made it into a block (dry run on a discarded branch); that account
			// then tries to vote: every node must refuse it, whether it saw the dry run or not
			chain := g.pick([]string{"ethereum", "minter"})
			vi := r.Intn(len(g.vals))
			orch := hex20(byte(0xe0 + r.Intn(3)))
			g.do(fmt.Sprintf("world dryrun:delegate:%s:%s:%s:%s", chain, g.vals[vi].addr, orch, ethAddrs[len(ethAddrs)-1-r.Intn(3)]))
			n := g.env.k.GetLastObservedEventNonce(g.env.ctx, types.ChainID(chain)) + 1
			g.do(fmt.Sprintf("vote %s %s %s", chain, orch, event(chain, n, 0)))
			g.stats["det:dry-run-registration-then-vote"]++
		case x < 89 && x >= 86:
			// a validator registers keys again (a new orchestrator and external key) while one of its claims is still
			// pending, then submits its latest claims again — from its own account and from the new orchestrator
			chain := g.pick([]string{"ethereum", "minter"})
			lo := g.env.k.GetLastObservedEventNonce(g.env.ctx, types.ChainID(chain))
			for vi, v := range g.vals {
				last, ok := voted[chain+"/"+v.addr]
				if !ok || !v.bonded || last <= lo {
					continue
				}
				g.stats["votes:keys-registered-again-with-a-claim-pending"]++
				g.delegate(vi, chain, true)
				for n := lo + 1; n <= last; n++ {
					for _, e := range cand[fmt.Sprintf("%s/%d", chain, n)] {
						g.do(fmt.Sprintf("vote %s %s %s", chain, v.addr, e))
						if o, ok := g.vals[vi].orch[chain]; ok {
							g.do(fmt.Sprintf("vote %s %s %s", chain, o, e))
						}
					}
				}
				break
			}
		case x < 86 && x >= 84:
			// a validator with a claim still pending leaves the staking module altogether (delegations withdrawn, unbonding
			// complete: the validator object is removed), is created again under the same operator address, bonds, and
			// submits its pending claims again: its earlier vote is on record, none of this may be counted a second time
			chain := g.pick([]string{"ethereum", "minter"})
			lo := g.env.k.GetLastObservedEventNonce(g.env.ctx, types.ChainID(chain))
			for vi, v := range g.vals {
				last, ok := voted[chain+"/"+v.addr]
				if !ok || !v.bonded || v.gone || last <= lo || nBonded(g.vals) < 2 {
					continue
				}
				g.stats["votes:validator-removed-and-created-again-with-a-claim-pending"]++
				for round := 0; round < 1+r.Intn(3); round++ {
					g.vals[vi].gone = true
					g.do(g.stakingLine())
					if r.Intn(2) == 0 {
						g.do("end")
						votesDumps()
						g.height++
						g.time += 5
						g.do(fmt.Sprintf("block %d %d", g.height, g.time))
						g.do("begin")
					}
					g.vals[vi].gone = false
					g.vals[vi].bonded = true
					g.do(g.stakingLine())
					for n := lo + 1; n <= last; n++ {
						for _, e := range cand[fmt.Sprintf("%s/%d", chain, n)] {
							g.do(fmt.Sprintf("vote %s %s %s", chain, v.addr, e))
						}
					}
				}
				break
			}
		case x < 84:
			// a validator that joined late (an event was applied without its vote) re-submits that applied claim and
			// then its own latest claims again: none of this may be counted
			chain := g.pick([]string{"ethereum", "minter"})
			recs := g.env.VoteRecords(g.env.ctx, chain)
		late:
			for _, v := range g.vals {
				last, ok := voted[chain+"/"+v.addr]
				if !ok || !v.bonded {
					continue
				}
				for _, rec := range recs {
					if !rec.rec.Accepted || rec.nonce >= last {
						continue
					}
					listed := false
					for _, x := range rec.rec.Votes {
						if g.env.toHexAcc(x) == v.addr {
							listed = true
						}
					}
					if listed {
						continue
					}
					g.stats["votes:late-validator-replays-applied-claim"]++
					for _, e := range cand[fmt.Sprintf("%s/%d", chain, rec.nonce)] {
						g.do(fmt.Sprintf("vote %s %s %s", chain, v.addr, e))
					}
					for n := rec.nonce + 1; n <= last; n++ {
						for _, e := range cand[fmt.Sprintf("%s/%d", chain, n)] {
							g.do(fmt.Sprintf("vote %s %s %s", chain, v.addr, e))
						}
					}
					break late
				}
			}
		default:
			g.do("end")
			votesDumps()
			g.height++
			g.time += 5
			g.do(fmt.Sprintf("block %d %d", g.height, g.time))
			g.do("begin")
		}
	}
	g.do("end")
	votesDumps()
}

// ---------------------------------------------------------------- oracle profile (C18)

func (g *Gen) runOracle(nops int) {
	r := g.rng
	g.env = NewEnv(true)
	g.do("reset")
	g.chains = []string{"ethereum", "minter", "bsc", "hub"}
	g.do("chains " + strings.Join(g.chains, ","))
	g.do("token 1 hub ethereum 0x1111111111111111111111111111111111111111 18 0")
	if r.Intn(2) == 0 {
		g.do("token 2 usdt minter 5 18 0")
	}
	names := []string{"eth", "ethereum/gas", "bnb", "bsc/gas", "hub", "usdt"}
	nv := 1 + r.Intn(6)
	small := r.Intn(2) == 0
	for i := 0; i < nv; i++ {
		p := int64(1 + r.Intn(100))
		if small {
			p = int64(1 + r.Intn(3))
		}
		g.vals = append(g.vals, valSpec{addr: hex20(byte(0xa0 + i)), power: p, bonded: r.Intn(8) > 0})
	}
	if r.Intn(4) == 0 {
		g.vals[0].power = 34
		if len(g.vals) > 1 {
			g.vals[1].power = 66
		}
	}
	if len(g.vals) >= 3 && r.Intn(5) == 0 {
		// a bonded validator with less than 1/65535 of the power: its normalised weight in the oracle is 0
		g.vals[0].power, g.vals[1].power, g.vals[len(g.vals)-1].power = 60000, 39999, 1
		for i := range g.vals {
			g.vals[i].bonded = true
		}
	}
	g.do(g.stakingLine())
	g.do("init")
	g.height, g.time = 1, 1600000000
	g.do(fmt.Sprintf("block %d %d", g.height, g.time))
	holderLists := [][]string{
		{"aa=1000000000000000000", "bb=32000000000000000000"},
		{"bb=32000000000000000000", "aa=1000000000000000000"},
		{"aa=2000000000000000000"},
		{"cc=5", "AA=7"},
		{"aa=1", "AA=2"},
		// free-form address strings: two different lists whose entries read the same once joined with separators
		{"aa=5", "bb=7"},
		{"x" + hex.EncodeToString([]byte("aa:5,bb")) + "=7"},
		{"x" + hex.EncodeToString([]byte(`aa","value":"5"},{"address":"bb`)) + "=7"},
		{"x" + hex.EncodeToString([]byte("aa=5 bb")) + "=7"},
	}
	subsetNames := r.Intn(4) > 0
	if r.Intn(2) == 0 {
		names = append(names, "extra") // a name the bridge does not need: whoever reports it decides it among themselves
	}
	for i := 0; i < nops; i++ {
		epoch := g.env.ok.GetCurrentEpoch(g.env.ctx)
		switch x := r.Intn(100); {
		case x < 44:
			v := g.vals[r.Intn(len(g.vals))].addr
			if r.Intn(20) == 0 {
				v = hex20(0xee)
			}
			ep := epoch
			switch r.Intn(12) {
			case 0:
				ep = epoch + 1
			case 1:
				if epoch > 0 {
					ep = epoch - 1
				}
			}
			var items []string
			for ni, n := range names {
				if r.Intn(25) == 0 {
					continue // missing required price
				}
				if (ni >= len(names)-1 && r.Intn(2) == 0) || (subsetNames && r.Intn(5) == 0) {
					continue // a name reported by part of the validators only (rejected if the bridge requires it)
				}
				val := new(big.Int).Mul(big.NewInt(int64(1+r.Intn(50))), new(big.Int).Exp(big.NewInt(10), big.NewInt(int64(15+r.Intn(4))), nil))
				if r.Intn(40) == 0 {
					val = big.NewInt(0)
				}
				items = append(items, n+"="+val.String())
				if r.Intn(30) == 0 {
					items = append(items, n+"="+new(big.Int).Add(val, big.NewInt(1000)).String()) // duplicate name
				}
			}
			if r.Intn(8) == 0 {
				items = append(items, "only"+v[:2]+"="+big.NewInt(int64(1+r.Intn(1000))).String()) // a name nobody else reports
			}
			if len(items) == 0 {
				items = []string{"-"}
			}
			g.do(fmt.Sprintf("oprice %s %d %s", v, ep, strings.Join(items, ",")))
		case x < 47 && len(g.vals) >= 3:
			// the reporting power splits exactly in half around two values, and a validator without voting power (not
			// bonded, or with a dust stake) reports something in between: the stored price is the mean of the two halves
			for vi := range g.vals {
				g.vals[vi].bonded = vi < 2
			}
			g.vals[0].power, g.vals[1].power = 50, 50
			if r.Intn(2) == 0 {
				g.vals[0].power, g.vals[1].power, g.vals[2].power, g.vals[2].bonded = 500000, 500000, 1, true
			}
			g.do(g.stakingLine())
			unit := new(big.Int).Exp(big.NewInt(10), big.NewInt(15), nil)
			lo := 100 + r.Intn(1000)
			hi := lo + 2 + r.Intn(3000)
			mid := lo + r.Intn(hi-lo)
			order := r.Perm(3)
			for _, k := range order {
				var items []string
				for _, n := range names {
					val := new(big.Int).Mul(big.NewInt(int64([]int{lo, hi, mid}[k])), unit)
					items = append(items, n+"="+val.String())
				}
				g.do(fmt.Sprintf("oprice %s %d %s", g.vals[k].addr, epoch, strings.Join(items, ",")))
			}
			g.stats["oracle:tied-halves-with-a-powerless-report-between"]++
			g.do("oend")
			g.do("dump oracle")
			g.height++
			g.time += 5
			g.do(fmt.Sprintf("block %d %d", g.height, g.time))
		case x < 65:
			v := g.vals[r.Intn(len(g.vals))].addr
			hl := holderLists[r.Intn(len(holderLists))]
			if r.Intn(3) == 0 {
				hl = holderLists[0]
			}
			if g.holderPair || r.Intn(12) == 0 {
				g.holderPair = true // this history: a genuine list and look-alikes compete
				base := len(holderLists) - 4
				hl = holderLists[base+r.Intn(2)]
				if r.Intn(6) == 0 {
					hl = holderLists[base+2+r.Intn(2)]
				}
			}
			g.do(fmt.Sprintf("oholders %s %d %s", v, epoch, strings.Join(hl, ",")))
		case x < 72:
			vi := r.Intn(len(g.vals))
			switch r.Intn(3) {
			case 0:
				g.vals[vi].power = int64(1 + r.Intn(100))
			case 1:
				g.vals[vi].bonded = !g.vals[vi].bonded
			case 2:
				g.vals[vi].power = int64(1 + r.Intn(3))
			}
			g.do(g.stakingLine())
		default:
			g.do("oend")
			g.do("dump oracle")
			if g.genesisMode && r.Intn(4) == 0 {
				g.do("export_import")
				g.do("dump oracle")
			}
			g.height++
			g.time += 5
			g.do(fmt.Sprintf("block %d %d", g.height, g.time))
		}
	}
	g.do("oend")
	g.do("dump oracle")
}

// ---------------------------------------------------------------- abi profile (C07)

// respell writes a hex address in another spelling that go-ethereum's IsHexAddress also accepts.
func respell(r *rand.Rand, a string) string {
	switch r.Intn(3) {
	case 0:
		return strings.ToLower(a)
	case 1:
		return "0x" + strings.ToUpper(a[2:])
	}
	return a[2:]
}

func (g *Gen) randAddr() string {
	b := make([]byte, 20)
	g.rng.Read(b)
	return ethHex(b)
}

func (g *Gen) randU256() *big.Int {
	switch g.rng.Intn(6) {
	case 0:
		return big.NewInt(int64(g.rng.Intn(3)))
	case 1:
		return new(big.Int).Sub(new(big.Int).Lsh(big.NewInt(1), 256), big.NewInt(1))
	case 2:
		return new(big.Int).Lsh(big.NewInt(1), uint(g.rng.Intn(256)))
	default:
		b := make([]byte, 1+g.rng.Intn(32))
		g.rng.Read(b)
		return new(big.Int).SetBytes(b)
	}
}

func (g *Gen) randU64() uint64 {
	switch g.rng.Intn(6) {
	case 0:
		return uint64(g.rng.Intn(3))
	case 1:
		return ^uint64(0) - uint64(g.rng.Intn(8))
	case 2:
		return uint64(1)<<63 + uint64(g.rng.Intn(3)) - 1
	default:
		return g.rng.Uint64() >> uint(g.rng.Intn(64))
	}
}

func (g *Gen) runAbi(nops int) {
	r := g.rng
	g.env = NewEnv(false)
	g.do("reset")
	gids := []string{"defaultgravityid", "g", "0123456789abcdef0123456789abcdef", "mhub-2", "0123456789abcdef0123456789abcdefX"}
	for i := 0; i < nops; i++ {
		gid := gids[r.Intn(len(gids))]
		if r.Intn(2) == 0 {
			n := r.Intn(8)
			if r.Intn(10) == 0 {
				n = 20 + r.Intn(30)
			}
			var ms []string
			for j := 0; j < n; j++ {
				ms = append(ms, fmt.Sprintf("%s:%d", g.randAddr(), g.randU64()))
			}
			m := "-"
			if len(ms) > 0 {
				m = strings.Join(ms, ",")
			}
			g.do(fmt.Sprintf("ckpt_set %s %d %s", gid, g.randU64(), m))
		} else {
			n := r.Intn(6)
			if r.Intn(10) == 0 {
				n = 100
			}
			var txs []string
			for j := 0; j < n; j++ {
				txs = append(txs, fmt.Sprintf("%s:%s:%s", g.randU256(), g.randAddr(), g.randU256()))
			}
			t := "-"
			if len(txs) > 0 {
				t = strings.Join(txs, ";")
			}
			g.do(fmt.Sprintf("ckpt_batch %s %d %d %s %s", gid, g.randU64(), g.randU64(), g.randAddr(), t))
		}
		if r.Intn(3) == 0 {
			// a contract (logic) call: 0..4 transfers and fees, payloads of any length, invalidation scopes of 0..40 bytes
			list := func(n int, f func() string) string {
				if n == 0 {
					return "-"
				}
				var l []string
				for j := 0; j < n; j++ {
					l = append(l, f())
				}
				return strings.Join(l, ",")
			}
			hexOf := func(n int) string {
				if n == 0 {
					return "-"
				}
				b := make([]byte, n)
				r.Read(b)
				return hex.EncodeToString(b)
			}
			nt, nf := r.Intn(5), r.Intn(4)
			scopeLen := []int{32, 32, 0, 1, 14, 31, 33, 40}[r.Intn(8)]
			payLen := []int{0, 1, 31, 32, 33, 64, 100}[r.Intn(7)]
			u256 := func() string { return g.randU256().String() }
			ta, tt := list(nt, u256), list(nt, g.randAddr)
			fa, ft := list(nf, u256), list(nf, g.randAddr)
			if nt == 0 {
				tt = "-"
			}
			if nf == 0 {
				ft = "-"
			}
			g.do(fmt.Sprintf("ckpt_call %s %s %s %s %s %s %s %d %s %d", gid, ta, tt, fa, ft, g.randAddr(), hexOf(payLen), g.randU64(), hexOf(scopeLen), g.randU64()))
		}
		if r.Intn(5) == 0 {
			d := make([]byte, 32)
			r.Read(d)
			g.do("ethmsg " + hex.EncodeToString(d))
		}
	}
}

// ---------------------------------------------------------------- hash profile (C14)

// runHash emits `hash <event>` for pairs of admissible events of one type and nonce that differ in
// exactly one field, and for pairs whose variable-length fields are shifted across a boundary.
func (g *Gen) runHash(nops int) {
	r := g.rng
	g.env = NewEnv(false)
	g.do("reset")
	acc := func() string { b := make([]byte, 20); r.Read(b); return hex.EncodeToString(b) }
	txh := func() string { return fmt.Sprintf("0x%x", r.Uint64()) }
	for i := 0; i < nops; i++ {
		n := 1 + r.Intn(1000)
		h := 1 + r.Intn(100000)
		amt := g.bigAmount()
		if amt.Sign() == 0 {
			amt = big.NewInt(7)
		}
		switch r.Intn(4) {
		case 0: // sth
			f := []string{"sth", fmt.Sprint(n), g.randAddr(), amt.String(), g.randAddr(), acc(), fmt.Sprint(h), txh()}
			g.do("hash " + strings.Join(f, " "))
			k := 1 + r.Intn(9)
			m := append([]string{}, f...)
			switch k {
			case 9:
				m[2] = respell(r, m[2]) // the same contract in another spelling: a different token id to the token table
			case 8:
				m[3] = "-" + m[3] // inadmissible unless Validate stops rejecting negative amounts
			case 1:
				m[1] = fmt.Sprint(n + 1)
			case 2:
				m[2] = g.randAddr()
			case 3:
				m[3] = new(big.Int).Add(amt, big.NewInt(1)).String()
			case 4:
				m[4] = g.randAddr()
			case 5:
				m[5] = acc()
			case 6:
				m[6] = fmt.Sprint(h + 1)
			case 7:
				m[7] = txh()
			}
			g.pair = [2]string{"sth", []string{"", "nonce", "coin", "amount", "sender", "receiver", "height", "txhash", "amount-sign", "coin-spelling"}[k]}
			g.do("hash " + strings.Join(m, " "))
		case 1: // ttc
			coin := g.randAddr()
			f := []string{"ttc", fmt.Sprint(n), coin, amt.String(), "5", g.randAddr(), "bsc", g.randAddr(), fmt.Sprint(h), txh()}
			g.do("hash " + strings.Join(f, " "))
			k := 1 + r.Intn(12)
			m := append([]string{}, f...)
			switch k {
			case 12:
				m[2] = respell(r, m[2])
			case 10:
				m[7] = m[7][2:] // the same recipient spelled without 0x (admissible: IsHexAddress), different effect
			case 11:
				m[3] = "-" + m[3] // inadmissible unless Validate stops rejecting negative amounts
			case 1:
				m[1] = fmt.Sprint(n + 1)
			case 2:
				m[2] = g.randAddr()
			case 3:
				m[3] = new(big.Int).Add(amt, big.NewInt(1)).String()
			case 4:
				m[4] = "6"
			case 5:
				m[5] = g.randAddr()
			case 6:
				m[6] = "minter"
			case 7:
				m[7] = g.randAddr()
			case 8:
				m[8] = fmt.Sprint(h + 1)
			case 9:
				m[9] = txh()
			}
			g.pair = [2]string{"ttc", []string{"", "nonce", "coin", "amount", "fee", "sender", "rchain", "receiver", "height", "txhash", "receiver-spelling", "amount-sign", "coin-spelling"}[k]}
			g.do("hash " + strings.Join(m, " "))
		case 2: // bex
			f := []string{"bex", g.randAddr(), fmt.Sprint(n), fmt.Sprint(1 + r.Intn(50)), fmt.Sprint(h), txh(), "1000", g.randAddr()}
			g.do("hash " + strings.Join(f, " "))
			k := 1 + r.Intn(8)
			m := append([]string{}, f...)
			switch k {
			case 8:
				m[1] = respell(r, m[1])
			case 1:
				m[1] = g.randAddr()
			case 2:
				m[2] = fmt.Sprint(n + 1)
			case 3:
				m[3] = m[3] + "1"
			case 4:
				m[4] = fmt.Sprint(h + 1)
			case 5:
				m[5] = txh()
			case 6:
				m[6] = "1001"
			case 7:
				m[7] = g.randAddr()
			}
			g.pair = [2]string{"bex", []string{"", "coin", "nonce", "batchnonce", "height", "txhash", "feepaid", "feepayer", "coin-spelling"}[k]}
			g.do("hash " + strings.Join(m, " "))
		case 3:
			if r.Intn(2) == 0 { // sse
				a1, a2 := g.randAddr(), g.randAddr()
				f := []string{"sse", fmt.Sprint(n), fmt.Sprint(1 + r.Intn(50)), fmt.Sprint(h), txh(), fmt.Sprintf("%s:%d,%s:%d", a1, 1+r.Intn(100), a2, 1+r.Intn(100))}
				g.do("hash " + strings.Join(f, " "))
				k := 1 + r.Intn(7)
				m := append([]string{}, f...)
				switch k {
				case 1:
					m[1] = fmt.Sprint(n + 1)
				case 2:
					m[2] = m[2] + "1"
				case 3:
					m[3] = fmt.Sprint(h + 1)
				case 4:
					m[4] = txh()
				case 5:
					m[5] = fmt.Sprintf("%s:%d,%s:%d", a1, 1+r.Intn(100), g.randAddr(), 1+r.Intn(100))
				case 6:
					m[5] = fmt.Sprintf("%s:%d,%s:%d", a1, 101+r.Intn(100), a2, 1+r.Intn(100))
				case 7:
					// the same members listed in another order: one claim identifier is right only if the event that is
					// stored and applied is the same whoever reported first
					parts := strings.Split(f[5], ",")
					m[5] = parts[1] + "," + parts[0]
				}
				g.pair = [2]string{"sse", []string{"", "nonce", "setnonce", "height", "txhash", "members-address", "members-power", "members-order"}[k]}
				g.do("hash " + strings.Join(m, " "))
			} else {
				// boundary shift on a minter chain: coin id digits move into the amount bytes
				c1 := fmt.Sprint(1 + r.Intn(9))
				d := 1 + r.Intn(9)
				c2 := c1 + fmt.Sprint(d)
				lo := byte(1 + r.Intn(250))
				a1 := new(big.Int).SetBytes([]byte{byte(0x30 + d), lo})
				a2 := new(big.Int).SetBytes([]byte{lo})
				rc, snd, t := acc(), g.randAddr(), txh()
				g.pair = [2]string{"sth", "boundary-shift(coin|amount)"}
				g.do(fmt.Sprintf("hash sth %d %s %s %s %s %d %s", n, c1, a1, snd, rc, h, t))
				g.do(fmt.Sprintf("hash sth %d %s %s %s %s %d %s", n, c2, a2, snd, rc, h, t))
			}
		}
	}
}

// ---------------------------------------------------------------- keys profile (C09, C16, C17)

func (g *Gen) runKeys(nops int) {
	r := g.rng
	g.env = NewEnv(false)
	g.do("reset")
	g.chains = []string{"ethereum", "minter", "bsc", "hub"}
	g.do("chains " + strings.Join(g.chains, ","))
	ethTok := ethHex([]byte{0x10, 1, 2, 3, 4, 5, 6, 7, 8, 9, 10, 11, 12, 13, 14, 15, 16, 17, 18, 19})
	g.do("token 1 hub ethereum " + ethTok + " 18 10000000000000000")
	g.do("token 2 hub minter 0 18 10000000000000000")
	g.tokens = []tokSpec{{1, "hub", "ethereum", ethTok, 18}, {2, "hub", "minter", "0", 18}}
	g.denoms = []string{"hub"}
	for _, p := range []string{"eth", "bnb", "hub"} {
		g.do("price " + p + " 1000000000000000000")
	}
	if r.Intn(3) == 0 {
		g.do(fmt.Sprintf("param window %d", 1+r.Intn(4)))
	}
	nv := 1 + r.Intn(7)
	mode := r.Intn(4)
	for i := 0; i < nv; i++ {
		p := int64(1 + r.Intn(1000))
		switch mode {
		case 0:
			p = 100 // ties
		case 1:
			if i == 0 {
				p = 1000000 // dominant
			}
		case 2:
			p = int64(1 + r.Intn(3))
		}
		g.vals = append(g.vals, valSpec{addr: hex20(byte(0xa0 + i)), power: p, bonded: r.Intn(8) > 0, orch: map[string]string{}, eth: map[string]string{}})
	}
	if r.Intn(2) == 0 {
		// operator addresses at the ends of the byte order (range scans over store keys end with them)
		g.vals[len(g.vals)-1].addr = "ff" + strings.Repeat("22", 19)
		if len(g.vals) > 1 {
			g.vals[0].addr = "00" + strings.Repeat("11", 19)
		}
	}
	g.orchFromVals = true
	g.do(g.stakingLine())
	g.do("init")
	for i := 0; i < 3; i++ {
		g.accounts = append(g.accounts, hex20(byte(0x31+i)))
		g.do(fmt.Sprintf("fund %s hub 1000000000000000000000", hex20(byte(0x31+i))))
	}
	for i := 0; i < 3; i++ {
		g.recips = append(g.recips, ethHex([]byte{byte(0x70 + i), 9, 9, 9, 9, 9, 9, 9, 9, 9, 9, 9, 9, 9, 9, 9, 9, 9, 9, byte(i)}))
	}
	g.height, g.time = 1, 1600000000
	g.do(fmt.Sprintf("block %d %d", g.height, g.time))
	g.do("begin")
	kchains := []string{"ethereum", "minter", "bsc"}
	dumps := func() {
		for _, c := range kchains {
			g.do("dump keys " + c)
			g.do("dump sets " + c)
			g.do("dump sigs " + c)
			g.do("dump counters " + c)
		}
	}
	sigc := 0
	for i := 0; i < nops; i++ {
		chain := kchains[r.Intn(len(kchains))]
		switch x := r.Intn(100); {
		case x < 22:
			vi := r.Intn(len(g.vals))
			if r.Intn(12) == 0 {
				// unknown validator
				v := valSpec{addr: hex20(byte(0xb0 + r.Intn(3))), orch: map[string]string{}, eth: map[string]string{}}
				g.vals = append(g.vals, v)
				g.delegate(len(g.vals)-1, chain, true)
				g.vals = g.vals[:len(g.vals)-1]
			} else {
				g.delegate(vi, chain, r.Intn(5) > 0)
			}
		case x < 30:
			vi := r.Intn(len(g.vals))
			switch r.Intn(5) {
			case 4:
				// mainnet-sized consensus power (one staked HUB is 10^12 units): far above 2^32
				g.vals[vi].power = int64(1+r.Intn(9000)) * 1000000000000
				if r.Intn(2) == 0 {
					for j := range g.vals {
						g.vals[j].power = int64(1+r.Intn(9000)) * 1000000000000
					}
				}
			case 0:
				g.vals[vi].power = int64(1 + r.Intn(1000))
			case 1:
				g.vals[vi].bonded = !g.vals[vi].bonded
			case 2:
				// drift around the 5 % boundary
				g.vals[vi].power = g.vals[vi].power + g.vals[vi].power*int64(r.Intn(9))/100 + int64(r.Intn(2))
			case 3:
				g.vals[vi].power = int64(1 + r.Intn(3))
			}
			g.do(g.stakingLine())
		case x < 55:
			// confirmation of a signer set or a batch
			v := g.vals[r.Intn(len(g.vals))]
			signer := v.addr
			if o, ok := v.orch[chain]; ok && r.Intn(2) == 0 {
				signer = o
			}
			if r.Intn(12) == 0 {
				signer = hex20(byte(0xe0 + r.Intn(2)))
			}
			ext := v.eth[chain]
			if ext == "" || r.Intn(10) == 0 {
				ext = ethAddrs[r.Intn(len(ethAddrs))]
				if r.Intn(3) == 0 {
					ext = "0x0000000000000000000000000000000000000000"
				}
			}
			sigc++
			sig := fmt.Sprintf("%02x%02x", sigc%256, r.Intn(256))
			sets := g.env.Sets(g.env.ctx, chain)
			bs := g.env.Batches(g.env.ctx, chain)
			if r.Intn(2) == 0 || len(bs) == 0 {
				n := uint64(1 + r.Intn(4))
				if len(sets) > 0 && r.Intn(6) > 0 {
					n = sets[r.Intn(len(sets))].Nonce
				}
				// half of the confirmations carry a real signature of the registered key over the checkpoint, so a
				// validator's junk confirmation and its valid one for the same transaction meet in one history
				for _, sx := range sets {
					if sx.Nonce == n && ethKeyByAddr[ext] != nil && r.Intn(2) == 0 {
						sig = hex.EncodeToString(g.env.signCheckpoint(sx, ext))
						g.stats["keys:confirmation-with-real-signature"]++
					}
				}
				g.do(fmt.Sprintf("confirm %s %s set %d %s %s", chain, signer, n, ext, sig))
			} else {
				b := bs[r.Intn(len(bs))]
				n := b.BatchNonce
				if r.Intn(8) == 0 {
					n += 7
				}
				if n == b.BatchNonce && ethKeyByAddr[ext] != nil && r.Intn(2) == 0 {
					sig = hex.EncodeToString(g.env.signCheckpoint(b, ext))
					g.stats["keys:confirmation-with-real-signature"]++
				}
				tokenId := b.ExternalTokenId
				if r.Intn(8) == 0 {
					// the token contract spelled in another letter case: that names no outgoing transaction of the hub
					tokenId = strings.ToLower(tokenId)
					if r.Intn(2) == 0 {
						tokenId = "0x" + strings.ToUpper(strings.TrimPrefix(b.ExternalTokenId, "0x"))
					}
				}
				g.do(fmt.Sprintf("confirm %s %s batch %s %d %s %s", chain, signer, tokenId, n, ext, sig))
			}
		case x < 67:
			v := g.vals[r.Intn(len(g.vals))]
			signer := v.addr
			if o, ok := v.orch[chain]; ok && r.Intn(2) == 0 {
				signer = o
			}
			switch r.Intn(4) {
			case 0:
				g.do(fmt.Sprintf("q_unsigned_sets %s %s", chain, signer))
			case 1:
				g.do(fmt.Sprintf("q_unsigned_batches %s %s", chain, signer))
			case 2:
				sets := g.env.Sets(g.env.ctx, chain)
				n := uint64(1)
				if len(sets) > 0 {
					n = sets[r.Intn(len(sets))].Nonce
				}
				g.do(fmt.Sprintf("q_confs %s set %d", chain, n))
			case 3:
				bs := g.env.Batches(g.env.ctx, chain)
				if len(bs) > 0 {
					b := bs[r.Intn(len(bs))]
					g.do(fmt.Sprintf("q_confs %s batch %s %d", chain, b.ExternalTokenId, b.BatchNonce))
				}
			}
		case x < 75:
			c := g.pick([]string{"ethereum", "minter"})
			g.do(fmt.Sprintf("send %s %s %s hub %d %d %s", g.pick(g.accounts), c, g.pick(g.recips), 1000000+r.Intn(1000000), 1000+r.Intn(100), g.nextTag()))
			if r.Intn(2) == 0 {
				g.do(fmt.Sprintf("reqbatch %s hub", c))
			}
		case x < 80:
			// a vote through an orchestrator: attribution
			v := g.vals[r.Intn(len(g.vals))]
			signer := v.addr
			if o, ok := v.orch[chain]; ok {
				signer = o
			}
			n := g.env.k.GetLastObservedEventNonce(g.env.ctx, types.ChainID(chain)) + 1
			coin := ethTok
			if chain == "minter" {
				coin = "0"
			}
			if chain != "bsc" {
				g.do(fmt.Sprintf("vote %s %s sth %d %s 1000 %s %s %d 0xk%d", chain, signer, n, coin, g.pick(g.recips), g.pick(g.accounts), 100+n, n))
				g.do("dump votes " + chain)
			}
		case x < 84:
			// the external chain adopts a signer set: observed through a quorum of votes
			sets := g.env.Sets(g.env.ctx, chain)
			if len(sets) > 0 && chain != "bsc" {
				st := sets[r.Intn(len(sets))]
				n := g.env.k.GetLastObservedEventNonce(g.env.ctx, types.ChainID(chain)) + 1
				m := "-"
				if len(st.Signers) > 0 {
					m = showSigners(st.Signers)
				}
				for _, v := range g.vals {
					if v.bonded {
						g.do(fmt.Sprintf("vote %s %s sse %d %d %d 0xs%d %s", chain, v.addr, n, st.Nonce, 100+n, n, m))
					}
				}
			}
		default:
			g.do("end")
			g.maybeExportImport()
			quiet := r.Intn(12) == 0
			if quiet {
				// a long quiet stretch: tens of thousands of hub blocks without any report from the external chains (longer
				// than the target batch timeout); whatever is still stored is still offered for signing
				k := int64(20000 + r.Intn(30000))
				g.height += k
				g.time += 5 * k
				g.stats["keys:long-quiet-stretch"]++
			} else {
				g.height += int64(1 + r.Intn(3))
				g.time += 5
			}
			g.do(fmt.Sprintf("block %d %d", g.height, g.time))
			g.do("begin")
			dumps()
			if quiet {
				for _, c := range []string{"ethereum", "bsc", "minter"} {
					for _, v := range g.vals {
						g.do(fmt.Sprintf("q_unsigned_batches %s %s", c, v.addr))
						g.do(fmt.Sprintf("q_unsigned_sets %s %s", c, v.addr))
					}
				}
			}
		}
	}
	g.do("end")
	dumps()
}

// ---------------------------------------------------------------- stress profile (C05)

// runStress builds blocks with many store writes (more than 64 dirty pool keys), several expired
// transfers, batches timing out with many transfers, and reported events whose contents pass
// stateless validation but are hostile: negative / zero / 2^255-scale amounts and fees, unknown
// tokens and chains, missing prices, decimals above 18, odd receiver strings.
func (g *Gen) runStress(nops int) {
	r := g.rng
	g.setup()
	g.do(fmt.Sprintf("block %d %d", g.height, g.time))
	g.do("begin")
	hostile := func() *big.Int {
		switch r.Intn(7) {
		case 0:
			return big.NewInt(-1)
		case 1:
			return big.NewInt(0)
		case 2:
			return new(big.Int).Sub(new(big.Int).Lsh(big.NewInt(1), 255), big.NewInt(1))
		case 3:
			return new(big.Int).Lsh(big.NewInt(1), 254)
		case 4:
			return new(big.Int).Neg(new(big.Int).Lsh(big.NewInt(1), 200))
		default:
			return g.bigAmount()
		}
	}
	for i := 0; i < nops; i++ {
		switch x := r.Intn(100); {
		case x < 25:
			// a burst of sends in one block
			n := 10 + r.Intn(120)
			chain := g.pick([]string{"ethereum", "minter", "bsc"})
			toks := g.tokensOn(chain)
			if len(toks) == 0 {
				continue
			}
			for j := 0; j < n; j++ {
				t := toks[r.Intn(len(toks))]
				g.do(fmt.Sprintf("send %s %s %s %s %d %d %s", g.pick(g.accounts), chain, g.pick(g.recips), t.denom, 1000000000000+r.Intn(1000000), r.Intn(5)*1000000000, g.nextTag()))
			}
			if r.Intn(2) == 0 {
				// in the same block: registrations that are refused (address or orchestrator already bound), then one more write
				for k := 0; k < 3; k++ {
					var holder *valSpec
					for i := range g.vals {
						if g.vals[i].eth[chain] != "" {
							holder = &g.vals[i]
						}
					}
					if holder == nil {
						break
					}
					other := g.vals[r.Intn(len(g.vals))]
					g.do(fmt.Sprintf("delegate %s %s %s %s %s %s %d %d", chain, other.addr, hex20(byte(0xd0+k)), holder.eth[chain], holder.eth[chain], other.addr, 0, 1))
					g.do(fmt.Sprintf("delegate %s %s %s %s %s %s %d %d", chain, other.addr, holder.orch[chain], ethAddrs[len(ethAddrs)-1-k], ethAddrs[len(ethAddrs)-1-k], other.addr, 0, 1))
				}
				g.stats["stress:refused-registrations-after-a-burst"]++
				t := toks[r.Intn(len(toks))]
				g.do(fmt.Sprintf("send %s %s %s %s %d %d %s", g.pick(g.accounts), chain, g.pick(g.recips), t.denom, 1000000000000+r.Intn(1000000), r.Intn(5)*1000000000, g.nextTag()))
				g.do("end")
				g.height++
				g.time += 3
				g.do(fmt.Sprintf("block %d %d", g.height, g.time))
				g.do("begin")
			}
		case x < 45:
			// hostile reported events, voted by everybody
			chain := g.pick([]string{"ethereum", "minter", "bsc"})
			toks := g.tokensOn(chain)
			coin := "1"
			if chain != "minter" {
				coin = g.randAddr()
			}
			if len(toks) > 0 && r.Intn(4) > 0 {
				coin = toks[r.Intn(len(toks))].ext
			}
			n := g.nextEvt[chain]
			g.nextEvt[chain]++
			h := g.eventHeight(chain)
			amt := hostile()
			if amt.Sign() < 0 {
				amt = new(big.Int).Neg(amt) // a negative amount does not pass Validate; fees are not checked
			}
			switch r.Intn(3) {
			case 0:
				g.voteAll(chain, fmt.Sprintf("sth %d %s %s %s %s %d 0x%s", n, coin, amt, g.pick(g.recips), g.pick(g.accounts), h, g.nextTag()))
			case 1:
				recv := g.pick(g.recips)
				rchain := g.pick([]string{"hub", "ethereum", "minter", "bsc", "nochain"})
				if rchain == "hub" {
					recv = "0x" + g.pick(g.accounts)
					if r.Intn(4) == 0 {
						recv = g.pick(g.accounts) // 40 hex characters without 0x: passes IsHexAddress
					}
				}
				g.voteAll(chain, fmt.Sprintf("ttc %d %s %s %s %s %s %s %d 0x%s", n, coin, amt, hostile(), g.pick(g.recips), rchain, recv, h, g.nextTag()))
			case 2:
				bs := g.env.Batches(g.env.ctx, chain)
				bn := uint64(1 + r.Intn(3))
				if len(bs) > 0 {
					b := bs[r.Intn(len(bs))]
					coin, bn = b.ExternalTokenId, b.BatchNonce
				}
				g.voteAll(chain, fmt.Sprintf("bex %s %d %d %d 0x%s %s %s", coin, n, bn, h, g.nextTag(), hostile(), g.pick(g.recips)))
			}
		case x < 56:
			// a burst of claims in one block: an execution of a pending batch reaches its quorum together with
			// 66..100 further events, so that end-block tallies and applies them while the block's cache holds
			// more dirty vote records than the store's iterator hand-over buffer (64)
			chain := g.pick([]string{"ethereum", "bsc"})
			toks := g.tokensOn(chain)
			if len(toks) == 0 {
				continue
			}
			// hostile events may have left the chain's event stream waiting at a nonce nobody could vote for: continue from
			// what the hub has observed
			if lo := g.env.k.GetLastObservedEventNonce(g.env.ctx, types.ChainID(chain)); g.nextEvt[chain] != lo+1 {
				g.nextEvt[chain] = lo + 1
				g.stats["stress:event-stream-resynchronised"]++
			}
			{
				// a batch stored in this very block (its key is still in the block cache's unsorted part). The generator
				// must not read the batch range itself here: an iterator over the block's cache moves the dirty keys of
				// its range into the sorted part, which is the state a node that only executes transactions never is in
				t := toks[r.Intn(len(toks))]
				g.do(fmt.Sprintf("fund %s %s 100000000000000000000", g.accounts[0], t.denom))
				for j := 0; j < 3; j++ {
					g.do(fmt.Sprintf("send %s %s %s %s %d %d %s", g.accounts[0], chain, g.pick(g.recips), t.denom, 2000000000000000000+int64(r.Intn(1000000)), 3000000000000000+int64(r.Intn(5))*1000000000, g.nextTag()))
				}
				out := g.do("reqbatch " + chain + " " + t.denom)
				var bn uint64
				if _, err := fmt.Sscanf(out, "ok nonce=%d", &bn); err == nil && bn > 0 {
					n := g.nextEvt[chain]
					g.nextEvt[chain]++
					g.voteAll(chain, fmt.Sprintf("bex %s %d %d %d 0x%s %d %s", t.ext, n, bn, g.eventHeight(chain), g.nextTag(), r.Intn(1000), g.pick(g.recips)))
					g.stats["stress:claim-burst-with-execution"]++
				} else if bs := g.env.Batches(g.env.ctx, chain); len(bs) > 0 {
					b := bs[r.Intn(len(bs))]
					n := g.nextEvt[chain]
					g.nextEvt[chain]++
					g.voteAll(chain, fmt.Sprintf("bex %s %d %d %d 0x%s %d %s", b.ExternalTokenId, n, b.BatchNonce, g.eventHeight(chain), g.nextTag(), r.Intn(1000), g.pick(g.recips)))
					g.stats["stress:claim-burst-with-execution-of-an-older-batch"]++
				}
			}
			for j, m := 0, 66+r.Intn(35); j < m; j++ {
				t := toks[r.Intn(len(toks))]
				n := g.nextEvt[chain]
				g.nextEvt[chain]++
				g.voteAll(chain, fmt.Sprintf("sth %d %s %d %s %s %d 0x%s", n, t.ext, 1+r.Intn(1000000), g.pick(g.recips), g.pick(g.accounts), g.eventHeight(chain), g.nextTag()))
			}
		case x < 60:
			g.opReqBatch()
		case x < 63:
			g.opCancel()
		default:
			g.do("end")
			g.height += int64(1 + r.Intn(2))
			if r.Intn(3) == 0 {
				g.time += int64(100 + r.Intn(300)) // everything pending expires
			} else {
				g.time += int64(1 + r.Intn(8))
			}
			g.do(fmt.Sprintf("block %d %d", g.height, g.time))
			g.do("begin")
		}
	}
	g.do("end")
}

// checkDeterminism replays the recorded history twice in fresh instances (Go randomises every map
// iteration) and compares the state/event digest after every operation with the first run.
func checkDeterminism(g *Gen, stats map[string]int) {
	realOracle := g.env.useRealOracle
	for rep := 0; rep < 2; rep++ {
		env := NewEnv(realOracle)
		env.replica = rep + 1
		k := 0
		for i, line := range g.ops {
			var out string
			if rep == 1 && strings.HasPrefix(line, "world dryrun:") {
				// the second replica never runs the discarded branches (a node that did not see the
				// CheckTx / simulation / proposal dry run): it must stay in step all the same
				out = "ok"
				stats["det:dry-runs-skipped-by-one-replica"]++
			} else {
				out = env.Exec(line)
			}
			if out != g.outs[i] {
				g.mon.viol = append(g.mon.viol, Violation{Property: "C06", Class: "output-differs-between-replays", History: g.mon.history, OpIndex: i,
					Detail: fmt.Sprintf("op %q gave %q in the first run and %q in replay %d", line, g.outs[i], out, rep+1)})
				return
			}
			if k < len(g.digestAt) && g.digestAt[k] == i {
				if env.inited && !env.dead {
					if d := env.StateDigest(); d != g.digests[k] {
						g.mon.viol = append(g.mon.viol, Violation{Property: "C06", Class: "state-differs-between-replays", History: g.mon.history, OpIndex: i,
							Detail: fmt.Sprintf("after op %q the store/event digest is %s in the first run and %s in replay %d", line, g.digests[k], d, rep+1)})
						return
					}
				}
				k++
			}
		}
		stats["det:replays"]++
	}
}
