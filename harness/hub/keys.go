package main

import (
	"crypto/ecdsa"
	"crypto/sha256"
	"fmt"

	"github.com/ethereum/go-ethereum/common"
	"github.com/ethereum/go-ethereum/crypto"

	"github.com/MinterTeam/mhub2/module/x/mhub2/types"
)

// Deterministic pool of external (secp256k1) keys.
var ethKeys []*ecdsa.PrivateKey
var ethAddrs []string
var ethKeyByAddr = map[string]*ecdsa.PrivateKey{}

func init() {
	for i := 0; i < 12; i++ {
		h := sha256.Sum256([]byte(fmt.Sprintf("verif-eth-key-%d", i)))
		k, err := crypto.ToECDSA(h[:])
		if err != nil {
			panic(err)
		}
		ethKeys = append(ethKeys, k)
		a := crypto.PubkeyToAddress(k.PublicKey).Hex()
		ethAddrs = append(ethAddrs, a)
		ethKeyByAddr[a] = k
	}
}

func ethHex(b []byte) string { return common.BytesToAddress(b).Hex() }

// signDelegate signs DelegateKeysSignMsg{validator, nonce} with the key of `signedBy`.
func (e *Env) signDelegate(signedBy string, valBech32 string, nonce uint64) []byte {
	k := ethKeyByAddr[signedBy]
	if k == nil {
		return []byte{1} // not a key we hold: an invalid signature
	}
	bz := e.cdc.MustMarshal(&types.DelegateKeysSignMsg{ValidatorAddress: valBech32, Nonce: nonce})
	hash := crypto.Keccak256Hash(bz).Bytes()
	sig, err := types.NewEthereumSignature(hash, k)
	if err != nil {
		panic(err)
	}
	return sig
}
