#!/bin/bash
# copies the repository's compiled contract bindings (solidity/contracts/*.go) into a harness as package hub2, at build time
set -e
cd "$(dirname "$0")/$1"
REPO=${VERIF_REPO:-/repo}
mkdir -p hub2
for f in Hub2.go CosmosERC20.go; do
  sed -e 's/^package .*/package hub2/' "$REPO/solidity/contracts/$f" > hub2/$f
done
