// connharness drives the real minter-connector code (command validation, resynchronisation
// scan) against a scripted Minter node, and prints one canonical line per operation.
package main

import (
	"encoding/hex"
	"bufio"
	"encoding/json"
	"flag"
	"fmt"
	"math/big"
	"math/rand"
	"os"
	"path/filepath"
	"strconv"
	"strings"
	"syscall"

	"github.com/MinterTeam/minter-go-sdk/v2/api/http_client"
	"github.com/MinterTeam/minter-go-sdk/v2/api/http_client/client/api_service"
	"github.com/MinterTeam/minter-go-sdk/v2/api/http_client/models"
	"github.com/MinterTeam/minter-go-sdk/v2/transaction"
	sdk "github.com/cosmos/cosmos-sdk/types"
	"github.com/go-openapi/strfmt"
	"github.com/tendermint/tendermint/libs/log"

	"github.com/MinterTeam/mhub2/minter-connector/command"
	"github.com/MinterTeam/mhub2/minter-connector/config"
	mctx "github.com/MinterTeam/mhub2/minter-connector/context"
	"github.com/MinterTeam/mhub2/minter-connector/minter"
)

const multisig = "Mx1111111111111111111111111111111111111111"
const otherAddr = "Mx2222222222222222222222222222222222222222"

// ---------------------------------------------------------------- scripted Minter node

type fakeNode struct {
	api_service.ClientService
	blocks []*models.BlockResponse
}

func (f *fakeNode) Status(p *api_service.StatusParams, _ ...api_service.ClientOption) (*api_service.StatusOK, error) {
	h := uint64(0)
	if len(f.blocks) > 0 {
		h = f.blocks[len(f.blocks)-1].Height
	}
	return &api_service.StatusOK{Payload: &models.StatusResponse{LatestBlockHeight: h}}, nil
}

func (f *fakeNode) Blocks(p *api_service.BlocksParams, _ ...api_service.ClientOption) (*api_service.BlocksOK, error) {
	var out []*models.BlockResponse
	for _, b := range f.blocks {
		if b.Height >= p.FromHeight && b.Height <= p.ToHeight {
			out = append(out, b)
		}
	}
	return &api_service.BlocksOK{Payload: &models.BlocksResponse{Blocks: out}}, nil
}

// tx spec from the protocol: send:<toM>:<jsonOk>:<cmdValid> | ms:<fromM> | em:<fromM>:<payload> | other
// For `send` the concrete command is chosen so that the real ValidateAndComplete yields cmdValid.
func (h *harness) mkTx(spec string, idx int) *models.TransactionResponse {
	p := strings.Split(spec, ":")
	tx := &models.TransactionResponse{Hash: fmt.Sprintf("Mt%04d", idx), From: otherAddr}
	addr := func(b string) string {
		if b == "1" {
			return multisig
		}
		return otherAddr
	}
	switch p[0] {
	case "send":
		tx.Type = uint64(transaction.TypeSend)
		any := models.ProtobufAny{"@type": "type.googleapis.com/api_pb.SendData", "coin": map[string]interface{}{"id": "1", "symbol": "X"}, "to": addr(p[1]), "value": "1000000"}
		tx.Data = &any
		switch {
		case p[2] != "1":
			tx.Payload = strfmt.Base64("{not json")
		case p[3] == "1" && idx%3 == 0:
			tx.Payload = strfmt.Base64(`{"type":"send_to_hub","recipient":"` + sdk.AccAddress(make([]byte, 20)).String() + `","fee":"0"}`)
		case p[3] == "1":
			tx.Payload = strfmt.Base64(`{"type":"send_to_ethereum","recipient":"0x3333333333333333333333333333333333333333","fee":"1000"}`)
		default:
			bad := []string{
				`{"type":"send_to_ethereum","recipient":"0x33","fee":"1000"}`,
				`{"type":"send_to_mars","recipient":"0x3333333333333333333333333333333333333333","fee":"1000"}`,
				`{"type":"send_to_bsc","recipient":"0x3333333333333333333333333333333333333333","fee":"abc"}`,
				`{"type":"send_to_bsc","recipient":"0x3333333333333333333333333333333333333333","fee":"990000"}`,
				`{"type":"send_to_hub","recipient":"nothub1xyz","fee":"1"}`,
				// a well-formed hub recipient, but no integer fee: key absent, empty, null
				`{"type":"send_to_hub","recipient":"` + sdk.AccAddress(make([]byte, 20)).String() + `"}`,
				`{"type":"send_to_hub","recipient":"` + sdk.AccAddress(make([]byte, 20)).String() + `","fee":""}`,
				`{"type":"send_to_ethereum","recipient":"0x3333333333333333333333333333333333333333"}`,
			}
			tx.Payload = strfmt.Base64(bad[idx%len(bad)])
		}
	case "ms":
		tx.Type = uint64(transaction.TypeMultisend)
		tx.From = addr(p[1])
		any := models.ProtobufAny{"@type": "type.googleapis.com/api_pb.MultiSendData", "list": []interface{}{
			map[string]interface{}{"coin": map[string]interface{}{"id": "1", "symbol": "X"}, "to": otherAddr, "value": "1000"}}} // Minter admits 1..100 items
		tx.Data = &any
	case "em":
		tx.Type = uint64(transaction.TypeEditMultisig)
		tx.From = addr(p[1])
		tx.Payload = strfmt.Base64(p[2])
		any := models.ProtobufAny{"@type": "type.googleapis.com/api_pb.EditMultisigData", "threshold": "667", "weights": []interface{}{"1000"}, "addresses": []interface{}{otherAddr}}
		tx.Data = &any
	default:
		tx.Type = uint64(transaction.TypeDelegate)
	}
	return tx
}

// ---------------------------------------------------------------- harness state

type cursor struct {
	LastCheckedMinterBlock uint64 `json:"last_checked_minter_block"`
	LastEventNonce         uint64 `json:"last_event_nonce"`
	LastBatchNonce         uint64 `json:"last_batch_nonce"`
	LastValsetNonce        uint64 `json:"last_valset_nonce"`
}

func (c cursor) String() string {
	return fmt.Sprintf("(%d,%d,%d,%d)", c.LastCheckedMinterBlock, c.LastEventNonce, c.LastBatchNonce, c.LastValsetNonce)
}

type harness struct {
	node      *fakeNode
	persisted cursor
	lastLog   []cursor
	dir       string
	txCount   int
	specs     map[uint64][]string // height -> tx specs (for the monitor)
	start     cursor
	base      cursor
	viol      []violation
	ops       []string
	stats     map[string]int
}

type violation struct {
	Property string   `json:"property"`
	Class    string   `json:"class"`
	Detail   string   `json:"detail"`
	History  int      `json:"history"`
	OpIndex  int      `json:"op_index"`
	Ops      []string `json:"ops"`
}

func newHarness(dir string) *harness {
	return &harness{node: &fakeNode{}, persisted: cursor{0, 1, 1, 0}, start: cursor{0, 1, 1, 0}, dir: dir, specs: map[uint64][]string{}, stats: map[string]int{}}
}

// runResync runs the real GetLatestMinterBlockAndNonce from the persisted cursor, capturing every
// Commit through a FIFO in place of the status file.
func (h *harness) runResync(ack uint64) ([]cursor, cursor) {
	path := filepath.Join(h.dir, fmt.Sprintf("status-%d.json", rand.Int63()))
	client, err := http_client.New("http://127.0.0.1:1")
	if err != nil {
		panic(err)
	}
	client.ClientService = h.node
	ctx := mctx.Context{MinterMultisigAddr: multisig, MinterClient: client, Logger: log.NewNopLogger()}
	ctx.LoadStatus(path, config.MinterConfig{StartBlock: h.persisted.LastCheckedMinterBlock, StartEventNonce: h.persisted.LastEventNonce,
		StartBatchNonce: h.persisted.LastBatchNonce, StartValsetNonce: h.persisted.LastValsetNonce})
	if err := syscall.Mkfifo(path, 0o600); err != nil {
		panic(err)
	}
	defer os.Remove(path)
	// keep both ends of the FIFO open for the whole run: Commit's WriteFile never blocks and
	// every write (an atomic pipe write) is decoded in order as one JSON object
	fifo, err := os.OpenFile(path, os.O_RDWR, 0)
	if err != nil {
		panic(err)
	}
	defer fifo.Close()
	var log []cursor
	done := make(chan struct{})
	const sentinel = ^uint64(0)
	go func() {
		defer close(done)
		dec := json.NewDecoder(fifo)
		for {
			var c cursor
			if err := dec.Decode(&c); err != nil {
				return
			}
			if c.LastCheckedMinterBlock == sentinel {
				return
			}
			log = append(log, c)
		}
	}()
	res := minter.GetLatestMinterBlockAndNonce(ctx, ack)
	end, _ := json.Marshal(cursor{LastCheckedMinterBlock: sentinel})
	fifo.Write(end)
	<-done
	final := cursor{res.LastCheckedMinterBlock(), res.LastEventNonce(), res.LastBatchNonce(), res.LastValsetNonce()}
	return log, final
}

func readAll(f *os.File) ([]byte, error) {
	var out []byte
	buf := make([]byte, 4096)
	for {
		n, err := f.Read(buf)
		out = append(out, buf[:n]...)
		if err != nil {
			return out, nil
		}
	}
}

func (h *harness) exec(line string) string {
	w := strings.Fields(line)
	if len(w) == 0 {
		return ""
	}
	u := func(s string) uint64 { v, _ := strconv.ParseUint(s, 10, 64); return v }
	switch w[0] {
	case "m_reset":
		return "ok"
	case "m_start":
		h.persisted = cursor{u(w[1]), u(w[2]), u(w[3]), u(w[4])}
		h.start = h.persisted
		return "ok"
	case "m_block":
		b := &models.BlockResponse{Height: u(w[1])}
		if w[2] != "-" {
			for _, spec := range strings.Split(w[2], ";") {
				h.txCount++
				b.Transactions = append(b.Transactions, h.mkTx(spec, h.txCount))
				h.specs[b.Height] = append(h.specs[b.Height], spec)
			}
		}
		h.node.blocks = append(h.node.blocks, b)
		return "ok"
	case "m_resync":
		base := h.persisted
		log, final := h.runResync(u(w[1]))
		h.base = base
		h.lastLog = log
		if len(log) > 0 {
			h.persisted = log[len(log)-1]
		}
		var l []string
		for _, c := range log {
			l = append(l, c.String())
		}
		h.monitorCommits(log)
		return "commits " + strings.Join(l, ";") + " final " + final.String()
	case "m_relay":
		base := h.persisted
		claims, commits, final := h.runRelay()
		h.base = base
		h.lastLog = commits
		if len(commits) > 0 {
			h.persisted = commits[len(commits)-1]
		}
		var l []string
		for _, c := range commits {
			l = append(l, c.String())
		}
		h.monitorRelay(claims, commits, final)
		return "relay claims " + claimsString(claims) + " commits " + strings.Join(l, ";") + " final " + final.String()
	case "m_restart":
		k := int(u(w[1]))
		if k < len(h.lastLog) {
			h.persisted = h.lastLog[k]
		}
		return "ok " + h.persisted.String()
	case "m_cmd":
		// m_cmd <typeKnown> <recipientOk> <fee> <amount>
		cmd := &command.Command{Type: "send_to_ethereum", Recipient: "0x3333333333333333333333333333333333333333", Fee: w[3]}
		if w[1] != "1" {
			cmd.Type = "send_to_mars"
		}
		if w[2] != "1" {
			cmd.Recipient = "0x33"
		}
		amt, _ := new(big.Int).SetString(w[4], 10)
		err := cmd.ValidateAndComplete(sdk.NewIntFromBigInt(amt))
		h.monitorCmd(w, err == nil)
		if err == nil {
			return "valid"
		}
		return "invalid"
	case "m_cmd2":
		// m_cmd2 <type> <recipient hex|-> <hubRecipientOk> <fee hex|-> <amount>: the raw strings of a deposit command
		unhex := func(x string) string {
			if x == "-" {
				return ""
			}
			b, _ := hex.DecodeString(x)
			return string(b)
		}
		cmd := &command.Command{Type: w[1], Recipient: unhex(w[2]), Fee: unhex(w[4])}
		amt, _ := new(big.Int).SetString(w[5], 10)
		var err error
		panicked := func() (p interface{}) {
			defer func() { p = recover() }()
			err = cmd.ValidateAndComplete(sdk.NewIntFromBigInt(amt))
			return nil
		}()
		if panicked != nil {
			// the connector's loops call this for every deposit they see: a panic stops the connector
			h.report("command-validation-panics", fmt.Sprintf("type %s recipient %q fee %q amount %s: %v", w[1], unhex(w[2]), unhex(w[4]), w[5], panicked))
			return "panic"
		}
		h.monitorCmd2(w, cmd, err == nil)
		if err == nil {
			return "valid " + hex.EncodeToString([]byte(cmd.Recipient))
		}
		return "invalid"
	}
	return "bad-op"
}

// monitorCmd2: the acceptance predicate of the property, decided independently of the code under test:
// a valid recipient for the target chain and a non-negative integer fee below the amount less 1 %.
func (h *harness) monitorCmd2(w []string, cmd *command.Command, accepted bool) {
	unhex := func(x string) string {
		if x == "-" {
			return ""
		}
		b, _ := hex.DecodeString(x)
		return string(b)
	}
	rec, feeS := unhex(w[2]), unhex(w[4])
	recOK := false
	switch w[1] {
	case "send_to_ethereum", "send_to_bsc":
		r := rec
		if len(r) >= 2 && r[0] == '0' && (r[1] == 'x' || r[1] == 'X') {
			r = r[2:]
		}
		recOK = len(r) == 40
		for i := 0; i < len(r); i++ {
			c := r[i]
			if !(c >= '0' && c <= '9' || c >= 'a' && c <= 'f' || c >= 'A' && c <= 'F') {
				recOK = false
			}
		}
		if accepted && recOK && !strings.EqualFold(strings.TrimPrefix(strings.TrimPrefix(cmd.Recipient, "0x"), "0X"), r) {
			h.report("completed-recipient-is-another-address", fmt.Sprintf("%q completed to %q", rec, cmd.Recipient))
		}
	case "send_to_hub":
		recOK = w[3] == "1"
	}
	// "integer": Go's own literal syntax (math/big base 0: sign, 0x/0o/0b or leading-0 octal, underscores), which is
	// how the sdk parses amounts everywhere; within 256 bits
	fee, feeOK := new(big.Int).SetString(feeS, 0)
	want := recOK && feeOK
	if want {
		amt, _ := new(big.Int).SetString(w[5], 10)
		lim := new(big.Int).Sub(amt, new(big.Int).Quo(amt, big.NewInt(100)))
		want = fee.Sign() >= 0 && fee.Cmp(lim) < 0 && fee.BitLen() <= 256
	}
	if accepted != want {
		cls := "command-validation-wrong"
		if accepted && !recOK {
			cls = "command-with-invalid-recipient-accepted"
		}
		h.report(cls, fmt.Sprintf("type %s recipient %q fee %q amount %s accepted=%v expected=%v", w[1], rec, feeS, w[5], accepted, want))
	}
}

// ---------------------------------------------------------------- monitor (property C20)

func (h *harness) counts(spec string) bool {
	p := strings.Split(spec, ":")
	switch p[0] {
	case "send":
		return p[1] == "1" && p[2] == "1" && p[3] == "1"
	case "ms":
		return p[1] == "1"
	case "em":
		_, err := strconv.Atoi(p[2])
		return p[1] == "1" && err == nil
	}
	return false
}

func (h *harness) report(class, detail string) {
	for _, v := range h.viol {
		if v.Class == class {
			return
		}
	}
	h.viol = append(h.viol, violation{Property: "C20", Class: class, Detail: detail, OpIndex: len(h.ops) - 1})
}

// Every persisted cursor must be consistent.  Consistency is judged relative to the cursor the scan
// started from (itself a persisted cursor, judged when it was written), so that one inconsistent
// cursor is reported once and not again for everything that follows it.
func (h *harness) monitorCommits(log []cursor) {
	for ci, c := range log {
		if c.LastCheckedMinterBlock < h.base.LastCheckedMinterBlock {
			h.report("cursor-moved-backwards", fmt.Sprintf("persisted %s from %s", c, h.base))
			continue
		}
		n := h.base.LastEventNonce
		for _, b := range h.node.blocks {
			if b.Height > h.base.LastCheckedMinterBlock && b.Height <= c.LastCheckedMinterBlock {
				for _, s := range h.specs[b.Height] {
					if h.counts(s) {
						n++
					}
				}
			}
		}
		if c.LastEventNonce != n {
			// is it the known mid-block early return? the block after lastChecked holds >= 2 bridge events
			k := 0
			for _, s := range h.specs[c.LastCheckedMinterBlock+1] {
				if h.counts(s) {
					k++
				}
			}
			cls := "persisted-cursor-inconsistent"
			// (the early return ends the scan: only the last commit of a scan can be that one)
			if k >= 2 && c.LastEventNonce > n && c.LastEventNonce < n+uint64(k) && ci == len(log)-1 {
				cls = "early-return-inside-a-block-keeps-counted-events"
			}
			h.report(cls, fmt.Sprintf("persisted %s but scan start %s + bridge events up to block %d gives nonce %d", c, h.base, c.LastCheckedMinterBlock, n))
		}
	}
}

func (h *harness) monitorCmd(w []string, accepted bool) {
	fee, ok := new(big.Int).SetString(w[3], 10)
	amt, _ := new(big.Int).SetString(w[4], 10)
	want := w[1] == "1" && w[2] == "1" && ok
	if want {
		lim := new(big.Int).Sub(amt, new(big.Int).Quo(amt, big.NewInt(100)))
		want = fee.Sign() >= 0 && fee.Cmp(lim) < 0
	}
	if accepted != want {
		cls := "command-validation-wrong"
		if ok && fee.Sign() < 0 && accepted {
			cls = "negative-fee-accepted"
		}
		h.report(cls, fmt.Sprintf("%v accepted=%v expected=%v", w, accepted, want))
	}
}

// ---------------------------------------------------------------- generator

func genHistory(r *rand.Rand, h *harness, nops int, do func(string) string) {
	do("m_reset")
	startBlock := uint64(r.Intn(3))
	// the node is never behind the saved cursor (lastChecked > latest makes the scan's
	// unsigned block-count underflow and the connector spin; outside the property)
	for b := uint64(1); b <= startBlock; b++ {
		do(fmt.Sprintf("m_block %d send:1:1:1;other", b))
	}
	do(fmt.Sprintf("m_start %d %d %d %d", startBlock, 1+r.Intn(5), 1+r.Intn(3), r.Intn(3)))
	height := startBlock
	emitted := uint64(0)
	txSpec := func() string {
		switch r.Intn(10) {
		case 0, 1, 2:
			return "send:1:1:1"
		case 3:
			return "send:1:1:0"
		case 4:
			return fmt.Sprintf("send:%d:%d:1", r.Intn(2), r.Intn(2))
		case 5:
			return fmt.Sprintf("ms:%d", r.Intn(4)/3^1)
		case 6:
			if r.Intn(3) == 0 {
				return "em:1:x"
			}
			return fmt.Sprintf("em:%d:%d", r.Intn(4)/3^1, r.Intn(9))
		default:
			return "other"
		}
	}
	for i := 0; i < nops; i++ {
		switch x := r.Intn(100); {
		case x < 55:
			if r.Intn(30) == 0 {
				// a long outage: well over one scan window (100 blocks) passes, mostly empty blocks
				for k := 60 + r.Intn(190); k > 0; k-- {
					height++
					// the scan pages through the outage 100 blocks at a time: bridge events in the first and last
					// block of a page (cursor + 1 + 100k, cursor + 100k) sit where the pages meet
					off := height - h.persisted.LastCheckedMinterBlock
					if off > 100 && (off%100 == 1 || off%100 == 0) && r.Intn(2) == 0 {
						s := "send:1:1:1"
						if r.Intn(3) == 0 {
							s = "send:1:1:1;ms:1"
						}
						emitted += uint64(strings.Count(s, ";") + 1)
						do(fmt.Sprintf("m_block %d %s", height, s))
						continue
					}
					if r.Intn(25) == 0 {
						s := txSpec()
						if h.counts(s) {
							emitted++
						}
						do(fmt.Sprintf("m_block %d %s", height, s))
					} else {
						do(fmt.Sprintf("m_block %d -", height))
					}
				}
			}
			height++
			n := r.Intn(5)
			if r.Intn(3) == 0 {
				n = 0
			}
			var txs []string
			for j := 0; j < n; j++ {
				s := txSpec()
				txs = append(txs, s)
				if h.counts(s) {
					emitted++
				}
			}
			if len(txs) == 0 {
				do(fmt.Sprintf("m_block %d -", height))
			} else {
				do(fmt.Sprintf("m_block %d %s", height, strings.Join(txs, ";")))
			}
		case x < 72:
			// the hub acknowledged some nonce between start and what exists
			ack := uint64(0)
			if r.Intn(5) > 0 {
				ack = h.persisted.LastEventNonce - 1 + uint64(r.Intn(int(emitted)+2))
				if r.Intn(4) == 0 && ack > 0 {
					ack--
				}
			}
			do(fmt.Sprintf("m_resync %d", ack))
		case x < 86:
			do("m_relay")
		case x < 92:
			if len(h.lastLog) > 0 {
				do(fmt.Sprintf("m_restart %d", r.Intn(len(h.lastLog))))
			}
		default:
			fees := []string{"0", "1", "-5", "-1", "98", "99", "100", "990", "989", "abc", "", "1000000000000000000000"}
			amts := []string{"100", "1000", "1", "0", "99", "101", "1000000000000000000000000"}
			if r.Intn(3) == 0 {
				do(fmt.Sprintf("m_cmd %d %d %s %s", r.Intn(8)/7^1, r.Intn(8)/7^1, nz(fees[r.Intn(len(fees))]), amts[r.Intn(len(amts))]))
				continue
			}
			// the raw strings a depositor can put into the payload
			hx := func(x string) string {
				if x == "" {
					return "-"
				}
				return hex.EncodeToString([]byte(x))
			}
			good := "0x" + fmt.Sprintf("%040x", r.Int63())
			if r.Intn(2) == 0 {
				b := make([]byte, 20)
				r.Read(b)
				good = "0x" + hex.EncodeToString(b)
			}
			rec := good
			switch r.Intn(14) {
			case 0:
				rec = good[2:]
			case 1:
				rec = "0X" + strings.ToUpper(good[2:])
			case 2:
				rec = good[:10] + "O" + good[11:]
			case 3:
				rec = good[:41] + " "
			case 4:
				rec = good[:20] + "g" + good[21:]
			case 5:
				rec = good + "0"
			case 6:
				rec = good[:41]
			case 7:
				rec = ""
			case 8:
				rec = good[:30] + "\xc3\xa9" + good[32:] // two bytes of one non-ASCII character
			case 9:
				rec = "0x" + good
			case 10:
				rec = "Mx" + good[2:]
			case 11:
				rec = strings.ToUpper(good[:22]) + good[22:]
				rec = "0x" + rec[2:]
			}
			typ := []string{"send_to_ethereum", "send_to_ethereum", "send_to_bsc", "send_to_hub", "send_to_minter", "", "SEND_TO_ETHEREUM"}[r.Intn(7)]
			rok := 0
			if typ == "send_to_hub" {
				acc := sdk.AccAddress(make([]byte, 20))
				acc[r.Intn(20)] = byte(r.Intn(256))
				rec = acc.String()
				rok = 1
				switch r.Intn(6) {
				case 0:
					b := []byte(rec)
					i := len(b) - 1 - r.Intn(6)
					if b[i] == 'q' {
						b[i] = 'p'
					} else {
						b[i] = 'q'
					}
					rec, rok = string(b), 0
				case 1:
					rec, rok = good, 0
				case 2:
					rec, rok = "", 0
				}
			}
			fees2 := []string{"0", "1", "-5", "-1", "98", "99", "100", "990", "989", "abc", "", "+5", "007", "1_0", " 5", "5 ", "0x10", "1e3", "٣", "--1", "-", "+", "9.5",
				"115792089237316195423570985008687907853269984665640564039457584007913129639935", "115792089237316195423570985008687907853269984665640564039457584007913129639936"}
			amts2 := append(amts, "115792089237316195423570985008687907853269984665640564039457584007913129639935", "200")
			amtS, feeS := amts2[r.Intn(len(amts2))], fees2[r.Intn(len(fees2))]
			if r.Intn(3) == 0 {
				// around the bound: the fee must stay below the amount less one per cent (truncating division)
				a, _ := new(big.Int).SetString(amtS, 10)
				if r.Intn(2) == 0 {
					a = big.NewInt(int64(1 + r.Intn(100000)))
					amtS = a.String()
				}
				lim := new(big.Int).Sub(a, new(big.Int).Quo(a, big.NewInt(100)))
				feeS = new(big.Int).Add(lim, big.NewInt(int64(r.Intn(3)-1))).String()
			}
			do(fmt.Sprintf("m_cmd2 %s %s %d %s %s", nzt(typ), hx(rec), rok, hx(feeS), amtS))
		}
	}
	do("m_resync 0")
}

func nzt(s string) string {
	if s == "" {
		return "none"
	}
	return s
}

func nz(s string) string {
	if s == "" {
		return "empty"
	}
	return s
}

func main() {
	if len(os.Args) < 2 {
		fmt.Println("usage: connharness run|gen")
		os.Exit(2)
	}
	tmp, _ := os.MkdirTemp("", "connh")
	defer os.RemoveAll(tmp)
	switch os.Args[1] {
	case "run":
		sc := bufio.NewScanner(os.Stdin)
		h := newHarness(tmp)
		for sc.Scan() {
			line := strings.TrimSpace(sc.Text())
			if line == "m_reset" {
				h = newHarness(tmp)
			}
			fmt.Println(h.exec(line))
		}
	case "gen", "replay":
		fs := flag.NewFlagSet("gen", flag.ExitOnError)
		seed := fs.Int64("seed", 1, "")
		hist := fs.Int("histories", 10, "")
		nops := fs.Int("ops", 60, "")
		out := fs.String("out", "", "")
		opsFile := fs.String("ops-file", "", "replay this op file instead of generating")
		fs.Parse(os.Args[2:])
		os.MkdirAll(*out, 0o755)
		var allOps, allOuts []string
		var viol []violation
		stats := map[string]int{}
		nh := 0
		runOne := func(hi int, drive func(h *harness, do func(string) string)) {
			h := newHarness(tmp)
			var outs []string
			do := func(line string) string {
				h.ops = append(h.ops, line)
				o := h.exec(line)
				outs = append(outs, o)
				w := strings.Fields(line)
				cls := "ok"
				if strings.HasPrefix(o, "invalid") {
					cls = "invalid"
				}
				stats["op:"+w[0]+":"+cls]++
				if w[0] == "m_resync" {
					if strings.Contains(o, "commits  final") {
						stats["resync:no-commit"]++
					} else {
						stats["resync:commits"]++
					}
				}
				return o
			}
			drive(h, do)
			for _, v := range h.viol {
				v.History = hi
				v.Ops = append([]string{}, h.ops[:v.OpIndex+1]...)
				viol = append(viol, v)
			}
			allOps = append(allOps, h.ops...)
			allOuts = append(allOuts, outs...)
			nh++
		}
		if *opsFile != "" {
			data, _ := os.ReadFile(*opsFile)
			var cur []string
			flush := func() {
				if len(cur) == 0 {
					return
				}
				lines := cur
				runOne(nh, func(h *harness, do func(string) string) {
					for _, l := range lines {
						do(l)
					}
				})
				cur = nil
			}
			for _, l := range strings.Split(string(data), "\n") {
				l = strings.TrimSpace(l)
				if l == "" || strings.HasPrefix(l, "#") {
					continue
				}
				if l == "m_reset" {
					flush()
				}
				cur = append(cur, l)
			}
			flush()
		} else {
			for i := 0; i < *hist; i++ {
				r := rand.New(rand.NewSource(*seed*1000003 + int64(i)))
				runOne(i, func(h *harness, do func(string) string) { genHistory(r, h, *nops, do) })
			}
		}
		os.WriteFile(filepath.Join(*out, "ops.txt"), []byte(strings.Join(allOps, "\n")+"\n"), 0o644)
		os.WriteFile(filepath.Join(*out, "impl.txt"), []byte(strings.Join(allOuts, "\n")+"\n"), 0o644)
		b, _ := json.MarshalIndent(map[string]interface{}{"stats": stats, "violations": viol, "histories": nh, "ops": len(allOps)}, "", " ")
		os.WriteFile(filepath.Join(*out, "result.json"), b, 0o644)
	}
}
