package main

import (
	"fmt"

	"github.com/MinterTeam/mhub2/minter-connector/command"
	sdk "github.com/cosmos/cosmos-sdk/types"
)

func main() {
	c := &command.Command{Type: "send_to_ethereum", Recipient: "0x1111111111111111111111111111111111111111", Fee: "-5"}
	fmt.Println(c.ValidateAndComplete(sdk.NewInt(100)))
}
