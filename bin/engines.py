"""Per-engine correspondence / monitor runs used by bin/check."""
import json, os, glob

def run(prop, reg, tier, seed, workdir, replay, C):
    eng = reg.get("engine", "hub")
    if eng == "hub":
        return run_hub_engine(prop, reg, tier, seed, workdir, replay, C)
    if eng == "conn":
        return run_conn_engine(prop, reg, tier, seed, workdir, replay, C)
    if eng == "evm":
        return run_evm_engine(prop, reg, tier, seed, workdir, replay, C)
    if eng == "none":
        return {"evaluations": 0, "distinct_nontrivial": 0, "rule": "no harness for this property", "samples": []}
    raise SystemExit("unknown engine " + eng)

CONN_CONFIG = """[minter]
chain = "testnet"
multisig_addr = "Mx1111111111111111111111111111111111111111"
private_key = ""
api_addr = "http://127.0.0.1:1/"
start_block = 0
start_event_nonce = 1
start_batch_nonce = 1
start_valset_nonce = 1

[cosmos]
mnemonic = ""
grpc_addr = "127.0.0.1:1"
rpc_addr = "http://127.0.0.1:1"
"""

def merge(total, r):
    if r.get("error"):
        total["error"] = r["error"]; return
    total["histories"] += r.get("histories", 0)
    total["evaluations"] += r.get("ops", 0)
    for k, v in r.get("stats", {}).items():
        total["stats"][k] = total["stats"].get(k, 0) + v
    total["violations"] += r.get("violations") or []
    if r.get("diffs"):
        total["diffs"] += r["diffs"]
        if total["first_diff"] is None:
            total["first_diff"] = r["first_diff"]

def run_hub_engine(prop, reg, tier, seed, workdir, replay, C):
    total = {"histories": 0, "evaluations": 0, "stats": {}, "violations": [], "diffs": 0, "first_diff": None, "samples": []}
    if replay:
        ops = replay
        if replay.endswith(".json"):
            j = json.load(open(replay))
            ops = os.path.join(workdir, "replay.ops")
            open(ops, "w").write("\n".join(j.get("ops", [])) + "\n")
        merge(total, C.run_replay(prop, ops, os.path.join(workdir, "replay")))
    else:
        # corpus of past failures / known-finding witnesses first
        for i, f in enumerate(sorted(glob.glob(os.path.join(C.ROOT, "corpus", prop, "*.ops")))):
            merge(total, C.run_replay(prop, f, os.path.join(workdir, f"corpus{i}")))
        for i, run in enumerate(reg.get(tier, reg.get("quick", []))):
            d = os.path.join(workdir, f"run{i}")
            merge(total, C.run_hub(prop, run, seed + i * 7919, d))
            try:
                lines = open(os.path.join(d, "ops.txt")).read().splitlines()
                total["samples"].append(lines[:40])
            except Exception:
                pass
    st = total["stats"]
    nontrivial = sum(v for k, v in st.items() if k.startswith("op:") and not k.startswith("op:dump") and k.endswith(":ok"))
    total["distinct_nontrivial"] = len([k for k in st if k.startswith("op:")]) if nontrivial else 0
    total["distinct_nontrivial"] = max(total["distinct_nontrivial"], min(nontrivial, total["histories"]))
    total["rule"] = ("histories generated from VERIF_SEED by harness/hub (profile per property); every op executed on the real keepers "
                     "and on the Lean model, outputs compared line by line; distinct_nontrivial = number of distinct (op kind, outcome) "
                     "classes exercised (at least the number of histories with a successful state-changing op)")
    return total


def conn_run(C, args, outdir):
    import subprocess
    os.makedirs(outdir, exist_ok=True)
    # the connector's packages read config.toml from the working directory when they are initialised
    open(os.path.join(outdir, "config.toml"), "w").write(CONN_CONFIG)
    rc, o = C.sh([os.path.join(C.BUILD, "connharness")] + args + ["--out", outdir], cwd=outdir, timeout=1800)
    if rc != 0:
        return {"error": "connharness failed: " + o[-2000:]}
    ops = open(os.path.join(outdir, "ops.txt")).read()
    rc, mo = C.sh([os.path.join(C.LEAN, ".lake/build/bin/conndriver")], inp=ops, timeout=1800)
    impl = open(os.path.join(outdir, "impl.txt"), errors="replace").read().splitlines()
    model = mo.splitlines()
    opl = ops.splitlines()
    res = json.load(open(os.path.join(outdir, "result.json")))
    first, nd = None, 0
    for i, line in enumerate(opl):
        a = impl[i] if i < len(impl) else "<none>"
        b = model[i] if i < len(model) else "<none>"
        if a != b:
            nd += 1
            if first is None:
                j = i
                while j > 0 and opl[j] != "m_reset":
                    j -= 1
                first = {"line": i, "op": line, "impl": a, "model": b, "ops": opl[j:i + 1]}
    res["diffs"], res["first_diff"] = nd, first
    res["sample"] = opl[:40]
    return res

def run_conn_engine(prop, reg, tier, seed, workdir, replay, C):
    total = {"histories": 0, "evaluations": 0, "stats": {}, "violations": [], "diffs": 0, "first_diff": None, "samples": []}
    def one(args, d):
        r = conn_run(C, args, d)
        merge(total, r)
        if r.get("sample"):
            total["samples"].append(r["sample"])
    if replay:
        ops = replay
        if replay.endswith(".json"):
            j = json.load(open(replay))
            ops = os.path.join(workdir, "replay.ops")
            open(ops, "w").write("\n".join(j.get("ops", [])) + "\n")
        one(["replay", "--ops-file", ops], os.path.join(workdir, "replay"))
    else:
        for i, f in enumerate(sorted(glob.glob(os.path.join(C.ROOT, "corpus", prop, "*.ops")))):
            one(["replay", "--ops-file", f], os.path.join(workdir, f"corpus{i}"))
        for i, run in enumerate(reg.get(tier, reg.get("quick", []))):
            one(["gen", "--seed", str(seed + i * 7919), "--histories", str(run["histories"]), "--ops", str(run["ops"])], os.path.join(workdir, f"run{i}"))
    st = total["stats"]
    total["distinct_nontrivial"] = max(len(st), min(total["histories"], st.get("resync:commits", 0)))
    total["rule"] = ("Minter block histories (several bridge events per block, invalid commands interleaved, batches, multisig edits), "
                     "restart positions (every commit of a scan can be the persisted cursor) and acknowledged nonces generated from VERIF_SEED; "
                     "the real GetLatestMinterBlockAndNonce and the real relayMinterEvents (the connector's main.go compiled into the harness) run against a scripted node with every Commit and every claim captured; compared with the Lean model; "
                     "distinct_nontrivial = distinct (op, outcome) classes (at least the number of histories with a committing scan)")
    return total


def run_evm_engine(prop, reg, tier, seed, workdir, replay, C):
    total = {"histories": 0, "evaluations": 0, "stats": {}, "violations": [], "diffs": 0, "first_diff": None, "samples": []}
    runs = reg.get(tier, reg.get("quick", []))
    hub_runs = reg.get("hub_" + tier, reg.get("hub_quick", []))
    if replay:
        j = json.load(open(replay)) if replay.endswith(".json") else {}
        hub_ops = [o for o in j.get("ops", []) if o.strip()] if j else open(replay).read().splitlines()
        if hub_ops and not hub_ops[0].startswith("e_"):
            # a closed-loop (hub + compiled contract) history: re-executed op by op in the hub harness
            ops = os.path.join(workdir, "replay.ops")
            open(ops, "w").write("\n".join(hub_ops) + "\n")
            merge(total, C.run_replay(prop, ops, os.path.join(workdir, "replay")))
            total["rule"] = "replay of a recorded closed-loop history"
            return total
        hub_runs = []
        # an EVM history is replayed by regenerating it from its seed (recorded in the replay file)
        runs = [{"histories": 1, "ops": j.get("ops_per_history", 30), "seed": j.get("seed", seed)}]
    for i, run in enumerate(runs):
        d = os.path.join(workdir, f"run{i}")
        os.makedirs(d, exist_ok=True)
        sd = run.get("seed", seed + i * 7919)
        rc, o = C.sh([os.path.join(C.BUILD, "evmharness"), "gen", "--seed", str(sd), "--histories", str(run["histories"]), "--ops", str(run["ops"]), "--out", d], timeout=3000)
        if rc != 0:
            total["error"] = "evmharness failed: " + o[-2000:]
            continue
        ops = open(os.path.join(d, "ops.txt")).read()
        rc, mo = C.sh([os.path.join(C.LEAN, ".lake/build/bin/evmdriver")], inp=ops, timeout=3000)
        impl = open(os.path.join(d, "impl.txt"), errors="replace").read().splitlines()
        model = mo.splitlines()
        opl = ops.splitlines()
        r = json.load(open(os.path.join(d, "result.json")))
        first, nd = None, 0
        for k, line in enumerate(opl):
            a = impl[k] if k < len(impl) else "<none>"
            b = model[k] if k < len(model) else "<none>"
            if a != b:
                nd += 1
                if first is None:
                    j = k
                    while j > 0 and opl[j] != "e_reset":
                        j -= 1
                    first = {"line": k, "op": line, "impl": a, "model": b, "ops": opl[j:k + 1]}
        r["diffs"], r["first_diff"] = nd, first
        merge(total, r)
        total["samples"].append([l[:300] for l in opl[:12]])
    # the closed loop: hub keepers + validators + relayer + the same compiled contract in one history (hub harness)
    for i, run in enumerate(hub_runs):
        d = os.path.join(workdir, f"hubrun{i}")
        merge(total, C.run_hub(prop, run, seed + 104729 + i * 7919, d))
        try:
            total["samples"].append(open(os.path.join(d, "ops.txt")).read().splitlines()[:40])
        except Exception:
            pass
    st = total["stats"]
    total["distinct_nontrivial"] = max(len(st), min(total["histories"], st.get("op:e_update:ok", 0) + st.get("op:e_batch:ok", 0)))
    total["rule"] = ("relayer histories generated from VERIF_SEED: signer-set updates and batches built from the hub's own types, digests (GetCheckpoint) and signatures "
                     "(NewEthereumSignature), submitted with random subsets of confirmations, stale/ahead nonces, timeouts, foreign keys and wrong digests to the compiled Hub2 "
                     "contract on go-ethereum's simulated backend; accept/reject and contract state compared with the Lean contract model; plus closed-loop histories in the hub harness "
                     "(real keepers, validators confirming through the msg server, a relayer submitting what the hub's queries return to the same compiled contract, the contract's events "
                     "voted back; hub ops compared with the Lean hub model); distinct_nontrivial = distinct (op, outcome) classes")
    return total
