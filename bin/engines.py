"""Per-engine correspondence / monitor runs used by bin/check."""
import json, os, glob

def run(prop, reg, tier, seed, workdir, replay, C):
    eng = reg.get("engine", "hub")
    if eng == "hub":
        return run_hub_engine(prop, reg, tier, seed, workdir, replay, C)
    if eng == "none":
        return {"evaluations": 0, "distinct_nontrivial": 0, "rule": "no harness for this property", "samples": []}
    raise SystemExit("unknown engine " + eng)

def merge(total, r):
    if r.get("error"):
        total["error"] = r["error"]; return
    total["histories"] += r.get("histories", 0)
    total["evaluations"] += r.get("ops", 0)
    for k, v in r.get("stats", {}).items():
        total["stats"][k] = total["stats"].get(k, 0) + v
    total["violations"] += r.get("violations") or []
    if r.get("diffs"):
        total["diffs"] += r["diffs"]
        if total["first_diff"] is None:
            total["first_diff"] = r["first_diff"]

def run_hub_engine(prop, reg, tier, seed, workdir, replay, C):
    total = {"histories": 0, "evaluations": 0, "stats": {}, "violations": [], "diffs": 0, "first_diff": None, "samples": []}
    if replay:
        ops = replay
        if replay.endswith(".json"):
            j = json.load(open(replay))
            ops = os.path.join(workdir, "replay.ops")
            open(ops, "w").write("\n".join(j.get("ops", [])) + "\n")
        merge(total, C.run_replay(prop, ops, os.path.join(workdir, "replay")))
    else:
        # corpus of past failures / known-finding witnesses first
        for i, f in enumerate(sorted(glob.glob(os.path.join(C.ROOT, "corpus", prop, "*.ops")))):
            merge(total, C.run_replay(prop, f, os.path.join(workdir, f"corpus{i}")))
        for i, run in enumerate(reg.get(tier, reg.get("quick", []))):
            d = os.path.join(workdir, f"run{i}")
            merge(total, C.run_hub(prop, run, seed + i * 7919, d))
            try:
                lines = open(os.path.join(d, "ops.txt")).read().splitlines()
                total["samples"].append(lines[:40])
            except Exception:
                pass
    st = total["stats"]
    nontrivial = sum(v for k, v in st.items() if k.startswith("op:") and not k.startswith("op:dump") and k.endswith(":ok"))
    total["distinct_nontrivial"] = len([k for k in st if k.startswith("op:")]) if nontrivial else 0
    total["distinct_nontrivial"] = max(total["distinct_nontrivial"], min(nontrivial, total["histories"]))
    total["rule"] = ("histories generated from VERIF_SEED by harness/hub (profile per property); every op executed on the real keepers "
                     "and on the Lean model, outputs compared line by line; distinct_nontrivial = number of distinct (op kind, outcome) "
                     "classes exercised (at least the number of histories with a successful state-changing op)")
    return total
